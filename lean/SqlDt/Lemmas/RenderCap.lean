/-
  Lemmas/RenderCap: formatting into a BOUNDED sink (`fmt::Write` with a capacity, e.g. the 32-byte `StackStr` of the serde
  route or any user-supplied writer that can refuse data).  The field-by-field lemma of Lemmas/Render holds for every sink;
  here it is lifted to whole pictures and to `Formatter::format` for an arbitrary capacity: the bounded sink receives
  exactly the full rendering when it fits and the call returns a format error otherwise – never a panic, never a
  truncated text reported as success.
-/
import SqlDt.Lemmas.RenderAll
namespace SqlDt.Lemmas
open SqlDt Gen Spec

/-- does a text of `n` bytes fit under the capacity? -/
def capOk : Option Nat → Nat → Bool
  | none, _ => true
  | some c, n => decide (n ≤ c)

theorem write_eq (w : Sink) (bs : Bytes) :
    w.write bs = if capOk w.cap (w.buf.length + bs.length) then .ok { w with buf := w.buf ++ bs } else .error .FormatError := by
  unfold Sink.write capOk
  cases hc : w.cap with
  | none => simp
  | some c =>
    by_cases h : w.buf.length + bs.length > c
    · have : ¬ (w.buf.length + bs.length ≤ c) := by omega
      simp [h, this]
    · have : w.buf.length + bs.length ≤ c := by omega
      simp [h, this]

theorem capOk_mono (cap : Option Nat) (a b : Nat) (h : a ≤ b) (hb : capOk cap b = true) : capOk cap a = true := by
  cases cap with
  | none => rfl
  | some c => simp [capOk] at hb ⊢; omega

/-- WHOLE PICTURE into ANY sink (bounded or not). -/
theorem formatFields_sink (ty : Ty) (v : Int) (dt : NDT) (c : Comps) (h : Agrees ty v dt c) (hfr : FractionOK dt c) :
    ∀ (fields : List Field) (w : Sink), capOk w.cap w.buf.length = true → (∀ f ∈ fields, Field.WellFormed f) →
      Formatter.formatFields ty v dt w fields =
        match renderAll ty c fields with
        | some bs => if capOk w.cap (w.buf.length + bs.length) then .ok { w with buf := w.buf ++ bs } else .error .FormatError
        | none => .error .FormatError := by
  intro fields
  induction fields with
  | nil =>
    intro w hw _
    cases w with
    | mk buf cap => cases cap <;> simp_all [Formatter.formatFields, renderAll, capOk]
  | cons f fs ih =>
    intro w hw hwf
    unfold Formatter.formatFields
    rw [formatField_eq_render ty v dt c w f h (hwf f (by simp)) hfr]
    simp only [renderAll, bind, Option.bind]
    cases hr : renderField ty c f with
    | none => simp [outcome, Except.bind]
    | some a =>
      simp only [outcome, write_eq]
      by_cases hfit : capOk w.cap (w.buf.length + a.length) = true
      · simp only [hfit, ↓reduceIte, Except.bind]
        rw [ih { w with buf := w.buf ++ a } (by simpa using hfit) (fun g hg => hwf g (by simp [hg]))]
        cases hra : renderAll ty c fs with
        | none => rfl
        | some b =>
          simp only [pure, List.length_append, List.append_assoc, Nat.add_assoc]
      · have hfit' : capOk w.cap (w.buf.length + a.length) = false := by simpa using hfit
        simp only [hfit', Bool.false_eq_true, ↓reduceIte, Except.bind]
        cases hra : renderAll ty c fs with
        | none => rfl
        | some b =>
          have : capOk w.cap (w.buf.length + (a ++ b).length) = false := by
            cases hx : capOk w.cap (w.buf.length + (a ++ b).length) with
            | false => rfl
            | true =>
              have := capOk_mono w.cap (w.buf.length + a.length) (w.buf.length + (a ++ b).length)
                (by simp) hx
              rw [this] at hfit'; cases hfit'
          simp only [pure, this, Bool.false_eq_true, ↓reduceIte]

/-- the answer of a bounded sink, given the full rendering -/
def toChkCap (cap : Option Nat) : Option Bytes → Chk Bytes
  | some t => if capOk cap t.length then .ok t else .error .FormatError
  | none => .error .FormatError

/-- `Formatter::format` into ANY sink = the specified rendering if it fits, a format error otherwise. -/
theorem format_sink (ty : Ty) (v : Int) (c : Comps) (h : Agrees ty v (NDT.ofValue ty v) c)
    (hfr : FractionOK (NDT.ofValue ty v) c) (hneg : (NDT.ofValue ty v).negative = c.neg)
    (fields : List Field) (hwf : ∀ f ∈ fields, Field.WellFormed f) (cap : Option Nat) :
    Formatter.format ty v fields cap = toChkCap cap (render ty c fields) := by
  obtain ⟨h1, h2, h3, h4, h5⟩ := info_cases ty
  unfold Formatter.format render
  have hB : B '-' = 45 := rfl
  have hP : B '+' = 43 := rfl
  simp only [hneg, h4, h5, bind, pure, Except.pure, hB, hP]
  have key : ∀ (sign : Bytes),
      Except.bind (({ cap := cap } : Sink).write sign) (fun w =>
        Except.bind (Formatter.formatFields ty v (NDT.ofValue ty v) w fields) fun w => (.ok w.buf : Chk Bytes)) =
      toChkCap cap ((renderAll ty c fields).bind fun body => some (sign ++ body)) := by
    intro sign
    rw [write_eq]
    simp only [Except.bind]
    by_cases hs : capOk cap (0 + sign.length) = true
    · simp only [List.length_nil, hs, ↓reduceIte]
      rw [formatFields_sink ty v _ c h hfr fields _ (by simpa using hs) hwf]
      cases renderAll ty c fields with
      | none => simp [toChkCap, Option.bind]
      | some b =>
        simp only [List.nil_append, Option.bind, toChkCap, List.length_append]
        by_cases hb : capOk cap (sign.length + b.length) = true <;> simp [hb]
    · have hs' : capOk cap (0 + sign.length) = false := by simpa using hs
      simp only [List.length_nil, hs', Bool.false_eq_true, ↓reduceIte]
      cases renderAll ty c fields with
      | none => simp [toChkCap, Option.bind]
      | some b =>
        have : capOk cap (sign ++ b).length = false := by
          cases hx : capOk cap (sign ++ b).length with
          | false => rfl
          | true =>
            have := capOk_mono cap (0 + sign.length) (sign ++ b).length (by simp) hx
            rw [this] at hs'; cases hs'
        rw [List.length_append] at this
        simp [toChkCap, Option.bind, this]
  by_cases hn : c.neg = true
  · simp only [hn, ↓reduceIte]
    exact key [45]
  · simp only [hn, Bool.false_eq_true, ↓reduceIte]
    by_cases hi : ty = .YM ∨ ty = .DT
    · have : (decide (ty = .YM) || decide (ty = .DT)) = true := by
        rcases hi with rfl | rfl <;> decide
      simp only [this, ↓reduceIte, hi]
      exact key [43]
    · have : (decide (ty = .YM) || decide (ty = .DT)) = false := by
        cases ty <;> simp at hi ⊢
      simp only [this, Bool.false_eq_true, ↓reduceIte, hi]
      have k := key []
      simp only [write_eq, List.length_nil, List.append_nil] at k
      have h0 : capOk cap (0 + 0) = true := by cases cap <;> simp [capOk]
      simp only [h0, ↓reduceIte, List.nil_append, Except.bind] at k
      simp only [Except.bind]
      exact k

/-- RELATIVE FORM (no components mentioned): a sink of capacity `n` gets what the unbounded `String` gets when that is
    at most `n` bytes long, and the call fails with a format error otherwise; errors of the unbounded call are kept. -/
theorem format_sink_rel (ty : Ty) (v : Int) (c : Comps) (h : Agrees ty v (NDT.ofValue ty v) c)
    (hfr : FractionOK (NDT.ofValue ty v) c) (hneg : (NDT.ofValue ty v).negative = c.neg)
    (fields : List Field) (hwf : ∀ f ∈ fields, Field.WellFormed f) (n : Nat) :
    Formatter.format ty v fields (some n) =
      match Formatter.format ty v fields none with
      | .ok t => if t.length ≤ n then .ok t else .error .FormatError
      | .error e => .error e := by
  rw [format_sink ty v c h hfr hneg fields hwf (some n), format_eq_render ty v c h hfr hneg fields hwf]
  cases render ty c fields with
  | none => rfl
  | some t => simp [toChkCap, toChk, capOk]

end SqlDt.Lemmas
