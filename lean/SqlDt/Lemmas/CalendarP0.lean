/-
  Lemmas/CalendarP0: kernel evaluation of the round-trip checker `CalCheck.chk` on the days [0, 18432)
  counted from 0001-01-01: one of 8 chunks covering the 400-year period of 146097 days (the last chunk
  overshoots, harmlessly).  Generated text; 18 blocks of 1024 days, each a single `decide +kernel`.
  Used by Lemmas/Calendar.
-/
import SqlDt.Lemmas.CalendarCheck
namespace SqlDt.Lemmas.CalCheck

theorem chunk0_0 : allRange chk 10 0 = true := by decide +kernel
theorem chunk0_1 : allRange chk 10 1024 = true := by decide +kernel
theorem chunk0_2 : allRange chk 10 2048 = true := by decide +kernel
theorem chunk0_3 : allRange chk 10 3072 = true := by decide +kernel
theorem chunk0_4 : allRange chk 10 4096 = true := by decide +kernel
theorem chunk0_5 : allRange chk 10 5120 = true := by decide +kernel
theorem chunk0_6 : allRange chk 10 6144 = true := by decide +kernel
theorem chunk0_7 : allRange chk 10 7168 = true := by decide +kernel
theorem chunk0_8 : allRange chk 10 8192 = true := by decide +kernel
theorem chunk0_9 : allRange chk 10 9216 = true := by decide +kernel
theorem chunk0_10 : allRange chk 10 10240 = true := by decide +kernel
theorem chunk0_11 : allRange chk 10 11264 = true := by decide +kernel
theorem chunk0_12 : allRange chk 10 12288 = true := by decide +kernel
theorem chunk0_13 : allRange chk 10 13312 = true := by decide +kernel
theorem chunk0_14 : allRange chk 10 14336 = true := by decide +kernel
theorem chunk0_15 : allRange chk 10 15360 = true := by decide +kernel
theorem chunk0_16 : allRange chk 10 16384 = true := by decide +kernel
theorem chunk0_17 : allRange chk 10 17408 = true := by decide +kernel

theorem chunk0 (n : Nat) (h1 : 0 ≤ n) (h2 : n < 18432) : chk n = true := by
  have s := allRange_sound chk 10
  by_cases c0 : n < 1024
  · exact s _ chunk0_0 n (by omega) (by omega)
  by_cases c1 : n < 2048
  · exact s _ chunk0_1 n (by omega) (by omega)
  by_cases c2 : n < 3072
  · exact s _ chunk0_2 n (by omega) (by omega)
  by_cases c3 : n < 4096
  · exact s _ chunk0_3 n (by omega) (by omega)
  by_cases c4 : n < 5120
  · exact s _ chunk0_4 n (by omega) (by omega)
  by_cases c5 : n < 6144
  · exact s _ chunk0_5 n (by omega) (by omega)
  by_cases c6 : n < 7168
  · exact s _ chunk0_6 n (by omega) (by omega)
  by_cases c7 : n < 8192
  · exact s _ chunk0_7 n (by omega) (by omega)
  by_cases c8 : n < 9216
  · exact s _ chunk0_8 n (by omega) (by omega)
  by_cases c9 : n < 10240
  · exact s _ chunk0_9 n (by omega) (by omega)
  by_cases c10 : n < 11264
  · exact s _ chunk0_10 n (by omega) (by omega)
  by_cases c11 : n < 12288
  · exact s _ chunk0_11 n (by omega) (by omega)
  by_cases c12 : n < 13312
  · exact s _ chunk0_12 n (by omega) (by omega)
  by_cases c13 : n < 14336
  · exact s _ chunk0_13 n (by omega) (by omega)
  by_cases c14 : n < 15360
  · exact s _ chunk0_14 n (by omega) (by omega)
  by_cases c15 : n < 16384
  · exact s _ chunk0_15 n (by omega) (by omega)
  by_cases c16 : n < 17408
  · exact s _ chunk0_16 n (by omega) (by omega)
  exact s _ chunk0_17 n (by omega) (by omega)

end SqlDt.Lemmas.CalCheck
