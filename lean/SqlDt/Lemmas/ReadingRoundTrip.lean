/-
  Lemmas/ReadingRoundTrip: C06 — for every valid value of every type and every LOSSLESS picture, parsing the formatted
  text with the same picture returns the value (under any clock), and formatting the result reproduces the text.
  Derived from `parse_reading`: the rendered text is one reading of the picture (its canonical reading), and that reading
  denotes the value.
-/
import SqlDt.Lemmas.ReadingCanonValue
import SqlDt.Lemmas.RoundTrip
namespace SqlDt.Lemmas
open SqlDt Gen Spec Parser

theorem render_of_format (ty : Ty) (v : Int) (c : Comps) (fields : List Field) (text : Bytes)
    (hfmt : Formatter.format ty v fields none = toChk (render ty c fields))
    (hf : Formatter.format ty v fields none = .ok text) : render ty c fields = some text := by
  rw [hfmt] at hf
  cases hr : render ty c fields with
  | none => rw [hr] at hf; cases hf
  | some t => rw [hr] at hf; cases hf; rfl

/-- The generic step: a lossless picture, components within their ranges, and "the recorded components assemble to
    `v`" give the round trip. -/
theorem roundtrip_core (ty : Ty) (v : Int) (c : Comps) (hb : Bounds ty c) (hneg : ty ≠ .YM → ty ≠ .DT → c.neg = false)
    (fields : List Field) (hwf : ∀ f ∈ fields, Field.WellFormed f) (hl : Lossless ty fields = true) (now : Clock)
    (text : Bytes) (hr : render ty c fields = some text)
    (hval : ∀ p' : Parts, complete ty (flagsOf p') = true → Agree ty c p' → assemble ty now p' = some v) :
    ∃ r, Parser.parse ty fields text now = .ok (v, r) := by
  unfold Lossless at hl
  cases hsee : seeAll ty {} fields with
  | none => simp [hsee] at hl
  | some s' =>
    simp only [hsee, Bool.and_eq_true] at hl
    obtain ⟨⟨hcomp, hsep⟩, hlead⟩ := hl
    have htext := canon_write ty c hb fields s' hsee hlead hwf hneg text hr
    have hfit := canon_fits_all ty c hb fields {} s' hsee hwf
    have hdel : Delimited ty (canon ty c fields) = true := canon_delimited ty c hb fields {} s' hsee hwf hsep
    have hwf' := canon_wf ty c fields hwf
    obtain ⟨p', hc, hfl, hag⟩ := collect_canon ty now c hb fields {} s' hsee hwf (agree_init ty c)
    have hden : denote ty (canon ty c fields) now = some v := by
      unfold denote
      rw [hc, Option.bind_some]
      exact hval p' (by rw [hfl]; exact hcomp) hag
    have hmain := parse_reading ty (canon ty c fields) 0 now hwf' hfit hdel
    rw [hden, canon_map_fst, htext] at hmain
    exact hmain

/-! ### type by type -/

theorem bounds_date (ty : Ty) (y m d h mi s us : Int) (hty : ty = .D ∨ ty = .TS ∨ ty = .OD) (hv : ValidYMD y m d)
    (hh : 0 ≤ h ∧ h < 24) (hm : 0 ≤ mi ∧ mi < 60) (hs : 0 ≤ s ∧ s < 60) (hu : 0 ≤ us ∧ us < 1000000) :
    Bounds ty (compsOfTs y m d h mi s us) := by
  obtain ⟨y1, y9, m1, m12, d1, dd⟩ := hv
  have d31 := dim_le31 y m d dd
  have hdoy := doy_range y m d ⟨m1, m12, d1, dd⟩
  have hym : ty ≠ .YM := by rcases hty with rfl | rfl | rfl <;> decide
  have hdt : ty ≠ .DT := by rcases hty with rfl | rfl | rfl <;> decide
  constructor <;> simp only [compsOfTs, compsOfDate, hym, hdt, ↓reduceIte, weekday] <;> (try intro _) <;> omega

theorem roundtrip_D (y m d : Int) (hv : ValidYMD y m d) (fields : List Field) (hwf : ∀ f ∈ fields, Field.WellFormed f)
    (hl : Lossless .D fields = true) (now : Clock) (text : Bytes)
    (hf : Formatter.format .D (dayNumber y m d) fields none = .ok text) :
    ∃ r, Parser.parse .D fields text now = .ok (dayNumber y m d, r) := by
  have hr := render_of_format .D _ _ fields text (format_date y m d hv fields hwf) hf
  have hb : Bounds .D (compsOfDate y m d) := by
    have := bounds_date .D y m d 0 0 0 0 (Or.inl rfl) hv (by omega) (by omega) (by omega) (by omega)
    exact this
  refine roundtrip_core .D _ (compsOfDate y m d) hb (fun _ _ => rfl) fields hwf hl now text hr ?_
  intro p' hcomp hag
  simp only [complete, flagsOf, Bool.and_eq_true, Bool.or_eq_true] at hcomp
  have hdate := dateOf_canon .D (compsOfDate y m d) p' now y m d hv rfl rfl rfl rfl rfl hag hcomp.1 hcomp.2
  rw [assemble_D, hdate]; rfl

theorem roundtrip_T (h mi s us : Int) (hh : 0 ≤ h ∧ h < 24) (hm : 0 ≤ mi ∧ mi < 60) (hs : 0 ≤ s ∧ s < 60)
    (hu : 0 ≤ us ∧ us < 1000000) (fields : List Field) (hwf : ∀ f ∈ fields, Field.WellFormed f)
    (hl : Lossless .T fields = true) (now : Clock) (text : Bytes)
    (hf : Formatter.format .T (Time.fromHmsUnchecked h mi s us) fields none = .ok text) :
    ∃ r, Parser.parse .T fields text now = .ok (Time.fromHmsUnchecked h mi s us, r) := by
  have hr := render_of_format .T _ _ fields text (format_time h mi s us hh hm hs hu fields hwf) hf
  have hb : Bounds .T (compsOfTime h mi s us) := by
    constructor <;> simp only [compsOfTime] <;> (try intro h; simp [hasDate] at h) <;> (try simp) <;> omega
  refine roundtrip_core .T _ (compsOfTime h mi s us) hb (fun _ _ => rfl) fields hwf hl now text hr ?_
  intro p' hcomp hag
  simp only [complete, Bool.and_eq_true, Bool.or_eq_true] at hcomp
  obtain ⟨⟨⟨hhour, hmin⟩, hsec⟩, hfrac⟩ := hcomp
  obtain ⟨t, ht, et⟩ := timeOf_canon .T _ p' hag hb hhour hmin hsec (Or.inl hfrac)
  simp only [compsOfTime] at et
  have hlt : t < 86400000000 := by omega
  have hv : (t : Int) = Time.fromHmsUnchecked h mi s us := by
    rw [et]; unfold Time.fromHmsUnchecked USECONDS_PER_HOUR USECONDS_PER_MINUTE USECONDS_PER_SECOND; rfl
  show (timeOf p').bind _ = _
  rw [ht, Option.bind_some, if_pos hlt, hv]

theorem roundtrip_TS (ty : Ty) (hty : ty = .TS ∨ ty = .OD) (y m d h mi s us : Int) (hv : ValidYMD y m d)
    (hh : 0 ≤ h ∧ h < 24) (hm : 0 ≤ mi ∧ mi < 60) (hs : 0 ≤ s ∧ s < 60) (hu : 0 ≤ us ∧ us < 1000000)
    (hod : ty = .OD → us = 0) (fields : List Field) (hwf : ∀ f ∈ fields, Field.WellFormed f)
    (hl : Lossless ty fields = true) (now : Clock) (text : Bytes)
    (hf : Formatter.format ty (tsOf y m d h mi s us) fields none = .ok text) :
    ∃ r, Parser.parse ty fields text now = .ok (tsOf y m d h mi s us, r) := by
  have hr := render_of_format ty _ _ fields text (format_ts ty hty y m d h mi s us hv hh hm hs hu fields hwf) hf
  have hb := bounds_date ty y m d h mi s us (by rcases hty with rfl | rfl <;> simp) hv hh hm hs hu
  have hvalid := tsOf_valid y m d h mi s us hv hh hm hs hu
  rw [isValidTimestamp_iff] at hvalid
  refine roundtrip_core ty _ (compsOfTs y m d h mi s us) hb (fun _ _ => rfl) fields hwf hl now text hr ?_
  intro p' hcomp hag
  have hc : (p'.year.isSome = true ∧ ((p'.month.isSome = true ∧ p'.day.isSome = true) ∨ p'.doy.isSome = true)) ∧
      ((flagsOf p').hour24 = true ∨ ((flagsOf p').hour12 = true ∧ (flagsOf p').meridian = true)) ∧
      p'.minute.isSome = true ∧ p'.second.isSome = true ∧ (p'.usec.isSome = true ∨ us = 0) := by
    rcases hty with rfl | rfl
    · simp only [complete, Bool.and_eq_true, Bool.or_eq_true] at hcomp
      obtain ⟨⟨⟨⟨hd, hhour⟩, hmin⟩, hsec⟩, hfrac⟩ := hcomp
      exact ⟨hd, hhour, hmin, hsec, Or.inl hfrac⟩
    · simp only [complete, Bool.and_eq_true, Bool.or_eq_true] at hcomp
      obtain ⟨⟨⟨hd, hhour⟩, hmin⟩, hsec⟩ := hcomp
      exact ⟨hd, hhour, hmin, hsec, Or.inr (hod rfl)⟩
  obtain ⟨hd, hhour, hmin, hsec, hfrac⟩ := hc
  have hdate := dateOf_canon ty (compsOfTs y m d h mi s us) p' now y m d hv rfl rfl rfl rfl rfl hag hd.1 hd.2
  obtain ⟨t, ht, et⟩ := timeOf_canon ty _ p' hag hb hhour hmin hsec hfrac
  simp only [compsOfTs] at et
  have hval : 86400000000 * dayNumber y m d + (t : Int) = tsOf y m d h mi s us := by
    rw [et]; unfold tsOf Time.fromHmsUnchecked USECONDS_PER_HOUR USECONDS_PER_MINUTE USECONDS_PER_SECOND; omega
  rw [assemble_TS ty hty, hdate]
  simp only [Option.bind_some, ht]
  rw [hval, if_pos (by unfold maxTimestamp; omega)]

theorem roundtrip_YM (neg : Bool) (y mo : Int) (hy : 0 ≤ y ∧ y ≤ 178000000) (hm : 0 ≤ mo ∧ mo < 12)
    (hz : neg = true → y * 12 + mo ≠ 0) (hval : y * 12 + mo ≤ 2136000000) (fields : List Field)
    (hwf : ∀ f ∈ fields, Field.WellFormed f) (hl : Lossless .YM fields = true) (now : Clock) (text : Bytes)
    (hf : Formatter.format .YM (ymOf neg y mo) fields none = .ok text) :
    ∃ r, Parser.parse .YM fields text now = .ok (ymOf neg y mo, r) := by
  have hr := render_of_format .YM _ _ fields text (format_ym neg y mo hy hm hz fields hwf) hf
  have hb : Bounds .YM (compsOfYM neg y mo) := by
    constructor <;> simp only [compsOfYM] <;> (try intro h; simp [hasDate] at h) <;> (try simp) <;> omega
  refine roundtrip_core .YM _ (compsOfYM neg y mo) hb (fun h => absurd rfl h) fields hwf hl now text hr ?_
  intro p' hcomp hag
  simp only [complete, flagsOf, Bool.and_eq_true] at hcomp
  obtain ⟨hyear, hmonth⟩ := hcomp
  have e1 : p'.year.getD 0 = y := by
    cases h : p'.year with
    | none => simp [h] at hyear
    | some v => simp [hag.year v h, compsOfYM]
  have e2 : ((p'.month.getD 0 : Nat) : Int) = mo := by
    cases h : p'.month with
    | none => simp [h] at hmonth
    | some v => simp [hag.month v h, compsOfYM]
  have e3 : p'.neg = neg := by
    have := hag.neg
    simp only [hyear, and_self, true_or, ↓reduceIte, compsOfYM] at this
    exact this
  have c1 : p'.month.getD 0 < 12 := by omega
  show (if p'.month.getD 0 < 12 ∧ p'.year.getD 0 * 12 + ((p'.month.getD 0 : Nat) : Int) ≤ 2136000000 then _ else _) = _
  rw [e1, e2, if_pos ⟨c1, hval⟩, e3]
  rfl

theorem roundtrip_DT (neg : Bool) (d h mi s us : Int) (hd : 0 ≤ d ∧ d ≤ 100000000) (hh : 0 ≤ h ∧ h < 24)
    (hm : 0 ≤ mi ∧ mi < 60) (hs : 0 ≤ s ∧ s < 60) (hu : 0 ≤ us ∧ us < 1000000)
    (hz : neg = true → dtMag d h mi s us ≠ 0) (hval : dtMag d h mi s us ≤ 8640000000000000000) (fields : List Field)
    (hwf : ∀ f ∈ fields, Field.WellFormed f) (hl : Lossless .DT fields = true) (now : Clock) (text : Bytes)
    (hf : Formatter.format .DT (dtOf neg d h mi s us) fields none = .ok text) :
    ∃ r, Parser.parse .DT fields text now = .ok (dtOf neg d h mi s us, r) := by
  have hr := render_of_format .DT _ _ fields text (format_dt neg d h mi s us hd hh hm hs hu hz fields hwf) hf
  have hb : Bounds .DT (compsOfDT neg d h mi s us) := by
    constructor <;> simp only [compsOfDT] <;> (try intro h; simp [hasDate] at h) <;> (try simp) <;> omega
  refine roundtrip_core .DT _ (compsOfDT neg d h mi s us) hb (fun _ h => absurd rfl h) fields hwf hl now text hr ?_
  intro p' hcomp hag
  simp only [complete, Bool.and_eq_true] at hcomp
  obtain ⟨⟨⟨⟨hday, hhour⟩, hmin⟩, hsec⟩, hfrac⟩ := hcomp
  obtain ⟨t, ht, et⟩ := timeOf_canon .DT _ p' hag hb (Or.inl hhour) hmin hsec (Or.inl hfrac)
  simp only [compsOfDT] at et
  have hday' : p'.day.isSome = true := hday
  have e1 : ((p'.day.getD 0 : Nat) : Int) = d := by
    cases hx : p'.day with
    | none => simp [hx] at hday'
    | some v => simp [hag.day v hx, compsOfDT]
  have e3 : p'.neg = neg := by
    have := hag.neg
    simp only [hday', and_self, or_true, ↓reduceIte, compsOfDT] at this
    exact this
  have emag : ((86400000000 * p'.day.getD 0 + t : Nat) : Int) = dtMag d h mi s us := by
    unfold dtMag; push_cast; rw [e1, et]; ring
  have hle : 86400000000 * p'.day.getD 0 + t ≤ 8640000000000000000 := by
    have : ((86400000000 * p'.day.getD 0 + t : Nat) : Int) ≤ 8640000000000000000 := by rw [emag]; exact hval
    exact_mod_cast this
  show (timeOf p').bind _ = _
  rw [ht, Option.bind_some]
  simp only []
  rw [if_pos hle, emag, e3]
  rfl

/-- **C06 (round trip).**  For every valid value `v` of every type and every lossless picture: parsing the formatted
    text with the same picture gives `v` again – under any clock. -/
theorem format_parse (ty : Ty) (v : Int) (hv : ty.Valid v) (fields : List Field) (hwf : ∀ f ∈ fields, Field.WellFormed f)
    (hl : Lossless ty fields = true) (now : Clock) (text : Bytes)
    (hf : Formatter.format ty v fields none = .ok text) :
    ∃ r, Parser.parse ty fields text now = .ok (v, r) := by
  cases ty <;> simp only [Ty.Valid] at hv
  · obtain ⟨y, m, d, hymd, rfl⟩ := decomp_D v hv
    exact roundtrip_D y m d hymd fields hwf hl now text hf
  · obtain ⟨h, mi, s, us, hh, hm, hs, hu, rfl, _⟩ := decomp_T v ((isValidTime_iff v).1 hv)
    exact roundtrip_T h mi s us hh hm hs hu fields hwf hl now text hf
  · obtain ⟨y, m, d, h, mi, s, us, hymd, hh, hm, hs, hu, rfl, _⟩ := decomp_TS v hv
    exact roundtrip_TS .TS (Or.inl rfl) y m d h mi s us hymd hh hm hs hu (fun h => by cases h) fields hwf hl now text hf
  · obtain ⟨neg, y, mo, hy, hm, hz, hval, rfl⟩ := decomp_YM v hv
    exact roundtrip_YM neg y mo hy hm hz hval fields hwf hl now text hf
  · obtain ⟨neg, d, h, mi, s, us, hd, hh, hm, hs, hu, hz, hval, rfl⟩ := decomp_DT v hv
    exact roundtrip_DT neg d h mi s us hd hh hm hs hu hz hval fields hwf hl now text hf
  · obtain ⟨lo, hi, hsec⟩ := (C16.isValidDate_iff v).1 hv
    have hts : isValidTimestamp v := (isValidTimestamp_iff v).2 ⟨lo, hi⟩
    obtain ⟨y, m, d, h, mi, s, us, hymd, hh, hm, hs, hu, e, eus⟩ := decomp_TS v hts
    have hus : us = 0 := by omega
    subst e
    exact roundtrip_TS .OD (Or.inr rfl) y m d h mi s us hymd hh hm hs hu (fun _ => hus) fields hwf hl now text hf

/-- …and formatting the parse result with the picture reproduces the text byte for byte. -/
theorem format_parse_format (ty : Ty) (v : Int) (hv : ty.Valid v) (fields : List Field)
    (hwf : ∀ f ∈ fields, Field.WellFormed f) (hl : Lossless ty fields = true) (now : Clock) (text : Bytes)
    (hf : Formatter.format ty v fields none = .ok text) :
    ∃ v' r, Parser.parse ty fields text now = .ok (v', r) ∧ Formatter.format ty v' fields none = .ok text := by
  obtain ⟨r, hp⟩ := format_parse ty v hv fields hwf hl now text hf
  exact ⟨v, r, hp, hf⟩

#print axioms format_parse
#print axioms format_parse_format

end SqlDt.Lemmas
