/-
  Lemmas/ReadingStepNum: the crate's field step on a numeric lexeme, token by token (year with its completion rules,
  month, day, hours, minute, second, day of year), simulated by `Spec.step`.
-/
import SqlDt.Lemmas.ReadingConc
namespace SqlDt.Lemmas
open SqlDt Gen Spec Parser

def signLen (input : Bytes) : Nat :=
  match input with
  | ch :: _ => if ch = B '+' ∨ ch = B '-' then 1 else 0
  | [] => 0

theorem parseYear_two (input : Bytes) (now : Clock) :
    parseYear input 2 now = (do
      let (negative, year, rem) ← parseNumber input 4
      if input.length - rem.length - signLen input > 2 then pure (negative, year, rem, false)
      else
        let cy := now.year
        pure (negative, cy - rrem cy 100 + year, rem, true)) := by
  simp only [parseYear, ↓reduceIte]
  rfl

theorem signLen_lex {ds : Bytes} {k : Nat} {n : Int} (h : Run ds k n) (sg : Sign) (rest : Bytes) :
    (sg.text ++ (ds ++ rest)).length - rest.length - signLen (sg.text ++ (ds ++ rest)) = ds.length := by
  unfold signLen
  cases sg with
  | none =>
    cases hds : ds with
    | nil => exact absurd hds h.ne
    | cons c r =>
      obtain ⟨h1, h2, _⟩ := digs_head_ne (c :: r) c r (by rw [← hds]; exact h.digs)
      simp [sign_none_text, h1, h2]; omega
  | plus => simp [sign_plus_text, B]; omega
  | minus => simp [sign_minus_text, B]; omega

theorem roundDown_eq (cy : Int) (m : Int) (hm : m = 10 ∨ m = 100 ∨ m = 1000) : cy - rrem cy m = roundDown cy m := by
  unfold rrem roundDown
  rcases hm with rfl | rfl | rfl <;> (split <;> omega)

theorem parseYear_ym (sg : Sign) (z n : Nat) (rest : Bytes) (now : Clock)
    (hrun : Run (numDigits z n) 9 (n : Int)) (hstop : Stops (numDigits z n) rest 9) :
    parseYear (sg.text ++ (numDigits z n ++ rest)) 9 now =
      .ok (isMinus sg, (if isMinus sg = true then -(n : Int) else (n : Int)), rest, false) := by
  simp [parseYear, parseNumber_lex hrun sg rest hstop, bind, Except.bind, pure, Except.pure]

theorem parseYear_date (ty : Ty) (hty : ty ≠ .YM) (w : Nat) (hw : 1 ≤ w ∧ w ≤ 4) (sg : Sign) (z n : Nat) (rest : Bytes) (now : Clock)
    (hrun : Run (numDigits z n) (if w = 2 then 4 else w) (n : Int))
    (hstop : Stops (numDigits z n) rest (if w = 2 then 4 else w)) :
    ∃ y rd, parseYear (sg.text ++ (numDigits z n ++ rest)) w now = .ok (isMinus sg, y, rest, rd) ∧
      (isMinus sg = false → y = completeYear ty w (numWidth z n) n now) := by
  have hw' : w = 1 ∨ w = 2 ∨ w = 3 ∨ w = 4 := by omega
  have hc : ∀ v : Int, (if isMinus sg = true then -v else v) = if isMinus sg = true then -v else v := fun _ => rfl
  rcases hw' with rfl | rfl | rfl | rfl
  · simp only [show ¬ (1 = 2) by decide, ↓reduceIte] at hrun hstop
    have hi : idx YEAR_MODIFIER (Int.ofNat 1 - 1) = .ok 10 := by decide
    refine ⟨now.year - rrem now.year 10 + (if isMinus sg = true then -(n : Int) else n), true, ?_, ?_⟩
    · simp only [parseYear, show ¬ (1 = 2) by decide, ↓reduceIte, true_or, parseNumber_lex hrun sg rest hstop, bind, Except.bind, hi, pure, Except.pure]
    · intro hm
      simp only [hm, Bool.false_eq_true, ↓reduceIte, completeYear, hty, true_or]
      rw [roundDown_eq _ _ (Or.inl rfl)]; rfl
  · simp only [↓reduceIte] at hrun hstop
    have hl := signLen_lex hrun sg rest
    by_cases h2 : (numDigits z n).length > 2
    · refine ⟨(if isMinus sg = true then -(n : Int) else n), false, ?_, ?_⟩
      · simp only [parseYear_two, parseNumber_lex hrun sg rest hstop, bind, Except.bind, hl, h2, ↓reduceIte, pure, Except.pure]
      · intro hm
        have : ¬ numWidth z n ≤ 2 := by rw [← numDigits_length]; omega
        simp [hm, completeYear, hty, this]
    · refine ⟨now.year - rrem now.year 100 + (if isMinus sg = true then -(n : Int) else n), true, ?_, ?_⟩
      · simp only [parseYear_two, parseNumber_lex hrun sg rest hstop, bind, Except.bind, hl, h2, ↓reduceIte, pure, Except.pure]
      · intro hm
        have : numWidth z n ≤ 2 := by rw [← numDigits_length]; omega
        simp only [hm, Bool.false_eq_true, ↓reduceIte, completeYear, hty, this, and_self, or_true, true_or]
        rw [roundDown_eq _ _ (Or.inr (Or.inl rfl))]; rfl
  · simp only [show ¬ (3 = 2) by decide, ↓reduceIte] at hrun hstop
    have hi : idx YEAR_MODIFIER (Int.ofNat 3 - 1) = .ok 1000 := by decide
    refine ⟨now.year - rrem now.year 1000 + (if isMinus sg = true then -(n : Int) else n), true, ?_, ?_⟩
    · simp only [parseYear, show ¬ (3 = 2) by decide, ↓reduceIte, or_true, parseNumber_lex hrun sg rest hstop, bind, Except.bind, hi, pure, Except.pure]
    · intro hm
      simp only [hm, Bool.false_eq_true, ↓reduceIte, completeYear, hty, true_or, or_true]
      rw [roundDown_eq _ _ (Or.inr (Or.inr rfl))]; rfl
  · simp only [show ¬ (4 = 2) by decide, ↓reduceIte] at hrun hstop
    refine ⟨(if isMinus sg = true then -(n : Int) else n), false, ?_, ?_⟩
    · simp only [parseYear, show ¬ (4 = 2) by decide, show ¬ (4 = 1 ∨ 4 = 3) by decide, ↓reduceIte, parseNumber_lex hrun sg rest hstop, bind, Except.bind, pure, Except.pure]
    · intro hm
      simp [hm, completeYear, hty]


/-! ### year -/

theorem step_year (ty : Ty) (now : Clock) (p : Parts) (s : Bytes) (r : Nat) (w : Nat) (hwf : 1 ≤ w ∧ w ≤ 4)
    (b : Nat) (sg : Sign) (z n : Nat) (rest : Bytes)
    (happ : applicable ty (.Year w) = true)
    (hw : numWidth z n ≤ maxDigits ty (.Year w)) (hn : n < 10 ^ 9)
    (hstop : Stops (numDigits z n) rest (maxDigits ty (.Year w)))
    (hs : eatWhitespaces s = eatWhitespaces ((Lex.num b sg z n).text (.Year w) ++ rest)) :
    StepGoal ty now p s r (.Year w) (.num b sg z n) rest := by
  have hrun := run_numDigits z n _ hw hn
  rw [eatWs_numText _ _ _ _ _ _ _ hrun] at hs
  unfold StepGoal step
  simp only [happ, Bool.not_true, Bool.false_eq_true, ↓reduceIte]
  generalize hst : conc ty p s r = st0
  have hs0 : st0.s = s := by rw [← hst]; rfl
  have hy0 : st0.isYearSet = p.year.isSome := by rw [← hst]; rfl
  rw [← hs0] at hs
  cases hset : p.year.isSome with
  | true =>
    simp only [↓reduceIte]
    refine ⟨.ParseError, ?_⟩
    have happ' : (ty.info.HAS_DATE || ty.info.IS_INTERVAL_YM) = true := by
      rw [info_hasDate, info_ym]; simpa [applicable] using happ
    simp only [parseField, happ', ↓reduceIte, hy0, hset, perr]
  | false =>
    simp only [Bool.false_eq_true, ↓reduceIte]
    by_cases hty : ty = .YM
    · subst hty
      simp only [maxDigits, ↓reduceIte] at hrun hstop
      have hlen : (Ty.YM).info.YEAR_MAX_LENGTH = 9 := rfl
      rw [hlen] at hrun hstop
      have hp := parseYear_ym sg z n rest now hrun hstop
      have hne : (isMinus sg && (Ty.YM != Ty.YM)) = false := by simp
      simp only [hne, Bool.false_eq_true, ↓reduceIte]
      refine ⟨rest, r, ?_, rfl⟩
      have i1 : (Ty.YM).info.HAS_DATE = false := rfl
      have i2 : (Ty.YM).info.IS_INTERVAL_YM = true := rfl
      simp only [parseField, i1, i2, Bool.false_or, ↓reduceIte, hy0, hset, Bool.false_eq_true, hlen, hs, hp, bind,
        Except.bind, Bool.and_false, pure, Except.pure]
      subst hst
      cases hm : isMinus sg <;> simp [conc, yearRep, dayRep, completeYear, hourOf]
    · have hd : hasDate ty = true := by
        have : (hasDate ty || decide (ty = .YM)) = true := happ
        simpa [hty] using this
      have i1 : ty.info.HAS_DATE = true := by rw [info_hasDate]; exact hd
      have i2 : ty.info.IS_INTERVAL_YM = false := by rw [info_ym]; simp [hty]
      have hmd : maxDigits ty (.Year w) = if w = 2 then 4 else w := by simp [maxDigits, hty]
      rw [hmd] at hrun hstop
      obtain ⟨y, rd, hp, hy⟩ := parseYear_date ty hty w hwf sg z n rest now hrun hstop
      have hne : (ty != Ty.YM) = true := by simp [hty]
      cases hm : isMinus sg with
      | true =>
        simp only [hne, Bool.and_self, ↓reduceIte]
        refine ⟨.ParseError, ?_⟩
        simp only [parseField, i1, i2, Bool.or_false, ↓reduceIte, hy0, hset, Bool.false_eq_true, hs, hp, hm, bind,
          Except.bind, Bool.and_self, perr]
      | false =>
        simp only [Bool.false_and, Bool.false_eq_true, ↓reduceIte]
        refine ⟨rest, if rd = true then 1 else r, ?_, rfl⟩
        simp only [parseField, i1, i2, Bool.or_false, ↓reduceIte, hy0, hset, Bool.false_eq_true, hs, hp, hm, bind,
          Except.bind, Bool.false_and, pure, Except.pure]
        rw [hy hm]
        subst hst
        simp [conc, yearRep, dayRep, hourOf, hty]

/-! ### month (as a number) -/

theorem step_month_num (ty : Ty) (now : Clock) (p : Parts) (s : Bytes) (r : Nat)
    (b : Nat) (sg : Sign) (z n : Nat) (rest : Bytes)
    (happ : applicable ty .Month = true)
    (hw : numWidth z n ≤ maxDigits ty .Month) (hn : n < 10 ^ 9)
    (hstop : Stops (numDigits z n) rest (maxDigits ty .Month))
    (hs : eatWhitespaces s = eatWhitespaces ((Lex.num b sg z n).text .Month ++ rest)) :
    StepGoal ty now p s r .Month (.num b sg z n) rest := by
  have hrun := run_numDigits z n _ hw hn
  rw [eatWs_numText _ _ _ _ _ _ _ hrun] at hs
  simp only [maxDigits] at hrun hstop
  unfold StepGoal step
  simp only [happ, Bool.not_true, Bool.false_eq_true, ↓reduceIte]
  generalize hst : conc ty p s r = st0
  have hs0 : st0.s = s := by rw [← hst]; rfl
  have hm0 : st0.isMonthSet = p.month.isSome := by rw [← hst]; rfl
  rw [← hs0] at hs
  have happ' : (ty.info.HAS_DATE || ty.info.IS_INTERVAL_YM) = true := by
    rw [info_hasDate, info_ym]; simpa [applicable] using happ
  have hp := parseNumber_lex hrun sg rest hstop
  cases hset : p.month.isSome with
  | true =>
    simp only [↓reduceIte]
    refine ⟨.ParseError, ?_⟩
    simp only [parseField, happ', ↓reduceIte, hm0, hset, perr]
  | false =>
    simp only [Bool.false_eq_true, ↓reduceIte]
    cases hm : isMinus sg with
    | true =>
      simp only [↓reduceIte]
      refine ⟨.ParseError, ?_⟩
      simp only [parseField, happ', ↓reduceIte, hm0, hset, Bool.false_eq_true, hs, hp, hm, perr]
    | false =>
      simp only [Bool.false_eq_true, ↓reduceIte]
      refine ⟨rest, r, ?_, rfl⟩
      simp only [parseField, happ', ↓reduceIte, hm0, hset, Bool.false_eq_true, hs, hp, hm]
      subst hst
      rfl

/-! ### day -/

theorem step_day (ty : Ty) (now : Clock) (p : Parts) (s : Bytes) (r : Nat)
    (b : Nat) (sg : Sign) (z n : Nat) (rest : Bytes)
    (happ : applicable ty .Day = true)
    (hw : numWidth z n ≤ maxDigits ty .Day) (hn : n < 10 ^ 9)
    (hstop : Stops (numDigits z n) rest (maxDigits ty .Day))
    (hs : eatWhitespaces s = eatWhitespaces ((Lex.num b sg z n).text .Day ++ rest)) :
    StepGoal ty now p s r .Day (.num b sg z n) rest := by
  have hrun := run_numDigits z n _ hw hn
  rw [eatWs_numText _ _ _ _ _ _ _ hrun] at hs
  simp only [maxDigits] at hrun hstop
  unfold StepGoal step
  simp only [happ, Bool.not_true, Bool.false_eq_true, ↓reduceIte]
  generalize hst : conc ty p s r = st0
  have hs0 : st0.s = s := by rw [← hst]; rfl
  have hd0 : st0.isDaySet = p.day.isSome := by rw [← hst]; rfl
  rw [← hs0] at hs
  have happ' : (ty.info.HAS_DATE || ty.info.IS_INTERVAL_DT) = true := by
    rw [info_hasDate, info_dt]; simpa [applicable] using happ
  have e1 := expectNumber_lex st0 hrun sg rest hstop hs
  cases hset : p.day.isSome with
  | true =>
    simp only [↓reduceIte]
    refine ⟨.ParseError, ?_⟩
    simp only [parseField, happ', ↓reduceIte, hd0, hset, perr]
  | false =>
    simp only [Bool.false_eq_true, ↓reduceIte]
    simp only [hd0, hset] at e1
    by_cases hty : ty = .DT
    · subst hty
      have hne : (isMinus sg && (Ty.DT != Ty.DT)) = false := by simp
      simp only [hne, Bool.false_eq_true, ↓reduceIte]
      refine ⟨rest, r, ?_, rfl⟩
      have i1 : (Ty.DT).info.HAS_DATE = false := rfl
      simp only [parseField, happ', ↓reduceIte, hd0, hset, Bool.false_eq_true, e1, bind, Except.bind, i1, Bool.false_and,
        pure, Except.pure]
      subst hst
      have habs : (if (if isMinus sg = true then -(n : Int) else (n : Int)) < 0 then
          -(if isMinus sg = true then -(n : Int) else (n : Int)) else (if isMinus sg = true then -(n : Int) else (n : Int)))
          = (n : Int) := by
        cases isMinus sg <;> simp <;> omega
      simp only [habs]
      rfl
    · have hd : hasDate ty = true := by
        have : (hasDate ty || decide (ty = .DT)) = true := happ
        simpa [hty] using this
      have i1 : ty.info.HAS_DATE = true := by rw [info_hasDate]; exact hd
      have hne : (ty != Ty.DT) = true := by simp [hty]
      cases hm : isMinus sg with
      | true =>
        simp only [hne, Bool.and_self, ↓reduceIte]
        refine ⟨.ParseError, ?_⟩
        simp only [parseField, happ', ↓reduceIte, hd0, hset, Bool.false_eq_true, e1, hm, bind, Except.bind, i1,
          Bool.and_self, perr, ite_self]
      | false =>
        simp only [Bool.false_and, Bool.false_eq_true, ↓reduceIte]
        refine ⟨rest, r, ?_, rfl⟩
        simp only [parseField, happ', ↓reduceIte, hd0, hset, Bool.false_eq_true, e1, hm, bind, Except.bind, i1,
          Bool.and_false, pure, Except.pure]
        subst hst
        have habs : (if (n : Int) < 0 then -(n : Int) else (n : Int)) = (n : Int) := by
          have : ¬ ((n : Int) < 0) := by omega
          simp [this]
        simp only [habs]
        have hymn : ty ≠ .YM := by intro h; subst h; simp [hasDate] at hd
        simp [conc, yearRep, dayRep, hourOf, hymn]

/-! ### minute, second, day of year -/

theorem step_minute (ty : Ty) (now : Clock) (p : Parts) (s : Bytes) (r : Nat) (b : Nat) (sg : Sign) (z n : Nat) (rest : Bytes)
    (happ : applicable ty .Minute = true)
    (hw : numWidth z n ≤ maxDigits ty .Minute) (hn : n < 10 ^ 9)
    (hstop : Stops (numDigits z n) rest (maxDigits ty .Minute))
    (hs : eatWhitespaces s = eatWhitespaces ((Lex.num b sg z n).text .Minute ++ rest)) :
    StepGoal ty now p s r .Minute (.num b sg z n) rest := by
  have hrun := run_numDigits z n _ hw hn
  rw [eatWs_numText _ _ _ _ _ _ _ hrun] at hs
  have happ' : hasTime ty = true := happ
  simp only [maxDigits] at hrun hstop
  unfold StepGoal step
  simp only [happ, Bool.not_true, Bool.false_eq_true, ↓reduceIte]
  generalize hst : conc ty p s r = st0
  have hs0 : st0.s = s := by rw [← hst]; rfl
  have hm0 : st0.isMinSet = p.minute.isSome := by rw [← hst]; rfl
  rw [← hs0] at hs
  have e1 := expectNumber_lex st0 hrun sg rest hstop hs
  have e2 := expectNumberTol_lex st0 hrun sg rest hstop hs 0
  cases hset : p.minute.isSome with
  | true =>
    simp only [↓reduceIte]
    refine ⟨.ParseError, ?_⟩
    simp only [parseField, info_hasTime, happ', ↓reduceIte, hm0, hset, perr]
  | false =>
    simp only [Bool.false_eq_true, ↓reduceIte]
    simp only [hm0, hset] at e1 e2
    cases hm : isMinus sg with
    | true =>
      simp only [↓reduceIte]
      refine ⟨.ParseError, ?_⟩
      simp only [parseField, info_hasTime, happ', ↓reduceIte, hm0, hset, perr, Bool.false_eq_true, e1, e2, hm, bind,
        Except.bind, ite_self]
    | false =>
      simp only [Bool.false_eq_true, ↓reduceIte]
      refine ⟨rest, r, ?_, rfl⟩
      simp only [parseField, info_hasTime, happ', ↓reduceIte, hm0, hset, Bool.false_eq_true, e1, e2, hm, bind,
        Except.bind, ite_self, pure, Except.pure]
      subst hst
      rfl

theorem step_second (ty : Ty) (now : Clock) (p : Parts) (s : Bytes) (r : Nat) (b : Nat) (sg : Sign) (z n : Nat) (rest : Bytes)
    (happ : applicable ty .Second = true)
    (hw : numWidth z n ≤ maxDigits ty .Second) (hn : n < 10 ^ 9)
    (hstop : Stops (numDigits z n) rest (maxDigits ty .Second))
    (hs : eatWhitespaces s = eatWhitespaces ((Lex.num b sg z n).text .Second ++ rest)) :
    StepGoal ty now p s r .Second (.num b sg z n) rest := by
  have hrun := run_numDigits z n _ hw hn
  rw [eatWs_numText _ _ _ _ _ _ _ hrun] at hs
  have happ' : hasTime ty = true := happ
  simp only [maxDigits] at hrun hstop
  unfold StepGoal step
  simp only [happ, Bool.not_true, Bool.false_eq_true, ↓reduceIte]
  generalize hst : conc ty p s r = st0
  have hs0 : st0.s = s := by rw [← hst]; rfl
  have hm0 : st0.isSecSet = p.second.isSome := by rw [← hst]; rfl
  rw [← hs0] at hs
  have e1 := expectNumber_lex st0 hrun sg rest hstop hs
  have e2 := expectNumberTol_lex st0 hrun sg rest hstop hs 0
  cases hset : p.second.isSome with
  | true =>
    simp only [↓reduceIte]
    refine ⟨.ParseError, ?_⟩
    simp only [parseField, info_hasTime, happ', ↓reduceIte, hm0, hset, perr]
  | false =>
    simp only [Bool.false_eq_true, ↓reduceIte]
    simp only [hm0, hset] at e1 e2
    cases hm : isMinus sg with
    | true =>
      simp only [↓reduceIte]
      refine ⟨.ParseError, ?_⟩
      simp only [parseField, info_hasTime, happ', ↓reduceIte, hm0, hset, perr, Bool.false_eq_true, e1, e2, hm, bind,
        Except.bind, ite_self]
    | false =>
      simp only [Bool.false_eq_true, ↓reduceIte]
      refine ⟨rest, r, ?_, rfl⟩
      simp only [parseField, info_hasTime, happ', ↓reduceIte, hm0, hset, Bool.false_eq_true, e1, e2, hm, bind,
        Except.bind, ite_self, pure, Except.pure]
      subst hst
      rfl

theorem step_doy (ty : Ty) (now : Clock) (p : Parts) (s : Bytes) (r : Nat) (b : Nat) (sg : Sign) (z n : Nat) (rest : Bytes)
    (happ : applicable ty .DayOfYear = true)
    (hw : numWidth z n ≤ maxDigits ty .DayOfYear) (hn : n < 10 ^ 9)
    (hstop : Stops (numDigits z n) rest (maxDigits ty .DayOfYear))
    (hs : eatWhitespaces s = eatWhitespaces ((Lex.num b sg z n).text .DayOfYear ++ rest)) :
    StepGoal ty now p s r .DayOfYear (.num b sg z n) rest := by
  have hrun := run_numDigits z n _ hw hn
  rw [eatWs_numText _ _ _ _ _ _ _ hrun] at hs
  have happ' : hasDate ty = true := happ
  simp only [maxDigits] at hrun hstop
  unfold StepGoal step
  simp only [happ, Bool.not_true, Bool.false_eq_true, ↓reduceIte]
  generalize hst : conc ty p s r = st0
  have hs0 : st0.s = s := by rw [← hst]; rfl
  have hm0 : st0.doy = p.doy.map Int.ofNat := by rw [← hst]; rfl
  rw [← hs0] at hs
  have e1 := expectNumber_lex st0 hrun sg rest hstop hs
  cases hset : p.doy with
  | some d =>
    simp only [Option.isSome_some, ↓reduceIte]
    refine ⟨.ParseError, ?_⟩
    simp only [parseField, info_hasDate, happ', ↓reduceIte, hm0, hset, Option.map_some, Option.isSome_some, perr]
  | none =>
    simp only [Option.isSome_none, Bool.false_eq_true, ↓reduceIte]
    simp only [hm0, hset, Option.map_none] at e1
    cases hm : isMinus sg with
    | true =>
      simp only [↓reduceIte]
      refine ⟨.ParseError, ?_⟩
      simp only [parseField, info_hasDate, happ', ↓reduceIte, hm0, hset, Option.map_none, Option.isSome_none, perr,
        Bool.false_eq_true, e1, hm, bind, Except.bind]
    | false =>
      simp only [Bool.false_eq_true, ↓reduceIte]
      refine ⟨rest, r, ?_, rfl⟩
      simp only [parseField, info_hasDate, happ', ↓reduceIte, hm0, hset, Option.map_none, Option.isSome_none,
        Bool.false_eq_true, e1, hm, bind, Except.bind, pure, Except.pure]
      subst hst
      simp [conc, hset, yearRep, dayRep, hourOf]

end SqlDt.Lemmas
