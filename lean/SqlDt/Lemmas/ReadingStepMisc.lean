/-
  Lemmas/ReadingStepMisc: the remaining tokens — blank and punctuation tokens, tokens that do not apply to the type,
  month and weekday names, weekday number, fraction, meridian indicator, and the tokens left out at the end of the text.
-/
import SqlDt.Lemmas.ReadingStepHour
namespace SqlDt.Lemmas
open SqlDt Gen Spec Parser

/-! ### tokens that do not apply to the type (or are output-only) -/

theorem step_inapplicable (ty : Ty) (now : Clock) (p : Parts) (s : Bytes) (r : Nat) (f : Field) (l : Lex) (rest : Bytes)
    (happ : applicable ty f = false) : StepGoal ty now p s r f l rest := by
  unfold StepGoal step
  simp only [happ, Bool.not_false, ↓reduceIte]
  cases ty <;> cases f <;> simp [applicable, hasDate, hasTime, clock12, hasFraction] at happ <;> exact ⟨_, rfl⟩

/-! ### blank and punctuation tokens -/

theorem step_blank (ty : Ty) (now : Clock) (p : Parts) (s : Bytes) (r : Nat) (k c : Nat) (rest : Bytes)
    (hs : eatWhitespaces s = eatWhitespaces ((Lex.blank c).text (.Blank k) ++ rest)) :
    StepGoal ty now p s r (.Blank k) (.blank c) rest := by
  unfold StepGoal step
  simp only [applicable, Bool.not_true, Bool.false_eq_true, ↓reduceIte]
  refine ⟨eatWhitespaces s, r, rfl, ?_⟩
  rw [eatWs_idem, hs]
  simp only [Lex.text, eatWs_spaces]

theorem eatWs_punct (f : Field) (ch : Nat) (hf : punctChar f = some ch) (b : Nat) (rest : Bytes) :
    eatWhitespaces ((Lex.punct b).text f ++ rest) = ch :: rest ∧ isWhitespaceB ch = false := by
  have hws : isWhitespaceB ch = false := by
    cases f <;> simp [punctChar] at hf <;> subst hf <;> decide
  refine ⟨?_, hws⟩
  simp only [Lex.text, hf, Option.toList_some, List.append_assoc, eatWs_spaces]
  exact eatWs_nonws ch rest hws

theorem expectChar_hit (st0 : St) (ch : Nat) (rest : Bytes) (tol : Bool) (hs : eatWhitespaces st0.s = ch :: rest) :
    expectChar { st0 with s := eatWhitespaces st0.s } ch tol = .ok { st0 with s := rest } := by
  simp [expectChar, hs]

theorem expectChar_end (st0 : St) (ch : Nat) (hs : eatWhitespaces st0.s = []) :
    expectChar { st0 with s := eatWhitespaces st0.s } ch true = .ok { st0 with s := eatWhitespaces st0.s } := by
  simp [expectChar, hs]

theorem step_punct (ty : Ty) (now : Clock) (p : Parts) (s : Bytes) (r : Nat) (f : Field) (ch : Nat)
    (hf : punctChar f = some ch) (b : Nat) (rest : Bytes)
    (hs : eatWhitespaces s = eatWhitespaces ((Lex.punct b).text f ++ rest)) :
    StepGoal ty now p s r f (.punct b) rest := by
  obtain ⟨he, _⟩ := eatWs_punct f ch hf b rest
  rw [he] at hs
  generalize hst : conc ty p s r = st0
  have hs0 : st0.s = s := by rw [← hst]; rfl
  rw [← hs0] at hs
  have key : ∀ tol, expectChar { st0 with s := eatWhitespaces st0.s } ch tol = .ok (conc ty p rest r) := by
    intro tol; rw [expectChar_hit st0 ch rest tol hs]; subst hst; rfl
  unfold StepGoal
  cases f <;> simp [punctChar] at hf <;> subst hf <;>
    (simp only [step, applicable, Bool.not_true, Bool.false_eq_true, ↓reduceIte]
     refine ⟨rest, r, ?_, rfl⟩
     rw [hst]
     exact key _)

theorem step_punct_omitted (ty : Ty) (now : Clock) (p : Parts) (s : Bytes) (r : Nat) (f : Field)
    (hf : f = .Hyphen ∨ f = .Colon ∨ f = .Dot) (rest : Bytes)
    (hs : eatWhitespaces s = []) (hrest : eatWhitespaces rest = []) :
    StepGoal ty now p s r f .omitted rest := by
  generalize hst : conc ty p s r = st0
  have hs0 : st0.s = s := by rw [← hst]; rfl
  rw [← hs0] at hs
  have key : ∀ ch, expectChar { st0 with s := eatWhitespaces st0.s } ch true = .ok (conc ty p (eatWhitespaces s) r) := by
    intro ch; rw [expectChar_end st0 ch hs]; subst hst; rfl
  unfold StepGoal
  rcases hf with rfl | rfl | rfl <;>
    (simp only [step, applicable, Bool.not_true, Bool.false_eq_true, ↓reduceIte]
     refine ⟨eatWhitespaces s, r, ?_, by rw [eatWs_idem, ← hs0, hs, hrest]⟩
     rw [hst]
     exact key _)

/-! ### hour (12-hour clock), minute, second left out -/

theorem step_hour12_omitted (ty : Ty) (now : Clock) (p : Parts) (s : Bytes) (r : Nat) (rest : Bytes)
    (happ : applicable ty .Hour12 = true)
    (hs : eatWhitespaces s = []) (hrest : eatWhitespaces rest = []) :
    StepGoal ty now p s r .Hour12 .omitted rest := by
  obtain ⟨ht, hty⟩ := hasTime_of_clock12 ty happ
  have happ' : (ty.info.HAS_TIME && !ty.info.IS_INTERVAL_DT) = true := by
    rw [info_hasTime, info_dt, ht]; simp [hty]
  unfold StepGoal step
  simp only [happ, Bool.not_true, Bool.false_eq_true, ↓reduceIte]
  generalize hst : conc ty p s r = st0
  have hs0 : st0.s = s := by rw [← hst]; rfl
  have hh0 : st0.isHour24Set = p.hour.map (·.1) := by rw [← hst]; rfl
  rw [← hs0] at hs
  have e2 := expectNumberTol_empty st0 hs ty.info.HOUR_MAX_LENGTH 12
  cases hh : p.hour with
  | some v =>
    simp only [Option.isSome_some, ↓reduceIte]
    refine ⟨.ParseError, ?_⟩
    simp only [parseField, happ', ↓reduceIte, hh0, hh, Option.map_some, Option.isSome_some, perr]
  | none =>
    simp only [Option.isSome_none, Bool.false_eq_true, ↓reduceIte]
    simp only [hh0, hh, Option.map_none] at e2
    refine ⟨eatWhitespaces s, r, ?_, by rw [eatWs_idem, ← hs0, hs, hrest]⟩
    simp only [parseField, happ', ↓reduceIte, hh0, hh, Option.map_none, Option.isSome_none, Bool.false_eq_true, e2,
      bind, Except.bind, pure, Except.pure]
    rw [if_neg (by simp)]
    subst hst
    cases hmer : p.meridian with
    | none => simp [conc, yearRep, dayRep, hourOf, hh, hmer, NDT.adjustHour12]
    | some pm => cases pm <;> simp [conc, yearRep, dayRep, hourOf, hh, hmer, NDT.adjustHour12]

theorem step_minute_omitted (ty : Ty) (now : Clock) (p : Parts) (s : Bytes) (r : Nat) (rest : Bytes)
    (happ : applicable ty .Minute = true) (hty : ty ≠ .DT)
    (hs : eatWhitespaces s = []) (hrest : eatWhitespaces rest = []) :
    StepGoal ty now p s r .Minute .omitted rest := by
  have happ' : hasTime ty = true := happ
  unfold StepGoal step
  simp only [happ, Bool.not_true, Bool.false_eq_true, ↓reduceIte]
  generalize hst : conc ty p s r = st0
  have hs0 : st0.s = s := by rw [← hst]; rfl
  have hm0 : st0.isMinSet = p.minute.isSome := by rw [← hst]; rfl
  rw [← hs0] at hs
  have e2 := expectNumberTol_empty st0 hs ty.info.MINUTE_MAX_LENGTH 0
  have idt : ty.info.IS_INTERVAL_DT = false := by rw [info_dt]; simp [hty]
  cases hset : p.minute.isSome with
  | true =>
    simp only [↓reduceIte]
    refine ⟨.ParseError, ?_⟩
    simp only [parseField, info_hasTime, happ', ↓reduceIte, hm0, hset, perr]
  | false =>
    simp only [Bool.false_eq_true, ↓reduceIte]
    simp only [hm0, hset] at e2
    refine ⟨eatWhitespaces s, r, ?_, by rw [eatWs_idem, ← hs0, hs, hrest]⟩
    simp only [parseField, info_hasTime, happ', ↓reduceIte, hm0, hset, Bool.false_eq_true, idt, e2, bind, Except.bind,
      pure, Except.pure]
    subst hst
    simp [conc, yearRep, dayRep, hourOf]

theorem step_second_omitted (ty : Ty) (now : Clock) (p : Parts) (s : Bytes) (r : Nat) (rest : Bytes)
    (happ : applicable ty .Second = true) (hty : ty ≠ .DT)
    (hs : eatWhitespaces s = []) (hrest : eatWhitespaces rest = []) :
    StepGoal ty now p s r .Second .omitted rest := by
  have happ' : hasTime ty = true := happ
  unfold StepGoal step
  simp only [happ, Bool.not_true, Bool.false_eq_true, ↓reduceIte]
  generalize hst : conc ty p s r = st0
  have hs0 : st0.s = s := by rw [← hst]; rfl
  have hm0 : st0.isSecSet = p.second.isSome := by rw [← hst]; rfl
  rw [← hs0] at hs
  have e2 := expectNumberTol_empty st0 hs ty.info.SECOND_MAX_LENGTH 0
  have idt : ty.info.IS_INTERVAL_DT = false := by rw [info_dt]; simp [hty]
  cases hset : p.second.isSome with
  | true =>
    simp only [↓reduceIte]
    refine ⟨.ParseError, ?_⟩
    simp only [parseField, info_hasTime, happ', ↓reduceIte, hm0, hset, perr]
  | false =>
    simp only [Bool.false_eq_true, ↓reduceIte]
    simp only [hm0, hset] at e2
    refine ⟨eatWhitespaces s, r, ?_, by rw [eatWs_idem, ← hs0, hs, hrest]⟩
    simp only [parseField, info_hasTime, happ', ↓reduceIte, hm0, hset, Bool.false_eq_true, idt, e2, bind, Except.bind,
      pure, Except.pure]
    subst hst
    simp [conc, yearRep, dayRep, hourOf]

end SqlDt.Lemmas
