/-
  Lemmas/Calendar: the crate's Julian-day arithmetic (Model/Common, Model/Types) realises the proleptic
  Gregorian calendar of Spec/Calendar.
-/
import SqlDt.Lemmas.Consts
import SqlDt.Spec.Calendar
namespace SqlDt.Lemmas
open SqlDt Gen Spec

/-- The model's leap-year test and month-length table are the calendar's (years ≥ 0). -/
theorem isLeapYear_eq (y : Int) (hy : 0 ≤ y) : isLeapYear y = isLeap y := by
  sorry

theorem daysOfMonth_eq (y m : Int) (hy : 0 ≤ y) (hm : 1 ≤ m ∧ m ≤ 12) : daysOfMonth y m = dim y m := by
  sorry

/-- `date2julian` (minus the epoch) is the closed-form day number, for every year 0..10000, month 1..12 and ANY day. -/
theorem fromYmd_eq_dayNumber (y m d : Int) (hy : 0 ≤ y ∧ y ≤ 10000) (hm : 1 ≤ m ∧ m ≤ 12) :
    Date.fromYmdUnchecked y m d = dayNumber y m d := by
  sorry

/-- The day number advances by exactly one along the calendar's successor rule. -/
theorem dayNumber_nextDay (y m d : Int) (h : IsDate y m d) :
    dayNumber (nextDay (y, m, d)).1 (nextDay (y, m, d)).2.1 (nextDay (y, m, d)).2.2 = dayNumber y m d + 1 := by
  sorry

/-- The successor of a real date is a real date. -/
theorem nextDay_isDate (y m d : Int) (h : IsDate y m d) :
    IsDate (nextDay (y, m, d)).1 (nextDay (y, m, d)).2.1 (nextDay (y, m, d)).2.2 := by
  sorry

/-- Day numbers order real dates like their (y, m, d) triples. -/
theorem dayNumber_lt_iff (y m d y' m' d' : Int) (h : IsDate y m d) (h' : IsDate y' m' d') :
    dayNumber y m d < dayNumber y' m' d' ↔ lexLt (y, m, d) (y', m', d') := by
  sorry

/-- Range: real dates of years 1..9999 have exactly the day numbers of the supported range. -/
theorem dayNumber_range (y m d : Int) (h : ValidYMD y m d) :
    -719162 ≤ dayNumber y m d ∧ dayNumber y m d ≤ 2932896 := by
  sorry

/-- ROUND TRIP 1: every in-range day number extracts to a real date of years 1..9999 that converts back to it. -/
theorem extract_roundtrip (j : Int) (hj : isValidDate j) :
    ValidYMD (Date.extract j).1 (Date.extract j).2.1 (Date.extract j).2.2 ∧
    Date.fromYmdUnchecked (Date.extract j).1 (Date.extract j).2.1 (Date.extract j).2.2 = j := by
  sorry

/-- ROUND TRIP 2: every real date of years 1..9999 converts to an in-range day number that extracts back to it. -/
theorem extract_fromYmd (y m d : Int) (h : ValidYMD y m d) :
    isValidDate (Date.fromYmdUnchecked y m d) ∧ Date.extract (Date.fromYmdUnchecked y m d) = (y, m, d) := by
  sorry

/-- Consecutive day numbers are consecutive calendar dates. -/
theorem extract_succ (j : Int) (hj : isValidDate j) (hj1 : isValidDate (j + 1)) :
    Date.extract (j + 1) = nextDay (Date.extract j) := by
  sorry

theorem extract_min : Date.extract (-719162) = (1, 1, 1) := by decide
theorem extract_max : Date.extract 2932896 = (9999, 12, 31) := by decide

end SqlDt.Lemmas
