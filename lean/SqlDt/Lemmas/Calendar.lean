/-
  Lemmas/Calendar: the crate's Julian-day arithmetic (Model/Common, Model/Types) realises the proleptic
  Gregorian calendar of Spec/Calendar.

  Proof plan for the round trip.  `julian2date` is 146097-periodic (400 years), `date2julian` and the
  calendar rules are 400-year periodic; one period (the 146097 days from 0001-01-01) is discharged by kernel
  evaluation of a `Nat`-valued mirror of the two functions (`Lemmas/CalendarCheck`, evaluated in the 8
  modules `Lemmas/CalendarP0` … `P7`), read back into `Int` here.  Everything else is `omega` over the
  closed-form day number of Spec/Calendar.  Helper lemmas live in the sub-namespace `SqlDt.Lemmas.Cal`
  (e.g. `Cal.dayNumber_inj`, `Cal.date2julian_eq_dayNumber`, `Cal.good_all`); the checker in `SqlDt.Lemmas.CalCheck`.
-/
import SqlDt.Lemmas.Consts
import SqlDt.Spec.Calendar
import SqlDt.Lemmas.CalendarP0
import SqlDt.Lemmas.CalendarP1
import SqlDt.Lemmas.CalendarP2
import SqlDt.Lemmas.CalendarP3
import SqlDt.Lemmas.CalendarP4
import SqlDt.Lemmas.CalendarP5
import SqlDt.Lemmas.CalendarP6
import SqlDt.Lemmas.CalendarP7
namespace SqlDt.Lemmas
open SqlDt Gen Spec CalCheck

/-! ### Leap years, month lengths, the closed-form day number -/

/-- The model's leap-year test and month-length table are the calendar's (years ≥ 0). -/
theorem isLeapYear_eq (y : Int) (hy : 0 ≤ y) : isLeapYear y = isLeap y := by
  unfold isLeapYear isLeap
  rw [rrem_nonneg_eq hy, rrem_nonneg_eq hy, rrem_nonneg_eq hy]

namespace Cal

theorem months12 (m : Int) (hm : 1 ≤ m ∧ m ≤ 12) :
    m = 1 ∨ m = 2 ∨ m = 3 ∨ m = 4 ∨ m = 5 ∨ m = 6 ∨ m = 7 ∨ m = 8 ∨ m = 9 ∨ m = 10 ∨ m = 11 ∨ m = 12 := by
  omega

end Cal

open Cal

theorem daysOfMonth_eq (y m : Int) (hy : 0 ≤ y) (hm : 1 ≤ m ∧ m ≤ 12) : daysOfMonth y m = dim y m := by
  have := months12 m hm
  unfold daysOfMonth dim
  rw [isLeapYear_eq y hy]
  cases hl : isLeap y <;> rcases this with h | h | h | h | h | h | h | h | h | h | h | h <;> subst h <;> decide

namespace Cal

/-- The leap flag as a 0/1 integer, characterised arithmetically (for `omega`). -/
def leapI (y : Int) : Int := if isLeap y then 1 else 0

theorem leapI_spec (y : Int) :
    (leapI y = 1 ∧ y % 4 = 0 ∧ (y % 100 ≠ 0 ∨ y % 400 = 0)) ∨
    (leapI y = 0 ∧ ¬ (y % 4 = 0 ∧ (y % 100 ≠ 0 ∨ y % 400 = 0))) := by
  unfold leapI
  cases h : isLeap y
  · right; refine ⟨by simp, ?_⟩
    intro hh; have : isLeap y = true := by unfold isLeap; simp; exact hh
    rw [h] at this; exact absurd this (by decide)
  · left; refine ⟨by simp, ?_⟩
    unfold isLeap at h; simpa using h

theorem dim_eq (y m : Int) : dim y m =
    if m = 2 then 28 + leapI y else if m = 4 ∨ m = 6 ∨ m = 9 ∨ m = 11 then 30 else 31 := by
  unfold dim leapI; cases isLeap y <;> simp

theorem dbm_eq (y m : Int) : daysBeforeMonth y m =
    (if m = 1 then 0 else if m = 2 then 31 else if m = 3 then 59 else if m = 4 then 90 else if m = 5 then 120
    else if m = 6 then 151 else if m = 7 then 181 else if m = 8 then 212 else if m = 9 then 243
    else if m = 10 then 273 else if m = 11 then 304 else 334) + (if m > 2 then leapI y else 0) := by
  unfold daysBeforeMonth leapI
  by_cases hm : m > 2 <;> cases isLeap y <;> simp [hm]

/-- Month by month: the cumulative table and the month length, as plain integers. -/
theorem month_table (y m : Int) (hm : 1 ≤ m ∧ m ≤ 12) :
    (m = 1 ∧ daysBeforeMonth y m = 0 ∧ dim y m = 31) ∨
    (m = 2 ∧ daysBeforeMonth y m = 31 ∧ dim y m = 28 + leapI y) ∨
    (m = 3 ∧ daysBeforeMonth y m = 59 + leapI y ∧ dim y m = 31) ∨
    (m = 4 ∧ daysBeforeMonth y m = 90 + leapI y ∧ dim y m = 30) ∨
    (m = 5 ∧ daysBeforeMonth y m = 120 + leapI y ∧ dim y m = 31) ∨
    (m = 6 ∧ daysBeforeMonth y m = 151 + leapI y ∧ dim y m = 30) ∨
    (m = 7 ∧ daysBeforeMonth y m = 181 + leapI y ∧ dim y m = 31) ∨
    (m = 8 ∧ daysBeforeMonth y m = 212 + leapI y ∧ dim y m = 31) ∨
    (m = 9 ∧ daysBeforeMonth y m = 243 + leapI y ∧ dim y m = 30) ∨
    (m = 10 ∧ daysBeforeMonth y m = 273 + leapI y ∧ dim y m = 31) ∨
    (m = 11 ∧ daysBeforeMonth y m = 304 + leapI y ∧ dim y m = 30) ∨
    (m = 12 ∧ daysBeforeMonth y m = 334 + leapI y ∧ dim y m = 31) := by
  rw [dbm_eq, dim_eq]
  rcases months12 m hm with h | h | h | h | h | h | h | h | h | h | h | h <;> subst h <;> simp

/-- `date2julian` with Rust's truncating `/` replaced by `/` (all dividends are non-negative from year −4799 on). -/
theorem date2julian_nonneg (y m d : Int) (hy : -4799 ≤ y) (hm : 1 ≤ m ∧ m ≤ 12) :
    date2julian y m d =
      (if m > 2 then
        (y + 4800) * 365 - 32167 + ((y + 4800) / 4 - (y + 4800) / 100 + (y + 4800) / 100 / 4) + (7834 * (m + 1) / 256 + d)
      else
        (y + 4799) * 365 - 32167 + ((y + 4799) / 4 - (y + 4799) / 100 + (y + 4799) / 100 / 4) + (7834 * (m + 13) / 256 + d)) := by
  unfold date2julian
  by_cases h : m > 2
  · simp only [h, ↓reduceIte]
    rw [rdiv_nonneg_eq (show (0:Int) ≤ y + 4800 by omega), rdiv_nonneg_eq (show (0:Int) ≤ y + 4800 by omega),
      rdiv_nonneg_eq (show (0:Int) ≤ (y + 4800) / 100 by omega), rdiv_nonneg_eq (show (0:Int) ≤ 7834 * (m + 1) by omega)]
  · simp only [h, ↓reduceIte]
    rw [rdiv_nonneg_eq (show (0:Int) ≤ y + 4799 by omega), rdiv_nonneg_eq (show (0:Int) ≤ y + 4799 by omega),
      rdiv_nonneg_eq (show (0:Int) ≤ (y + 4799) / 100 by omega), rdiv_nonneg_eq (show (0:Int) ≤ 7834 * (m + 13) by omega)]

/-- `date2julian` is the closed-form day number for every year ≥ 0 (no upper bound). -/
theorem date2julian_eq_dayNumber (y m d : Int) (hy : 0 ≤ y) (hm : 1 ≤ m ∧ m ≤ 12) :
    date2julian y m d = dayNumber y m d + 2440588 := by
  rw [date2julian_nonneg y m d (by omega) hm]
  unfold dayNumber daysBeforeYear
  have hl := leapI_spec y
  rcases month_table y m hm with h | h | h | h | h | h | h | h | h | h | h | h <;>
    obtain ⟨h1, h2, -⟩ := h <;> subst h1 <;> rw [h2] <;> simp only [gt_iff_lt, Int.reduceLT, ↓reduceIte] <;> omega

end Cal

/-- `date2julian` (minus the epoch) is the closed-form day number, for every year 0..10000, month 1..12 and ANY day. -/
theorem fromYmd_eq_dayNumber (y m d : Int) (hy : 0 ≤ y ∧ y ≤ 10000) (hm : 1 ≤ m ∧ m ≤ 12) :
    Date.fromYmdUnchecked y m d = dayNumber y m d := by
  unfold Date.fromYmdUnchecked
  rw [UNIX_EPOCH_JULIAN_eq, date2julian_eq_dayNumber y m d hy.1 hm]; omega

namespace Cal

theorem dby_succ (y : Int) : daysBeforeYear (y + 1) = daysBeforeYear y + 365 + leapI y := by
  unfold daysBeforeYear
  have hl := leapI_spec y
  omega

theorem dby_mono_nat (y : Int) (k : Nat) : daysBeforeYear y + 365 * k ≤ daysBeforeYear (y + k) := by
  induction k with
  | zero => simp
  | succ n ih =>
    have e : y + ((n + 1 : Nat) : Int) = (y + n) + 1 := by omega
    rw [e, dby_succ]
    have := leapI_spec (y + n)
    omega

theorem dby_mono (y y' : Int) (h : y ≤ y') : daysBeforeYear y + 365 * (y' - y) ≤ daysBeforeYear y' := by
  have := dby_mono_nat y (y' - y).toNat
  have e : ((y' - y).toNat : Int) = y' - y := by omega
  rw [e] at this
  have e2 : y + (y' - y) = y' := by omega
  rw [e2] at this; exact this

theorem dbm_succ (y m : Int) (hm : 1 ≤ m ∧ m ≤ 11) :
    daysBeforeMonth y (m + 1) = daysBeforeMonth y m + dim y m := by
  rw [dbm_eq, dbm_eq, dim_eq]
  have hl := leapI_spec y
  rcases months12 m ⟨hm.1, by omega⟩ with h | h | h | h | h | h | h | h | h | h | h | h <;> subst h <;> simp <;> omega

end Cal

/-- The day number advances by exactly one along the calendar's successor rule. -/
theorem dayNumber_nextDay (y m d : Int) (h : IsDate y m d) :
    dayNumber (nextDay (y, m, d)).1 (nextDay (y, m, d)).2.1 (nextDay (y, m, d)).2.2 = dayNumber y m d + 1 := by
  obtain ⟨h1, h2, h3, h4⟩ := h
  unfold nextDay
  simp only []
  by_cases c1 : d < dim y m
  · rw [if_pos c1]; unfold dayNumber; simp only []; omega
  · rw [if_neg c1]
    by_cases c2 : m < 12
    · rw [if_pos c2]; unfold dayNumber; simp only []
      rw [dbm_succ y m ⟨h1, by omega⟩]; omega
    · rw [if_neg c2]; unfold dayNumber; simp only []
      have e : m = 12 := by omega
      subst e
      rw [dby_succ]
      have hl := leapI_spec y
      rcases month_table y 12 ⟨by omega, by omega⟩ with h | h | h | h | h | h | h | h | h | h | h | h <;>
        obtain ⟨e1, e2, e3⟩ := h <;> first | omega | skip
      rcases month_table (y + 1) 1 ⟨by omega, by omega⟩ with h | h | h | h | h | h | h | h | h | h | h | h <;>
        obtain ⟨f1, f2, f3⟩ := h <;> omega

namespace Cal

theorem dim_range (y m : Int) : 28 ≤ dim y m ∧ dim y m ≤ 31 := by
  rw [dim_eq]; have := leapI_spec y
  split
  · omega
  · split <;> omega

end Cal

/-- The successor of a real date is a real date. -/
theorem nextDay_isDate (y m d : Int) (h : IsDate y m d) :
    IsDate (nextDay (y, m, d)).1 (nextDay (y, m, d)).2.1 (nextDay (y, m, d)).2.2 := by
  obtain ⟨h1, h2, h3, h4⟩ := h
  unfold nextDay
  simp only []
  by_cases c1 : d < dim y m
  · rw [if_pos c1]; show IsDate y m (d + 1); exact ⟨h1, h2, by omega, by omega⟩
  · rw [if_neg c1]
    by_cases c2 : m < 12
    · rw [if_pos c2]; show IsDate y (m + 1) 1
      have := dim_range y (m + 1); exact ⟨by omega, by omega, by omega, by omega⟩
    · rw [if_neg c2]; show IsDate (y + 1) 1 1
      have := dim_range (y + 1) 1; exact ⟨by omega, by omega, by omega, by omega⟩

namespace Cal

theorem dbm_mono_nat (y m : Int) (k : Nat) (hm : 1 ≤ m) (hk : m + k ≤ 12) :
    daysBeforeMonth y m + 28 * k ≤ daysBeforeMonth y (m + k) := by
  induction k with
  | zero => simp
  | succ n ih =>
    have e : m + ((n + 1 : Nat) : Int) = (m + n) + 1 := by omega
    rw [e, dbm_succ y (m + n) ⟨by omega, by omega⟩]
    have := dim_range y (m + n)
    have := ih (by omega)
    omega

/-- Days before month `m'` cover month `m` entirely when `m < m'`. -/
theorem dbm_lt (y m m' : Int) (hm : 1 ≤ m) (hmm : m < m') (hm' : m' ≤ 12) :
    daysBeforeMonth y m + dim y m ≤ daysBeforeMonth y m' := by
  rw [← dbm_succ y m ⟨hm, by omega⟩]
  have := dbm_mono_nat y (m + 1) (m' - (m + 1)).toNat (by omega) (by omega)
  have e : m + 1 + ((m' - (m + 1)).toNat : Int) = m' := by omega
  rw [e] at this; omega

theorem dbm_nonneg (y m : Int) (hm : 1 ≤ m ∧ m ≤ 12) : 0 ≤ daysBeforeMonth y m := by
  have hl := leapI_spec y
  rcases month_table y m hm with h | h | h | h | h | h | h | h | h | h | h | h <;> omega

/-- A year's months fill at most the year. -/
theorem dbm_dim_le (y m : Int) (hm : 1 ≤ m ∧ m ≤ 12) :
    daysBeforeMonth y m + dim y m ≤ 365 + leapI y := by
  have hl := leapI_spec y
  rcases month_table y m hm with h | h | h | h | h | h | h | h | h | h | h | h <;> omega

theorem dayNumber_lt_of_lexLt (y m d y' m' d' : Int) (h : IsDate y m d) (h' : IsDate y' m' d')
    (hl : lexLt (y, m, d) (y', m', d')) : dayNumber y m d < dayNumber y' m' d' := by
  obtain ⟨h1, h2, h3, h4⟩ := h
  obtain ⟨h1', h2', h3', h4'⟩ := h'
  have hl : y < y' ∨ (y = y' ∧ (m < m' ∨ (m = m' ∧ d < d'))) := hl
  unfold dayNumber
  rcases hl with hl | ⟨rfl, hl | ⟨rfl, hl⟩⟩
  · have a := dbm_dim_le y m ⟨h1, h2⟩
    have b := dby_succ y
    have c := dby_mono (y + 1) y' (by omega)
    have d := dbm_nonneg y' m' ⟨h1', h2'⟩
    omega
  · have := dbm_lt y m m' h1 hl h2'
    omega
  · omega

theorem lexLt_trichotomy (a b : Int × Int × Int) : lexLt a b ∨ a = b ∨ lexLt b a := by
  obtain ⟨y, m, d⟩ := a
  obtain ⟨y', m', d'⟩ := b
  unfold lexLt
  simp only [Prod.mk.injEq]
  omega

theorem lexLt_asymm (a b : Int × Int × Int) (h : lexLt a b) : ¬ lexLt b a := by
  obtain ⟨y, m, d⟩ := a
  obtain ⟨y', m', d'⟩ := b
  unfold lexLt at *
  simp only at *
  omega

end Cal

/-- Day numbers order real dates like their (y, m, d) triples. -/
theorem dayNumber_lt_iff (y m d y' m' d' : Int) (h : IsDate y m d) (h' : IsDate y' m' d') :
    dayNumber y m d < dayNumber y' m' d' ↔ lexLt (y, m, d) (y', m', d') := by
  constructor
  · intro hlt
    rcases lexLt_trichotomy (y, m, d) (y', m', d') with t | t | t
    · exact t
    · simp only [Prod.mk.injEq] at t
      obtain ⟨e1, e2, e3⟩ := t
      subst e1; subst e2; subst e3; omega
    · have := dayNumber_lt_of_lexLt _ _ _ _ _ _ h' h t; omega
  · exact dayNumber_lt_of_lexLt _ _ _ _ _ _ h h'

namespace Cal

/-- Two real dates with the same day number are the same date. -/
theorem dayNumber_inj (y m d y' m' d' : Int) (h : IsDate y m d) (h' : IsDate y' m' d')
    (e : dayNumber y m d = dayNumber y' m' d') : (y, m, d) = (y', m', d') := by
  rcases lexLt_trichotomy (y, m, d) (y', m', d') with t | t | t
  · have := dayNumber_lt_of_lexLt _ _ _ _ _ _ h h' t; omega
  · exact t
  · have := dayNumber_lt_of_lexLt _ _ _ _ _ _ h' h t; omega

theorem dby_one : daysBeforeYear 1 = 0 := by decide
theorem dby_10000 : daysBeforeYear 10000 = 3652059 := by decide

theorem dayNumber_lower (y m d : Int) (hy : 1 ≤ y) (h : IsDate y m d) : -719162 ≤ dayNumber y m d := by
  obtain ⟨h1, h2, h3, h4⟩ := h
  have a := dby_mono 1 y hy
  have b := dbm_nonneg y m ⟨h1, h2⟩
  rw [dby_one] at a
  unfold dayNumber; omega

theorem dayNumber_upper (y m d : Int) (Y : Int) (hy : y < Y) (h : IsDate y m d) :
    dayNumber y m d < daysBeforeYear Y - 719162 := by
  obtain ⟨h1, h2, h3, h4⟩ := h
  have a := dby_mono (y + 1) Y (by omega)
  have b := dbm_dim_le y m ⟨h1, h2⟩
  have c := dby_succ y
  unfold dayNumber; omega

theorem dayNumber_ge_of_year_ge (y m d : Int) (Y : Int) (hy : Y ≤ y) (h : IsDate y m d) :
    daysBeforeYear Y - 719162 ≤ dayNumber y m d := by
  obtain ⟨h1, h2, h3, h4⟩ := h
  have a := dby_mono Y y hy
  have b := dbm_nonneg y m ⟨h1, h2⟩
  unfold dayNumber; omega

end Cal

/-- Range: real dates of years 1..9999 have exactly the day numbers of the supported range. -/
theorem dayNumber_range (y m d : Int) (h : ValidYMD y m d) :
    -719162 ≤ dayNumber y m d ∧ dayNumber y m d ≤ 2932896 := by
  obtain ⟨hy1, hy2, hd⟩ := h
  refine ⟨dayNumber_lower y m d hy1 hd, ?_⟩
  have := dayNumber_upper y m d 10000 (by omega) hd
  rw [dby_10000] at this; omega

namespace Cal

/-! ### julian2date in stages -/
def stA' (a : Int) : Int := a + (60 + a / 146097 * 3 + ((a - a / 146097 * 146097) * 4 + 3) / 146097)
def stA (j : Int) : Int := stA' (j + 32044)
def stY (r : Int) : Int := r * 4 / 1461
def stC (r : Int) : Int := if stY r ≠ 0 then (r + 305) % 365 + 123 else (r + 306) % 366 + 123
def stK (c : Int) : Int := c * 2141 / 65536
def stM (c : Int) : Int := (stK c + 10) % 12 + 1
def stD (c : Int) : Int := c - 7834 * stK c / 256

theorem julian2date_stages (j : Int) :
    julian2date j =
      (stY (stA j - stA j / 1461 * 1461) + stA j / 1461 * 4 - 4800,
       stM (stC (stA j - stA j / 1461 * 1461)), stD (stC (stA j - stA j / 1461 * 1461))) := rfl

theorem stA'_period (a : Int) : stA' (a + 146097) = stA' a + 146100 := by
  unfold stA'
  have h1 : (a + 146097) / 146097 = a / 146097 + 1 := by omega
  rw [h1]
  have h2 : a + 146097 - (a / 146097 + 1) * 146097 = a - a / 146097 * 146097 := by omega
  rw [h2]; omega

theorem stA_period (j : Int) : stA (j + 146097) = stA j + 146100 := by
  unfold stA; rw [← stA'_period]; congr 1; omega

theorem julian2date_period (j : Int) :
    julian2date (j + 146097) = ((julian2date j).1 + 400, (julian2date j).2.1, (julian2date j).2.2) := by
  rw [julian2date_stages, julian2date_stages, stA_period]
  have h1 : (stA j + 146100) / 1461 = stA j / 1461 + 100 := by omega
  rw [h1]
  have h2 : stA j + 146100 - (stA j / 1461 + 100) * 1461 = stA j - stA j / 1461 * 1461 := by omega
  rw [h2]
  simp only [Prod.mk.injEq, and_true]; omega

/-- Nat mirror of julian2date, Y = year + 4800 -/
def j2dN (J : Nat) : Nat × Nat × Nat :=
  let a := J + 32044
  let b := a + (60 + a / 146097 * 3 + (a % 146097 * 4 + 3) / 146097)
  let q := b / 1461
  let r := b % 1461
  let y := r * 4 / 1461
  let c := cond (y.beq 0) ((r + 306) % 366 + 123) ((r + 305) % 365 + 123)
  let k := c * 2141 / 65536
  (y + q * 4, (k + 10) % 12 + 1, c - 7834 * k / 256)

theorem chk'_eq (J : Nat) : chk' J = fin J (j2dN J).1 (j2dN J).2.1 (j2dN J).2.2 := rfl

def stAN (J : Nat) : Nat :=
  let a := J + 32044
  a + (60 + a / 146097 * 3 + (a % 146097 * 4 + 3) / 146097)
def stCN (r : Nat) : Nat := cond ((r * 4 / 1461).beq 0) ((r + 306) % 366 + 123) ((r + 305) % 365 + 123)

theorem j2dN_stages (J : Nat) : j2dN J =
    (stAN J % 1461 * 4 / 1461 + stAN J / 1461 * 4, (stCN (stAN J % 1461) * 2141 / 65536 + 10) % 12 + 1,
      stCN (stAN J % 1461) - 7834 * (stCN (stAN J % 1461) * 2141 / 65536) / 256) := rfl

theorem stA_cast (J : Nat) : stA (J : Int) = (stAN J : Int) := by
  unfold stA stA' stAN; simp only []
  have : ((J:Int) + 32044 - ((J:Int) + 32044) / 146097 * 146097) = ((J:Int) + 32044) % 146097 := by omega
  rw [this]
  simp only [Int.natCast_add, Int.natCast_mul, Int.natCast_ediv, Int.natCast_emod, Int.cast_ofNat_Int]

theorem stC_cast (r : Nat) : stC (r : Int) = (stCN r : Int) := by
  unfold stC stCN stY
  cases h : (r * 4 / 1461).beq 0
  · have h' : ¬ (r * 4 / 1461 = 0) := by intro e; rw [e] at h; exact absurd h (by decide)
    have : ((r:Int) * 4 / 1461 ≠ 0) := by omega
    rw [if_pos this]; simp only [cond]; omega
  · have h' : r * 4 / 1461 = 0 := Nat.eq_of_beq_eq_true h
    have : ¬ ((r:Int) * 4 / 1461 ≠ 0) := by omega
    rw [if_neg this]; simp only [cond]; omega

theorem stCN_range (r : Nat) : 123 ≤ stCN r ∧ stCN r ≤ 488 := by
  unfold stCN; cases (r * 4 / 1461).beq 0 <;> simp only [cond] <;> omega

theorem j2d_cast (J : Nat) :
    julian2date (J : Int) = (((j2dN J).1 : Int) - 4800, ((j2dN J).2.1 : Int), ((j2dN J).2.2 : Int)) := by
  rw [julian2date_stages, j2dN_stages, stA_cast]
  have e : ((stAN J : Int) - (stAN J : Int) / 1461 * 1461) = ((stAN J % 1461 : Nat) : Int) := by omega
  rw [e, stC_cast]
  have hr := stCN_range (stAN J % 1461)
  generalize stCN (stAN J % 1461) = c at hr ⊢
  have hk : 7834 * (c * 2141 / 65536) / 256 ≤ c := by omega
  unfold stY stM stD stK
  simp only [Prod.mk.injEq]
  refine ⟨?_, ?_, ?_⟩
  · simp only [Int.natCast_add, Int.natCast_mul, Int.natCast_ediv, Int.natCast_emod, Int.cast_ofNat_Int]
  · simp only [Int.natCast_add, Int.natCast_mul, Int.natCast_ediv, Int.natCast_emod, Int.cast_ofNat_Int]
  · rw [Int.natCast_sub hk]; simp only [Int.natCast_mul, Int.natCast_ediv, Int.cast_ofNat_Int]

end Cal

/-! ### The checker's verdict, read back in `Int` -/

namespace Cal

theorem nbeq_iff (a b : Nat) : Nat.beq a b = true ↔ a = b :=
  ⟨Nat.eq_of_beq_eq_true, fun h => h ▸ Nat.beq_refl a⟩
theorem nbeq_eq (a b : Nat) : Nat.beq a b = (a == b) := by
  rw [Bool.eq_iff_iff, nbeq_iff, beq_iff_eq]

theorem leapN_eq (Y : Nat) : leapN Y = isLeap ((Y : Int) - 4800) := by
  have e : leapN Y = (Nat.beq (Y % 4) 0 && (!(Nat.beq (Y % 100) 0) || Nat.beq (Y % 400) 0)) := rfl
  rw [e, Bool.eq_iff_iff]; unfold isLeap
  simp only [nbeq_eq, Bool.and_eq_true, Bool.or_eq_true, Bool.not_eq_true', beq_iff_eq, bne_iff_ne, ne_eq,
    beq_eq_false_iff_ne]
  omega

theorem dimN_cast (Y m : Nat) : (dimN Y m : Int) = dim ((Y : Int) - 4800) m := by
  have e : dimN Y m = cond (Nat.beq m 2) (cond (leapN Y) 29 28)
      (cond (Nat.beq m 4 || Nat.beq m 6 || Nat.beq m 9 || Nat.beq m 11) 30 31) := rfl
  rw [e, leapN_eq Y]; unfold dim
  by_cases h2 : m = 2
  · subst h2; cases isLeap ((Y : Int) - 4800) <;> simp
  · have h2' : ¬ ((m : Int) = 2) := by omega
    have b2 : Nat.beq m 2 = false := by rw [← Bool.not_eq_true, nbeq_iff]; exact h2
    rw [if_neg h2', b2]
    by_cases h : m = 4 ∨ m = 6 ∨ m = 9 ∨ m = 11
    · have h' : (m : Int) = 4 ∨ (m : Int) = 6 ∨ (m : Int) = 9 ∨ (m : Int) = 11 := by omega
      have b : (Nat.beq m 4 || Nat.beq m 6 || Nat.beq m 9 || Nat.beq m 11) = true := by
        simp only [Bool.or_eq_true, nbeq_iff]; omega
      rw [if_pos h', b]; rfl
    · have h' : ¬ ((m : Int) = 4 ∨ (m : Int) = 6 ∨ (m : Int) = 9 ∨ (m : Int) = 11) := by omega
      have b : (Nat.beq m 4 || Nat.beq m 6 || Nat.beq m 9 || Nat.beq m 11) = false := by
        rw [← Bool.not_eq_true]; simp only [Bool.or_eq_true, nbeq_iff]; omega
      rw [if_neg h', b]; rfl

theorem d2jN'_cast (y m d : Nat) (hy : 4800 ≤ y) :
    ((y * 365 + (y / 4 + y / 100 / 4) + (7834 * m / 256 + d) - (32167 + y / 100) : Nat) : Int) =
      (y : Int) * 365 - 32167 + ((y : Int) / 4 - (y : Int) / 100 + (y : Int) / 100 / 4) + (7834 * (m : Int) / 256 + d) := by
  have hk : 32167 + y / 100 ≤ y * 365 + (y / 4 + y / 100 / 4) + (7834 * m / 256 + d) := by omega
  rw [Int.natCast_sub hk]
  simp only [Int.natCast_add, Int.natCast_mul, Int.natCast_ediv, Int.cast_ofNat_Int]
  omega

theorem d2jN_cast (Y m d : Nat) (hY : 4801 ≤ Y) (hm : 1 ≤ m ∧ m ≤ 12) :
    date2julian ((Y : Int) - 4800) m d = (d2jN Y m d : Int) := by
  rw [date2julian_nonneg _ _ _ (by omega) (by omega)]
  have e : d2jN Y m d = cond (Nat.ble m 2)
      (((Y - 1) * 365 + ((Y - 1) / 4 + (Y - 1) / 100 / 4) + (7834 * (m + 13) / 256 + d)) - (32167 + (Y - 1) / 100))
      ((Y * 365 + (Y / 4 + Y / 100 / 4) + (7834 * (m + 1) / 256 + d)) - (32167 + Y / 100)) := rfl
  rw [e]
  by_cases h : m ≤ 2
  · have : Nat.ble m 2 = true := by rw [Nat.ble_eq]; exact h
    rw [this, if_neg (by omega)]; simp only [cond]
    rw [d2jN'_cast (Y - 1) (m + 13) d (by omega)]
    have e1 : (Y : Int) - 4800 + 4799 = ((Y - 1 : Nat) : Int) := by omega
    have e2 : ((m + 13 : Nat) : Int) = (m : Int) + 13 := by omega
    rw [e1, e2]
  · have : Nat.ble m 2 = false := by rw [← Bool.not_eq_true, Nat.ble_eq]; exact h
    rw [this, if_pos (by omega)]; simp only [cond]
    rw [d2jN'_cast Y (m + 1) d (by omega)]
    have e1 : (Y : Int) - 4800 + 4800 = (Y : Int) := by omega
    have e2 : ((m + 1 : Nat) : Int) = (m : Int) + 1 := by omega
    rw [e1, e2]

theorem fin_spec (J Y m d : Nat) (h : fin J Y m d = true) :
    1 ≤ (Y : Int) - 4800 ∧ IsDate ((Y : Int) - 4800) m d ∧ date2julian ((Y : Int) - 4800) m d = J := by
  have e : fin J Y m d = (Nat.ble 4801 Y && (Nat.ble 1 m && (Nat.ble m 12 && (Nat.ble 1 d &&
      (Nat.ble d (dimN Y m) && Nat.beq (d2jN Y m d) J))))) := rfl
  rw [e] at h
  simp only [Bool.and_eq_true, Nat.ble_eq, nbeq_iff] at h
  obtain ⟨a1, a2, a3, a4, a5, a6⟩ := h
  have hd := dimN_cast Y m
  refine ⟨by omega, ⟨by omega, by omega, by omega, by omega⟩, ?_⟩
  rw [d2jN_cast Y m d a1 ⟨a2, a3⟩, a6]

/-- What is established for a Julian day `j`: it extracts to a real date of a year ≥ 1 that converts back. -/
def Good (j : Int) : Prop :=
  1 ≤ (julian2date j).1 ∧ IsDate (julian2date j).1 (julian2date j).2.1 (julian2date j).2.2 ∧
    date2julian (julian2date j).1 (julian2date j).2.1 (julian2date j).2.2 = j

theorem good_of_chk' (J : Nat) (h : chk' J = true) : Good (J : Int) := by
  rw [chk'_eq] at h
  unfold Good
  rw [j2d_cast]
  exact fin_spec _ _ _ _ h

theorem chk_all (n : Nat) (h : n < 146097) : chk n = true := by
  by_cases c0 : n < 18432; · exact chunk0 n (by omega) c0
  by_cases c1 : n < 36864; · exact chunk1 n (by omega) c1
  by_cases c2 : n < 55296; · exact chunk2 n (by omega) c2
  by_cases c3 : n < 73728; · exact chunk3 n (by omega) c3
  by_cases c4 : n < 92160; · exact chunk4 n (by omega) c4
  by_cases c5 : n < 110592; · exact chunk5 n (by omega) c5
  by_cases c6 : n < 129024; · exact chunk6 n (by omega) c6
  exact chunk7 n (by omega) (by omega)

/-- One 400-year period, by kernel evaluation (the 8 chunk modules). -/
theorem good_base (n : Nat) (h : n < 146097) : Good (1721426 + (n : Int)) := by
  have := good_of_chk' (1721426 + n) (chk_all n h)
  have e : ((1721426 + n : Nat) : Int) = 1721426 + (n : Int) := by omega
  rw [e] at this; exact this

theorem isLeap_period (y : Int) : isLeap (y + 400) = isLeap y := by
  unfold isLeap
  have h4 : (y + 400) % 4 = y % 4 := by omega
  have h100 : (y + 400) % 100 = y % 100 := by omega
  have h400 : (y + 400) % 400 = y % 400 := by omega
  rw [h4, h100, h400]

theorem dim_period (y m : Int) : dim (y + 400) m = dim y m := by
  unfold dim; rw [isLeap_period]

theorem date2julian_period (y m d : Int) (hy : 0 ≤ y) (hm : 1 ≤ m ∧ m ≤ 12) :
    date2julian (y + 400) m d = date2julian y m d + 146097 := by
  rw [date2julian_nonneg _ _ _ (by omega) hm, date2julian_nonneg _ _ _ (by omega) hm]
  by_cases h : m > 2
  · rw [if_pos h, if_pos h]; omega
  · rw [if_neg h, if_neg h]; omega

theorem good_period (j : Int) (h : Good j) : Good (j + 146097) := by
  unfold Good at *
  rw [julian2date_period]
  obtain ⟨h1, h2, h3⟩ := h
  obtain ⟨m1, m2, d1, d2⟩ := h2
  refine ⟨by omega, ⟨m1, m2, d1, ?_⟩, ?_⟩
  · show _ ≤ dim ((julian2date j).1 + 400) (julian2date j).2.1
    rw [dim_period]; exact d2
  · show date2julian ((julian2date j).1 + 400) (julian2date j).2.1 (julian2date j).2.2 = _
    rw [date2julian_period _ _ _ (by omega) ⟨m1, m2⟩, h3]

theorem good_periods (k : Nat) : ∀ n : Nat, n < 146097 → Good (1721426 + (n : Int) + 146097 * (k : Int)) := by
  induction k with
  | zero => intro n h; simpa using good_base n h
  | succ k ih =>
    intro n h
    have e : 1721426 + (n : Int) + 146097 * ((k + 1 : Nat) : Int) = 1721426 + (n : Int) + 146097 * (k : Int) + 146097 := by
      omega
    rw [e]; exact good_period _ (ih n h)

/-- Every Julian day from 0001-01-01 on (no upper bound). -/
theorem good_all (j : Int) (h : 1721426 ≤ j) : Good j := by
  have := good_periods ((j - 1721426) / 146097).toNat ((j - 1721426) % 146097).toNat (by omega)
  have e : 1721426 + (((j - 1721426) % 146097).toNat : Int) + 146097 * (((j - 1721426) / 146097).toNat : Int) = j := by
    omega
  rw [e] at this; exact this

end Cal

/-- ROUND TRIP 1: every in-range day number extracts to a real date of years 1..9999 that converts back to it. -/
theorem extract_roundtrip (j : Int) (hj : isValidDate j) :
    ValidYMD (Date.extract j).1 (Date.extract j).2.1 (Date.extract j).2.2 ∧
    Date.fromYmdUnchecked (Date.extract j).1 (Date.extract j).2.1 (Date.extract j).2.2 = j := by
  rw [isValidDate_iff] at hj
  unfold Date.extract Date.fromYmdUnchecked
  rw [UNIX_EPOCH_JULIAN_eq]
  obtain ⟨g1, g2, g3⟩ := good_all (j + 2440588) (by omega)
  refine ⟨⟨g1, ?_, g2⟩, by omega⟩
  apply Decidable.byContradiction
  intro hc
  have hy : 10000 ≤ (julian2date (j + 2440588)).1 := by omega
  have a := dayNumber_ge_of_year_ge _ _ _ 10000 hy g2
  rw [dby_10000] at a
  rw [date2julian_eq_dayNumber _ _ _ (by omega) ⟨g2.1, g2.2.1⟩] at g3
  omega

/-- ROUND TRIP 2: every real date of years 1..9999 converts to an in-range day number that extracts back to it. -/
theorem extract_fromYmd (y m d : Int) (h : ValidYMD y m d) :
    isValidDate (Date.fromYmdUnchecked y m d) ∧ Date.extract (Date.fromYmdUnchecked y m d) = (y, m, d) := by
  have hr := dayNumber_range y m d h
  obtain ⟨hy1, hy2, hd⟩ := h
  have e := fromYmd_eq_dayNumber y m d ⟨by omega, by omega⟩ ⟨hd.1, hd.2.1⟩
  have hv : isValidDate (Date.fromYmdUnchecked y m d) := by rw [isValidDate_iff, e]; exact hr
  refine ⟨hv, ?_⟩
  generalize Date.fromYmdUnchecked y m d = X at e hv
  obtain ⟨⟨v1, v2, v3⟩, r⟩ := extract_roundtrip X hv
  have r' := r.trans e
  rw [fromYmd_eq_dayNumber _ _ _ ⟨by omega, by omega⟩ ⟨v3.1, v3.2.1⟩] at r'
  exact dayNumber_inj _ _ _ _ _ _ v3 hd r'

/-- Consecutive day numbers are consecutive calendar dates. -/
theorem extract_succ (j : Int) (hj : isValidDate j) (hj1 : isValidDate (j + 1)) :
    Date.extract (j + 1) = nextDay (Date.extract j) := by
  obtain ⟨⟨v1, v2, v3⟩, r⟩ := extract_roundtrip j hj
  obtain ⟨⟨w1, w2, w3⟩, s⟩ := extract_roundtrip (j + 1) hj1
  rw [fromYmd_eq_dayNumber _ _ _ ⟨by omega, by omega⟩ ⟨v3.1, v3.2.1⟩] at r
  rw [fromYmd_eq_dayNumber _ _ _ ⟨by omega, by omega⟩ ⟨w3.1, w3.2.1⟩] at s
  have n1 := dayNumber_nextDay _ _ _ v3
  have n2 := nextDay_isDate _ _ _ v3
  rw [r, ← s] at n1
  exact dayNumber_inj _ _ _ _ _ _ w3 n2 n1.symm

theorem extract_min : Date.extract (-719162) = (1, 1, 1) := by decide
theorem extract_max : Date.extract 2932896 = (9999, 12, 31) := by decide

end SqlDt.Lemmas
