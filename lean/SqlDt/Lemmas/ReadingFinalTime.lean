/-
  Lemmas/ReadingFinalTime: after the field loop — defaults, day-of-year resolution, weekday check and the type's
  `TryFrom<NaiveDateTime>` — for the types WITHOUT a date (time of day, the two intervals): the result is `Spec.assemble`.
-/
import SqlDt.Lemmas.ReadingInv
import SqlDt.Props.C13
namespace SqlDt.Lemmas
open SqlDt Gen Spec Parser

/-- What `parse` does after the field loop and the left-over check. -/
def tailOf (ty : Ty) (st : St) (now : Clock) : Chk (Int × Nat) :=
  (resolveDoy st (applyDefaults ty st now).1) >>= fun dt => finish ty st dt (applyDefaults ty st now).2

def FinalGoal (ty : Ty) (now : Clock) (p : Parts) (s : Bytes) (r : Nat) : Prop :=
  match assemble ty now p with
  | some v => ∃ rd, tailOf ty (conc ty p s r) now = .ok (v, rd)
  | none => ∃ e, tailOf ty (conc ty p s r) now = .error e

theorem tail_nodate (ty : Ty) (now : Clock) (p : Parts) (s : Bytes) (r : Nat) (hd : hasDate ty = false)
    (hok : PartsOK ty p) :
    tailOf ty (conc ty p s r) now = (tryFromNDT ty (conc ty p s r).dt >>= fun v => pure (v, r)) := by
  obtain ⟨h1, h2⟩ := hok.noDate hd
  have hi : ty.info.HAS_DATE = false := by rw [info_hasDate]; exact hd
  simp only [tailOf, applyDefaults, hi, Bool.false_eq_true, ↓reduceIte, resolveDoy, conc, h1, h2, Option.map_none, finish,
    bind, Except.bind, pure, Except.pure]

theorem timeOf_some (p : Parts) (t : Nat) (h : timeOf p = some t) :
    hourOf p < 24 ∧ p.minute.getD 0 < 60 ∧ p.second.getD 0 < 60 ∧
    t = hourOf p * 3600000000 + p.minute.getD 0 * 60000000 + p.second.getD 0 * 1000000 + p.usec.getD 0 := by
  unfold timeOf at h
  simp only [] at h
  split at h
  · rename_i hc; cases h; exact ⟨hc.1, hc.2.1, hc.2.2, rfl⟩
  · cases h

theorem timeOf_none (p : Parts) (h : timeOf p = none) :
    ¬ (hourOf p < 24 ∧ p.minute.getD 0 < 60 ∧ p.second.getD 0 < 60) := by
  unfold timeOf at h
  simp only [] at h
  split at h
  · cases h
  · assumption

theorem validateHms_nat (h mi s : Nat) :
    Time.validateHms (h : Int) (mi : Int) (s : Int) = .ok () ↔ (h < 24 ∧ mi < 60 ∧ s < 60) := by
  unfold Time.validateHms HOURS_PER_DAY MINUTES_PER_HOUR SECONDS_PER_MINUTE
  by_cases a : (h : Int) ≥ 24
  · simp [a]; omega
  · by_cases b : (mi : Int) ≥ 60
    · simp [a, b]; omega
    · by_cases c : (s : Int) ≥ 60
      · simp [a, b, c]; omega
      · simp [a, b, c]; omega

theorem validateHms_err (h mi s : Nat) (hn : ¬ (h < 24 ∧ mi < 60 ∧ s < 60)) :
    ∃ e, Time.validateHms (h : Int) (mi : Int) (s : Int) = .error e := by
  cases hv : Time.validateHms (h : Int) (mi : Int) (s : Int) with
  | error e => exact ⟨e, rfl⟩
  | ok u => cases u; exact absurd ((validateHms_nat h mi s).1 hv) hn

theorem bind_ok {α β : Type} (a : α) (f : α → Chk β) : ((Except.ok a : Chk α) >>= f) = f a := rfl
theorem bind_err {α β : Type} (e : Err) (f : α → Chk β) : ((Except.error e : Chk α) >>= f) = .error e := rfl

theorem dt_tryFromUsecs_ok (u : Int) (h : IntervalDT.isValidUsecs u) : IntervalDT.tryFromUsecs u = .ok u := by
  unfold IntervalDT.tryFromUsecs; rw [if_pos h]
theorem dt_tryFromUsecs_err (u : Int) (h : ¬ IntervalDT.isValidUsecs u) :
    IntervalDT.tryFromUsecs u = .error .IntervalOutOfRange := by
  unfold IntervalDT.tryFromUsecs; rw [if_neg h]

/-! ### time of day -/

theorem tryFromNDT_T (dt : NDT) (h mi s us : Nat) (e1 : dt.hour = (h : Int)) (e2 : dt.minute = (mi : Int))
    (e3 : dt.sec = (s : Int)) (e4 : dt.usec = (us : Int)) :
    (h < 24 ∧ mi < 60 ∧ s < 60 ∧ h * 3600000000 + mi * 60000000 + s * 1000000 + us < 86400000000 →
      tryFromNDT .T dt = .ok (((h * 3600000000 + mi * 60000000 + s * 1000000 + us : Nat)) : Int)) ∧
    (¬ (h < 24 ∧ mi < 60 ∧ s < 60 ∧ h * 3600000000 + mi * 60000000 + s * 1000000 + us < 86400000000) →
      ∃ e, tryFromNDT .T dt = .error e) := by
  simp only [tryFromNDT, e1, e2, e3, e4, bind, Except.bind, USECONDS_PER_HOUR, USECONDS_PER_MINUTE, USECONDS_PER_SECOND]
  constructor
  · rintro ⟨a, b, c, d⟩
    rw [(validateHms_nat h mi s).2 ⟨a, b, c⟩]
    simp only []
    have hv : isValidTime ((h : Int) * 3600000000 + (mi : Int) * 60000000 + (s : Int) * 1000000 + (us : Int)) :=
      (isValidTime_iff _).2 (by omega)
    unfold Time.tryFromUsecs
    rw [if_pos hv]
    congr 1
  · intro hn
    by_cases hc : h < 24 ∧ mi < 60 ∧ s < 60
    · rw [(validateHms_nat h mi s).2 hc]
      simp only []
      have hv : ¬ isValidTime ((h : Int) * 3600000000 + (mi : Int) * 60000000 + (s : Int) * 1000000 + (us : Int)) := by
        intro hv; have := (isValidTime_iff _).1 hv; apply hn; exact ⟨hc.1, hc.2.1, hc.2.2, by omega⟩
      unfold Time.tryFromUsecs
      rw [if_neg hv]
      exact ⟨_, rfl⟩
    · obtain ⟨e, he⟩ := validateHms_err h mi s hc
      rw [he]; exact ⟨e, rfl⟩

theorem final_T (now : Clock) (p : Parts) (s : Bytes) (r : Nat) (hok : PartsOK .T p) : FinalGoal .T now p s r := by
  unfold FinalGoal
  rw [tail_nodate .T now p s r rfl hok]
  obtain ⟨hgood, hbad⟩ := tryFromNDT_T (conc .T p s r).dt (hourOf p) (p.minute.getD 0) (p.second.getD 0) (p.usec.getD 0)
    rfl rfl rfl rfl
  cases ht : timeOf p with
  | none =>
    have hn := timeOf_none p ht
    obtain ⟨e, he⟩ := hbad (fun h => hn ⟨h.1, h.2.1, h.2.2.1⟩)
    simp only [assemble, ht, Option.bind_none, he, bind, Except.bind]
    exact ⟨e, rfl⟩
  | some t =>
    obtain ⟨a, b, c, e⟩ := timeOf_some p t ht
    by_cases hlt : t < 86400000000
    · have he := hgood ⟨a, b, c, by omega⟩
      simp only [assemble, ht, Option.bind_some, hlt, ↓reduceIte, he, bind, Except.bind, pure, Except.pure]
      exact ⟨r, by rw [e]⟩
    · obtain ⟨e', he⟩ := hbad (fun h => hlt (by omega))
      simp only [assemble, ht, Option.bind_some, hlt, ↓reduceIte, he, bind, Except.bind]
      exact ⟨e', rfl⟩

/-! ### year-month interval -/

theorem final_YM (now : Clock) (p : Parts) (s : Bytes) (r : Nat) (hok : PartsOK .YM p) : FinalGoal .YM now p s r := by
  unfold FinalGoal
  rw [tail_nodate .YM now p s r rfl hok]
  obtain ⟨Y, hY, hY0, hY9⟩ : ∃ Y : Int, p.year.getD 0 = Y ∧ 0 ≤ Y ∧ Y < 1000000000 := by
    cases hy : p.year with
    | none => exact ⟨0, rfl, by omega, by omega⟩
    | some y => obtain ⟨a, b⟩ := hok.ymYear rfl y hy; exact ⟨y, rfl, a, b⟩
  have hasu : asU32 Y = Y := by unfold asU32; omega
  have hyr : (conc .YM p s r).dt.year = if p.neg = true then -Y else Y := by
    simp only [conc, yearRep]
    cases hy : p.year with
    | none => simp [hy] at hY; subst hY; simp
    | some y => simp [hy] at hY; subst hY; simp
  have hspec := C13.ym_tryFromYm_spec Y ((p.month.getD 0 : Nat) : Int) hY0 (by omega)
  simp only [assemble, hY]
  simp only [tryFromNDT, hyr, bind, Except.bind]
  have hmon : (conc .YM p s r).dt.month = ((p.month.getD 0 : Nat) : Int) := rfl
  have hneg : (conc .YM p s r).dt.negative = p.neg := rfl
  rw [hmon, hneg]
  by_cases hc : p.month.getD 0 < 12 ∧ Y * 12 + ((p.month.getD 0 : Nat) : Int) ≤ 2136000000
  · have c1 : ¬ (Y > 178000000 ∨ (Y = 178000000 ∧ ((p.month.getD 0 : Nat) : Int) ≠ 0)) := by omega
    have c2 : ¬ ((p.month.getD 0 : Nat) : Int) ≥ 12 := by omega
    rw [if_neg c1, if_neg c2] at hspec
    simp only [hc, and_self, ↓reduceIte]
    cases hn : p.neg with
    | false =>
      simp only [Bool.false_eq_true, ↓reduceIte, hasu, hspec, pure, Except.pure]
      exact ⟨r, rfl⟩
    | true =>
      simp only [↓reduceIte, Int.neg_neg, hasu, hspec, pure, Except.pure, IntervalYM.negate]
      exact ⟨r, rfl⟩
  · have herr : ∃ e, IntervalYM.tryFromYm Y ((p.month.getD 0 : Nat) : Int) = .error e := by
      rw [hspec]
      by_cases c1 : Y > 178000000 ∨ (Y = 178000000 ∧ ((p.month.getD 0 : Nat) : Int) ≠ 0)
      · rw [if_pos c1]; exact ⟨_, rfl⟩
      · rw [if_neg c1]
        have c2 : ((p.month.getD 0 : Nat) : Int) ≥ 12 := by omega
        rw [if_pos c2]; exact ⟨_, rfl⟩
    obtain ⟨e, he⟩ := herr
    simp only [hc, ↓reduceIte]
    cases hn : p.neg with
    | false =>
      simp only [Bool.false_eq_true, ↓reduceIte, hasu, he]
      exact ⟨e, rfl⟩
    | true =>
      simp only [↓reduceIte, Int.neg_neg, hasu, he]
      exact ⟨e, rfl⟩

/-! ### day-time interval -/

theorem tryFromNDT_DT_unfold (dt : NDT) :
    tryFromNDT .DT dt = (IntervalDT.tryFromDhms dt.day dt.hour dt.minute dt.sec 0 >>= fun whole =>
      IntervalDT.tryFromUsecs (whole + dt.usec) >>= fun v =>
      pure (if dt.negative then IntervalDT.negate v else v)) := rfl

theorem tryFromNDT_DT (dt : NDT) (d h mi s us : Nat) (neg : Bool) (e0 : dt.day = (d : Int)) (e1 : dt.hour = (h : Int))
    (e2 : dt.minute = (mi : Int)) (e3 : dt.sec = (s : Int)) (e4 : dt.usec = (us : Int)) (en : dt.negative = neg) :
    (h < 24 ∧ mi < 60 ∧ s < 60 ∧
        86400000000 * d + (h * 3600000000 + mi * 60000000 + s * 1000000 + us) ≤ 8640000000000000000 →
      tryFromNDT .DT dt =
        .ok (if neg = true then -((86400000000 * d + (h * 3600000000 + mi * 60000000 + s * 1000000 + us) : Nat) : Int)
             else ((86400000000 * d + (h * 3600000000 + mi * 60000000 + s * 1000000 + us) : Nat) : Int))) ∧
    (¬ (h < 24 ∧ mi < 60 ∧ s < 60 ∧
        86400000000 * d + (h * 3600000000 + mi * 60000000 + s * 1000000 + us) ≤ 8640000000000000000) →
      ∃ e, tryFromNDT .DT dt = .error e) := by
  have hspec := C13.dt_tryFromDhms_spec (d : Int) (h : Int) (mi : Int) (s : Int) 0 (by omega) (by omega) (by omega)
    (by omega) (by omega)
  rw [tryFromNDT_DT_unfold, e0, e1, e2, e3, e4, en]
  by_cases c1 : (d : Int) > 100000000 ∨ ((d : Int) = 100000000 ∧ ((h : Int) ≠ 0 ∨ (mi : Int) ≠ 0 ∨ (s : Int) ≠ 0 ∨ (0 : Int) ≠ 0))
  · rw [if_pos c1] at hspec
    rw [hspec, bind_err]
    exact ⟨fun hc => by omega, fun _ => ⟨_, rfl⟩⟩
  · rw [if_neg c1] at hspec
    by_cases c2 : (h : Int) ≥ 24
    · rw [if_pos c2] at hspec; rw [hspec, bind_err]
      exact ⟨fun hc => by omega, fun _ => ⟨_, rfl⟩⟩
    · rw [if_neg c2] at hspec
      by_cases c3 : (mi : Int) ≥ 60
      · rw [if_pos c3] at hspec; rw [hspec, bind_err]
        exact ⟨fun hc => by omega, fun _ => ⟨_, rfl⟩⟩
      · rw [if_neg c3] at hspec
        by_cases c4 : (s : Int) ≥ 60
        · rw [if_pos c4] at hspec; rw [hspec, bind_err]
          exact ⟨fun hc => by omega, fun _ => ⟨_, rfl⟩⟩
        · have c5 : ¬ (0 : Int) ≥ 1000000 := by omega
          rw [if_neg c4, if_neg c5] at hspec
          rw [hspec, bind_ok]
          have ecast : (d : Int) * 86400000000 + (h : Int) * 3600000000 + (mi : Int) * 60000000 + (s : Int) * 1000000 + 0 +
              (us : Int) = ((86400000000 * d + (h * 3600000000 + mi * 60000000 + s * 1000000 + us) : Nat) : Int) := by
            omega
          rw [ecast]
          by_cases hle : 86400000000 * d + (h * 3600000000 + mi * 60000000 + s * 1000000 + us) ≤ 8640000000000000000
          · have hv : IntervalDT.isValidUsecs
                (((86400000000 * d + (h * 3600000000 + mi * 60000000 + s * 1000000 + us) : Nat)) : Int) := by
              unfold IntervalDT.isValidUsecs INTERVAL_MAX_USECONDS; omega
            rw [dt_tryFromUsecs_ok _ hv, bind_ok]
            refine ⟨fun _ => rfl, fun hn => absurd ⟨by omega, by omega, by omega, hle⟩ hn⟩
          · have hv : ¬ IntervalDT.isValidUsecs
                (((86400000000 * d + (h * 3600000000 + mi * 60000000 + s * 1000000 + us) : Nat)) : Int) := by
              unfold IntervalDT.isValidUsecs INTERVAL_MAX_USECONDS; omega
            rw [dt_tryFromUsecs_err _ hv, bind_err]
            exact ⟨fun hc => absurd hc.2.2.2 hle, fun _ => ⟨_, rfl⟩⟩

theorem final_DT (now : Clock) (p : Parts) (s : Bytes) (r : Nat) (hok : PartsOK .DT p) : FinalGoal .DT now p s r := by
  unfold FinalGoal
  rw [tail_nodate .DT now p s r rfl hok]
  have hday : (conc .DT p s r).dt.day = ((p.day.getD 0 : Nat) : Int) := by
    simp only [conc, dayRep]; cases p.day <;> simp
  obtain ⟨hgood, hbad⟩ := tryFromNDT_DT (conc .DT p s r).dt (p.day.getD 0) (hourOf p) (p.minute.getD 0) (p.second.getD 0)
    (p.usec.getD 0) p.neg hday rfl rfl rfl rfl rfl
  cases ht : timeOf p with
  | none =>
    have hn := timeOf_none p ht
    obtain ⟨e, he⟩ := hbad (fun h => hn ⟨h.1, h.2.1, h.2.2.1⟩)
    simp only [assemble, ht, Option.bind_none, he, bind, Except.bind]
    exact ⟨e, rfl⟩
  | some t =>
    obtain ⟨a, b, c, e⟩ := timeOf_some p t ht
    by_cases hle : 86400000000 * p.day.getD 0 + t ≤ 8640000000000000000
    · have he := hgood ⟨a, b, c, by omega⟩
      simp only [assemble, ht, Option.bind_some, hle, ↓reduceIte, he, bind, Except.bind, pure, Except.pure]
      exact ⟨r, by rw [e]⟩
    · obtain ⟨e', he⟩ := hbad (fun h => hle (by omega))
      simp only [assemble, ht, Option.bind_some, hle, ↓reduceIte, he, bind, Except.bind]
      exact ⟨e', rfl⟩

end SqlDt.Lemmas
