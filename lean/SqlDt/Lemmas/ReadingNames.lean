/-
  Lemmas/ReadingNames: month names, weekday names and AM/PM written in any letter case, read by the crate's
  `parse_month_name`, `parse_week_day_name`, `parse_ampm`.
-/
import SqlDt.Lemmas.ReadingText
namespace SqlDt.Lemmas
open SqlDt Gen Spec Parser

/-! ### case-insensitive prefix test = exact prefix test on the lower-cased bytes -/

theorem toLowerB_eq (c : Nat) : toLowerB c = if 65 ≤ c ∧ c ≤ 90 then c + 32 else c := by
  unfold toLowerB isUpperB; by_cases h : 65 ≤ c ∧ c ≤ 90 <;> simp [h]

theorem upperB_eq (c : Nat) : upperB c = if 97 ≤ c ∧ c ≤ 122 then c - 32 else c := by
  unfold upperB isLowerB; by_cases h : 97 ≤ c ∧ c ≤ 122 <;> simp [h]

theorem toLowerB_idem (c : Nat) : toLowerB (toLowerB c) = toLowerB c := by
  simp only [toLowerB_eq]
  repeat' split
  all_goals omega

theorem toLowerB_upperB (c : Nat) : toLowerB (upperB c) = toLowerB c := by
  simp only [toLowerB_eq, upperB_eq]
  repeat' split
  all_goals omega

theorem lower_append (a b : Bytes) : lower (a ++ b) = lower a ++ lower b := by simp [lower]
theorem lower_length (a : Bytes) : (lower a).length = a.length := by simp [lower]
theorem lower_idem (a : Bytes) : lower (lower a) = lower a := by
  simp [lower, toLowerB_idem]

theorem lower_recase : ∀ (mask : List Bool) (a : Bytes), lower (recase mask a) = lower a
  | _, [] => by cases ‹List Bool› <;> rfl
  | [], c :: cs => rfl
  | b :: bs, c :: cs => by
    have ih := lower_recase bs cs
    simp only [lower, List.map_cons, recase] at ih ⊢
    cases b <;> simp [toLowerB_upperB, ih]

theorem recase_length : ∀ (mask : List Bool) (a : Bytes), (recase mask a).length = a.length
  | _, [] => by cases ‹List Bool› <;> rfl
  | [], c :: cs => rfl
  | b :: bs, c :: cs => by simp [recase, recase_length bs cs]

theorem startsWithCI_lower : ∀ (s n : Bytes), startsWithCI s n = startsWith (lower s) (lower n)
  | _, [] => by simp [startsWithCI, startsWith, lower]
  | [], b :: n => by simp [startsWithCI, startsWith, lower]
  | a :: s, b :: n => by
    have ih := startsWithCI_lower s n
    simp only [lower, List.map_cons, startsWithCI, startsWith, eqIgnoreCaseB] at ih ⊢
    rw [ih]

/-- the two byte strings differ at a position where both are defined -/
def differ : Bytes → Bytes → Bool
  | a :: as, b :: bs => a != b || differ as bs
  | _, _ => false

theorem startsWith_differ : ∀ (a n r : Bytes), differ a n = true → startsWith (a ++ r) n = false
  | [], _, _, h => by simp [differ] at h
  | _ :: _, [], _, h => by simp [differ] at h
  | a :: as, b :: bs, r, h => by
    simp only [differ, Bool.or_eq_true, bne_iff_ne, ne_eq] at h
    simp only [List.cons_append, startsWith]
    by_cases e : a = b
    · subst e
      have := startsWith_differ as bs r (by simpa using h)
      simp [this]
    · simp [e]

theorem startsWith_same : ∀ (a r m : Bytes), startsWith (a ++ r) (a ++ m) = startsWith r m
  | [], _, _ => rfl
  | a :: as, r, m => by simp [startsWith, startsWith_same as r m]

theorem startsWith_nil (r : Bytes) : startsWith r [] = true := by cases r <;> rfl

/-! ### `findName` -/

theorem findName_hit (x rest : Bytes) : ∀ (row : List Bytes) (i k : Nat), i < row.length →
    (∀ j, j < i → differ (lower x) (lower (row.getD j [])) = true) →
    lower (row.getD i []) = lower x →
    findName (x ++ rest) row k = some (k + i, x.length)
  | [], i, k, hi, _, _ => by simp at hi
  | n :: ns, 0, k, _, _, heq => by
    simp only [List.getD_cons_zero] at heq
    have hl : n.length = x.length := by rw [← lower_length n, heq, lower_length]
    have : startsWithCI (x ++ rest) n = true := by
      rw [startsWithCI_lower, lower_append, heq]
      have := startsWith_same (lower x) (lower rest) []
      simpa [startsWith_nil] using this
    simp [findName, this, hl]
  | n :: ns, i + 1, k, hi, hlt, heq => by
    have h0 := hlt 0 (by omega)
    simp only [List.getD_cons_zero] at h0
    have : startsWithCI (x ++ rest) n = false := by
      rw [startsWithCI_lower, lower_append]; exact startsWith_differ _ _ _ h0
    simp only [findName, this]
    have := findName_hit x rest ns i (k + 1) (by simpa using hi)
      (fun j hj => by simpa using hlt (j + 1) (by omega)) (by simpa using heq)
    rw [this]; simp; omega

theorem findName_miss (s : Bytes) : ∀ (row : List Bytes) (k : Nat),
    (∀ j, j < row.length → startsWithCI s (row.getD j []) = false) → findName s row k = none
  | [], _, _ => rfl
  | n :: ns, k, h => by
    have h0 := h 0 (by simp)
    simp only [List.getD_cons_zero] at h0
    simp only [findName, h0]
    exact findName_miss s ns (k + 1) (fun j hj => by simpa using h (j + 1) (by simpa using hj))

/-! ### the name tables -/

def mRow0 : List Bytes := MONTH_NAME_TABLE.getD NAMESTYLE_CAPITAL []
def mRow3 : List Bytes := MONTH_NAME_TABLE.getD NAMESTYLE_ABBRCAPITAL []
def dRow0 : List Bytes := DAY_NAME_TABLE.getD NAMESTYLE_CAPITAL []
def dRow3 : List Bytes := DAY_NAME_TABLE.getD NAMESTYLE_ABBRCAPITAL []

theorem mRow0_len : mRow0.length = 12 := by decide
theorem mRow3_len : mRow3.length = 12 := by decide
theorem dRow0_len : dRow0.length = 7 := by decide
theorem dRow3_len : dRow3.length = 7 := by decide
theorem mRow0_lower : ∀ i, i < 12 → lower (mRow0.getD i []) = lower (monthNames.getD i []) := by decide
theorem mRow3_lower : ∀ i, i < 12 → lower (mRow3.getD i []) = lower ((monthNames.getD i []).take 3) := by decide
theorem dRow0_lower : ∀ i, i < 7 → lower (dRow0.getD i []) = lower (dayNames.getD i []) := by decide
theorem dRow3_lower : ∀ i, i < 7 → lower (dRow3.getD i []) = lower ((dayNames.getD i []).take 3) := by decide

theorem month_differ : ∀ i, i < 12 → ∀ j, j < 12 → i ≠ j →
    differ (lower (monthNames.getD i [])) (lower (monthNames.getD j [])) = true ∧
    differ (lower ((monthNames.getD i []).take 3)) (lower (monthNames.getD j [])) = true ∧
    differ (lower ((monthNames.getD i []).take 3)) (lower ((monthNames.getD j []).take 3)) = true := by decide

theorem day_differ : ∀ i, i < 7 → ∀ j, j < 7 → i ≠ j →
    differ (lower (dayNames.getD i [])) (lower (dayNames.getD j [])) = true ∧
    differ (lower ((dayNames.getD i []).take 3)) (lower ((dayNames.getD j []).take 3)) = true := by decide

/-- a name starts with a lower-case letter -/
def headLower : Bytes → Bool
  | c :: _ => isLowerB c
  | [] => false

theorem month_head : ∀ i, i < 12 → headLower (monthNames.getD i []) = true ∧ headLower ((monthNames.getD i []).take 3) = true ∧
    3 ≤ (monthNames.getD i []).length := by
  decide
theorem day_head : ∀ i, i < 7 → headLower (dayNames.getD i []) = true ∧ headLower ((dayNames.getD i []).take 3) = true := by
  decide

/-- bytes of a letter, either case: not white space, not a digit, not a sign -/
theorem letter_facts (c : Nat) (b : Bool) (h : isLowerB c = true) :
    let x := if b then upperB c else c
    isWhitespaceB x = false ∧ isDigitB x = false ∧ x ≠ B '+' ∧ x ≠ B '-' := by
  have h' := h
  simp only [isLowerB, Bool.and_eq_true, decide_eq_true_eq] at h'
  have e1 : B '+' = 43 := rfl
  have e2 : B '-' = 45 := rfl
  cases b
  · simp only [Bool.false_eq_true, ↓reduceIte, e1, e2]
    refine ⟨?_, ?_, by omega, by omega⟩
    · simp [isWhitespaceB]; omega
    · simp [isDigitB]; omega
  · simp only [↓reduceIte, upperB, h, e1, e2]
    refine ⟨?_, ?_, by omega, by omega⟩
    · simp [isWhitespaceB]; omega
    · simp [isDigitB]; omega

theorem recase_head (mask : List Bool) (a : Bytes) (h : headLower a = true) :
    ∃ (b : Bool) (c : Nat) (r : Bytes), recase mask a = (if b then upperB c else c) :: r ∧ isLowerB c = true := by
  cases a with
  | nil => simp [headLower] at h
  | cons c cs =>
    cases mask with
    | nil => exact ⟨false, c, cs, by simp [recase], h⟩
    | cons b bs => exact ⟨b, c, _, rfl, h⟩

theorem eatWs_name (mask : List Bool) (a rest : Bytes) (h : headLower a = true) :
    eatWhitespaces (recase mask a ++ rest) = recase mask a ++ rest := by
  obtain ⟨b, c, r, e, hc⟩ := recase_head mask a h
  rw [e]
  exact eatWs_nonws _ _ (letter_facts c b hc).1

/-- a name is not a number: `parse_number` fails on it (so that `MM` falls back to month names) -/
theorem parseNumber_name (mask : List Bool) (a rest : Bytes) (k : Nat) (h : headLower a = true) :
    parseNumber (recase mask a ++ rest) k = .error .ParseError := by
  obtain ⟨b, c, r, e, hc⟩ := recase_head mask a h
  obtain ⟨_, h2, h3, h4⟩ := letter_facts c b hc
  rw [e]
  simp only [List.cons_append, parseNumber, h3, h4, ↓reduceIte]
  have : eatDigits ((if b = true then upperB c else c) :: (r ++ rest)) k = ([], (if b = true then upperB c else c) :: (r ++ rest)) := by
    unfold eatDigits
    cases k with
    | zero => simp
    | succ k => simp [List.take_succ_cons, h2]
  simp only [this]
  rfl

theorem name_nonempty (mask : List Bool) (a rest : Bytes) (h : headLower a = true) :
    (recase mask a ++ rest).isEmpty = false := by
  obtain ⟨b, c, r, e, _⟩ := recase_head mask a h
  rw [e]; rfl

/-! ### month names -/

theorem startsWithCI_append_spaces : ∀ (a m : Bytes) (tb : Nat), (∀ c ∈ m, toLowerB c ≠ 32) →
    startsWithCI (a ++ spaces tb) m = startsWithCI a m
  | _, [], _, _ => by simp [startsWithCI]
  | [], c :: m, tb, h => by
    have hc := h c (by simp)
    cases tb with
    | zero => simp [spaces]
    | succ tb =>
      rw [List.nil_append, spaces_succ]
      simp only [startsWithCI, eqIgnoreCaseB]
      have : toLowerB 32 = 32 := by decide
      rw [this]
      have : (32 == toLowerB c) = false := by
        simp only [beq_eq_false_iff_ne, ne_eq]; exact fun e => hc e.symm
      simp [this]
  | a :: as, c :: m, tb, h => by
    simp only [List.cons_append, startsWithCI]
    rw [startsWithCI_append_spaces as m tb (fun x hx => h x (by simp [hx]))]

theorem month_tail_noblank : ∀ i, i < 12 → ∀ c ∈ (monthNames.getD i []).drop 3, toLowerB c ≠ 32 := by decide

/-- Full or abbreviated month name `k`, any letter case.  For an abbreviation, the text that follows must not
    continue with the rest of the full name (clause (b) of `Delimited`). -/
theorem parseMonthName_lex (k : Nat) (hk : 1 ≤ k ∧ k ≤ 12) (abbr : Bool) (mask : List Bool) (rest : Bytes)
    (hdel : abbr = true → (monthNames.getD (k - 1) []).length ≤ 3 ∨
      startsWithCI rest ((monthNames.getD (k - 1) []).drop 3) = false) :
    parseMonthName (recase mask (if abbr then (monthNames.getD (k - 1) []).take 3 else monthNames.getD (k - 1) []) ++ rest)
      = .ok ((k : Int), rest) := by
  obtain ⟨i, rfl⟩ : ∃ i, k = i + 1 := ⟨k - 1, by omega⟩
  have hi : i < 12 := by omega
  simp only [Nat.add_sub_cancel] at hdel ⊢
  generalize hnm : monthNames.getD i [] = nm at hdel ⊢
  have full : ∀ (mask : List Bool), parseMonthName (recase mask nm ++ rest) = .ok (((i + 1 : Nat) : Int), rest) := by
    intro mask
    have := findName_hit (recase mask nm) rest mRow0 i 1 (by rw [mRow0_len]; exact hi)
      (fun j hj => by
        rw [lower_recase, mRow0_lower j (by omega), ← hnm]
        exact (month_differ i hi j (by omega) (by omega)).1)
      (by rw [lower_recase, mRow0_lower i hi, hnm])
    unfold parseMonthName
    show (match findName (recase mask nm ++ rest) mRow0 1 with | some (i, len) => _ | none => _) = _
    rw [this]
    simp only [Int.ofNat_eq_natCast, recase_length]
    rw [← recase_length mask nm, List.drop_left]
    congr 2; omega
  cases abbr with
  | false => simpa using full mask
  | true =>
    simp only [↓reduceIte]
    rcases hdel rfl with hshort | hlong
    · rw [List.take_of_length_le hshort]; exact full mask
    · have hmiss : findName (recase mask (nm.take 3) ++ rest) mRow0 1 = none := by
        apply findName_miss
        intro j hj
        have hj12 : j < 12 := by rw [mRow0_len] at hj; exact hj
        rw [startsWithCI_lower, lower_append, lower_recase, mRow0_lower j hj12]
        by_cases e : j = i
        · subst e
          rw [hnm]
          have hsplit : lower nm = lower (nm.take 3) ++ lower (nm.drop 3) := by
            rw [← lower_append, List.take_append_drop]
          rw [hsplit, startsWith_same, ← startsWithCI_lower]; exact hlong
        · rw [← hnm]; exact startsWith_differ _ _ _ (month_differ i hi j hj12 (fun h => e h.symm)).2.1
      have hhit := findName_hit (recase mask (nm.take 3)) rest mRow3 i 1 (by rw [mRow3_len]; exact hi)
        (fun j hj => by
          rw [lower_recase, mRow3_lower j (by omega), ← hnm]
          exact (month_differ i hi j (by omega) (by omega)).2.2)
        (by rw [lower_recase, mRow3_lower i hi, hnm])
      unfold parseMonthName
      show (match findName (recase mask (nm.take 3) ++ rest) mRow0 1 with
        | some (i, len) => _
        | none => match findName (recase mask (nm.take 3) ++ rest) mRow3 1 with | some (i, len) => _ | none => _) = _
      rw [hmiss]
      simp only []
      rw [hhit]
      simp only [Int.ofNat_eq_natCast]
      rw [List.drop_left]
      congr 2; omega

/-! ### weekday names -/

theorem parseWeekDayName_lex (style : NameStyle) (k : Nat) (hk : 1 ≤ k ∧ k ≤ 7) (mask : List Bool) (rest : Bytes) :
    parseWeekDayName (recase mask (if isAbbrStyle style then (dayNames.getD (k - 1) []).take 3 else dayNames.getD (k - 1) []) ++ rest)
      style = .ok ((k : Int), rest) := by
  obtain ⟨i, rfl⟩ : ∃ i, k = i + 1 := ⟨k - 1, by omega⟩
  have hi : i < 7 := by omega
  simp only [Nat.add_sub_cancel]
  generalize hnm : dayNames.getD i [] = nm
  have full : parseWeekDayName (recase mask nm ++ rest) .Capital = .ok (((i + 1 : Nat) : Int), rest) := by
    have := findName_hit (recase mask nm) rest dRow0 i 1 (by rw [dRow0_len]; exact hi)
      (fun j hj => by
        rw [lower_recase, dRow0_lower j (by omega), ← hnm]
        exact (day_differ i hi j (by omega) (by omega)).1)
      (by rw [lower_recase, dRow0_lower i hi, hnm])
    unfold parseWeekDayName
    show (match findName (recase mask nm ++ rest) dRow0 1 with | some (i, len) => _ | none => _) = _
    rw [this]
    simp only [Int.ofNat_eq_natCast]
    rw [List.drop_left]
    congr 2; omega
  have abbr : parseWeekDayName (recase mask (nm.take 3) ++ rest) .AbbrCapital = .ok (((i + 1 : Nat) : Int), rest) := by
    have := findName_hit (recase mask (nm.take 3)) rest dRow3 i 1 (by rw [dRow3_len]; exact hi)
      (fun j hj => by
        rw [lower_recase, dRow3_lower j (by omega), ← hnm]
        exact (day_differ i hi j (by omega) (by omega)).2)
      (by rw [lower_recase, dRow3_lower i hi, hnm])
    unfold parseWeekDayName
    show (match findName (recase mask (nm.take 3) ++ rest) dRow3 1 with | some (i, len) => _ | none => _) = _
    rw [this]
    simp only [Int.ofNat_eq_natCast]
    rw [List.drop_left]
    congr 2; omega
  cases style <;> first | exact full | exact abbr

/-! ### AM / PM -/

theorem parseAmPm_lex (style : AmPmStyle) (pm : Bool) (mask : List Bool) (rest : Bytes) :
    parseAmPm (recase mask (meridianBase (dotted (.AmPm style)) pm) ++ rest) style = .ok (some pm, rest) := by
  have hne : ∀ a : Bytes, a ≠ [] → ∀ m, (recase m a ++ rest).isEmpty = false := by
    intro a ha m
    cases a with
    | nil => exact absurd rfl ha
    | cons c cs => cases m <;> rfl
  have hdrop : ∀ a : Bytes, (recase mask a ++ rest).drop a.length = rest := by
    intro a; rw [← recase_length mask a, List.drop_left]
  have n1 := hne [97, 109] (by simp) mask
  have n2 := hne [112, 109] (by simp) mask
  have n3 := hne [97, 46, 109, 46] (by simp) mask
  have n4 := hne [112, 46, 109, 46] (by simp) mask
  cases style <;> cases pm <;>
    simp only [dotted, meridianBase, ↓reduceIte, Bool.false_eq_true, parseAmPm, n1, n2, n3, n4, startsWithCI_lower,
      lower_append, lower_recase]
  all_goals first
    | (have := hdrop [97, 109]; simp [lower, toLowerB, isUpperB, B, startsWith] at this ⊢; exact this)
    | (have := hdrop [112, 109]; simp [lower, toLowerB, isUpperB, B, startsWith] at this ⊢; exact this)
    | (have := hdrop [97, 46, 109, 46]; simp [lower, toLowerB, isUpperB, B, startsWith] at this ⊢; exact this)
    | (have := hdrop [112, 46, 109, 46]; simp [lower, toLowerB, isUpperB, B, startsWith] at this ⊢; exact this)

theorem eatWs_meridian (dots pm : Bool) (mask : List Bool) (rest : Bytes) :
    eatWhitespaces (recase mask (meridianBase dots pm) ++ rest) = recase mask (meridianBase dots pm) ++ rest := by
  apply eatWs_name
  cases dots <;> cases pm <;> rfl

end SqlDt.Lemmas
