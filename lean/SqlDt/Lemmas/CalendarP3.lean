/-
  Lemmas/CalendarP3: kernel evaluation of the round-trip checker `CalCheck.chk` on the days [55296, 73728)
  counted from 0001-01-01: one of 8 chunks covering the 400-year period of 146097 days (the last chunk
  overshoots, harmlessly).  Generated text; 18 blocks of 1024 days, each a single `decide +kernel`.
  Used by Lemmas/Calendar.
-/
import SqlDt.Lemmas.CalendarCheck
namespace SqlDt.Lemmas.CalCheck

theorem chunk3_0 : allRange chk 10 55296 = true := by decide +kernel
theorem chunk3_1 : allRange chk 10 56320 = true := by decide +kernel
theorem chunk3_2 : allRange chk 10 57344 = true := by decide +kernel
theorem chunk3_3 : allRange chk 10 58368 = true := by decide +kernel
theorem chunk3_4 : allRange chk 10 59392 = true := by decide +kernel
theorem chunk3_5 : allRange chk 10 60416 = true := by decide +kernel
theorem chunk3_6 : allRange chk 10 61440 = true := by decide +kernel
theorem chunk3_7 : allRange chk 10 62464 = true := by decide +kernel
theorem chunk3_8 : allRange chk 10 63488 = true := by decide +kernel
theorem chunk3_9 : allRange chk 10 64512 = true := by decide +kernel
theorem chunk3_10 : allRange chk 10 65536 = true := by decide +kernel
theorem chunk3_11 : allRange chk 10 66560 = true := by decide +kernel
theorem chunk3_12 : allRange chk 10 67584 = true := by decide +kernel
theorem chunk3_13 : allRange chk 10 68608 = true := by decide +kernel
theorem chunk3_14 : allRange chk 10 69632 = true := by decide +kernel
theorem chunk3_15 : allRange chk 10 70656 = true := by decide +kernel
theorem chunk3_16 : allRange chk 10 71680 = true := by decide +kernel
theorem chunk3_17 : allRange chk 10 72704 = true := by decide +kernel

theorem chunk3 (n : Nat) (h1 : 55296 ≤ n) (h2 : n < 73728) : chk n = true := by
  have s := allRange_sound chk 10
  by_cases c0 : n < 56320
  · exact s _ chunk3_0 n (by omega) (by omega)
  by_cases c1 : n < 57344
  · exact s _ chunk3_1 n (by omega) (by omega)
  by_cases c2 : n < 58368
  · exact s _ chunk3_2 n (by omega) (by omega)
  by_cases c3 : n < 59392
  · exact s _ chunk3_3 n (by omega) (by omega)
  by_cases c4 : n < 60416
  · exact s _ chunk3_4 n (by omega) (by omega)
  by_cases c5 : n < 61440
  · exact s _ chunk3_5 n (by omega) (by omega)
  by_cases c6 : n < 62464
  · exact s _ chunk3_6 n (by omega) (by omega)
  by_cases c7 : n < 63488
  · exact s _ chunk3_7 n (by omega) (by omega)
  by_cases c8 : n < 64512
  · exact s _ chunk3_8 n (by omega) (by omega)
  by_cases c9 : n < 65536
  · exact s _ chunk3_9 n (by omega) (by omega)
  by_cases c10 : n < 66560
  · exact s _ chunk3_10 n (by omega) (by omega)
  by_cases c11 : n < 67584
  · exact s _ chunk3_11 n (by omega) (by omega)
  by_cases c12 : n < 68608
  · exact s _ chunk3_12 n (by omega) (by omega)
  by_cases c13 : n < 69632
  · exact s _ chunk3_13 n (by omega) (by omega)
  by_cases c14 : n < 70656
  · exact s _ chunk3_14 n (by omega) (by omega)
  by_cases c15 : n < 71680
  · exact s _ chunk3_15 n (by omega) (by omega)
  by_cases c16 : n < 72704
  · exact s _ chunk3_16 n (by omega) (by omega)
  exact s _ chunk3_17 n (by omega) (by omega)

end SqlDt.Lemmas.CalCheck
