/-
  Lemmas/ReadingInv: facts about the components collected by `Spec.collect` that the final conversion needs —
  interval years are small non-negative numbers, and an Oracle-style date never has a fraction.
-/
import SqlDt.Lemmas.ReadingFields
namespace SqlDt.Lemmas
open SqlDt Gen Spec Parser

/-- What the final conversion relies on. -/
structure PartsOK (ty : Ty) (p : Parts) : Prop where
  ymYear : ty = .YM → ∀ y, p.year = some y → 0 ≤ y ∧ y < 1000000000
  odUsec : ty = .OD → p.usec = none
  noDate : hasDate ty = false → p.doy = none ∧ p.dow = none

theorem partsOK_init (ty : Ty) : PartsOK ty ({} : Parts) := by
  constructor
  · intro _ y h; cases h
  · intro _; rfl
  · intro _; exact ⟨rfl, rfl⟩

theorem step_partsOK (ty : Ty) (now : Clock) (p p' : Parts) (f : Field) (l : Lex)
    (h : step ty now p f l = some p') (hfit : l.fits ty f = true) (hp : PartsOK ty p) : PartsOK ty p' := by
  unfold step at h
  split at h
  · cases h
  · rename_i happ
    have happ' : applicable ty f = true := by simpa using happ
    refine ⟨?_, ?_, ?_⟩
    · intro hty y hy
      subst hty
      cases f <;> cases l <;> simp only [] at h <;> (try (repeat' split at h)) <;> (try cases h) <;>
        first
        | exact hp.ymYear rfl y hy
        | (simp [Lex.fits, happ'] at hfit
           simp [completeYear] at hy
           omega)
    · intro hty
      subst hty
      cases f <;> cases l <;> simp only [] at h <;> (try (repeat' split at h)) <;> (try cases h) <;>
        first
        | exact hp.odUsec rfl
        | (simp [applicable, hasFraction] at happ')
    · intro hty
      have hpd := hp.noDate hty
      cases f <;> cases l <;> simp only [] at h <;> (try (repeat' split at h)) <;> (try cases h) <;>
        first
        | exact hpd
        | (simp [applicable, hty] at happ')

theorem collect_partsOK (ty : Ty) (now : Clock) : ∀ (items : List (Field × Lex)) (p p' : Parts),
    collect ty now p items = some p' → (∀ q ∈ items, q.2.fits ty q.1 = true) → PartsOK ty p → PartsOK ty p'
  | [], p, p', h, _, hp => by simp [collect] at h; subst h; exact hp
  | (f, l) :: rest, p, p', h, hfit, hp => by
    simp only [collect] at h
    cases hs : step ty now p f l with
    | none => simp [hs] at h
    | some p1 =>
      simp only [hs, Option.bind_some] at h
      exact collect_partsOK ty now rest p1 p' h (fun q hq => hfit q (by simp [hq]))
        (step_partsOK ty now p p1 f l hs (hfit (f, l) (by simp)) hp)

end SqlDt.Lemmas
