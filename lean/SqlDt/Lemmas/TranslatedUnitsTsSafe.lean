/-
  Lemmas/TranslatedUnitsTsSafe (hand-written, stable; groups 4 and 5 of phase 5): the safety predicates `Tr.f_safe` of the
  calendar units of `Timestamp` and of the Oracle wrappers proved in Lemmas/TranslatedUnitsTs, for a VALID receiver
  (`isValidTimestamp ts` / `OracleDate.isValidDate od`).  Same namespace (`SqlDt.TrSafe`) and attribute (`tr_safe`) as
  Lemmas/TranslatedSafe.

  What the proofs need beyond the callees' theorems: the value a unit returns is again a valid date / timestamp (so that
  `and_zero_time` / `from_timestamp` are applied to a valid value).  That comes from Lemmas/UnitsModel (the model's units
  compute the range-checked closed forms of Spec/Units), which is imported for this purpose only.
-/
import SqlDt.Lemmas.TranslatedUnitsSafe
import SqlDt.Lemmas.TranslatedUnitsTs
import SqlDt.Lemmas.UnitsModel
set_option linter.unusedVariables false
set_option linter.unusedSimpArgs false
-- (Lemmas/UnitsModel brings Mathlib's linters along; the `first | (unfold …; exact True.intro) | …` shape trips these two)
set_option linter.unusedTactic false
set_option linter.unreachableTactic false
namespace SqlDt.TrSafe
open SqlDt SqlDt.Gen SqlDt.TrTactic SqlDt.TrEq SqlDt.TrEq.TsU

namespace TsU

/-! ### the results of the model's units are valid values (from Lemmas/UnitsModel: the units compute the spec's closed forms,
    range-checked) -/

theorem inRangeDay_ok_valid (b r : Int) (h : Spec.inRangeDay b = .ok r) : isValidDate r := by
  unfold Spec.inRangeDay Spec.MIN_DAY Spec.MAX_DAY at h
  split at h
  · cases h; rw [isValidDate_iff]; assumption
  · cases h

/-- a valid day number is the day number of its calendar date -/
theorem valid_date_ymd (d : Int) (hd : isValidDate d) :
    Spec.ValidYMD (Date.extract d).1 (Date.extract d).2.1 (Date.extract d).2.2 ∧
    Spec.dayNumber (Date.extract d).1 (Date.extract d).2.1 (Date.extract d).2.2 = d := by
  obtain ⟨hv, hb⟩ := SqlDt.Lemmas.extract_roundtrip d hd
  refine ⟨hv, ?_⟩
  rw [← SqlDt.Lemmas.fromYmd_eq_dayNumber _ _ _ ⟨by have := hv.1; omega, by have := hv.2.1; omega⟩ ⟨hv.2.2.1, hv.2.2.2.1⟩]
  exact hb

theorem date_trunc_ok_valid (u : TUnit) (d r : Int) (hd : isValidDate d) (h : Date.trunc u d = .ok r) : isValidDate r := by
  obtain ⟨hv, hn⟩ := valid_date_ymd d hd
  rw [← hn, SqlDt.Lemmas.date_trunc_eq u _ _ _ hv] at h
  exact inRangeDay_ok_valid _ _ h

theorem date_round_ok_valid (u : TUnit) (d r : Int) (hd : isValidDate d) (h : Date.round u d = .ok r) : isValidDate r := by
  obtain ⟨hv, hn⟩ := valid_date_ymd d hd
  by_cases hc : u = .century ∧ (Date.extract d).1 % 100 = 0
  · obtain ⟨hu, hy⟩ := hc
    subst hu
    have h9 : (Date.extract d).1 ≤ 9900 := by have := hv.2.1; omega
    rw [← hn, (SqlDt.Lemmas.date_round_century_dev _ _ _ hv hy h9).1] at h
    cases h
    rw [isValidDate_iff]
    exact SqlDt.Lemmas.dayNumber_range _ 1 1 ⟨by have := hv.1; omega, by have := hv.2.1; omega,
      SqlDt.Lemmas.UM.isDate_first _ 1 (by omega)⟩
  · rw [← hn, SqlDt.Lemmas.date_round_eq u _ _ _ hv (fun hu hy => hc ⟨hu, by omega⟩)] at h
    exact inRangeDay_ok_valid _ _ h


theorem new_zero_valid (d : Int) (hd : isValidDate d) : isValidTimestamp (Timestamp.new d 0) := by
  rw [isValidDate_iff] at hd; rw [isValidTimestamp_iff]; unfold Timestamp.new USECONDS_PER_DAY; omega

theorem ts_date_valid (ts : Int) (hts : isValidTimestamp ts) : isValidDate (Timestamp.date ts) := by
  rw [SqlDt.Timestamp.date_eq]; exact valid_ts_date ts hts

/-- `unit(date)?.and_zero_time()` on a valid date -/
theorem bind_new_ok_valid (c : Chk Int) (r : Int) (hc : ∀ d, c = .ok d → isValidDate d)
    (h : (c >>= fun d => pure (Timestamp.new d 0)) = .ok r) : isValidTimestamp r := by
  cases c with
  | error e => cases h
  | ok d =>
    simp only [bind, Except.bind, pure, Except.pure, Except.ok.injEq] at h
    subst h
    exact new_zero_valid d (hc d rfl)

theorem ts_trunc_ok_valid (u : TUnit) (ts r : Int) (hts : isValidTimestamp ts) (h : Timestamp.trunc u ts = .ok r) :
    isValidTimestamp r := by
  have hb := (isValidTimestamp_iff ts).1 hts
  have hdv := ts_date_valid ts hts
  obtain ⟨hv, hn⟩ := valid_date_ymd _ (valid_ts_date ts hts)
  cases u
  case hour =>
    rw [SqlDt.Lemmas.ts_trunc_eq .hour ts hts _ _ _ hv hn] at h
    simp only [Spec.truncTsOf, Except.ok.injEq] at h
    rw [isValidTimestamp_iff]; omega
  case minute =>
    rw [SqlDt.Lemmas.ts_trunc_eq .minute ts hts _ _ _ hv hn] at h
    simp only [Spec.truncTsOf, Except.ok.injEq] at h
    rw [isValidTimestamp_iff]; omega
  case day =>
    simp only [Timestamp.trunc, Except.ok.injEq] at h
    subst h
    exact new_zero_valid _ hdv
  all_goals
    simp only [Timestamp.trunc] at h
    exact bind_new_ok_valid _ r (fun d hd => date_trunc_ok_valid _ _ d hdv hd) h

theorem shiftHalfDay_ok_valid (ts d : Int) (hts : isValidTimestamp ts) (h : Timestamp.shiftHalfDay ts = .ok d) :
    isValidDate d := by
  rw [SqlDt.Lemmas.UM.shiftHalfDay_eq ts hts] at h
  exact inRangeDay_ok_valid _ _ h

/-- the four week roundings: `unit(shifted date)?.and_zero_time()` -/
theorem shift_bind_ok_valid (ts r : Int) (f : Int → Chk Int) (hts : isValidTimestamp ts)
    (hf : ∀ d v, isValidDate d → f d = .ok v → isValidDate v)
    (h : (Timestamp.shiftHalfDay ts >>= fun date => f date >>= fun d => pure (Timestamp.new d 0)) = .ok r) :
    isValidTimestamp r := by
  cases hs : Timestamp.shiftHalfDay ts with
  | error e => rw [hs] at h; cases h
  | ok date =>
    rw [hs] at h
    exact bind_new_ok_valid (f date) r (fun d hd => hf date d (shiftHalfDay_ok_valid ts date hts hs) hd) h

theorem inRangeTs_ok_valid (b r : Int) (h : Spec.inRangeTs b = .ok r) : isValidTimestamp r := by
  unfold Spec.inRangeTs Spec.MIN_DAY Spec.MAX_DAY Spec.DAY_US at h
  split at h
  · cases h; rw [isValidTimestamp_iff]; omega
  · cases h

theorem ts_round_ok_valid (u : TUnit) (ts r : Int) (hts : isValidTimestamp ts) (h : Timestamp.round u ts = .ok r) :
    isValidTimestamp r := by
  have hdv := ts_date_valid ts hts
  cases u
  case hour =>
    rw [SqlDt.Lemmas.UM.ts_round_hour ts hts (0, 0, 0)] at h
    exact inRangeTs_ok_valid _ _ h
  case minute =>
    rw [SqlDt.Lemmas.UM.ts_round_minute ts hts (0, 0, 0)] at h
    exact inRangeTs_ok_valid _ _ h
  case day =>
    simp only [Timestamp.round] at h
    split at h
    · exact bind_new_ok_valid _ r (fun d hd => addDays_ok_valid _ _ _ hd) h
    · simp only [bind, Except.bind, pure, Except.pure, Except.ok.injEq] at h
      subst h
      exact new_zero_valid _ hdv
  case week =>
    exact shift_bind_ok_valid ts r (fun d => Date.round .week d) hts (fun d v hd hv => date_round_ok_valid _ d v hd hv) h
  case isoWeek =>
    exact shift_bind_ok_valid ts r (fun d => Date.round .isoWeek d) hts (fun d v hd hv => date_round_ok_valid _ d v hd hv) h
  case monthStartWeek =>
    exact shift_bind_ok_valid ts r (fun d => Date.round .monthStartWeek d) hts (fun d v hd hv => date_round_ok_valid _ d v hd hv) h
  case sundayStartWeek =>
    exact shift_bind_ok_valid ts r (fun d => Date.round .sundayStartWeek d) hts (fun d v hd hv => date_round_ok_valid _ d v hd hv) h
  all_goals
    simp only [Timestamp.round] at h
    exact bind_new_ok_valid _ r (fun d hd => date_round_ok_valid _ _ d hdv hd) h


theorem subDays_ok_valid (d k v : Int) (h : Date.subDays d k = .ok v) : isValidDate v := by
  unfold Date.subDays Date.tryFromDays at h
  split at h
  · split at h
    · cases h; assumption
    · cases h
  · cases h

/-- a week-table step (`sub_to_date` / `current_date`) of a valid date -/
theorem applyWeekTable_ok_valid (tbl : List (Bool × Int)) (i d r : Int) (hd : isValidDate d)
    (h : Date.applyWeekTable tbl i d = .ok r) : isValidDate r := by
  unfold Date.applyWeekTable at h
  simp only [bind, Except.bind, pure, Except.pure] at h
  split at h
  · cases h
  · split at h
    · exact subDays_ok_valid _ _ _ h
    · cases h; exact hd

theorem roundWeekInternal_ok_valid (d y r : Int) (hd : isValidDate d) (h : Date.roundWeekInternal d y = .ok r) :
    isValidDate r := applyWeekTable_ok_valid _ _ _ _ hd h

theorem roundMonthStartWeekInternal_ok_valid (d day r : Int) (hd : isValidDate d)
    (h : Date.roundMonthStartWeekInternal d day = .ok r) : isValidDate r := applyWeekTable_ok_valid _ _ _ _ hd h

/-- the half-day shift written as an expression (`if … { date.add_days(1) } else { Ok(date) }`) of a valid date -/
theorem ite_addDays_ok_valid (c : Prop) [Decidable c] (d k r : Int) (hd : isValidDate d)
    (h : (if c then Date.addDays d k else Except.ok d) = .ok r) : isValidDate r := by
  split at h
  · exact addDays_ok_valid _ _ _ h
  · cases h; exact hd

/-- the two internal helpers of the week roundings as the `Timestamp` units call them: on a valid date with the year /
    the day of the month of that date (their CONTRACT hypotheses then hold) -/
theorem round_week_internal_safe_of_valid (d : Int) (hd : isValidDate d) :
    Tr.Date.round_week_internal_safe d (Date.extract d).1 := by
  have hx := extract_valid d hd
  exact Date.round_week_internal_safe d _ hd ⟨by omega, by omega⟩ (first_of_year_le d hd) (first_of_year_valid d hd)

theorem round_month_start_week_internal_safe_of_valid (d : Int) (hd : isValidDate d) :
    Tr.Date.round_month_start_week_internal_safe d (Date.extract d).2.2 := by
  have hx := extract_valid d hd
  exact Date.round_month_start_week_internal_safe d _ hd (by unfold fitsI32 I32_MIN I32_MAX; omega) (by omega)

end TsU
open TsU

set_option hygiene false in
/-- after a `split` of `match f args with | .ok r => …`: what the case hypothesis tells about the bound result -/
macro "tr_ts_sfacts" : tactic => `(tactic| (
  try (rename_i hcase
       with_reducible first
       | ((first
            | have hv1 := addDays_ok_valid _ _ _ hcase
            | have hv1 := ite_addDays_ok_valid _ _ _ _ (by with_reducible assumption) hcase)
          have hr1 := valid_date_range _ hv1
          have hx1 := extract_valid _ hv1
          have hf1 := first_of_year_le _ hv1)
       | (have hv2 := roundWeekInternal_ok_valid _ _ _ (by with_reducible assumption) hcase)
       | (have hv2 := roundMonthStartWeekInternal_ok_valid _ _ _ (by with_reducible assumption) hcase)
       | (have hv2 := date_trunc_ok_valid _ _ _ (by with_reducible assumption) hcase)
       | (have hv2 := date_round_ok_valid _ _ _ (by with_reducible assumption) hcase)
       | (have hv2 := ts_trunc_ok_valid _ _ _ (by with_reducible assumption) hcase)
       | (have hv2 := ts_round_ok_valid _ _ _ (by with_reducible assumption) hcase))))

macro "tr_ts_scite" : tactic => `(tactic|
  simp (disch := first | (with_reducible assumption) | tr_sdisch) only [tr_eq, tr_safe, hour_cast, asI32_eq,
    round_week_internal_safe_of_valid, round_month_start_week_internal_safe_of_valid, true_and, and_true, implies_true])

/-- conjunct by conjunct; a `match` on a callee's result is split and the validity of the result recorded -/
macro "tr_ts_sauto" : tactic => `(tactic| (
  repeat' (first
    | exact True.intro
    | tr_ts_scite
    | dsimp only
    | with_reducible apply And.intro
    | with_reducible intro _
    | (split <;> tr_ts_sfacts))
  all_goals tr_safe_auto))


/-! ## `Trunc for Timestamp` -/

@[tr_safe] theorem Timestamp.trunc_century_safe (ts : Int) (hts : isValidTimestamp ts) : Tr.Timestamp.trunc_century_safe ts := by
  first
  | (unfold Tr.Timestamp.trunc_century_safe; exact True.intro)
  | (unfold Tr.Timestamp.trunc_century_safe
     have hb := (isValidTimestamp_iff ts).1 hts
     have hv := ts_date_valid ts hts
     have hr := valid_date_range _ hv
     tr_ts_sauto)

@[tr_safe] theorem Timestamp.trunc_year_safe (ts : Int) (hts : isValidTimestamp ts) : Tr.Timestamp.trunc_year_safe ts := by
  first
  | (unfold Tr.Timestamp.trunc_year_safe; exact True.intro)
  | (unfold Tr.Timestamp.trunc_year_safe
     have hb := (isValidTimestamp_iff ts).1 hts
     have hv := ts_date_valid ts hts
     have hr := valid_date_range _ hv
     tr_ts_sauto)

@[tr_safe] theorem Timestamp.trunc_quarter_safe (ts : Int) (hts : isValidTimestamp ts) : Tr.Timestamp.trunc_quarter_safe ts := by
  first
  | (unfold Tr.Timestamp.trunc_quarter_safe; exact True.intro)
  | (unfold Tr.Timestamp.trunc_quarter_safe
     have hb := (isValidTimestamp_iff ts).1 hts
     have hv := ts_date_valid ts hts
     have hr := valid_date_range _ hv
     tr_ts_sauto)

@[tr_safe] theorem Timestamp.trunc_month_safe (ts : Int) (hts : isValidTimestamp ts) : Tr.Timestamp.trunc_month_safe ts := by
  first
  | (unfold Tr.Timestamp.trunc_month_safe; exact True.intro)
  | (unfold Tr.Timestamp.trunc_month_safe
     have hb := (isValidTimestamp_iff ts).1 hts
     have hv := ts_date_valid ts hts
     have hr := valid_date_range _ hv
     tr_ts_sauto)

@[tr_safe] theorem Timestamp.trunc_week_safe (ts : Int) (hts : isValidTimestamp ts) : Tr.Timestamp.trunc_week_safe ts := by
  first
  | (unfold Tr.Timestamp.trunc_week_safe; exact True.intro)
  | (unfold Tr.Timestamp.trunc_week_safe
     have hb := (isValidTimestamp_iff ts).1 hts
     have hv := ts_date_valid ts hts
     have hr := valid_date_range _ hv
     tr_ts_sauto)

@[tr_safe] theorem Timestamp.trunc_iso_week_safe (ts : Int) (hts : isValidTimestamp ts) : Tr.Timestamp.trunc_iso_week_safe ts := by
  first
  | (unfold Tr.Timestamp.trunc_iso_week_safe; exact True.intro)
  | (unfold Tr.Timestamp.trunc_iso_week_safe
     have hb := (isValidTimestamp_iff ts).1 hts
     have hv := ts_date_valid ts hts
     have hr := valid_date_range _ hv
     tr_ts_sauto)

@[tr_safe] theorem Timestamp.trunc_month_start_week_safe (ts : Int) (hts : isValidTimestamp ts) : Tr.Timestamp.trunc_month_start_week_safe ts := by
  first
  | (unfold Tr.Timestamp.trunc_month_start_week_safe; exact True.intro)
  | (unfold Tr.Timestamp.trunc_month_start_week_safe
     have hb := (isValidTimestamp_iff ts).1 hts
     have hv := ts_date_valid ts hts
     have hr := valid_date_range _ hv
     tr_ts_sauto)

@[tr_safe] theorem Timestamp.trunc_sunday_start_week_safe (ts : Int) (hts : isValidTimestamp ts) : Tr.Timestamp.trunc_sunday_start_week_safe ts := by
  first
  | (unfold Tr.Timestamp.trunc_sunday_start_week_safe; exact True.intro)
  | (unfold Tr.Timestamp.trunc_sunday_start_week_safe
     have hb := (isValidTimestamp_iff ts).1 hts
     have hv := ts_date_valid ts hts
     have hr := valid_date_range _ hv
     tr_ts_sauto)

/-! ## `Round for Timestamp` -/

@[tr_safe] theorem Timestamp.round_century_safe (ts : Int) (hts : isValidTimestamp ts) : Tr.Timestamp.round_century_safe ts := by
  first
  | (unfold Tr.Timestamp.round_century_safe; exact True.intro)
  | (unfold Tr.Timestamp.round_century_safe
     have hb := (isValidTimestamp_iff ts).1 hts
     have hv := ts_date_valid ts hts
     have hr := valid_date_range _ hv
     tr_ts_sauto)

@[tr_safe] theorem Timestamp.round_year_safe (ts : Int) (hts : isValidTimestamp ts) : Tr.Timestamp.round_year_safe ts := by
  first
  | (unfold Tr.Timestamp.round_year_safe; exact True.intro)
  | (unfold Tr.Timestamp.round_year_safe
     have hb := (isValidTimestamp_iff ts).1 hts
     have hv := ts_date_valid ts hts
     have hr := valid_date_range _ hv
     tr_ts_sauto)

@[tr_safe] theorem Timestamp.round_quarter_safe (ts : Int) (hts : isValidTimestamp ts) : Tr.Timestamp.round_quarter_safe ts := by
  first
  | (unfold Tr.Timestamp.round_quarter_safe; exact True.intro)
  | (unfold Tr.Timestamp.round_quarter_safe
     have hb := (isValidTimestamp_iff ts).1 hts
     have hv := ts_date_valid ts hts
     have hr := valid_date_range _ hv
     tr_ts_sauto)

@[tr_safe] theorem Timestamp.round_month_safe (ts : Int) (hts : isValidTimestamp ts) : Tr.Timestamp.round_month_safe ts := by
  first
  | (unfold Tr.Timestamp.round_month_safe; exact True.intro)
  | (unfold Tr.Timestamp.round_month_safe
     have hb := (isValidTimestamp_iff ts).1 hts
     have hv := ts_date_valid ts hts
     have hr := valid_date_range _ hv
     tr_ts_sauto)

@[tr_safe] theorem Timestamp.round_week_safe (ts : Int) (hts : isValidTimestamp ts) : Tr.Timestamp.round_week_safe ts := by
  first
  | (unfold Tr.Timestamp.round_week_safe; exact True.intro)
  | (unfold Tr.Timestamp.round_week_safe
     have hb := (isValidTimestamp_iff ts).1 hts
     have hx := ts_extract_time_range ts
     have hv := ts_extract_date_valid ts hts
     have hr := valid_date_range _ hv
     have hxv := extract_valid _ hv
     have hf := first_of_year_le _ hv
     tr_ts_sauto)

@[tr_safe] theorem Timestamp.round_iso_week_safe (ts : Int) (hts : isValidTimestamp ts) : Tr.Timestamp.round_iso_week_safe ts := by
  first
  | (unfold Tr.Timestamp.round_iso_week_safe; exact True.intro)
  | (unfold Tr.Timestamp.round_iso_week_safe
     have hb := (isValidTimestamp_iff ts).1 hts
     have hx := ts_extract_time_range ts
     have hv := ts_extract_date_valid ts hts
     have hr := valid_date_range _ hv
     have hxv := extract_valid _ hv
     have hf := first_of_year_le _ hv
     tr_ts_sauto)

@[tr_safe] theorem Timestamp.round_month_start_week_safe (ts : Int) (hts : isValidTimestamp ts) : Tr.Timestamp.round_month_start_week_safe ts := by
  first
  | (unfold Tr.Timestamp.round_month_start_week_safe; exact True.intro)
  | (unfold Tr.Timestamp.round_month_start_week_safe
     have hb := (isValidTimestamp_iff ts).1 hts
     have hx := ts_extract_time_range ts
     have hv := ts_extract_date_valid ts hts
     have hr := valid_date_range _ hv
     have hxv := extract_valid _ hv
     have hf := first_of_year_le _ hv
     tr_ts_sauto)

@[tr_safe] theorem Timestamp.round_sunday_start_week_safe (ts : Int) (hts : isValidTimestamp ts) : Tr.Timestamp.round_sunday_start_week_safe ts := by
  first
  | (unfold Tr.Timestamp.round_sunday_start_week_safe; exact True.intro)
  | (unfold Tr.Timestamp.round_sunday_start_week_safe
     have hb := (isValidTimestamp_iff ts).1 hts
     have hx := ts_extract_time_range ts
     have hv := ts_extract_date_valid ts hts
     have hr := valid_date_range _ hv
     have hxv := extract_valid _ hv
     have hf := first_of_year_le _ hv
     tr_ts_sauto)

@[tr_safe] theorem Timestamp.round_day_safe (ts : Int) (hts : isValidTimestamp ts) : Tr.Timestamp.round_day_safe ts := by
  first
  | (unfold Tr.Timestamp.round_day_safe; exact True.intro)
  | (unfold Tr.Timestamp.round_day_safe
     have hb := (isValidTimestamp_iff ts).1 hts
     have hv := ts_date_valid ts hts
     have hv' := ts_extract_date_valid ts hts
     tr_ts_sauto)

@[tr_safe] theorem Timestamp.round_hour_safe (ts : Int) (hts : isValidTimestamp ts) : Tr.Timestamp.round_hour_safe ts := by
  first
  | (unfold Tr.Timestamp.round_hour_safe; exact True.intro)
  | (unfold Tr.Timestamp.round_hour_safe
     have hb := (isValidTimestamp_iff ts).1 hts
     have hv := ts_date_valid ts hts
     try simp (disch := omega) only [SqlDt.TrEq.Timestamp.time_eq, SqlDt.Timestamp.time_eq, SqlDt.TrEq.Time.extract_eq,
       SqlDt.Time.extract_eq]
     tr_ts_sauto)

@[tr_safe] theorem Timestamp.round_minute_safe (ts : Int) (hts : isValidTimestamp ts) : Tr.Timestamp.round_minute_safe ts := by
  first
  | (unfold Tr.Timestamp.round_minute_safe; exact True.intro)
  | (unfold Tr.Timestamp.round_minute_safe
     have hb := (isValidTimestamp_iff ts).1 hts
     have hv := ts_date_valid ts hts
     try simp (disch := omega) only [SqlDt.TrEq.Timestamp.time_eq, SqlDt.Timestamp.time_eq, SqlDt.TrEq.Time.extract_eq,
       SqlDt.Time.extract_eq]
     tr_ts_sauto)

/-! ## `Trunc / Round for oracle::Date` -/

@[tr_safe] theorem OracleDate.trunc_century_safe (od : Int) (hod : OracleDate.isValidDate od) : Tr.OracleDate.trunc_century_safe od := by
  first
  | (unfold Tr.OracleDate.trunc_century_safe; exact True.intro)
  | (unfold Tr.OracleDate.trunc_century_safe
     have hts : isValidTimestamp od := hod.1
     have hb := (isValidTimestamp_iff od).1 hts
     tr_ts_sauto)

@[tr_safe] theorem OracleDate.trunc_year_safe (od : Int) (hod : OracleDate.isValidDate od) : Tr.OracleDate.trunc_year_safe od := by
  first
  | (unfold Tr.OracleDate.trunc_year_safe; exact True.intro)
  | (unfold Tr.OracleDate.trunc_year_safe
     have hts : isValidTimestamp od := hod.1
     have hb := (isValidTimestamp_iff od).1 hts
     tr_ts_sauto)

@[tr_safe] theorem OracleDate.trunc_quarter_safe (od : Int) (hod : OracleDate.isValidDate od) : Tr.OracleDate.trunc_quarter_safe od := by
  first
  | (unfold Tr.OracleDate.trunc_quarter_safe; exact True.intro)
  | (unfold Tr.OracleDate.trunc_quarter_safe
     have hts : isValidTimestamp od := hod.1
     have hb := (isValidTimestamp_iff od).1 hts
     tr_ts_sauto)

@[tr_safe] theorem OracleDate.trunc_month_safe (od : Int) (hod : OracleDate.isValidDate od) : Tr.OracleDate.trunc_month_safe od := by
  first
  | (unfold Tr.OracleDate.trunc_month_safe; exact True.intro)
  | (unfold Tr.OracleDate.trunc_month_safe
     have hts : isValidTimestamp od := hod.1
     have hb := (isValidTimestamp_iff od).1 hts
     tr_ts_sauto)

@[tr_safe] theorem OracleDate.trunc_week_safe (od : Int) (hod : OracleDate.isValidDate od) : Tr.OracleDate.trunc_week_safe od := by
  first
  | (unfold Tr.OracleDate.trunc_week_safe; exact True.intro)
  | (unfold Tr.OracleDate.trunc_week_safe
     have hts : isValidTimestamp od := hod.1
     have hb := (isValidTimestamp_iff od).1 hts
     tr_ts_sauto)

@[tr_safe] theorem OracleDate.trunc_iso_week_safe (od : Int) (hod : OracleDate.isValidDate od) : Tr.OracleDate.trunc_iso_week_safe od := by
  first
  | (unfold Tr.OracleDate.trunc_iso_week_safe; exact True.intro)
  | (unfold Tr.OracleDate.trunc_iso_week_safe
     have hts : isValidTimestamp od := hod.1
     have hb := (isValidTimestamp_iff od).1 hts
     tr_ts_sauto)

@[tr_safe] theorem OracleDate.trunc_month_start_week_safe (od : Int) (hod : OracleDate.isValidDate od) : Tr.OracleDate.trunc_month_start_week_safe od := by
  first
  | (unfold Tr.OracleDate.trunc_month_start_week_safe; exact True.intro)
  | (unfold Tr.OracleDate.trunc_month_start_week_safe
     have hts : isValidTimestamp od := hod.1
     have hb := (isValidTimestamp_iff od).1 hts
     tr_ts_sauto)

@[tr_safe] theorem OracleDate.trunc_day_safe (od : Int) (hod : OracleDate.isValidDate od) : Tr.OracleDate.trunc_day_safe od := by
  first
  | (unfold Tr.OracleDate.trunc_day_safe; exact True.intro)
  | (unfold Tr.OracleDate.trunc_day_safe
     have hts : isValidTimestamp od := hod.1
     have hb := (isValidTimestamp_iff od).1 hts
     tr_ts_sauto)

@[tr_safe] theorem OracleDate.trunc_sunday_start_week_safe (od : Int) (hod : OracleDate.isValidDate od) : Tr.OracleDate.trunc_sunday_start_week_safe od := by
  first
  | (unfold Tr.OracleDate.trunc_sunday_start_week_safe; exact True.intro)
  | (unfold Tr.OracleDate.trunc_sunday_start_week_safe
     have hts : isValidTimestamp od := hod.1
     have hb := (isValidTimestamp_iff od).1 hts
     tr_ts_sauto)

@[tr_safe] theorem OracleDate.trunc_hour_safe (od : Int) (hod : OracleDate.isValidDate od) : Tr.OracleDate.trunc_hour_safe od := by
  first
  | (unfold Tr.OracleDate.trunc_hour_safe; exact True.intro)
  | (unfold Tr.OracleDate.trunc_hour_safe
     have hts : isValidTimestamp od := hod.1
     have hb := (isValidTimestamp_iff od).1 hts
     tr_ts_sauto)

@[tr_safe] theorem OracleDate.trunc_minute_safe (od : Int) (hod : OracleDate.isValidDate od) : Tr.OracleDate.trunc_minute_safe od := by
  first
  | (unfold Tr.OracleDate.trunc_minute_safe; exact True.intro)
  | (unfold Tr.OracleDate.trunc_minute_safe
     have hts : isValidTimestamp od := hod.1
     have hb := (isValidTimestamp_iff od).1 hts
     tr_ts_sauto)

@[tr_safe] theorem OracleDate.round_century_safe (od : Int) (hod : OracleDate.isValidDate od) : Tr.OracleDate.round_century_safe od := by
  first
  | (unfold Tr.OracleDate.round_century_safe; exact True.intro)
  | (unfold Tr.OracleDate.round_century_safe
     have hts : isValidTimestamp od := hod.1
     have hb := (isValidTimestamp_iff od).1 hts
     tr_ts_sauto)

@[tr_safe] theorem OracleDate.round_year_safe (od : Int) (hod : OracleDate.isValidDate od) : Tr.OracleDate.round_year_safe od := by
  first
  | (unfold Tr.OracleDate.round_year_safe; exact True.intro)
  | (unfold Tr.OracleDate.round_year_safe
     have hts : isValidTimestamp od := hod.1
     have hb := (isValidTimestamp_iff od).1 hts
     tr_ts_sauto)

@[tr_safe] theorem OracleDate.round_quarter_safe (od : Int) (hod : OracleDate.isValidDate od) : Tr.OracleDate.round_quarter_safe od := by
  first
  | (unfold Tr.OracleDate.round_quarter_safe; exact True.intro)
  | (unfold Tr.OracleDate.round_quarter_safe
     have hts : isValidTimestamp od := hod.1
     have hb := (isValidTimestamp_iff od).1 hts
     tr_ts_sauto)

@[tr_safe] theorem OracleDate.round_month_safe (od : Int) (hod : OracleDate.isValidDate od) : Tr.OracleDate.round_month_safe od := by
  first
  | (unfold Tr.OracleDate.round_month_safe; exact True.intro)
  | (unfold Tr.OracleDate.round_month_safe
     have hts : isValidTimestamp od := hod.1
     have hb := (isValidTimestamp_iff od).1 hts
     tr_ts_sauto)

@[tr_safe] theorem OracleDate.round_week_safe (od : Int) (hod : OracleDate.isValidDate od) : Tr.OracleDate.round_week_safe od := by
  first
  | (unfold Tr.OracleDate.round_week_safe; exact True.intro)
  | (unfold Tr.OracleDate.round_week_safe
     have hts : isValidTimestamp od := hod.1
     have hb := (isValidTimestamp_iff od).1 hts
     tr_ts_sauto)

@[tr_safe] theorem OracleDate.round_iso_week_safe (od : Int) (hod : OracleDate.isValidDate od) : Tr.OracleDate.round_iso_week_safe od := by
  first
  | (unfold Tr.OracleDate.round_iso_week_safe; exact True.intro)
  | (unfold Tr.OracleDate.round_iso_week_safe
     have hts : isValidTimestamp od := hod.1
     have hb := (isValidTimestamp_iff od).1 hts
     tr_ts_sauto)

@[tr_safe] theorem OracleDate.round_month_start_week_safe (od : Int) (hod : OracleDate.isValidDate od) : Tr.OracleDate.round_month_start_week_safe od := by
  first
  | (unfold Tr.OracleDate.round_month_start_week_safe; exact True.intro)
  | (unfold Tr.OracleDate.round_month_start_week_safe
     have hts : isValidTimestamp od := hod.1
     have hb := (isValidTimestamp_iff od).1 hts
     tr_ts_sauto)

@[tr_safe] theorem OracleDate.round_day_safe (od : Int) (hod : OracleDate.isValidDate od) : Tr.OracleDate.round_day_safe od := by
  first
  | (unfold Tr.OracleDate.round_day_safe; exact True.intro)
  | (unfold Tr.OracleDate.round_day_safe
     have hts : isValidTimestamp od := hod.1
     have hb := (isValidTimestamp_iff od).1 hts
     tr_ts_sauto)

@[tr_safe] theorem OracleDate.round_sunday_start_week_safe (od : Int) (hod : OracleDate.isValidDate od) : Tr.OracleDate.round_sunday_start_week_safe od := by
  first
  | (unfold Tr.OracleDate.round_sunday_start_week_safe; exact True.intro)
  | (unfold Tr.OracleDate.round_sunday_start_week_safe
     have hts : isValidTimestamp od := hod.1
     have hb := (isValidTimestamp_iff od).1 hts
     tr_ts_sauto)

@[tr_safe] theorem OracleDate.round_hour_safe (od : Int) (hod : OracleDate.isValidDate od) : Tr.OracleDate.round_hour_safe od := by
  first
  | (unfold Tr.OracleDate.round_hour_safe; exact True.intro)
  | (unfold Tr.OracleDate.round_hour_safe
     have hts : isValidTimestamp od := hod.1
     have hb := (isValidTimestamp_iff od).1 hts
     tr_ts_sauto)

@[tr_safe] theorem OracleDate.round_minute_safe (od : Int) (hod : OracleDate.isValidDate od) : Tr.OracleDate.round_minute_safe od := by
  first
  | (unfold Tr.OracleDate.round_minute_safe; exact True.intro)
  | (unfold Tr.OracleDate.round_minute_safe
     have hts : isValidTimestamp od := hod.1
     have hb := (isValidTimestamp_iff od).1 hts
     tr_ts_sauto)

end SqlDt.TrSafe
