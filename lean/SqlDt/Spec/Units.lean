/-
  Spec/Units: truncation and rounding units, written directly from the calendar (Spec/Calendar): the start of the
  century / year / quarter / month containing a day, the Monday that starts its ISO year, the week starts, and
  the documented midpoints for rounding.  No Julian days, no lookup tables.   Core Lean only.
-/
import SqlDt.Spec.Calendar
import SqlDt.Model.Types
namespace SqlDt.Spec
open SqlDt

def DAY_US : Int := 86400000000
def MIN_DAY : Int := -719162
def MAX_DAY : Int := 2932896

/-- The year containing day number `n`: the greatest `y` with `dayNumber y 1 1 ≤ n` (estimate, then correct). -/
def yearOf (n : Int) : Int :=
  let y0 := (n + 719162) * 400 / 146097 + 1
  let up (y : Int) : Int := if dayNumber (y + 1) 1 1 ≤ n then y + 1 else y
  let down (y : Int) : Int := if dayNumber y 1 1 > n then y - 1 else y
  down (down (up (up y0)))

/-- The month of year `y` containing day number `n`. -/
def monthOf (y n : Int) : Int :=
  ([12, 11, 10, 9, 8, 7, 6, 5, 4, 3, 2] : List Int).foldr (fun m acc => if dayNumber y m 1 ≤ n then max acc m else acc) 1

/-- (year, month, day) of a day number, from the calendar's closed-form ordinal only. -/
def civil (n : Int) : Int × Int × Int :=
  let y := yearOf n
  let m := monthOf y n
  (y, m, n - dayNumber y m 1 + 1)

/-- Monday that starts ISO year `Y`: the Monday of the week containing 4 January. -/
def isoYearStart (Y : Int) : Int :=
  let jan4 := dayNumber Y 1 4
  jan4 - (jan4 + 3) % 7

/-- Greatest unit boundary not after day `n` (as a day number; may lie before the supported range). -/
def truncDay (u : TUnit) (n : Int) : Int :=
  let (y, m, d) := civil n
  match u with
  | .century => dayNumber ((y - 1) / 100 * 100 + 1) 1 1
  | .year => dayNumber y 1 1
  | .quarter => dayNumber y ((m - 1) / 3 * 3 + 1) 1
  | .month => dayNumber y m 1
  | .isoYear =>
    if isoYearStart (y + 1) ≤ n then isoYearStart (y + 1)
    else if isoYearStart y ≤ n then isoYearStart y else isoYearStart (y - 1)
  | .week => n - (n - dayNumber y 1 1) % 7
  | .isoWeek => n - (n + 3) % 7
  | .monthStartWeek => n - (d - 1) % 7
  | .sundayStartWeek => n - (n + 4) % 7
  | .day | .hour | .minute => n

def inRangeDay (b : Int) : Chk Int := if MIN_DAY ≤ b ∧ b ≤ MAX_DAY then .ok b else .error .DateOutOfRange

/-- `trunc` on dates. -/
def truncDate (u : TUnit) (n : Int) : Chk Int := inRangeDay (truncDay u n)

/-- `trunc` on timestamps (µs): date-sized units clear the time of day. -/
def truncTs (u : TUnit) (x : Int) : Chk Int :=
  match u with
  | .hour => .ok (x - x % 3600000000)
  | .minute => .ok (x - x % 60000000)
  | u => (inRangeDay (truncDay u (x / DAY_US))).map (· * DAY_US)

/-- First day of the unit after the one containing `n` (century, year, quarter, month). -/
def nextStart (u : TUnit) (n : Int) : Int :=
  let (y, m, _) := civil n
  match u with
  | .century => dayNumber ((y - 1) / 100 * 100 + 101) 1 1
  | .year => dayNumber (y + 1) 1 1
  | .quarter => if m ≥ 10 then dayNumber (y + 1) 1 1 else dayNumber y ((m - 1) / 3 * 3 + 4) 1
  | .month => if m = 12 then dayNumber (y + 1) 1 1 else dayNumber y (m + 1) 1
  | _ => n

/-- Rounding of a day number by the documented midpoints. -/
def roundDay (u : TUnit) (n : Int) : Int :=
  let (y, m, d) := civil n
  match u with
  | .century => if (y - 1) % 100 + 1 ≥ 51 then nextStart .century n else truncDay .century n
  | .year => if m ≥ 7 then nextStart .year n else truncDay .year n
  | .quarter =>
    let mq := (m - 1) % 3          -- 0, 1, 2 = first, second, third month of the quarter
    if mq = 2 ∨ (mq = 1 ∧ d ≥ 16) then nextStart .quarter n else truncDay .quarter n
  | .month => if d ≥ 16 then nextStart .month n else truncDay .month n
  | .isoYear => if m ≥ 7 then isoYearStart (y + 1) else truncDay .isoYear n
  | .week | .isoWeek | .monthStartWeek | .sundayStartWeek =>
    let b := truncDay u n
    if n - b ≥ 4 then b + 7 else b       -- from the fifth day of a full week on
  | .day | .hour | .minute => n

def roundDate (u : TUnit) (n : Int) : Chk Int := inRangeDay (roundDay u n)

/-- Rounding of a timestamp (µs). Week units and the day look at the instant (half-day shift: from noon of the
    fourth day / from 12:00); the other date-sized units decide on the date alone; hour and minute from :30. -/
def roundTs (u : TUnit) (x : Int) : Chk Int :=
  match u with
  | .hour => let b := x - x % 3600000000; inRangeTs (if x - b ≥ 1800000000 then b + 3600000000 else b)
  | .minute => let b := x - x % 60000000; inRangeTs (if x - b ≥ 30000000 then b + 60000000 else b)
  | .day => (inRangeDay ((x + 43200000000) / DAY_US)).map (· * DAY_US)
  | .week | .isoWeek | .monthStartWeek | .sundayStartWeek =>
    (inRangeDay ((x + 43200000000) / DAY_US)).bind fun n => (inRangeDay (roundDay u n)).map (· * DAY_US)
  | u => (inRangeDay (roundDay u (x / DAY_US))).map (· * DAY_US)
where inRangeTs (b : Int) : Chk Int :=
  if MIN_DAY * DAY_US ≤ b ∧ b ≤ (MAX_DAY + 1) * DAY_US - 1 then .ok b else .error .DateOutOfRange

end SqlDt.Spec
