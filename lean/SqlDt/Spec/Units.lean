/-
  Spec/Units: truncation and rounding units, written directly from the calendar (Spec/Calendar): the start of the
  century / year / quarter / month containing a day, the Monday that starts its ISO year, the week starts, and
  the documented midpoints for rounding.  No Julian days, no lookup tables.   Core Lean only.
-/
import SqlDt.Spec.Calendar
import SqlDt.Model.Types
namespace SqlDt.Spec
open SqlDt

def DAY_US : Int := 86400000000
def MIN_DAY : Int := -719162
def MAX_DAY : Int := 2932896

/-- The year containing day number `n`: the greatest `y` with `dayNumber y 1 1 ≤ n` (estimate, then correct). -/
def yearOf (n : Int) : Int :=
  let y0 := (n + 719162) * 400 / 146097 + 1
  let up (y : Int) : Int := if dayNumber (y + 1) 1 1 ≤ n then y + 1 else y
  let down (y : Int) : Int := if dayNumber y 1 1 > n then y - 1 else y
  down (down (up (up y0)))

/-- The month of year `y` containing day number `n`. -/
def monthOf (y n : Int) : Int :=
  ([12, 11, 10, 9, 8, 7, 6, 5, 4, 3, 2] : List Int).foldr (fun m acc => if dayNumber y m 1 ≤ n then max acc m else acc) 1

/-- (year, month, day) of a day number, from the calendar's closed-form ordinal only. -/
def civil (n : Int) : Int × Int × Int :=
  let y := yearOf n
  let m := monthOf y n
  (y, m, n - dayNumber y m 1 + 1)

/-- Monday that starts ISO year `Y`: the Monday of the week containing 4 January. -/
def isoYearStart (Y : Int) : Int :=
  let jan4 := dayNumber Y 1 4
  jan4 - (jan4 + 3) % 7

/-- Greatest unit boundary not after the day `n` whose calendar date is `(y, m, d)` (as a day number; may lie
    before the supported range). Written on the components so that theorems need no inverse of `dayNumber`. -/
def truncOf (u : TUnit) (ymd : Int × Int × Int) (n : Int) : Int :=
  let (y, m, d) := ymd
  match u with
  | .century => dayNumber ((y - 1) / 100 * 100 + 1) 1 1
  | .year => dayNumber y 1 1
  | .quarter => dayNumber y ((m - 1) / 3 * 3 + 1) 1
  | .month => dayNumber y m 1
  | .isoYear =>
    if isoYearStart (y + 1) ≤ n then isoYearStart (y + 1)
    else if isoYearStart y ≤ n then isoYearStart y else isoYearStart (y - 1)
  | .week => n - (n - dayNumber y 1 1) % 7
  | .isoWeek => n - (n + 3) % 7
  | .monthStartWeek => n - (d - 1) % 7
  | .sundayStartWeek => n - (n + 4) % 7
  | .day | .hour | .minute => n

/-- Greatest unit boundary not after day `n`. -/
def truncDay (u : TUnit) (n : Int) : Int := truncOf u (civil n) n

def inRangeDay (b : Int) : Chk Int := if MIN_DAY ≤ b ∧ b ≤ MAX_DAY then .ok b else .error .DateOutOfRange

/-- `trunc` on dates. -/
def truncDate (u : TUnit) (n : Int) : Chk Int := inRangeDay (truncDay u n)

/-- `trunc` on a timestamp `x` (µs) whose day `x / 86400e6` has the calendar date `ymd`:
    date-sized units clear the time of day. -/
def truncTsOf (u : TUnit) (ymd : Int × Int × Int) (x : Int) : Chk Int :=
  match u with
  | .hour => .ok (x - x % 3600000000)
  | .minute => .ok (x - x % 60000000)
  | u => (inRangeDay (truncOf u ymd (x / DAY_US))).map (· * DAY_US)

def truncTs (u : TUnit) (x : Int) : Chk Int := truncTsOf u (civil (x / DAY_US)) x

/-- First day of the unit after the one containing the day `(y, m, d)` (century, year, quarter, month). -/
def nextStartOf (u : TUnit) (ymd : Int × Int × Int) (n : Int) : Int :=
  let (y, m, _) := ymd
  match u with
  | .century => dayNumber ((y - 1) / 100 * 100 + 101) 1 1
  | .year => dayNumber (y + 1) 1 1
  | .quarter => if m ≥ 10 then dayNumber (y + 1) 1 1 else dayNumber y ((m - 1) / 3 * 3 + 4) 1
  | .month => if m = 12 then dayNumber (y + 1) 1 1 else dayNumber y (m + 1) 1
  | _ => n

/-- Rounding of the day `n` = `(y, m, d)` by the documented midpoints. -/
def roundOf (u : TUnit) (ymd : Int × Int × Int) (n : Int) : Int :=
  let (y, m, d) := ymd
  match u with
  | .century => if (y - 1) % 100 + 1 ≥ 51 then nextStartOf .century ymd n else truncOf .century ymd n
  | .year => if m ≥ 7 then nextStartOf .year ymd n else truncOf .year ymd n
  | .quarter =>
    let mq := (m - 1) % 3          -- 0, 1, 2 = first, second, third month of the quarter
    if mq = 2 ∨ (mq = 1 ∧ d ≥ 16) then nextStartOf .quarter ymd n else truncOf .quarter ymd n
  | .month => if d ≥ 16 then nextStartOf .month ymd n else truncOf .month ymd n
  | .isoYear => if m ≥ 7 then isoYearStart (y + 1) else truncOf .isoYear ymd n
  | .week | .isoWeek | .monthStartWeek | .sundayStartWeek =>
    let b := truncOf u ymd n
    if n - b ≥ 4 then b + 7 else b       -- from the fifth day of a full week on
  | .day | .hour | .minute => n

/-- Rounding of a day number by the documented midpoints. -/
def roundDay (u : TUnit) (n : Int) : Int := roundOf u (civil n) n

def roundDate (u : TUnit) (n : Int) : Chk Int := inRangeDay (roundDay u n)

def inRangeTs (b : Int) : Chk Int :=
  if MIN_DAY * DAY_US ≤ b ∧ b ≤ (MAX_DAY + 1) * DAY_US - 1 then .ok b else .error .DateOutOfRange

/-- The day whose calendar date decides the rounding of timestamp `x`: week units and the day unit look at the
    instant shifted by half a day (from noon of the fourth day / from 12:00), the others at the date itself. -/
def decidingDay (u : TUnit) (x : Int) : Int :=
  match u with
  | .week | .isoWeek | .monthStartWeek | .sundayStartWeek | .day => (x + 43200000000) / DAY_US
  | _ => x / DAY_US

/-- Rounding of a timestamp `x` (µs); `ymd` is the calendar date of `decidingDay u x`.
    Hour and minute round up from minute 30 / second 30. -/
def roundTsOf (u : TUnit) (ymd : Int × Int × Int) (x : Int) : Chk Int :=
  match u with
  | .hour => let b := x - x % 3600000000; inRangeTs (if x - b ≥ 1800000000 then b + 3600000000 else b)
  | .minute => let b := x - x % 60000000; inRangeTs (if x - b ≥ 30000000 then b + 60000000 else b)
  | u => (inRangeDay (decidingDay u x)).bind fun n => (inRangeDay (roundOf u ymd n)).map (· * DAY_US)

def roundTs (u : TUnit) (x : Int) : Chk Int := roundTsOf u (civil (decidingDay u x)) x

/-! ### Unit boundaries as independent predicates (what "starts a unit" means), for the theorems -/

/-- Day number `b` starts a unit `u`. -/
def IsBoundary (u : TUnit) (b : Int) : Prop :=
  ∃ y m d, IsDate y m d ∧ dayNumber y m d = b ∧
    match u with
    | .century => m = 1 ∧ d = 1 ∧ y % 100 = 1
    | .year => m = 1 ∧ d = 1
    | .quarter => d = 1 ∧ (m = 1 ∨ m = 4 ∨ m = 7 ∨ m = 10)
    | .month => d = 1
    | .isoYear => (b + 3) % 7 = 0 ∧ ∃ Y, b ≤ dayNumber Y 1 4 ∧ dayNumber Y 1 4 ≤ b + 6
    | .week => (b - dayNumber y 1 1) % 7 = 0
    | .isoWeek => (b + 3) % 7 = 0
    | .monthStartWeek => d = 1 ∨ d = 8 ∨ d = 15 ∨ d = 22 ∨ d = 29
    | .sundayStartWeek => (b + 4) % 7 = 0
    | .day | .hour | .minute => True

/-- `b` is the greatest instant satisfying `P` that is not later than `x`. -/
def GreatestLE (P : Int → Prop) (x b : Int) : Prop := P b ∧ b ≤ x ∧ ∀ b', P b' → b' ≤ x → b' ≤ b

/-- `b` is the least instant satisfying `P` that is later than `x`. -/
def LeastGT (P : Int → Prop) (x b : Int) : Prop := P b ∧ x < b ∧ ∀ b', P b' → x < b' → b ≤ b'

end SqlDt.Spec
