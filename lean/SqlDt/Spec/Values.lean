/-
  Spec/Values: the components of a raw value, computed by plain floor arithmetic and the calendar of Spec/Calendar
  (no crate code), and the specified text of `format`.  Used by the driver's `--spec` mode.   Core Lean only.
-/
import SqlDt.Spec.Render
import SqlDt.Spec.Munch
import SqlDt.Spec.Units
namespace SqlDt.Spec
open SqlDt

def timeComps (t : Int) (c : Comps) : Comps :=
  { c with hour := t / 3600000000, minute := t % 3600000000 / 60000000, sec := t % 60000000 / 1000000,
           usec := t % 1000000 }

def dateComps (n : Int) (c : Comps) : Comps :=
  let (y, m, d) := civil n
  { c with year := y, month := m, day := d, dow0 := weekday n, doy := daysBeforeMonth y m + d }

/-- Components of a valid raw value of each type. -/
def compsOf (ty : Ty) (v : Int) : Comps :=
  match ty with
  | .D => dateComps v {}
  | .T => timeComps v {}
  | .TS | .OD => timeComps (v % 86400000000) (dateComps (v / 86400000000) {})
  | .YM => let a := v.natAbs; { year := a / 12, month := a % 12, neg := decide (v < 0) }
  | .DT =>
    let a : Int := v.natAbs
    timeComps (a % 86400000000) { day := a / 86400000000, neg := decide (v < 0) }

/-- The specified result of `value.format(picture)`: compile by maximal munch, render token by token. -/
def formatSpec (ty : Ty) (v : Int) (pic : Bytes) : Chk Bytes := do
  let fields ← munch pic
  match render ty (compsOf ty v) fields with
  | some t => pure t
  | none => .error .FormatError

end SqlDt.Spec
