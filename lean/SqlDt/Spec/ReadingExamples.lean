/-
  Spec/ReadingExamples: sanity checks of Spec/Reading — what `write` produces and what `denote` says, on a dozen varied
  readings (all checked by `decide`; nothing here calls the crate's parser).
-/
import SqlDt.Spec.Reading
namespace SqlDt.Spec.Examples
open SqlDt SqlDt.Spec

def str (s : String) : Bytes := s.toList.map Char.toNat

/-- the clock: 2024-07-15 01:02:03.000004 -/
def clk : Clock := { year := 2024, month := 7, day := 15, hour := 1, minute := 2, second := 3, usec := 4 }

/-- the picture `YYYY-MM-DD HH24:MI:SS.FF9` with one lexeme per token -/
def ts (y mo d h mi s fr : Lex) (sep : Lex := .punct 0) (bl : Lex := .blank 1) : List (Field × Lex) :=
  [(.Year 4, y), (.Hyphen, sep), (.Month, mo), (.Hyphen, sep), (.Day, d), (.Blank 1, bl), (.Hour24, h), (.Colon, sep),
   (.Minute, mi), (.Colon, sep), (.Second, s), (.Dot, sep), (.Fraction (some 9), fr)]

def n (v : Nat) (zeros : Nat := 0) (blanks : Nat := 0) (sign : Sign := .none) : Lex := .num blanks sign zeros v

/-- 1. the plain form; seven fraction digits are rounded half-up to microseconds (.1234567 → .123457) -/
def r1 := ts (n 2024) (n 2 1) (n 29) (n 13) (n 5 1) (n 9 1) (.frac 0 [1, 2, 3, 4, 5, 6, 7])
example : write r1 0 = str "2024-02-29 13:05:09.1234567" := by decide
example : denote .TS r1 clk = some 1709211909123457 := by decide

/-- 2. the same instant written leniently: '+', unpadded numbers, extra blanks everywhere, trailing blanks -/
def r2 := ts (n 2024 0 1 .plus) (n 2 0 1) (n 29) (n 13 0 2) (n 5 0 1) (n 9) (.frac 1 [1, 2, 3, 4, 5, 6, 7]) (.punct 1) (.blank 0)
example : write r2 2 = str " +2024 - 2 -29  13 : 5 :9 . 1234567  " := by decide
example : denote .TS r2 clk = some 1709211909123457 := by decide

/-- 3. a month name (any case, full or abbreviated) where `MM` expects a number -/
def r3 (abbr : Bool) (mask : List Bool) : List (Field × Lex) :=
  [(.Year 4, n 2024), (.Hyphen, .punct 0), (.Month, .name 0 2 abbr mask), (.Hyphen, .punct 0), (.Day, n 29)]
example : write (r3 true []) 0 = str "2024-feb-29" := by decide
example : write (r3 false [true, false, true]) 0 = str "2024-FeBruary-29" := by decide
example : denote .D (r3 true []) clk = some 19782 ∧ denote .D (r3 false [true, false, true]) clk = some 19782 := by decide

/-- 4. 12-hour clock with a meridian indicator, either order; 12 AM is midnight -/
def r4 : List (Field × Lex) := [(.Hour12, n 1), (.Colon, .punct 0), (.Minute, n 5 1), (.Blank 1, .blank 1), (.AmPm .Upper, .meridian 0 true [false, true])]
def r4' : List (Field × Lex) := [(.AmPm .LowerDot, .meridian 0 false [true]), (.Blank 1, .blank 1), (.Hour12, n 12)]
example : write r4 0 = str "1:05 pM" ∧ write r4' 0 = str "A.m. 12" := by decide
example : denote .T r4 clk = some 47100000000 ∧ denote .T r4' clk = some 0 := by decide

/-- 5. day of the year instead of month and day; an additional consistent month is accepted, an inconsistent one is not -/
def r5 (extra : List (Field × Lex)) : List (Field × Lex) := [(.Year 4, n 2024), (.Blank 1, .blank 1), (.DayOfYear, n 60 1)] ++ extra
example : write (r5 []) 0 = str "2024 060" := by decide
example : denote .D (r5 []) clk = some 19782 := by decide
example : denote .D (r5 [(.Blank 1, .blank 1), (.Month, n 2)]) clk = some 19782 := by decide
example : denote .D (r5 [(.Blank 1, .blank 1), (.Month, n 3)]) clk = none := by decide

/-- 6. intervals: the sign belongs to the leading field -/
def r6 : List (Field × Lex) := [(.Year 4, n 1 0 0 .minus), (.Hyphen, .punct 0), (.Month, n 3)]
def r6' : List (Field × Lex) :=
  [(.Day, n 2 0 0 .plus), (.Blank 1, .blank 1), (.Hour24, n 3 1), (.Colon, .punct 0), (.Minute, n 4 1), (.Colon, .punct 0),
   (.Second, n 5 1), (.Dot, .punct 0), (.Fraction none, .frac 0 [5])]
example : write r6 0 = str "-1-3" ∧ write r6' 0 = str "+2 03:04:05.5" := by decide
example : denote .YM r6 clk = some (-15) ∧ denote .DT r6' clk = some 183845500000 := by decide

/-- 7. trailing time fields left out (dates, times, timestamps): they count as 0 -/
def r7 := [((.Year 4 : Field), n 2024), (.Hyphen, .punct 0), (.Month, n 2 1), (.Hyphen, .punct 0), (.Day, n 29), (.Blank 1, .blank 1),
  (.Hour24, n 13), (.Colon, .omitted), (.Minute, .omitted), (.Colon, .omitted), (.Second, .omitted)]
example : write r7 0 = str "2024-02-29 13" := by decide
example : denote .OD r7 clk = some 1709211600000000 := by decide

/-- 8. missing year and month come from the clock, a missing day is 1; `YY` is completed with the current century -/
example : denote .D [(.Day, n 5)] clk = some 19909 := by decide                                  -- 2024-07-05
example : denote .D [(.Year 2, n 24), (.Hyphen, .punct 0), (.Month, n 3)] clk = some 19783 := by decide   -- 2024-03-01

/-- 9. the carry of the rounded fraction: into the next day for a timestamp, out of range for a time of day -/
example : denote .TS (ts (n 2024) (n 2 1) (n 29) (n 23) (n 59) (n 59) (.frac 0 [9, 9, 9, 9, 9, 9, 5])) clk = some 1709251200000000 := by
  decide
example : denote .T [(.Hour24, n 23), (.Colon, .punct 0), (.Minute, n 59), (.Colon, .punct 0), (.Second, n 59), (.Dot, .punct 0),
    (.Fraction (some 7), .frac 0 [9, 9, 9, 9, 9, 9, 5])] clk = none := by decide

/-- 10. errors, never silent normalisation: 30 February, hour 24, a weekday that is not the date's, a repeated code,
    a code that does not apply to the type, an output-only code -/
example : denote .D (r3 true [] |>.set 4 (.Day, n 30)) clk = none := by decide
example : denote .T [(.Hour24, n 24)] clk = none := by decide
example : denote .D (r3 true [] ++ [(.Blank 1, .blank 1), (.DayName .Capital, .name 0 5 false [true])]) clk = some 19782 := by decide  -- Thursday
example : denote .D (r3 true [] ++ [(.Blank 1, .blank 1), (.DayName .Capital, .name 0 6 false [true])]) clk = none := by decide       -- Friday
example : denote .D [(.Day, n 1), (.Blank 1, .blank 1), (.Day, n 1)] clk = none := by decide
example : denote .D [(.Year 4, n 2024), (.Blank 1, .blank 1), (.Hour24, n 1)] clk = none := by decide
example : denote .D [(.Year 4, n 2024), (.Blank 1, .blank 1), (.WeekOfYear, n 9)] clk = none := by decide

end SqlDt.Spec.Examples
