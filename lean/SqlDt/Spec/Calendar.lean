/-
  Spec/Calendar: the proleptic Gregorian calendar, defined by its rules — leap years, month lengths, the
  successor of a date — plus the closed-form ordinal of a date.  Nothing here mentions Julian days.
  Core Lean only.
-/
import SqlDt.Model.Basic
namespace SqlDt.Spec

/-- Leap years: every 4 years, except century years not divisible by 400. -/
def isLeap (y : Int) : Bool := y % 4 == 0 && (y % 100 != 0 || y % 400 == 0)

/-- Days in month `m` of year `y` (28/29/30/31). -/
def dim (y m : Int) : Int :=
  if m = 2 then (if isLeap y then 29 else 28)
  else if m = 4 ∨ m = 6 ∨ m = 9 ∨ m = 11 then 30 else 31

/-- A real calendar date (no bound on the year). -/
def IsDate (y m d : Int) : Prop := 1 ≤ m ∧ m ≤ 12 ∧ 1 ≤ d ∧ d ≤ dim y m

/-- A real calendar date in the supported years 1..9999. -/
def ValidYMD (y m d : Int) : Prop := 1 ≤ y ∧ y ≤ 9999 ∧ IsDate y m d

instance (y m d : Int) : Decidable (IsDate y m d) := by unfold IsDate; exact inferInstance
instance (y m d : Int) : Decidable (ValidYMD y m d) := by unfold ValidYMD; exact inferInstance

/-- The day after (y, m, d). -/
def nextDay (x : Int × Int × Int) : Int × Int × Int :=
  let (y, m, d) := x
  if d < dim y m then (y, m, d + 1) else if m < 12 then (y, m + 1, 1) else (y + 1, 1, 1)

/-- Days in the years 1 .. y−1. -/
def daysBeforeYear (y : Int) : Int := 365 * (y - 1) + (y - 1) / 4 - (y - 1) / 100 + (y - 1) / 400

/-- Days in the months 1 .. m−1 of year y. -/
def daysBeforeMonth (y m : Int) : Int :=
  let c : Int :=
    if m = 1 then 0 else if m = 2 then 31 else if m = 3 then 59 else if m = 4 then 90 else if m = 5 then 120
    else if m = 6 then 151 else if m = 7 then 181 else if m = 8 then 212 else if m = 9 then 243
    else if m = 10 then 273 else if m = 11 then 304 else 334
  if m > 2 ∧ isLeap y then c + 1 else c

/-- Day number of (y, m, d) counted from 1970-01-01 = 0 (0001-01-01 = −719162). -/
def dayNumber (y m d : Int) : Int := daysBeforeYear y + daysBeforeMonth y m + d - 719163

/-- Lexicographic order on (y, m, d). -/
def lexLt (a b : Int × Int × Int) : Prop :=
  a.1 < b.1 ∨ (a.1 = b.1 ∧ (a.2.1 < b.2.1 ∨ (a.2.1 = b.2.1 ∧ a.2.2 < b.2.2)))

/-- Weekday of a day number, 0 = Sunday … 6 = Saturday (day 0 = 1970-01-01 is a Thursday). -/
def weekday (n : Int) : Int := (n + 4) % 7

end SqlDt.Spec
