/-
  Spec/Render: what each format token renders to, written arithmetically (no tables).
  Core Lean only.
-/
import SqlDt.Model.Format
namespace SqlDt.Spec
open SqlDt

/-- Decimal digits of `n`, most significant first (`0` ↦ "0"). Structural on fuel; 20 digits are plenty. -/
def digitsAux : Nat → Nat → List Nat → List Nat
  | 0, _, acc => acc
  | fuel + 1, n, acc => if n < 10 then (n + 48) :: acc else digitsAux fuel (n / 10) ((n % 10 + 48) :: acc)

def digits (n : Nat) : Bytes := digitsAux 20 n []

/-- Zero-padded decimal of `n` with at least `w` digits. -/
def pad (w n : Nat) : Bytes :=
  let ds := digits n
  List.replicate (w - ds.length) 48 ++ ds

def upperB (b : Nat) : Nat := if isLowerB b then b - 32 else b
def upper (s : Bytes) : Bytes := s.map upperB
def lower (s : Bytes) : Bytes := s.map toLowerB
def capital : Bytes → Bytes
  | [] => []
  | c :: cs => upperB c :: lower cs

def monthNames : List Bytes := ["january", "february", "march", "april", "may", "june", "july", "august", "september",
  "october", "november", "december"].map bytesOf'
where bytesOf' (s : String) : Bytes := s.toList.map Char.toNat

def dayNames : List Bytes := ["sunday", "monday", "tuesday", "wednesday", "thursday", "friday", "saturday"].map monthNames.bytesOf'

/-- A name in the letter case selected by the token's style; abbreviated styles take the first three letters. -/
def styled (style : NameStyle) (name : Bytes) : Bytes :=
  match style with
  | .Capital => capital name
  | .Lower => lower name
  | .Upper => upper name
  | .AbbrCapital => capital (name.take 3)
  | .AbbrLower => lower (name.take 3)
  | .AbbrUpper => upper (name.take 3)

/-- Week number counted in 7-day blocks from the 1st: days 1–7 ↦ 1, 8–14 ↦ 2, … -/
def weekOf (n : Nat) : Nat := (n - 1) / 7 + 1

end SqlDt.Spec

namespace SqlDt.Spec
open SqlDt Gen

/-- Components of a value as the picture tokens see them. `dow0` = weekday with 0 = Sunday (date types only). -/
structure Comps where
  year : Int := 1
  month : Int := 0
  day : Int := 1
  hour : Int := 0
  minute : Int := 0
  sec : Int := 0
  usec : Int := 0
  neg : Bool := false
  dow0 : Int := 0
  doy : Int := 1          -- ordinal day in the year (date types only)

def hour12Of (h : Int) : Int := (h + 11) % 12 + 1

/-- Fraction of a second truncated (not rounded) to `p` digits (p ≤ 6), or extended with zeros (p > 6). -/
def fractionOf (usec : Int) (p : Nat) : Int :=
  if p ≤ 6 then usec / (10 ^ (6 - p) : Nat) else usec * (10 ^ (p - 6) : Nat)

def meridianText (style : AmPmStyle) (hour : Int) : Bytes :=
  let am := hour < 12
  match style with
  | .Upper => if am then lit' "AM" else lit' "PM"
  | .Lower => if am then lit' "am" else lit' "pm"
  | .UpperDot => if am then lit' "A.M." else lit' "P.M."
  | .LowerDot => if am then lit' "a.m." else lit' "p.m."
where lit' (s : String) : Bytes := s.toList.map Char.toNat

/-- What a token renders to for a value of type `ty` with components `c`; `none` = the token does not apply
    to the type (formatting must fail). The applicability matrix is spelled out here, token by token. -/
def renderField (ty : Ty) (c : Comps) (f : Field) : Option Bytes :=
  let hasDate := ty = .D ∨ ty = .TS ∨ ty = .OD
  let hasTime := ty = .T ∨ ty = .TS ∨ ty = .OD ∨ ty = .DT
  let clock12 := ty = .T ∨ ty = .TS ∨ ty = .OD
  let hasFraction := ty = .T ∨ ty = .TS ∨ ty = .DT
  match f with
  | .Invalid => none
  | .Blank n => some (List.replicate n 32)
  | .Hyphen => some [45] | .Colon => some [58] | .Slash => some [47] | .Backslash => some [92]
  | .Comma => some [44] | .Dot => some [46] | .Semicolon => some [59] | .T => some [84]
  | .Year n =>
    if hasDate then some (pad n (c.year % (10 ^ n : Nat)).toNat)
    else if ty = .YM then some (pad n c.year.toNat) else none
  | .Month => if hasDate ∨ ty = .YM then some (pad 2 c.month.toNat) else none
  | .Day => if hasDate ∨ ty = .DT then some (pad 2 c.day.toNat) else none
  | .Hour24 => if hasTime then some (pad 2 c.hour.toNat) else none
  | .Hour12 => if clock12 then some (pad 2 (hour12Of c.hour).toNat) else none
  | .Minute => if hasTime then some (pad 2 c.minute.toNat) else none
  | .Second => if hasTime then some (pad 2 c.sec.toNat) else none
  | .Fraction p => if hasFraction then some (pad (p.getD 6) (fractionOf c.usec (p.getD 6)).toNat) else none
  | .AmPm style => if clock12 then some (meridianText style c.hour) else none
  | .MonthName style => if hasDate then some (styled style (monthNames.getD (c.month - 1).toNat [])) else none
  | .DayName style => if hasDate then some (styled style (dayNames.getD c.dow0.toNat [])) else none
  | .DayOfWeek => if hasDate then some (pad 1 (c.dow0 + 1).toNat) else none
  | .DayOfYear => if hasDate then some (pad 3 c.doy.toNat) else none
  | .WeekOfMonth => if hasDate then some (pad 1 (weekOf c.day.toNat)) else none
  | .WeekOfYear => if hasDate then some (pad 2 (weekOf c.doy.toNat)) else none

/-- The whole text: sign for intervals (once, first), then the tokens in picture order; `none` if any token is inapplicable. -/
def renderAll (ty : Ty) (c : Comps) : List Field → Option Bytes
  | [] => some []
  | f :: fs => do
    let a ← renderField ty c f
    let b ← renderAll ty c fs
    pure (a ++ b)

def render (ty : Ty) (c : Comps) (fields : List Field) : Option Bytes := do
  let body ← renderAll ty c fields
  let sign : Bytes := if c.neg then [45] else if ty = .YM ∨ ty = .DT then [43] else []
  pure (sign ++ body)

end SqlDt.Spec
