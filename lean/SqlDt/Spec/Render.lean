/-
  Spec/Render: what each format token renders to, written arithmetically (no tables).
  Core Lean only.
-/
import SqlDt.Model.Format
namespace SqlDt.Spec
open SqlDt

/-- Decimal digits of `n`, most significant first (`0` ↦ "0"). Structural on fuel; 20 digits are plenty. -/
def digitsAux : Nat → Nat → List Nat → List Nat
  | 0, _, acc => acc
  | fuel + 1, n, acc => if n < 10 then (n + 48) :: acc else digitsAux fuel (n / 10) ((n % 10 + 48) :: acc)

def digits (n : Nat) : Bytes := digitsAux 20 n []

/-- Zero-padded decimal of `n` with at least `w` digits. -/
def pad (w n : Nat) : Bytes :=
  let ds := digits n
  List.replicate (w - ds.length) 48 ++ ds

def upperB (b : Nat) : Nat := if isLowerB b then b - 32 else b
def upper (s : Bytes) : Bytes := s.map upperB
def lower (s : Bytes) : Bytes := s.map toLowerB
def capital : Bytes → Bytes
  | [] => []
  | c :: cs => upperB c :: lower cs

def monthNames : List Bytes := ["january", "february", "march", "april", "may", "june", "july", "august", "september",
  "october", "november", "december"].map bytesOf'
where bytesOf' (s : String) : Bytes := s.toList.map Char.toNat

def dayNames : List Bytes := ["sunday", "monday", "tuesday", "wednesday", "thursday", "friday", "saturday"].map monthNames.bytesOf'

/-- A name in the letter case selected by the token's style; abbreviated styles take the first three letters. -/
def styled (style : NameStyle) (name : Bytes) : Bytes :=
  match style with
  | .Capital => capital name
  | .Lower => lower name
  | .Upper => upper name
  | .AbbrCapital => capital (name.take 3)
  | .AbbrLower => lower (name.take 3)
  | .AbbrUpper => upper (name.take 3)

/-- Week number counted in 7-day blocks from the 1st: days 1–7 ↦ 1, 8–14 ↦ 2, … -/
def weekOf (n : Nat) : Nat := (n - 1) / 7 + 1

end SqlDt.Spec
