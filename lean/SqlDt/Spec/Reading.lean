/-
  Spec/Reading: what a text DENOTES when it is read against a picture (C05), written from the documentation's
  point of view.  Nothing here calls the crate's parser (`Parser.*`): the file uses the picture tokens (`Field`),
  the type tags (`Ty`), the wall clock (`Clock`), the decimal/names helpers of Spec/Render and the calendar of
  Spec/Calendar.

  Shape:
    * `Lex`            – how ONE picture token is written in the text (and thereby the number / name it carries);
    * `Lex.text`, `write` – the bytes written;
    * `Lex.fits`       – this way of writing is one the documentation allows for the token and the type;
    * `Delimited`      – the side condition that makes a reading unambiguous for a left-to-right reader;
    * `denote`         – the value the reading denotes, or `none` when the documentation says "error".
  The theorem `parse_reading` (Lemmas/ReadingMain) says: the crate's parser returns exactly `denote`.
-/
import SqlDt.Spec.Render
import SqlDt.Spec.Calendar
namespace SqlDt.Spec
open SqlDt

/-! ## 1. Lexemes -/

/-- Sign written in front of a number. -/
inductive Sign where
  | none | plus | minus
  deriving DecidableEq, Repr, Inhabited

def Sign.text : Sign → Bytes
  | .none => [] | .plus => [43] | .minus => [45]

/-- How one picture token is written.  `blanks` = number of extra spaces in front of it. -/
inductive Lex where
  /-- a number: optional sign, `zeros` leading zeros, then the decimal digits of `n` -/
  | num (blanks : Nat) (sign : Sign) (zeros : Nat) (n : Nat)
  /-- month / weekday name number `k` (1 = January / Sunday), full or 3-letter, letter `i` upper-case iff `caseMask[i]` -/
  | name (blanks : Nat) (k : Nat) (abbr : Bool) (caseMask : List Bool)
  /-- AM / PM (with dots iff the picture token has dots), any letter case -/
  | meridian (blanks : Nat) (pm : Bool) (caseMask : List Bool)
  /-- fraction of a second: the digits after the decimal point, most significant first -/
  | frac (blanks : Nat) (digits : List Nat)
  /-- a punctuation token: its own character -/
  | punct (blanks : Nat)
  /-- a blank token: any number of spaces (also none) -/
  | blank (count : Nat)
  /-- weekday number, one digit -/
  | dowNum (blanks : Nat) (d : Nat)
  /-- the text ended before this token (only for tokens that may be left out at the end) -/
  | omitted
  deriving DecidableEq, Repr, Inhabited

def spaces (n : Nat) : Bytes := List.replicate n 32

/-- Letter `i` of `s` in upper case iff `mask[i]` (letters beyond the mask stay as they are: lower case). -/
def recase : List Bool → Bytes → Bytes
  | _, [] => []
  | [], c :: cs => c :: cs
  | b :: bs, c :: cs => (if b then upperB c else c) :: recase bs cs

/-- The character of a punctuation token. -/
def punctChar : Field → Option Nat
  | .Hyphen => some 45 | .Colon => some 58 | .Slash => some 47 | .Backslash => some 92 | .Comma => some 44
  | .Dot => some 46 | .Semicolon => some 59 | .T => some 84
  | _ => none

/-- Names a token can carry: weekday names for `DAY`/`DY`, month names otherwise. -/
def namesOf : Field → List Bytes
  | .DayName _ => dayNames
  | _ => monthNames

/-- Full name number `k` (1-based, lower case), `[]` out of range. -/
def fullName (f : Field) (k : Nat) : Bytes := (namesOf f).getD (k - 1) []

def dotted : Field → Bool
  | .AmPm .UpperDot | .AmPm .LowerDot => true
  | _ => false

def meridianBase (dots pm : Bool) : Bytes :=
  if dots then (if pm then [112, 46, 109, 46] else [97, 46, 109, 46]) else (if pm then [112, 109] else [97, 109])

/-- The bytes a lexeme stands for, given the token it is written for. -/
def Lex.text (f : Field) : Lex → Bytes
  | .num b s z n => spaces b ++ (s.text ++ (List.replicate z 48 ++ digits n))
  | .name b k abbr mask => spaces b ++ recase mask (if abbr then (fullName f k).take 3 else fullName f k)
  | .meridian b pm mask => spaces b ++ recase mask (meridianBase (dotted f) pm)
  | .frac b ds => spaces b ++ ds.map (· + 48)
  | .punct b => spaces b ++ (punctChar f).toList
  | .blank c => spaces c
  | .dowNum b d => spaces b ++ [d + 48]
  | .omitted => []

/-- The text of a whole reading. -/
def writeItems : List (Field × Lex) → Bytes
  | [] => []
  | (f, l) :: rest => l.text f ++ writeItems rest

/-- … followed by `trailingBlanks` spaces. -/
def write (items : List (Field × Lex)) (trailingBlanks : Nat) : Bytes := writeItems items ++ spaces trailingBlanks

/-! ## 2. Which tokens apply to which type, and how wide their numbers may be -/

def hasDate (ty : Ty) : Bool := ty = .D || ty = .TS || ty = .OD
def hasTime (ty : Ty) : Bool := ty = .T || ty = .TS || ty = .OD || ty = .DT
def clock12 (ty : Ty) : Bool := ty = .T || ty = .TS || ty = .OD
def hasFraction (ty : Ty) : Bool := ty = .T || ty = .TS || ty = .DT

/-- The token may be used to PARSE a value of the type (`W`, `WW` are output-only; the applicability matrix is
    the one of Spec/Render). -/
def applicable (ty : Ty) : Field → Bool
  | .Invalid => false
  | .Blank _ | .Hyphen | .Colon | .Slash | .Backslash | .Comma | .Dot | .Semicolon | .T => true
  | .Year _ | .Month => hasDate ty || ty = .YM
  | .Day => hasDate ty || ty = .DT
  | .Hour24 | .Minute | .Second => hasTime ty
  | .Hour12 | .AmPm _ => clock12 ty
  | .Fraction _ => hasFraction ty
  | .MonthName _ | .DayName _ | .DayOfWeek | .DayOfYear => hasDate ty
  | .WeekOfMonth | .WeekOfYear => false

/-- Maximum number of digits of a numeric token (the documented field widths `*_MAX_LENGTH` of the type; `YY` reads
    up to four digits; a year-month interval reads up to nine year digits whatever the year token's width). -/
def maxDigits (ty : Ty) : Field → Nat
  | .Year w => if ty = .YM then ty.info.YEAR_MAX_LENGTH else if w = 2 then 4 else w
  | .Month => ty.info.MONTH_MAX_LENGTH
  | .Day => ty.info.DAY_MAX_LENGTH
  | .Hour24 | .Hour12 => ty.info.HOUR_MAX_LENGTH
  | .Minute => ty.info.MINUTE_MAX_LENGTH
  | .Second => ty.info.SECOND_MAX_LENGTH
  | .DayOfYear => ty.info.DAY_OF_YEAR_MAX_LENGTH
  | .Fraction p => p.getD 9
  | _ => 0

/-- Number of digits of a numeric lexeme. -/
def numWidth (zeros n : Nat) : Nat := zeros + (digits n).length

/-- Tokens that may be left out when the text ends early: the separators `-`, `:`, `.`, and – for dates, times and
    timestamps – hour, minute, second; the fraction; the meridian indicator. -/
def mayOmit (ty : Ty) : Field → Bool
  | .Hyphen | .Colon | .Dot => true
  | .Hour24 | .Hour12 | .Minute | .Second => ty ≠ .DT
  | .Fraction _ | .AmPm _ => true
  | _ => false

def isAbbrStyle : NameStyle → Bool
  | .AbbrCapital | .AbbrLower | .AbbrUpper => true
  | _ => false

/-- This way of writing is one the documentation allows for the token (for a value of type `ty`).  For a token that
    does not apply to the type nothing is required: whatever is written, reading must fail (see `denote`). -/
def Lex.fits (ty : Ty) (f : Field) (l : Lex) : Bool :=
  if !applicable ty f then true else
  match f, l with
  | .Blank _, .blank _ => true
  | .Hyphen, .punct _ | .Colon, .punct _ | .Slash, .punct _ | .Backslash, .punct _ | .Comma, .punct _
  | .Dot, .punct _ | .Semicolon, .punct _ | .T, .punct _ => true
  -- numbers: at most the field's width; at most 9 digits overall
  | .Year _, .num _ _ z n | .Day, .num _ _ z n | .Hour24, .num _ _ z n | .Hour12, .num _ _ z n
  | .Minute, .num _ _ z n | .Second, .num _ _ z n | .DayOfYear, .num _ _ z n | .Month, .num _ _ z n =>
    numWidth z n ≤ maxDigits ty f && n < 10 ^ 9
  -- a month name where a month (number or name) is expected; any case, full or abbreviated
  | .Month, .name _ k _ _ | .MonthName _, .name _ k _ _ => 1 ≤ k && k ≤ 12
  -- weekday names: full for `DAY`, three letters for `DY`
  | .DayName s, .name _ k abbr _ => 1 ≤ k && k ≤ 7 && abbr == isAbbrStyle s
  | .DayOfWeek, .dowNum _ d => d ≤ 9
  | .AmPm _, .meridian _ _ _ => true
  | .Fraction _, .frac _ ds => 1 ≤ ds.length && ds.length ≤ maxDigits ty f && ds.all (· ≤ 9)
  | _, .omitted => mayOmit ty f
  | _, _ => false

/-! ## 3. Unambiguity for a left-to-right reader -/

def nextIsDigit : Bytes → Bool
  | c :: _ => isDigitB c
  | [] => false

def isMonthToken : Field → Bool
  | .Month | .MonthName _ => true
  | _ => false

/-- Condition on ONE item, given the items `later` and the text `rest` that follow it.  Each clause is needed
    (the counterexamples are checked against the crate's parser in Lemmas/ReadingExamples):
    (a) a number (or fraction) with fewer digits than the token may take is not followed directly by a digit –
        otherwise the reader takes that digit too.  `HH24MI` on "123", meant as 1:23, is read as 12:03; `FF3SS` on "57",
        meant as .5 s + 7 s, is read as .57 s.  Note that `YY` takes up to FOUR digits: `YYMMDD` on "240305" is not
        delimited (the crate reads the year 2403 and then fails).
    (b) an abbreviated month name is not followed by the remaining letters of the full name – otherwise the reader takes
        the full name ("Mar" + "ch…").  No sequence of fitting lexemes produces such a text with the crate's English
        names, so this clause excludes nothing; it keeps the proof independent of the spelling of the names.
    (c) after a token that was left out because the text ended, everything is left out (or a blank token).
        `MI SS` on "5", meant as "minute left out, second 5", is read as minute 5. -/
def itemOK (ty : Ty) (f : Field) (l : Lex) (later : List (Field × Lex)) (rest : Bytes) : Bool :=
  match l with
  | .num _ _ z n => numWidth z n == maxDigits ty f || !nextIsDigit rest
  | .frac _ ds => ds.length == maxDigits ty f || !nextIsDigit rest
  | .name _ k true _ =>
    !isMonthToken f || (fullName f k).length ≤ 3 || !startsWithCI rest ((fullName f k).drop 3)
  | .omitted => later.all (fun q => match q.2 with | .omitted => true | .blank _ => true | _ => false)
  | _ => true

def delimitedFrom (ty : Ty) : List (Field × Lex) → Bool
  | [] => true
  | (f, l) :: later => itemOK ty f l later (writeItems later) && delimitedFrom ty later

/-- The reading is unambiguous (depends on the text only through the first byte(s) after each item). -/
def Delimited (ty : Ty) (items : List (Field × Lex)) : Bool := delimitedFrom ty items

/-! ## 4. The value denoted -/

/-- Components collected from the items. -/
structure Parts where
  year : Option Int := none          -- completed year (magnitude for intervals)
  month : Option Nat := none
  day : Option Nat := none
  hour : Option (Bool × Nat) := none -- (24-hour clock?, value)
  minute : Option Nat := none
  second : Option Nat := none
  usec : Option Nat := none          -- 0 … 1_000_000 (after rounding)
  meridianSeen : Bool := false       -- a meridian token occurred (written or left out)
  meridian : Option Bool := none     -- the meridian written: `some true` = PM
  dow : Option Nat := none           -- weekday 1 = Sunday … 7
  doy : Option Nat := none           -- day of year
  neg : Bool := false                -- '-' on the leading interval field
  deriving Repr, DecidableEq, Inhabited

/-- `y` rounded toward zero to a multiple of `m` (the current decade / century / millennium). -/
def roundDown (y m : Int) : Int := if 0 ≤ y then y / m * m else -((-y) / m * m)

/-- Year completion: `Y`, `YY`, `YYY` take the missing leading digits from the current year – except that `YY`
    written with three or four digits is taken as it stands.  Interval years are taken as they stand. -/
def completeYear (ty : Ty) (w ndigits n : Nat) (now : Clock) : Int :=
  if ty = .YM then (n : Int)
  else if w = 1 ∨ w = 3 ∨ (w = 2 ∧ ndigits ≤ 2) then roundDown now.year ((10 ^ w : Nat) : Int) + (n : Int)
  else (n : Int)

/-- Value of the fraction digits in microseconds: up to six digits exactly, more digits rounded half-up
    (the result may be 1_000_000: the carry is propagated when the value is assembled). -/
def fracValue (ds : List Nat) : Nat :=
  let k := ds.length
  let int := ds.foldl (fun acc d => acc * 10 + d) 0
  if k ≤ 6 then int * 10 ^ (6 - k) else (int * 1000000 + 10 ^ k / 2) / 10 ^ k

def isMinus (s : Sign) : Bool := s == .minus

/-- One item: its component is recorded; `none` = error (a repeated code, a token that does not apply to the type or is
    output-only, a '-' where none is allowed, `HH24` together with a meridian indicator, an hour outside 1..12 on the
    12-hour clock, a weekday number outside 1..7). -/
def step (ty : Ty) (now : Clock) (p : Parts) (f : Field) (l : Lex) : Option Parts :=
  if !applicable ty f then none else
  match f, l with
  | .Blank _, _ | .Hyphen, _ | .Colon, _ | .Slash, _ | .Backslash, _ | .Comma, _ | .Dot, _ | .Semicolon, _ | .T, _ =>
    some p
  | .Year w, .num _ s z n =>
    if p.year.isSome then none
    else if isMinus s && ty != .YM then none
    else some { p with year := some (completeYear ty w (numWidth z n) n now), neg := isMinus s }
  | .Month, .num _ s _ n =>
    if p.month.isSome then none else if isMinus s then none else some { p with month := some n }
  | .Month, .name _ k _ _ | .MonthName _, .name _ k _ _ =>
    if p.month.isSome then none else some { p with month := some k }
  | .Day, .num _ s _ n =>
    if p.day.isSome then none
    else if isMinus s && ty != .DT then none
    else some { p with day := some n, neg := isMinus s }
  | .Hour24, .num _ s _ n =>
    if p.hour.isSome || p.meridianSeen then none else if isMinus s then none else some { p with hour := some (true, n) }
  | .Hour24, .omitted =>
    if p.hour.isSome || p.meridianSeen then none else some { p with hour := some (true, 0) }
  | .Hour12, .num _ s _ n =>
    if p.hour.isSome then none
    else if isMinus s || n < 1 || n > 12 then none
    else some { p with hour := some (false, n) }
  | .Hour12, .omitted => if p.hour.isSome then none else some { p with hour := some (false, 12) }
  | .Minute, .num _ s _ n =>
    if p.minute.isSome then none else if isMinus s then none else some { p with minute := some n }
  | .Minute, .omitted => if p.minute.isSome then none else some { p with minute := some 0 }
  | .Second, .num _ s _ n =>
    if p.second.isSome then none else if isMinus s then none else some { p with second := some n }
  | .Second, .omitted => if p.second.isSome then none else some { p with second := some 0 }
  | .Fraction _, .frac _ ds => if p.usec.isSome then none else some { p with usec := some (fracValue ds) }
  | .Fraction _, .omitted => if p.usec.isSome then none else some { p with usec := some 0 }
  | .AmPm _, .meridian _ pm _ =>
    if p.meridianSeen || p.hour.any (·.1) then none else some { p with meridianSeen := true, meridian := some pm }
  | .AmPm _, .omitted =>
    if p.meridianSeen || p.hour.any (·.1) then none else some { p with meridianSeen := true }
  | .DayName _, .name _ k _ _ => if p.dow.isSome then none else some { p with dow := some k }
  | .DayOfWeek, .dowNum _ d =>
    if p.dow.isSome then none else if d < 1 || d > 7 then none else some { p with dow := some d }
  | .DayOfYear, .num _ s _ n =>
    if p.doy.isSome then none else if isMinus s then none else some { p with doy := some n }
  | _, _ => none

def collect (ty : Ty) (now : Clock) : Parts → List (Field × Lex) → Option Parts
  | p, [] => some p
  | p, (f, l) :: rest => (step ty now p f l).bind (fun p' => collect ty now p' rest)

/-- Hour of the day: `HH24` as written; `HH12` with AM/PM: 12 counts as 0, PM adds 12 (12 AM = 0, 12 PM = 12);
    `HH12` without a meridian: as written; a meridian without an hour stands for 12 o'clock; nothing: 0. -/
def hourOf (p : Parts) : Nat :=
  match p.hour, p.meridian with
  | some (true, h), _ => h
  | some (false, h), none => h
  | some (false, h), some pm => (if h = 12 then 0 else h) + (if pm then 12 else 0)
  | none, some pm => if pm then 12 else 0
  | none, none => 0

/-- Time of day in microseconds (left-out fields are 0); hour < 24, minute < 60, second < 60 or error.
    The rounded fraction may be 1_000_000: it simply adds one second (carry). -/
def timeOf (p : Parts) : Option Nat :=
  let h := hourOf p
  let mi := p.minute.getD 0
  let s := p.second.getD 0
  if h < 24 ∧ mi < 60 ∧ s < 60 then some (h * 3600000000 + mi * 60000000 + s * 1000000 + p.usec.getD 0) else none

/-- Month of the day with ordinal `n` in year `y`: the number of months that begin before that day. -/
def monthOfOrdinal (y n : Int) : Int :=
  ((((List.range 12).filter (fun (k : Nat) => daysBeforeMonth y ((k : Int) + 1) < n)).length : Nat) : Int)

/-- Month and day within year `y`: written month (else the clock's) and written day (else 1); or – with a day of year –
    the month and day it falls on: it must lie in the year and agree with a written month / day. -/
def monthDayOf (p : Parts) (now : Clock) (y : Int) : Option (Int × Int) :=
  match p.doy with
  | none => some ((p.month.map Int.ofNat).getD now.month, ((p.day.getD 1 : Nat) : Int))
  | some n =>
    if ¬ (1 ≤ n ∧ n ≤ (if isLeap y then 366 else 365)) then none else
    let m := monthOfOrdinal y n
    let d := (n : Int) - daysBeforeMonth y m
    if p.month.all (fun (x : Nat) => (x : Int) = m) ∧ p.day.all (fun (x : Nat) => (x : Int) = d) then some (m, d) else none

/-- The calendar date: the year defaults to the clock's; the date must be a real date of the years 1..9999; a weekday
    must be the weekday of that date. -/
def dateOf (p : Parts) (now : Clock) : Option (Int × Int × Int) :=
  let y := p.year.getD now.year
  if ¬ (1 ≤ y ∧ y ≤ 9999) then none else
  match monthDayOf p now y with
  | none => none
  | some (m, d) =>
    if ¬ IsDate y m d then none
    else if p.dow.all (fun (w : Nat) => weekday (dayNumber y m d) + 1 = (w : Int)) then some (y, m, d) else none

/-- Last microsecond of 9999-12-31. -/
def maxTimestamp : Int := 253402300799999999

/-- The value (raw representation: days / microseconds / months) from the collected components.
    (Products are written constant-first: this keeps the Lean kernel's evaluation of these terms shallow.) -/
def assemble (ty : Ty) (now : Clock) (p : Parts) : Option Int :=
  match ty with
  | .D => (dateOf p now).map (fun (y, m, d) => dayNumber y m d)
  | .T => (timeOf p).bind (fun t => if t < 86400000000 then some (t : Int) else none)  -- a carry to 24:00:00 is out of range
  | .TS | .OD =>
    (dateOf p now).bind (fun (y, m, d) => (timeOf p).bind (fun t =>
      let v := 86400000000 * dayNumber y m d + (t : Int)                              -- the carry may reach the next day
      if v ≤ maxTimestamp then some v else none))
  | .YM =>
    let mag : Int := p.year.getD 0 * 12 + (p.month.getD 0 : Nat)
    if p.month.getD 0 < 12 ∧ mag ≤ 2136000000 then some (if p.neg then -mag else mag) else none
  | .DT =>
    (timeOf p).bind (fun t =>
      let mag : Nat := 86400000000 * p.day.getD 0 + t
      if mag ≤ 8640000000000000000 then some (if p.neg then -(mag : Int) else (mag : Int)) else none)

/-- The value the reading `items` denotes for type `ty` under clock `now`; `none` = the documentation says error. -/
def denote (ty : Ty) (items : List (Field × Lex)) (now : Clock) : Option Int :=
  (collect ty now {} items).bind (assemble ty now)

end SqlDt.Spec

