/-
  Spec/Munch: the documented token table and a generic maximal-munch tokenizer over it.
  Nothing here follows the crate's dispatch: at each position take the LONGEST table entry that matches
  (case-insensitively, except `T`), a maximal run of blanks being one token of that length.
  Core Lean only.
-/
import SqlDt.Model.Lexer
namespace SqlDt.Spec
open SqlDt Gen

def lit (s : String) : Bytes := s.toList.map Char.toNat

/-- Style of a name token (`MONTH`, `MON`, `DAY`, `DY`) from the letter case of its first two letters:
    both upper → upper-case, upper+lower → capitalised, otherwise lower-case. -/
def nameStyle (matched : Bytes) (abbr : Bool) : NameStyle :=
  let a := matched.getD 0 0
  let b := matched.getD 1 0
  if isUpperB a && isUpperB b then (if abbr then .AbbrUpper else .Upper)
  else if isUpperB a then (if abbr then .AbbrCapital else .Capital)
  else (if abbr then .AbbrLower else .Lower)

/-- Style of a meridian token: lower-case only if all its letters are lower-case. -/
def ampmStyle (matched : Bytes) (dotted : Bool) : AmPmStyle :=
  let allLower := matched.all (fun c => !isUpperB c)
  if allLower then (if dotted then .LowerDot else .Lower) else (if dotted then .UpperDot else .Upper)

/-- One documented token: spelling (lower-case, except the case-sensitive `T`), whether matching is
    case-sensitive, and the field it denotes as a function of the matched text. -/
structure Tok where
  spelling : Bytes
  caseSensitive : Bool
  build : Bytes → Field

def tokenTable : List Tok := [
  ⟨lit "yyyy", false, fun _ => .Year 4⟩, ⟨lit "yyy", false, fun _ => .Year 3⟩, ⟨lit "yy", false, fun _ => .Year 2⟩,
  ⟨lit "y", false, fun _ => .Year 1⟩,
  ⟨lit "mm", false, fun _ => .Month⟩, ⟨lit "mon", false, fun m => .MonthName (nameStyle m true)⟩,
  ⟨lit "month", false, fun m => .MonthName (nameStyle m false)⟩,
  ⟨lit "dd", false, fun _ => .Day⟩, ⟨lit "ddd", false, fun _ => .DayOfYear⟩, ⟨lit "d", false, fun _ => .DayOfWeek⟩,
  ⟨lit "day", false, fun m => .DayName (nameStyle m false)⟩, ⟨lit "dy", false, fun m => .DayName (nameStyle m true)⟩,
  ⟨lit "hh", false, fun _ => .Hour12⟩, ⟨lit "hh12", false, fun _ => .Hour12⟩, ⟨lit "hh24", false, fun _ => .Hour24⟩,
  ⟨lit "mi", false, fun _ => .Minute⟩, ⟨lit "ss", false, fun _ => .Second⟩,
  ⟨lit "ff", false, fun _ => .Fraction none⟩,
  ⟨lit "ff1", false, fun _ => .Fraction (some 1)⟩, ⟨lit "ff2", false, fun _ => .Fraction (some 2)⟩,
  ⟨lit "ff3", false, fun _ => .Fraction (some 3)⟩, ⟨lit "ff4", false, fun _ => .Fraction (some 4)⟩,
  ⟨lit "ff5", false, fun _ => .Fraction (some 5)⟩, ⟨lit "ff6", false, fun _ => .Fraction (some 6)⟩,
  ⟨lit "ff7", false, fun _ => .Fraction (some 7)⟩, ⟨lit "ff8", false, fun _ => .Fraction (some 8)⟩,
  ⟨lit "ff9", false, fun _ => .Fraction (some 9)⟩,
  ⟨lit "am", false, fun m => .AmPm (ampmStyle m false)⟩, ⟨lit "pm", false, fun m => .AmPm (ampmStyle m false)⟩,
  ⟨lit "a.m.", false, fun m => .AmPm (ampmStyle m true)⟩, ⟨lit "p.m.", false, fun m => .AmPm (ampmStyle m true)⟩,
  ⟨lit "w", false, fun _ => .WeekOfMonth⟩, ⟨lit "ww", false, fun _ => .WeekOfYear⟩,
  ⟨lit "T", true, fun _ => .T⟩,
  ⟨lit "-", true, fun _ => .Hyphen⟩, ⟨lit ":", true, fun _ => .Colon⟩, ⟨lit "/", true, fun _ => .Slash⟩,
  ⟨lit "\\", true, fun _ => .Backslash⟩, ⟨lit ",", true, fun _ => .Comma⟩, ⟨lit ".", true, fun _ => .Dot⟩,
  ⟨lit ";", true, fun _ => .Semicolon⟩ ]

def Tok.matchesAt (t : Tok) (s : Bytes) : Bool :=
  if t.caseSensitive then startsWith s t.spelling else startsWithCI s t.spelling

/-- The longest matching table entry (the table has no two entries of equal length matching the same text). -/
def longestMatch (s : Bytes) : Option Tok :=
  tokenTable.foldl (fun best t =>
    if t.matchesAt s then
      match best with
      | some b => if t.spelling.length > b.spelling.length then some t else some b
      | none => some t
    else best) none

/-- One step of maximal munch: `none` at end of input, `some none` when no token matches here. -/
def munchNext (s : Bytes) : Option (Option (Field × Bytes)) :=
  match s with
  | [] => none
  | c :: _ =>
    if c = 32 then
      let n := (s.takeWhile (· == 32)).length
      some (some (.Blank n, s.drop n))
    else
      match longestMatch s with
      | some t => some (some (t.build (s.take t.spelling.length), s.drop t.spelling.length))
      | none => some none

/-- Tokenise the whole picture: reject if some position matches no token or if there are more than `MAX_FIELDS` tokens. -/
def munchAux : Nat → Bytes → List Field → Chk (List Field)
  | 0, _, acc => .ok acc.reverse
  | fuel + 1, s, acc =>
    match munchNext s with
    | none => .ok acc.reverse
    | some none => .error .InvalidFormat
    | some (some (f, rest)) =>
      if acc.length ≥ MAX_FIELDS then .error .InvalidFormat else munchAux fuel rest (f :: acc)

def munch (pic : Bytes) : Chk (List Field) := munchAux (pic.length + 1) pic []

end SqlDt.Spec
