/-
  Spec/Lossless: the decidable class of pictures that carry ALL the information of a value unambiguously (C06), and the
  canonical reading of a rendered text: the lexemes `format` writes.
  Core Lean only (imports Spec/Reading).
-/
import SqlDt.Spec.Reading
namespace SqlDt.Spec
open SqlDt

/-! ## 1. The class of lossless pictures -/

/-- Which components the tokens seen so far carry. -/
structure Seen where
  year : Bool := false
  month : Bool := false
  day : Bool := false
  hour24 : Bool := false
  hour12 : Bool := false
  minute : Bool := false
  second : Bool := false
  frac : Bool := false
  meridian : Bool := false
  dow : Bool := false
  doy : Bool := false
  deriving DecidableEq, Repr

/-- One more token: `none` if it cannot be part of a lossless picture for the type – it does not apply, it is
    output-only, it repeats a component already given (month number and month name count as the same component, so do
    `HH24` / `HH12` and weekday name / number), `HH24` occurs together with a meridian indicator, the year has fewer than
    four digits, or the fraction has fewer than six. -/
def see (ty : Ty) (s : Seen) (f : Field) : Option Seen :=
  if !applicable ty f then none else
  match f with
  | .Blank _ | .Hyphen | .Colon | .Slash | .Backslash | .Comma | .Dot | .Semicolon | .T => some s
  | .Year w => if s.year || (hasDate ty && w != 4) then none else some { s with year := true }
  | .Month | .MonthName _ => if s.month then none else some { s with month := true }
  | .Day => if s.day then none else some { s with day := true }
  | .Hour24 => if s.hour24 || s.hour12 || s.meridian then none else some { s with hour24 := true }
  | .Hour12 => if s.hour24 || s.hour12 then none else some { s with hour12 := true }
  | .AmPm _ => if s.meridian || s.hour24 then none else some { s with meridian := true }
  | .Minute => if s.minute then none else some { s with minute := true }
  | .Second => if s.second then none else some { s with second := true }
  | .Fraction p => if s.frac || p.getD 6 < 6 then none else some { s with frac := true }
  | .DayName _ | .DayOfWeek => if s.dow then none else some { s with dow := true }
  | .DayOfYear => if s.doy then none else some { s with doy := true }
  | _ => none

def seeAll (ty : Ty) : Seen → List Field → Option Seen
  | s, [] => some s
  | s, f :: fs => (see ty s f).bind (fun s' => seeAll ty s' fs)

/-- All the information of a value of the type is there: a (four-digit) year with month and day, or with the day of
    the year; the hour on the 24-hour clock, or on the 12-hour clock with a meridian indicator; minute and second; the
    fraction for the types that have one; years and months / days … fraction for the intervals. -/
def complete (ty : Ty) (s : Seen) : Bool :=
  let date := s.year && ((s.month && s.day) || s.doy)
  let hour := s.hour24 || (s.hour12 && s.meridian)
  match ty with
  | .D => date
  | .T => hour && s.minute && s.second && s.frac
  | .TS => date && hour && s.minute && s.second && s.frac
  | .OD => date && hour && s.minute && s.second
  | .YM => s.year && s.month
  | .DT => s.day && s.hour24 && s.minute && s.second && s.frac

/-- A token that really separates: blanks (at least one) or a punctuation character that is not a letter. -/
def isSeparator : Field → Bool
  | .Blank n => 1 ≤ n
  | .Hyphen | .Colon | .Slash | .Backslash | .Comma | .Dot | .Semicolon => true
  | _ => false

/-- Tokens whose rendering does not have the full width the parser may read (the years of a year-month interval, the
    days of a day-time interval, `FF` = six digits where up to nine are read), or whose text could be continued by the
    next token's (an abbreviated month name): they must be followed by a separator, or end the picture. -/
def needsSeparator (ty : Ty) : Field → Bool
  | .Year _ => ty = .YM
  | .Day => ty = .DT
  | .Fraction none => true
  | .MonthName s => isAbbrStyle s
  | _ => false

def separated (ty : Ty) : List Field → Bool
  | [] => true
  | [_] => true
  | f :: g :: rest => (!needsSeparator ty f || isSeparator g) && separated ty (g :: rest)

/-- The signed leading field of an interval comes first (the sign is written in front of the whole text). -/
def leadFirst (ty : Ty) (fields : List Field) : Bool :=
  match ty, fields with
  | .YM, .Year _ :: _ => true
  | .YM, _ => false
  | .DT, .Day :: _ => true
  | .DT, _ => false
  | _, _ => true

/-- **Lossless pictures** (C06): any order of tokens, any separators, any name style, additional consistent weekday /
    day-of-year tokens – as long as every component is there exactly once and variable-width fields are delimited. -/
def Lossless (ty : Ty) (fields : List Field) : Bool :=
  match seeAll ty {} fields with
  | some s => complete ty s && separated ty fields && leadFirst ty fields
  | none => false

/-! ## 2. The canonical reading of a rendered text -/

/-- a number zero-padded to `w` digits, as a lexeme -/
def numLex (w : Nat) (sg : Sign) (n : Nat) : Lex := .num 0 sg (w - (digits n).length) n

def signOf (neg : Bool) : Sign := if neg then .minus else .plus

def nameMask : NameStyle → List Bool
  | .Capital | .AbbrCapital => [true]
  | .Lower | .AbbrLower => []
  | .Upper | .AbbrUpper => List.replicate 9 true

def ampmMask : AmPmStyle → List Bool
  | .Upper | .UpperDot => List.replicate 4 true
  | .Lower | .LowerDot => []

/-- The lexeme `format` writes for token `f` of a value with components `c`. -/
def canonLex (ty : Ty) (c : Comps) (f : Field) : Lex :=
  match f with
  | .Blank n => .blank n
  | .Hyphen | .Colon | .Slash | .Backslash | .Comma | .Dot | .Semicolon | .T => .punct 0
  | .Year w => if ty = .YM then numLex w (signOf c.neg) c.year.toNat else numLex w .none (c.year % (10 ^ w : Nat)).toNat
  | .Month => numLex 2 .none c.month.toNat
  | .Day => if ty = .DT then numLex 2 (signOf c.neg) c.day.toNat else numLex 2 .none c.day.toNat
  | .Hour24 => numLex 2 .none c.hour.toNat
  | .Hour12 => numLex 2 .none (hour12Of c.hour).toNat
  | .Minute => numLex 2 .none c.minute.toNat
  | .Second => numLex 2 .none c.sec.toNat
  | .Fraction p => .frac 0 ((pad (p.getD 6) (fractionOf c.usec (p.getD 6)).toNat).map (· - 48))
  | .AmPm style => .meridian 0 (decide (12 ≤ c.hour)) (ampmMask style)
  | .MonthName style => .name 0 c.month.toNat (isAbbrStyle style) (nameMask style)
  | .DayName style => .name 0 (c.dow0 + 1).toNat (isAbbrStyle style) (nameMask style)
  | .DayOfWeek => .dowNum 0 (c.dow0 + 1).toNat
  | .DayOfYear => numLex 3 .none c.doy.toNat
  | _ => .omitted

def canon (ty : Ty) (c : Comps) (fields : List Field) : List (Field × Lex) := fields.map (fun f => (f, canonLex ty c f))

end SqlDt.Spec
