/-
  Model/F64: a small IEEE-754 binary64 soft-float over exact naturals/integers.
  Only what the crate uses: conversion from i64, `*`, `/`, unary minus, `round` (half away from
  zero), saturating `as i64 / i32 / u32` casts, `is_nan`, `is_infinite`, `== 0.0`.
  Lean's own `Float` is opaque to the kernel and is not used anywhere.
  Core Lean only (no imports).
-/
import SqlDt.Model.Basic
namespace SqlDt

/-- A double: NaN (all NaNs identified), ±∞, or ±m·2^e with `m < 2^53`, `-1074 ≤ e ≤ 971`,
    and `m ≥ 2^52` unless `e = -1074` (subnormals and zero). -/
inductive F64 where
  | nan
  | inf (neg : Bool)
  | fin (neg : Bool) (m : Nat) (e : Int)
  deriving DecidableEq, Repr, Inhabited

namespace F64

def P52 : Nat := 4503599627370496      -- 2^52
def P53 : Nat := 9007199254740992      -- 2^53
def EMIN : Int := -1074
def EMAX : Int := 971

def pow2 (k : Nat) : Nat := 1 <<< k

/-- Canonical form predicate. -/
def Canon : F64 → Prop
  | nan => True
  | inf _ => True
  | fin _ m e => m < P53 ∧ EMIN ≤ e ∧ e ≤ EMAX ∧ (P52 ≤ m ∨ e = EMIN)

def zero (neg : Bool) : F64 := fin neg 0 EMIN

/-- Decode a bit pattern. -/
def ofBits (b : Nat) : F64 :=
  let sign := (b >>> 63) % 2 == 1
  let ex := (b >>> 52) % 2048
  let frac := b % P52
  if ex == 0 then fin sign frac EMIN
  else if ex == 2047 then (if frac == 0 then inf sign else nan)
  else fin sign (P52 + frac) (Int.ofNat ex - 1075)

/-- Encode (NaN as the canonical quiet NaN). -/
def toBits : F64 → Nat
  | nan => 0x7ff8000000000000
  | inf neg => (if neg then 1 <<< 63 else 0) + 0x7ff0000000000000
  | fin neg m e =>
    (if neg then 1 <<< 63 else 0) +
      (if m < P52 then m else ((e + 1075).toNat <<< 52) + (m - P52))

def isNan : F64 → Bool | nan => true | _ => false
def isInfinite : F64 → Bool | inf _ => true | _ => false
def isZero : F64 → Bool | fin _ 0 _ => true | _ => false

def neg : F64 → F64
  | nan => nan
  | inf s => inf (!s)
  | fin s m e => fin (!s) m e

/-- Round the positive rational `num/den` (`num > 0`, `den > 0`) to the nearest double, ties to even.
    Returns `(m, e)` canonical, or `none` on overflow to infinity. -/
def roundPos (num den : Nat) : Option (Nat × Int) :=
  let k : Int := Int.ofNat num.log2 - Int.ofNat den.log2     -- 2^(k-1) < num/den < 2^(k+1)
  let scaled (e : Int) : Nat × Nat :=                        -- (num / (den·2^e)) as numerator/denominator
    (num * pow2 (-e).toNat, den * pow2 e.toNat)
  let e1 := k - 52
  let (n1, d1) := scaled e1
  let e2 := if n1 / d1 < P52 then e1 - 1 else e1
  let e := if e2 < EMIN then EMIN else e2
  let (n, d) := scaled e
  let q := n / d
  let r := n % d
  let q' := if 2 * r > d ∨ (2 * r = d ∧ q % 2 = 1) then q + 1 else q
  let (m, e') := if q' = P53 then (P52, e + 1) else (q', e)
  if e' > EMAX then none else some (m, e')

/-- Round a signed rational `±num/den` (`den > 0`); `num = 0` gives a signed zero. -/
def round (neg : Bool) (num den : Nat) : F64 :=
  if num = 0 then zero neg
  else match roundPos num den with
    | some (m, e) => fin neg m e
    | none => inf neg

/-- `n as f64` for an integer (exact below 2^53, round-to-nearest-even above). -/
def ofInt (n : Int) : F64 := round (decide (n < 0)) n.natAbs 1

def mul : F64 → F64 → F64
  | nan, _ => nan
  | _, nan => nan
  | inf s, inf t => inf (s != t)
  | inf s, fin t m _ => if m = 0 then nan else inf (s != t)
  | fin s m _, inf t => if m = 0 then nan else inf (s != t)
  | fin s m1 e1, fin t m2 e2 =>
    let E := e1 + e2
    round (s != t) (m1 * m2 * pow2 E.toNat) (pow2 (-E).toNat)

def div : F64 → F64 → F64
  | nan, _ => nan
  | _, nan => nan
  | inf _, inf _ => nan
  | inf s, fin t _ _ => inf (s != t)
  | fin s _ _, inf t => zero (s != t)
  | fin s m1 e1, fin t m2 e2 =>
    if m2 = 0 then (if m1 = 0 then nan else inf (s != t))
    else
      let E := e1 - e2
      round (s != t) (m1 * pow2 E.toNat) (m2 * pow2 (-E).toNat)

/-- `f64::round`: nearest integer, halves away from zero. -/
def roundHalfAway : F64 → F64
  | nan => nan
  | inf s => inf s
  | fin s m e =>
    if e ≥ 0 then fin s m e
    else
      let d := pow2 (-e).toNat
      let q := m / d
      let r := m % d
      let q' := if 2 * r ≥ d then q + 1 else q
      round s q' 1

/-- Integer part (toward zero) of a finite value, as a signed integer. -/
def truncInt (s : Bool) (m : Nat) (e : Int) : Int :=
  let a : Nat := if e ≥ 0 then m * pow2 e.toNat else m / pow2 (-e).toNat
  if s then -(Int.ofNat a) else Int.ofNat a

/-- Rust `x as iN/uN`: NaN → 0, saturating at the bounds, otherwise truncation toward zero. -/
def toIntSat (lo hi : Int) : F64 → Int
  | nan => 0
  | inf s => if s then lo else hi
  | fin s m e =>
    let t := truncInt s m e
    if t < lo then lo else if t > hi then hi else t

def toI64 (x : F64) : Int := toIntSat I64_MIN I64_MAX x
def toI32 (x : F64) : Int := toIntSat I32_MIN I32_MAX x
def toU32 (x : F64) : Int := toIntSat 0 U32_MAX x

end F64
end SqlDt
