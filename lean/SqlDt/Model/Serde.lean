/-
  Model/Serde: src/serialize.rs — the human-readable form is `format`/`parse` with six fixed pictures
  through a 32-byte stack buffer; the binary form is the raw count, rebuilt through the checked
  constructors (after the fix of D3).  `serde_json`/`bincode` themselves are transport (trusted,
  exercised by the correspondence check).   Core Lean only.
-/
import SqlDt.Model.Parse
namespace SqlDt

def bytesOf (s : String) : Bytes := s.toList.map Char.toNat

/-- The fixed pictures of `serialize.rs` (`static *_FORMATTER`), REGENERATED from the source on every run
    ("YYYY-MM-DD", "YYYY-MM-DD HH24:MI:SS.FF6", "HH24:MI:SS.FF6", "YYYY-MM", "DD HH24:MI:SS.FF6", "YYYY-MM-DD HH24:MI:SS"). -/
def Serde.picture : Ty → Bytes
  | .D => Gen.SERDE_PICTURE_D
  | .TS => Gen.SERDE_PICTURE_TS
  | .T => Gen.SERDE_PICTURE_T
  | .YM => Gen.SERDE_PICTURE_YM
  | .DT => Gen.SERDE_PICTURE_DT
  | .OD => Gen.SERDE_PICTURE_OD

/-- `type StrBuf = StackStr<32>` (regenerated from the source) -/
def Serde.BUF_CAP : Nat := Gen.SERDE_BUF_CAP

/-- Human-readable serialisation: the text handed to `serialize_str`. -/
def Serde.serStr (ty : Ty) (v : Int) : Chk Bytes :=
  match formatValue ty v (Serde.picture ty) (some Serde.BUF_CAP) with
  | .ok t => .ok t
  | .error .Panic => .error .Panic
  | .error .FormatError =>
    -- `StackStr::write_str` does not report a full buffer, it PANICS (stack-buf 0.1.6: `push_str` → `copy_from_slice`):
    -- a text that the unbounded sink accepts but the buffer cannot hold is a panic, not a serde error
    match formatValue ty v (Serde.picture ty) none with
    | .ok _ => .error .Panic
    | _ => .error .Serde
  | .error _ => .error .Serde

/-- Human-readable deserialisation (`visit_str`). The fixed pictures never consult the clock
    (theorem `Props/C15`), the argument is there because `parse` has it. -/
def Serde.deStr (ty : Ty) (text : Bytes) (now : Clock) : Chk Int :=
  match parseValue ty text (Serde.picture ty) now with
  | .ok (v, _) => .ok v
  | .error .Panic => .error .Panic
  | .error _ => .error .Serde

/-- Binary serialisation: the raw count. -/
def Serde.serBin (_ty : Ty) (v : Int) : Int := v

/-- Binary deserialisation (`visit_i32` / `visit_i64`) through the checked constructors. -/
def Serde.deBin (ty : Ty) (raw : Int) : Chk Int :=
  let r := match ty with
    | .D => Date.tryFromDays raw
    | .T => Time.tryFromUsecs raw
    | .TS => Timestamp.tryFromUsecs raw
    | .YM => IntervalYM.tryFromMonths raw
    | .DT => IntervalDT.tryFromUsecs raw
    | .OD => OracleDate.tryFromUsecs raw
  match r with
  | .ok v => .ok v
  | .error .Panic => .error .Panic
  | .error _ => .error .Serde

end SqlDt
