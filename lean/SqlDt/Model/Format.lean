/-
  Model/Format: src/format.rs — `NaiveDateTime`, the `From<T> for NaiveDateTime` conversions,
  `Formatter::format`, `write_u32`.   Core Lean only.
-/
import SqlDt.Model.Types
import SqlDt.Model.Lexer
namespace SqlDt
open Gen

/-- The six value types. -/
inductive Ty where
  | D | T | TS | YM | DT | OD
  deriving DecidableEq, Repr, Inhabited

def Ty.info : Ty → TypeInfo
  | .D => INFO_D | .T => INFO_T | .TS => INFO_TS | .YM => INFO_YM | .DT => INFO_DT | .OD => INFO_OD

/-- Validity of a raw value for a type (what the checked constructors accept). -/
def Ty.Valid : Ty → Int → Prop
  | .D, v => isValidDate v
  | .T, v => isValidTime v
  | .TS, v => isValidTimestamp v
  | .YM, v => IntervalYM.isValidMonths v
  | .DT, v => IntervalDT.isValidUsecs v
  | .OD, v => OracleDate.isValidDate v

instance (t : Ty) (v : Int) : Decidable (t.Valid v) := by
  cases t <;> unfold Ty.Valid <;> exact inferInstance

/-- `format::NaiveDateTime`; `ampm`: `some false` = AM, `some true` = PM. -/
structure NDT where
  year : Int := DATE_MIN_YEAR
  month : Int := 0
  day : Int := 1
  hour : Int := 0
  minute : Int := 0
  sec : Int := 0
  usec : Int := 0
  ampm : Option Bool := none
  negative : Bool := false
  deriving Repr, DecidableEq, Inhabited

namespace NDT

def ofDate (d : Int) : NDT :=
  let (y, m, dd) := Date.extract d
  { year := y, month := m, day := dd }

def ofTime (t : Int) : NDT :=
  let (h, mi, s, us) := Time.extract t
  { hour := h, minute := mi, sec := s, usec := us }

def ofTimestamp (ts : Int) : NDT :=
  let (date, time) := Timestamp.extract ts
  let (y, m, dd) := Date.extract date
  let (h, mi, s, us) := Time.extract time
  { year := y, month := m, day := dd, hour := h, minute := mi, sec := s, usec := us }

def ofIntervalYM (v : Int) : NDT :=
  let (sign, y, m) := IntervalYM.extract v
  { year := y, month := m, negative := sign == -1 }

def ofIntervalDT (v : Int) : NDT :=
  let (sign, d, h, mi, s, us) := IntervalDT.extract v
  { day := d, hour := h, minute := mi, sec := s, usec := us, negative := sign == -1 }

def ofValue : Ty → Int → NDT
  | .D, v => ofDate v
  | .T, v => ofTime v
  | .TS, v => ofTimestamp v
  | .YM, v => ofIntervalYM v
  | .DT, v => ofIntervalDT v
  | .OD, v => ofTimestamp v

def hour12 (dt : NDT) : Int :=
  if dt.hour = 0 then 12 else if 1 ≤ dt.hour ∧ dt.hour ≤ 12 then dt.hour else dt.hour - 12

/-- `fraction(p)`: `(usec as f64 / FRACTION_FACTOR[p]) as u32`. -/
def fraction (dt : NDT) (p : Nat) : Chk Int := do
  let bits ← idx FRACTION_FACTOR_BITS p
  pure (F64.toU32 (F64.div (F64.ofInt dt.usec) (F64.ofBits bits)))

def adjustHour12 (dt : NDT) : NDT :=
  match dt.ampm with
  | none => dt
  | some false => { dt with hour := if dt.hour = 12 then 0 else dt.hour }
  | some true => { dt with hour := if dt.hour = 12 then 12 else dt.hour + 12 }

end NDT

/-- `DateTime::date()` of the value being formatted (`Some` for D, TS, OD). -/
def Ty.dateOf : Ty → Int → Option Int
  | .D, v => some v
  | .TS, v => some (Timestamp.date v)
  | .OD, v => some (Timestamp.date v)
  | _, _ => none

/-- A `fmt::Write` sink: the bytes written so far and an optional capacity. -/
structure Sink where
  buf : Bytes := []
  cap : Option Nat := none

def Sink.write (s : Sink) (bs : Bytes) : Chk Sink :=
  match s.cap with
  | some c => if s.buf.length + bs.length > c then .error .FormatError else .ok { s with buf := s.buf ++ bs }
  | none => .ok { s with buf := s.buf ++ bs }

/-- The digit loop of `write_u32`: least significant digit first, at most 11 digits (fuel). -/
def digitsRev : Nat → Nat → List Nat
  | 0, _ => []
  | fuel + 1, v => if v ≥ 10 then (v % 10 + 48) :: digitsRev fuel (v / 10) else [v + 48]

/-- `write_u32(w, value, width)`: decimal digits, left-padded with `0` to `width`. -/
def writeU32 (value : Int) (width : Nat) : Bytes :=
  let ds := (digitsRev 11 value.toNat).reverse
  List.replicate (width - ds.length) 48 ++ ds

/-- Rust `{}` of a `u32` (no padding). -/
def displayU32 (value : Int) : Bytes := (digitsRev 11 value.toNat).reverse

def ampmText (style : AmPmStyle) (hour : Int) : Chk Bytes :=
  if 0 ≤ hour ∧ hour ≤ 11 then idx AM_TEXT style.index else idx PM_TEXT style.index

namespace Formatter

def notRecognized {α} : Chk α := .error .FormatError

/-- One field of `Formatter::format`. -/
def formatField (ty : Ty) (v : Int) (dt : NDT) (w : Sink) (f : Field) : Chk Sink :=
  let I := ty.info
  match f with
  | .Invalid => .error .Panic         -- `unreachable!()`
  | .Blank n => w.write (List.replicate n 32)
  | .Hyphen => w.write [B '-']
  | .Colon => w.write [B ':']
  | .Slash => w.write [B '/']
  | .Backslash => w.write [B '\\']
  | .Comma => w.write [B ',']
  | .Dot => w.write [B '.']
  | .Semicolon => w.write [B ';']
  | .T => w.write [B 'T']
  | .Year n =>
    if I.HAS_DATE then do
      let modulus ← idx YEAR_MODIFIER (Int.ofNat n - 1)
      w.write (writeU32 (asU32 (rrem dt.year modulus)) n)
    else if I.IS_INTERVAL_YM then w.write (writeU32 (asU32 dt.year) n)
    else notRecognized
  | .Month =>
    if I.HAS_DATE || I.IS_INTERVAL_YM then do w.write (← idx MONTH_TABLE dt.month) else notRecognized
  | .Day =>
    if I.HAS_DATE then do w.write (← idx DAY_TABLE dt.day)
    else if I.IS_INTERVAL_DT then
      if dt.day < 32 then do w.write (← idx DAY_TABLE dt.day) else w.write (displayU32 dt.day)
    else notRecognized
  | .Hour24 => if I.HAS_TIME then do w.write (← idx HOUR_TABLE dt.hour) else notRecognized
  | .Hour12 =>
    if I.HAS_TIME && !I.IS_INTERVAL_DT then do w.write (← idx HOUR_TABLE dt.hour12) else notRecognized
  | .Minute => if I.HAS_TIME then do w.write (← idx MINUTE_SECOND_TABLE dt.minute) else notRecognized
  | .Second => if I.HAS_TIME then do w.write (← idx MINUTE_SECOND_TABLE dt.sec) else notRecognized
  | .Fraction p =>
    if I.HAS_FRACTION then do
      let p := p.getD 6
      let fr ← dt.fraction p
      w.write (writeU32 fr p)
    else notRecognized
  | .AmPm style =>
    if I.HAS_TIME && !I.IS_INTERVAL_DT then do w.write (← ampmText style dt.hour) else notRecognized
  | .MonthName style =>
    if I.HAS_DATE then do
      -- `Month::from(month as usize)`: MONTH_TABLE[month - 1] (panics out of range), then the name table
      if dt.month < 1 ∨ dt.month > 12 then .error .Panic
      else do
        let row ← idx MONTH_NAME_TABLE style.index
        w.write (← idx row (dt.month - 1))
    else notRecognized
  | .DayName style =>
    if I.HAS_DATE then do
      let dow ← match ty.dateOf v with
        | some d => pure (Date.dayOfWeek d)
        | none => do let d ← Date.tryFromYmd dt.year dt.month dt.day; pure (Date.dayOfWeek d)
      let row ← idx DAY_NAME_TABLE style.index
      w.write (← idx row (dow - 1))
    else notRecognized
  | .DayOfWeek =>
    if I.HAS_DATE then do
      let dow ← match ty.dateOf v with
        | some d => pure (Date.dayOfWeek d)
        | none => do let d ← Date.tryFromYmd dt.year dt.month dt.day; pure (Date.dayOfWeek d)
      w.write (← idx DAY_OF_WEEK_TABLE dow)
    else notRecognized
  | .DayOfYear =>
    if I.HAS_DATE then do w.write (← idx DAY_OF_YEAR_TABLE (theDayOfYear dt.year dt.month dt.day))
    else notRecognized
  | .WeekOfMonth =>
    if I.HAS_DATE then do w.write (← idx WEEK_OF_MONTH_TABLE dt.day) else notRecognized
  | .WeekOfYear =>
    if I.HAS_DATE then do w.write (← idx WEEK_OF_YEAR_TABLE (theDayOfYear dt.year dt.month dt.day))
    else notRecognized

def formatFields (ty : Ty) (v : Int) (dt : NDT) : Sink → List Field → Chk Sink
  | w, [] => .ok w
  | w, f :: fs => do
    let w ← formatField ty v dt w f
    formatFields ty v dt w fs

/-- `Formatter::format(value, sink)`: returns the text written. -/
def format (ty : Ty) (v : Int) (fields : List Field) (cap : Option Nat) : Chk Bytes := do
  let dt := NDT.ofValue ty v
  let I := ty.info
  let w : Sink := { cap := cap }
  let w ←
    if dt.negative then w.write [B '-']
    else if I.IS_INTERVAL_YM || I.IS_INTERVAL_DT then w.write [B '+']
    else pure w
  let w ← formatFields ty v dt w fields
  pure w.buf

end Formatter
end SqlDt
