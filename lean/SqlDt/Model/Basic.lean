/-
  Model/Basic: error kinds, the `Chk` result monad (a Rust panic is a value), machine-integer
  ranges, Rust's truncating `/` and `%`, and `as` casts.   Core Lean only (no imports).
-/
namespace SqlDt

/-- `sqldatetime::Error` without payloads, plus `Serde` (an error reported by serde) and
    `Panic` (the call would panic). -/
inductive Err where
  | DateOutOfRange | TimeOutOfRange | IntervalOutOfRange | InvalidNumber | InvalidMonth | InvalidDay
  | InvalidMinute | InvalidSecond | InvalidFraction | InvalidDate | NumericOverflow | DivideByZero
  | InvalidFormat | FormatError | ParseError | TryReserveError | Serde | Panic
  deriving DecidableEq, Repr, Inhabited

def Err.name : Err → String
  | .DateOutOfRange => "DateOutOfRange" | .TimeOutOfRange => "TimeOutOfRange"
  | .IntervalOutOfRange => "IntervalOutOfRange" | .InvalidNumber => "InvalidNumber"
  | .InvalidMonth => "InvalidMonth" | .InvalidDay => "InvalidDay" | .InvalidMinute => "InvalidMinute"
  | .InvalidSecond => "InvalidSecond" | .InvalidFraction => "InvalidFraction" | .InvalidDate => "InvalidDate"
  | .NumericOverflow => "NumericOverflow" | .DivideByZero => "DivideByZero" | .InvalidFormat => "InvalidFormat"
  | .FormatError => "FormatError" | .ParseError => "ParseError" | .TryReserveError => "TryReserveError"
  | .Serde => "Serde" | .Panic => "Panic"

/-- Result of a modelled call: `ok v`, `error e` (an `Err` returned by the crate) or `error .Panic`. -/
abbrev Chk := Except Err

deriving instance DecidableEq for Except

def I32_MIN : Int := -2147483648
def I32_MAX : Int := 2147483647
def I64_MIN : Int := -9223372036854775808
def I64_MAX : Int := 9223372036854775807
def U32_MAX : Int := 4294967295
def U8_MAX : Int := 255

def fitsI32 (x : Int) : Prop := I32_MIN ≤ x ∧ x ≤ I32_MAX
def fitsI64 (x : Int) : Prop := I64_MIN ≤ x ∧ x ≤ I64_MAX
def fitsU32 (x : Int) : Prop := 0 ≤ x ∧ x ≤ U32_MAX

instance (x : Int) : Decidable (fitsI32 x) := by unfold fitsI32; exact inferInstance
instance (x : Int) : Decidable (fitsI64 x) := by unfold fitsI64; exact inferInstance
instance (x : Int) : Decidable (fitsU32 x) := by unfold fitsU32; exact inferInstance

/-- Rust's `a / b` on signed integers for a positive divisor: truncation toward zero.
    (Every divisor in the crate is a positive constant.) -/
def rdiv (a b : Int) : Int := if 0 ≤ a then a / b else -((-a) / b)

/-- Rust's `a % b` on signed integers for a positive divisor: the remainder has the sign of `a`. -/
def rrem (a b : Int) : Int := if 0 ≤ a then a % b else -((-a) % b)

/-- `x as u32` for an `i32`/`i64` value: wrap modulo 2^32. -/
def asU32 (x : Int) : Int := x % 4294967296

/-- `x as u8` for a `usize` value: wrap modulo 256. -/
def asU8 (x : Int) : Int := x % 256

/-- `x as i32` for an `i64`/`u32` value: two's complement wrap. -/
def asI32 (x : Int) : Int :=
  let r := x % 4294967296
  if r ≥ 2147483648 then r - 4294967296 else r

/-- `checked_add`/`checked_sub` on `i32`: `none` when the exact result does not fit. -/
def checkedI32 (x : Int) : Option Int := if fitsI32 x then some x else none
def checkedI64 (x : Int) : Option Int := if fitsI64 x then some x else none

/-- Indexing a Rust array/slice: out of bounds (or a negative index cast to `usize`) panics. -/
def idx {α} (xs : List α) (i : Int) : Chk α :=
  if i < 0 then .error .Panic else
  match xs[i.toNat]? with
  | some v => .ok v
  | none => .error .Panic

/-- Indexing where the crate's preceding checks make the index valid; `d` is never used on valid
    receivers (bounds lemmas in `Lemmas/Bounds`). -/
def idxD {α} (xs : List α) (i : Int) (d : α) : α :=
  if i < 0 then d else xs.getD i.toNat d

def boolToInt (b : Bool) : Int := if b then 1 else 0

end SqlDt
