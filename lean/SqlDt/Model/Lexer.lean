/-
  Model/Lexer: src/format.rs — `Field`, `FormatParser::next` and its helpers, `Formatter::try_new`.
  Text is a list of bytes (`List Nat`).  Mirrors the Rust dispatch, including the look-ahead /
  `back(1)` structure, so that "the lexer is a maximal-munch tokenizer" is a theorem and not a
  definition.  Core Lean only.
-/
import SqlDt.Generated
import SqlDt.Model.Basic
namespace SqlDt
open Gen

abbrev Bytes := List Nat

inductive NameStyle where
  | Capital | Lower | Upper | AbbrCapital | AbbrLower | AbbrUpper
  deriving DecidableEq, Repr, Inhabited

def NameStyle.index : NameStyle → Nat
  | .Capital => NAMESTYLE_CAPITAL | .Lower => NAMESTYLE_LOWER | .Upper => NAMESTYLE_UPPER
  | .AbbrCapital => NAMESTYLE_ABBRCAPITAL | .AbbrLower => NAMESTYLE_ABBRLOWER | .AbbrUpper => NAMESTYLE_ABBRUPPER

inductive AmPmStyle where
  | Upper | Lower | UpperDot | LowerDot
  deriving DecidableEq, Repr, Inhabited

def AmPmStyle.index : AmPmStyle → Nat
  | .Upper => 0 | .Lower => 1 | .UpperDot => 2 | .LowerDot => 3

inductive Field where
  | Invalid
  | Blank (n : Nat)
  | Hyphen | Colon | Slash | Backslash | Comma | Dot | Semicolon | T
  | Year (n : Nat)
  | Month | Day
  | DayName (s : NameStyle)
  | MonthName (s : NameStyle)
  | Hour24 | Hour12 | Minute | Second
  | Fraction (p : Option Nat)
  | AmPm (s : AmPmStyle)
  | DayOfWeek | DayOfYear | WeekOfMonth | WeekOfYear
  deriving DecidableEq, Repr, Inhabited

/-! ASCII helpers (bytes) -/
def isUpperB (b : Nat) : Bool := 65 ≤ b && b ≤ 90
def isLowerB (b : Nat) : Bool := 97 ≤ b && b ≤ 122
def toLowerB (b : Nat) : Nat := if isUpperB b then b + 32 else b
def isDigitB (b : Nat) : Bool := 48 ≤ b && b ≤ 57
/-- `u8::is_ascii_whitespace`: space, \t, \n, form feed, \r. -/
def isWhitespaceB (b : Nat) : Bool := b == 32 || b == 9 || b == 10 || b == 12 || b == 13
/-- `u8::eq_ignore_ascii_case`. -/
def eqIgnoreCaseB (a b : Nat) : Bool := toLowerB a == toLowerB b

/-- `CaseInsensitive::starts_with(s, needle)`. -/
def startsWithCI : Bytes → Bytes → Bool
  | _, [] => true
  | [], _ :: _ => false
  | a :: s, b :: n => eqIgnoreCaseB a b && startsWithCI s n

/-- `<[u8]>::starts_with` (exact). -/
def startsWith : Bytes → Bytes → Bool
  | _, [] => true
  | [], _ :: _ => false
  | a :: s, b :: n => a == b && startsWith s n

def B (c : Char) : Nat := c.toNat

/-- `take_while(|y| y == expect).count()` -/
def countLeading (expect : Nat) : Bytes → Nat
  | [] => 0
  | a :: s => if a == expect then countLeading expect s + 1 else 0

namespace Lexer

/-- `parse_year` on `remain` (non-empty is guaranteed by the caller): up to four `y`/`Y`. -/
def parseYear (remain : Bytes) : Field × Bytes :=
  let len := ((remain.take 4).takeWhile (fun y => eqIgnoreCaseB y (B 'y'))).length
  if len > 0 then (.Year len, remain.drop len) else (.Invalid, remain)

/-- `parse_hour` (called with the input *after* the first `H` was popped). -/
def parseHour : Bytes → Field × Bytes
  | [] => (.Invalid, [])
  | ch :: rem =>
    if ch ≠ B 'H' ∧ ch ≠ B 'h' then (.Invalid, rem)
    else if rem.isEmpty then (.Hour12, rem)
    else if startsWith rem [B '2', B '4'] then (.Hour24, rem.drop 2)
    else if startsWith rem [B '1', B '2'] then (.Hour12, rem.drop 2)
    else (.Hour12, rem)

/-- `parse_second` (after the first `S`). -/
def parseSecond : Bytes → Field × Bytes
  | [] => (.Invalid, [])
  | ch :: rem => if ch = B 'S' ∨ ch = B 's' then (.Second, rem) else (.Invalid, rem)

/-- `parse_fraction` (after the first `F`). -/
def parseFraction : Bytes → Field × Bytes
  | [] => (.Invalid, [])
  | ch :: rem =>
    if ch = B 'F' ∨ ch = B 'f' then
      match rem with
      | d :: rem' =>
        if isDigitB d then
          let p := d - 48
          if 1 ≤ p ∧ p ≤ 9 then (.Fraction (some p), rem') else (.Invalid, rem')
        else (.Fraction none, rem)
      | [] => (.Fraction none, rem)
    else (.Invalid, rem)

/-- `parse_am` / `parse_pm` (on the input starting at the `A`/`P`); `c`/`C` = lower/upper letter. -/
def parseMeridian (c C : Nat) (remain : Bytes) : Field × Bytes :=
  let m := B 'm'; let M := B 'M'; let dot := B '.'
  let four := remain.take 4
  if remain.length ≥ 4 ∧ (four = [C, dot, M, dot] ∨ four = [C, dot, m, dot] ∨ four = [c, dot, M, dot]) then
    (.AmPm .UpperDot, remain.drop 4)
  else if remain.length ≥ 4 ∧ four = [c, dot, m, dot] then (.AmPm .LowerDot, remain.drop 4)
  else if remain.length ≥ 2 then
    let two := remain.take 2
    if two = [C, M] ∨ two = [C, m] ∨ two = [c, M] then (.AmPm .Upper, remain.drop 2)
    else if two = [c, m] then (.AmPm .Lower, remain.drop 2)
    else (.Invalid, remain)
  else (.Invalid, remain)

/-- `parse_month_name` (on the input starting at the `M`). -/
def parseMonthName (remain : Bytes) : Field × Bytes :=
  let two := remain.take 2
  if startsWithCI remain [B 'm', B 'o', B 'n', B 't', B 'h'] then
    if two = [B 'M', B 'O'] then (.MonthName .Upper, remain.drop 5)
    else if two = [B 'M', B 'o'] then (.MonthName .Capital, remain.drop 5)
    else (.MonthName .Lower, remain.drop 5)
  else if startsWithCI remain [B 'm', B 'o', B 'n'] then
    if two = [B 'M', B 'O'] then (.MonthName .AbbrUpper, remain.drop 3)
    else if two = [B 'M', B 'o'] then (.MonthName .AbbrCapital, remain.drop 3)
    else (.MonthName .AbbrLower, remain.drop 3)
  else (.Invalid, remain)

/-- `parse_day_name` (on the input starting at the `D`; the caller saw `a|A|y|Y` next).
    After the fix of D6: `DA` not followed by `Y` falls back to the one-letter token `D`. -/
def parseDayName (remain : Bytes) : Field × Bytes :=
  let two := remain.take 2
  if startsWithCI remain [B 'd', B 'a', B 'y'] then
    if two = [B 'D', B 'A'] then (.DayName .Upper, remain.drop 3)
    else if two = [B 'D', B 'a'] then (.DayName .Capital, remain.drop 3)
    else (.DayName .Lower, remain.drop 3)
  else if remain.length ≥ 2 ∧ eqIgnoreCaseB (remain.getD 1 0) (B 'y') then
    if two = [B 'D', B 'Y'] then (.DayName .AbbrUpper, remain.drop 2)
    else if two = [B 'D', B 'y'] then (.DayName .AbbrCapital, remain.drop 2)
    else (.DayName .AbbrLower, remain.drop 2)
  else (.DayOfWeek, remain.drop 1)

/-- `FormatParser::next`: `none` at end of input, else the field and the remaining input. -/
def next : Bytes → Option (Field × Bytes)
  | [] => none
  | ch :: rest =>
    let all := ch :: rest
    some <|
      if ch = B ' ' then
        let len := countLeading (B ' ') rest
        (.Blank (len + 1), rest.drop len)
      else if ch = B '-' then (.Hyphen, rest)
      else if ch = B ':' then (.Colon, rest)
      else if ch = B '/' then (.Slash, rest)
      else if ch = B '\\' then (.Backslash, rest)
      else if ch = B ',' then (.Comma, rest)
      else if ch = B '.' then (.Dot, rest)
      else if ch = B ';' then (.Semicolon, rest)
      else if ch = B 'A' ∨ ch = B 'a' then parseMeridian (B 'a') (B 'A') all
      else if ch = B 'D' ∨ ch = B 'd' then
        match rest with
        | [] => (.DayOfWeek, rest)
        | c2 :: rest2 =>
          if c2 = B 'D' ∨ c2 = B 'd' then
            match rest2 with
            | [] => (.Day, rest2)
            | c3 :: rest3 => if c3 = B 'D' ∨ c3 = B 'd' then (.DayOfYear, rest3) else (.Day, rest2)
          else if c2 = B 'a' ∨ c2 = B 'A' ∨ c2 = B 'Y' ∨ c2 = B 'y' then parseDayName all
          else (.DayOfWeek, rest)
      else if ch = B 'F' ∨ ch = B 'f' then parseFraction rest
      else if ch = B 'H' ∨ ch = B 'h' then parseHour rest
      else if ch = B 'M' ∨ ch = B 'm' then
        match rest with
        | [] => (.Invalid, rest)
        | c2 :: rest2 =>
          if c2 = B 'I' ∨ c2 = B 'i' then (.Minute, rest2)
          else if c2 = B 'M' ∨ c2 = B 'm' then (.Month, rest2)
          else if c2 = B 'O' ∨ c2 = B 'o' then parseMonthName all
          else (.Invalid, rest)
      else if ch = B 'P' ∨ ch = B 'p' then parseMeridian (B 'p') (B 'P') all
      else if ch = B 'S' ∨ ch = B 's' then parseSecond rest
      else if ch = B 'T' then (.T, rest)
      else if ch = B 'Y' ∨ ch = B 'y' then parseYear all
      else if ch = B 'W' ∨ ch = B 'w' then
        match rest with
        | [] => (.WeekOfMonth, rest)
        | c2 :: rest2 => if c2 = B 'W' ∨ c2 = B 'w' then (.WeekOfYear, rest2) else (.WeekOfMonth, rest)
      else (.Invalid, rest)

/-- `next` with the "no token here" outcome made explicit: `none` = end of input, `some none` = `Field::Invalid`. -/
def nextNorm (s : Bytes) : Option (Option (Field × Bytes)) :=
  match next s with
  | none => none
  | some (f, r) => if f = .Invalid then some none else some (some (f, r))

/-- `Formatter::try_new`: iterate `next`, rejecting `Invalid` and more than `MAX_FIELDS` fields.
    `fuel` bounds the number of iterations (each consumes at least one byte; callers pass the input length). -/
def tryNewAux : Nat → Bytes → List Field → Chk (List Field)
  | 0, _, acc => .ok acc.reverse
  | fuel + 1, input, acc =>
    match next input with
    | none => .ok acc.reverse
    | some (field, rest) =>
      if field = .Invalid then .error .InvalidFormat
      else if acc.length ≥ MAX_FIELDS then .error .InvalidFormat
      else tryNewAux fuel rest (field :: acc)

def tryNew (pic : Bytes) : Chk (List Field) := tryNewAux (pic.length + 1) pic []

end Lexer
end SqlDt
