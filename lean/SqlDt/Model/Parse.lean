/-
  Model/Parse: src/format.rs — `Formatter::parse` / `parse_internal` and its leaf parsers, and the
  six `TryFrom<NaiveDateTime>` conversions.   The clock is a parameter; the number of clock reads
  (0 or 1, the crate caches the first read) is part of the result.   Core Lean only.
-/
import SqlDt.Model.Format
namespace SqlDt
open Gen

namespace Parser

def perr {α} : Chk α := .error .ParseError

/-- `eat_digits(s, max_len)`: the leading ASCII digits (at most `max_len`) and the rest. -/
def eatDigits (s : Bytes) (maxLen : Nat) : Bytes × Bytes :=
  let i := ((s.take maxLen).takeWhile isDigitB).length
  (s.take i, s.drop i)

def eatWhitespaces (s : Bytes) : Bytes := s.dropWhile isWhitespaceB

def foldDigits (ds : Bytes) : Int := ds.foldl (fun acc d => acc * 10 + (Int.ofNat d - 48)) 0

/-- `parse_number(input, max_len)` → `(negative, value, rest)`. -/
def parseNumber (input : Bytes) (maxLen : Nat) : Chk (Bool × Int × Bytes) :=
  match input with
  | [] => perr
  | ch :: rest =>
    let (negative, s) :=
      if ch = B '+' then (false, rest) else if ch = B '-' then (true, rest) else (false, input)
    let (digits, s) := eatDigits s maxLen
    if digits.isEmpty then perr
    else
      let int := foldDigits digits
      .ok (negative, (if negative then -int else int), s)

/-- Mutable state of `parse_internal`. -/
structure St where
  s : Bytes
  dt : NDT := {}
  isYearSet : Bool := false
  isMonthSet : Bool := false
  isDaySet : Bool := false
  isHour24Set : Option Bool := none
  isMinSet : Bool := false
  isSecSet : Bool := false
  isFractionSet : Bool := false
  isAmPmSet : Bool := false   -- the meridian field code was seen (also when left out at the end; fix of D12)
  dow : Option Int := none
  doy : Option Int := none
  reads : Nat := 0           -- how often the clock was read (`get_now` caches: 0 or 1)
  deriving Repr

/-- `parse_year(input, max_len, get_now)` → `(negative, year, rest, clockWasRead)`.
    After the fix of D10 the two-digit rule counts digits only (a sign is not a digit). -/
def parseYear (input : Bytes) (maxLen : Nat) (now : Clock) : Chk (Bool × Int × Bytes × Bool) :=
  if maxLen = 2 then do
    let (negative, year, rem) ← parseNumber input 4
    let signLen := match input with
      | ch :: _ => if ch = B '+' ∨ ch = B '-' then 1 else 0
      | [] => 0
    if input.length - rem.length - signLen > 2 then pure (negative, year, rem, false)
    else
      let cy := now.year
      pure (negative, cy - rrem cy 100 + year, rem, true)
  else if maxLen = 1 ∨ maxLen = 3 then do
    let (negative, year, rem) ← parseNumber input maxLen
    let cy := now.year
    let modulus ← idx YEAR_MODIFIER (Int.ofNat maxLen - 1)
    pure (negative, cy - rrem cy modulus + year, rem, true)
  else do
    let (negative, year, rem) ← parseNumber input maxLen
    pure (negative, year, rem, false)

/-- `parse_ampm(s, style)` → `(Some(am/pm) | None, rest)`. -/
def parseAmPm (s : Bytes) (style : AmPmStyle) : Chk (Option Bool × Bytes) :=
  if s.isEmpty then .ok (none, s)
  else
    match style with
    | .LowerDot | .UpperDot =>
      if startsWithCI s [B 'A', B '.', B 'M', B '.'] then .ok (some false, s.drop 4)
      else if startsWithCI s [B 'P', B '.', B 'M', B '.'] then .ok (some true, s.drop 4)
      else perr
    | .Upper | .Lower =>
      if startsWithCI s [B 'A', B 'M'] then .ok (some false, s.drop 2)
      else if startsWithCI s [B 'P', B 'M'] then .ok (some true, s.drop 2)
      else perr

/-- `parse_fraction(s, max_len)` → `(usec, rest)`; `usec` may be 1_000_000 after rounding. -/
def parseFraction (s : Bytes) (maxLen : Nat) : Chk (Int × Bytes) :=
  match s with
  | [] => .ok (0, s)
  | ch :: _ =>
    if ch = B '-' then perr
    else do
      let (digits, rest) := eatDigits s maxLen
      let int := foldDigits digits
      let bits ← idx FRACTION_FACTOR_BITS digits.length
      pure (F64.toU32 (F64.roundHalfAway (F64.mul (F64.ofInt int) (F64.ofBits bits))), rest)

/-- first index (1-based) of a name of `names` that `s` starts with, ignoring case. -/
def findName (s : Bytes) : List Bytes → Nat → Option (Nat × Nat)
  | [], _ => none
  | n :: ns, i => if startsWithCI s n then some (i, n.length) else findName s ns (i + 1)

/-- `parse_month_name(s)` → `(month 1..12, rest)`: full names first, then abbreviations. -/
def parseMonthName (s : Bytes) : Chk (Int × Bytes) :=
  match findName s (MONTH_NAME_TABLE.getD NAMESTYLE_CAPITAL []) 1 with
  | some (i, len) => .ok (Int.ofNat i, s.drop len)
  | none =>
    match findName s (MONTH_NAME_TABLE.getD NAMESTYLE_ABBRCAPITAL []) 1 with
    | some (i, len) => .ok (Int.ofNat i, s.drop len)
    | none => perr

/-- `parse_week_day_name(s, style)` → `(weekday 1..7, rest)`. -/
def parseWeekDayName (s : Bytes) (style : NameStyle) : Chk (Int × Bytes) :=
  let row := match style with
    | .Capital | .Lower | .Upper => DAY_NAME_TABLE.getD NAMESTYLE_CAPITAL []
    | _ => DAY_NAME_TABLE.getD NAMESTYLE_ABBRCAPITAL []
  match findName s row 1 with
  | some (i, len) => .ok (Int.ofNat i, s.drop len)
  | none => perr

/-- `parse_week_day_number(s)` (after the fix of D5: `wrapping_sub`). -/
def parseWeekDayNumber (s : Bytes) : Chk (Int × Bytes) :=
  match s with
  | [] => perr
  | ch :: rest =>
    let num := (ch + 256 - 48) % 256
    if 1 ≤ num ∧ num ≤ 7 then .ok (Int.ofNat num, rest) else perr

/-- `expect_number!` -/
def expectNumber (st : St) (maxLen : Nat) : Chk (Int × Bool × St) := do
  let (neg, n, rem) ← parseNumber st.s maxLen
  pure (n, neg, { st with s := rem })

/-- `expect_number_with_tolerance!` -/
def expectNumberTol (st : St) (maxLen : Nat) (default : Int) : Chk (Int × Bool × St) :=
  if st.s.isEmpty then .ok (default, decide (default < 0), st) else expectNumber st maxLen

/-- Outcome of one field: continue with a new state. (`continue` of the tolerance macro is the
    same as "state unchanged".) -/
def expectChar (st : St) (ch : Nat) (tolerant : Bool) : Chk St :=
  match st.s with
  | c :: rest => if c = ch then .ok { st with s := rest } else perr
  | [] => if tolerant then .ok st else perr

/-- One iteration of the field loop of `parse_internal` (non-exact mode: `FX = false`). -/
def parseField (ty : Ty) (now : Clock) (st0 : St) (field : Field) : Chk St :=
  let I := ty.info
  let st := { st0 with s := eatWhitespaces st0.s }
  match field with
  | .Invalid => .error .Panic
  | .Blank _ => .ok st
  | .Hyphen => expectChar st (B '-') true
  | .Colon => expectChar st (B ':') true
  | .Slash => expectChar st (B '/') false
  | .Backslash => expectChar st (B '\\') false
  | .Comma => expectChar st (B ',') false
  | .Dot => expectChar st (B '.') true
  | .Semicolon => expectChar st (B ';') false
  | .T => expectChar st (B 'T') false
  | .Year n =>
    if I.HAS_DATE || I.IS_INTERVAL_YM then
      if st.isYearSet then perr
      else do
        let len := if I.IS_INTERVAL_YM then I.YEAR_MAX_LENGTH else n
        let (negative, year, rem, read) ← parseYear st.s len now
        let st := { st with reads := if read then 1 else st.reads }
        if negative && I.HAS_DATE then perr
        else pure { st with dt := { st.dt with negative := negative, year := year }, s := rem, isYearSet := true }
    else perr
  | .Month =>
    if I.HAS_DATE || I.IS_INTERVAL_YM then
      if st.isMonthSet then perr
      else
        match parseNumber st.s I.MONTH_MAX_LENGTH with
        | .ok (negative, month, rem) =>
          if negative then perr
          else .ok { st with s := rem, dt := { st.dt with month := month }, isMonthSet := true }
        | .error _ => do
          let (month, rem) ← parseMonthName st.s
          pure { st with s := rem, dt := { st.dt with month := month }, isMonthSet := true }
    else perr
  | .Day =>
    if I.HAS_DATE || I.IS_INTERVAL_DT then
      if st.isDaySet then perr
      else do
        let (day, negative, st) ← expectNumber st I.DAY_MAX_LENGTH
        if I.HAS_DATE && negative then perr
        else pure { st with dt := { st.dt with day := (if day < 0 then -day else day), negative := negative },
                            isDaySet := true }
    else perr
  | .Hour24 =>
    if I.HAS_TIME then
      if st.isHour24Set.isSome then perr
      else if st.isAmPmSet then perr
      else do
        let (hour, negative, st) ←
          if I.IS_INTERVAL_DT then expectNumber st I.HOUR_MAX_LENGTH
          else expectNumberTol st I.HOUR_MAX_LENGTH 0
        if negative then perr
        else pure { st with dt := { st.dt with hour := hour }, isHour24Set := some true }
    else perr
  | .Hour12 =>
    if I.HAS_TIME && !I.IS_INTERVAL_DT then
      if st.isHour24Set.isSome then perr
      else do
        let (hour, negative, st) ← expectNumberTol st I.HOUR_MAX_LENGTH 12
        if negative ∨ hour < 1 ∨ hour > 12 then perr
        else pure { st with dt := ({ st.dt with hour := hour } : NDT).adjustHour12, isHour24Set := some false }
    else perr
  | .Minute =>
    if I.HAS_TIME then
      if st.isMinSet then perr
      else do
        let (minute, negative, st) ←
          if I.IS_INTERVAL_DT then expectNumber st I.MINUTE_MAX_LENGTH
          else expectNumberTol st I.MINUTE_MAX_LENGTH 0
        if negative then perr
        else pure { st with dt := { st.dt with minute := minute }, isMinSet := true }
    else perr
  | .Second =>
    if I.HAS_TIME then
      if st.isSecSet then perr
      else do
        let (sec, negative, st) ←
          if I.IS_INTERVAL_DT then expectNumber st I.SECOND_MAX_LENGTH
          else expectNumberTol st I.SECOND_MAX_LENGTH 0
        if negative then perr
        else pure { st with dt := { st.dt with sec := sec }, isSecSet := true }
    else perr
  | .Fraction p =>
    if I.HAS_FRACTION then
      if st.isFractionSet then perr
      else do
        let (usec, rem) ← parseFraction st.s (p.getD 9)
        pure { st with s := rem, dt := { st.dt with usec := usec }, isFractionSet := true }
    else perr
  | .AmPm style =>
    if I.HAS_TIME && !I.IS_INTERVAL_DT then
      if st.isAmPmSet then perr
      else if st.isHour24Set = some true then perr
      else do
        let (ampm, rem) ← parseAmPm st.s style
        let dt := { st.dt with ampm := ampm }
        let dt := if ampm.isSome then dt.adjustHour12 else dt
        pure { st with s := rem, dt := dt, isAmPmSet := true }
    else perr
  | .MonthName _ =>
    if I.HAS_DATE then
      if st.isMonthSet then perr
      else do
        let (month, rem) ← parseMonthName st.s
        pure { st with s := rem, dt := { st.dt with month := month }, isMonthSet := true }
    else perr
  | .DayName style =>
    if I.HAS_DATE then
      if st.dow.isSome then perr
      else do
        let (d, rem) ← parseWeekDayName st.s style
        pure { st with s := rem, dow := some d }
    else perr
  | .DayOfWeek =>
    if I.HAS_DATE then
      if st.dow.isSome then perr
      else do
        let (d, rem) ← parseWeekDayNumber st.s
        pure { st with s := rem, dow := some d }
    else perr
  | .DayOfYear =>
    if I.HAS_DATE then
      if st.doy.isSome then perr
      else do
        let (days, negative, st) ← expectNumber st I.DAY_OF_YEAR_MAX_LENGTH
        if negative then perr else pure { st with doy := some days }
    else perr
  | .WeekOfMonth => perr
  | .WeekOfYear => perr

def parseFields (ty : Ty) (now : Clock) : St → List Field → Chk St
  | st, [] => .ok st
  | st, f :: fs => do
    let st ← parseField ty now st f
    parseFields ty now st fs

/-! ### `TryFrom<NaiveDateTime>` -/

def tryFromNDT (ty : Ty) (dt : NDT) : Chk Int :=
  match ty with
  | .D => Date.tryFromYmd dt.year dt.month dt.day
  | .T => do
    Time.validateHms dt.hour dt.minute dt.sec
    Time.tryFromUsecs (dt.hour * USECONDS_PER_HOUR + dt.minute * USECONDS_PER_MINUTE
      + dt.sec * USECONDS_PER_SECOND + dt.usec)
  | .TS => do
    Date.validateYmd dt.year dt.month dt.day
    Time.validateHms dt.hour dt.minute dt.sec
    let days := date2julian dt.year dt.month dt.day - UNIX_EPOCH_JULIAN
    Timestamp.tryFromUsecs (days * USECONDS_PER_DAY + dt.hour * USECONDS_PER_HOUR
      + dt.minute * USECONDS_PER_MINUTE + dt.sec * USECONDS_PER_SECOND + dt.usec)
  | .OD => do
    Date.validateYmd dt.year dt.month dt.day
    Time.validateHms dt.hour dt.minute dt.sec
    let days := date2julian dt.year dt.month dt.day - UNIX_EPOCH_JULIAN
    let ts ← Timestamp.tryFromUsecs (days * USECONDS_PER_DAY + dt.hour * USECONDS_PER_HOUR
      + dt.minute * USECONDS_PER_MINUTE + dt.sec * USECONDS_PER_SECOND + dt.usec)
    pure (OracleDate.fromTimestamp ts)
  | .YM =>
    if dt.negative then do
      let v ← IntervalYM.tryFromYm (asU32 (-dt.year)) dt.month
      pure (IntervalYM.negate v)
    else IntervalYM.tryFromYm (asU32 dt.year) dt.month
  | .DT => do
    -- after the fix of D7: whole fields validated, the (possibly 1_000_000) fraction added with carry
    let whole ← IntervalDT.tryFromDhms dt.day dt.hour dt.minute dt.sec 0
    let v ← IntervalDT.tryFromUsecs (whole + dt.usec)
    pure (if dt.negative then IntervalDT.negate v else v)

/-- Year/month defaults from the clock after the field loop (types with a date only): the completed
    `NaiveDateTime` and the number of clock reads (the crate caches the first read). -/
def applyDefaults (ty : Ty) (st : St) (now : Clock) : NDT × Nat :=
  if ty.info.HAS_DATE then
    match st.isYearSet, st.isMonthSet with
    | true, true => (st.dt, st.reads)
    | true, false => ({ st.dt with month := now.month }, 1)
    | false, false => ({ st.dt with year := now.year, month := now.month }, 1)
    | false, true => ({ st.dt with year := now.year }, 1)
  else (st.dt, st.reads)

/-- Day of year (`DDD`): range check against the year's length, decoding to (month, day), and the cross-check /
    completion against month and day fields. -/
def resolveDoy (st : St) (dt : NDT) : Chk NDT :=
  match st.doy with
  | none => pure dt
  | some d =>
    let leap := isLeapYear dt.year
    if d = 0 ∨ (¬ leap ∧ d > 365) ∨ (leap ∧ d > 366) then perr
    else do
      let (month, day) ← theMonthDayOfDays d leap
      match st.isMonthSet, st.isDaySet with
      | true, true => if month ≠ dt.month ∨ day ≠ dt.day then perr else pure dt
      | true, false => if month ≠ dt.month then perr else pure { dt with day := day }
      | false, true => if day ≠ dt.day then perr else pure { dt with month := month }
      | false, false => pure { dt with month := month, day := day }

/-- Weekday cross-check against the assembled date, then the type's `TryFrom<NaiveDateTime>`. -/
def finish (ty : Ty) (st : St) (dt : NDT) (reads : Nat) : Chk (Int × Nat) :=
  match st.dow with
  | some d => do
    let date ← Date.tryFromYmd dt.year dt.month dt.day
    if Date.dayOfWeek date ≠ d then perr
    else do
      let v ← tryFromNDT ty dt
      pure (v, reads)
  | none => do
    let v ← tryFromNDT ty dt
    pure (v, reads)

/-- The `NaiveDateTime` the field loop starts from: `NaiveDateTime::new()` (year 1, day 1), with zero years for a
    year-month interval and zero days for a day-time interval (after the fix of D11). -/
def initNDT (ty : Ty) : NDT :=
  if ty.info.IS_INTERVAL_YM then { year := 0 } else if ty.info.IS_INTERVAL_DT then { day := 0 } else {}

def initSt (ty : Ty) (input : Bytes) : St := { s := input, dt := initNDT ty }

/-- `Formatter::parse::<_, T>(input)` (= `parse_internal::<_, T, false>`): value and clock reads. -/
def parse (ty : Ty) (fields : List Field) (input : Bytes) (now : Clock) : Chk (Int × Nat) := do
  let st ← parseFields ty now (initSt ty input) fields
  if ¬ (eatWhitespaces st.s).isEmpty then perr
  else
    let dr := applyDefaults ty st now
    let dt ← resolveDoy st dr.1
    finish ty st dt dr.2

end Parser

/-! ### Whole-API entry points used by the driver and the theorems -/

/-- `T::format(picture)` / `Formatter::try_new(picture)?.format(value, sink)`. -/
def formatValue (ty : Ty) (v : Int) (pic : Bytes) (cap : Option Nat) : Chk Bytes := do
  let fields ← Lexer.tryNew pic
  Formatter.format ty v fields cap

/-- `T::parse(text, picture)`. -/
def parseValue (ty : Ty) (text pic : Bytes) (now : Clock) : Chk (Int × Nat) := do
  let fields ← Lexer.tryNew pic
  Parser.parse ty fields text now

end SqlDt
