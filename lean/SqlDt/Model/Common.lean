/-
  Model/Common: src/common.rs — Julian-day conversions, validity gates, month tables.
  Mirrors the Rust statement by statement.  Core Lean only.
-/
import SqlDt.Generated
import SqlDt.Model.Basic
namespace SqlDt
open Gen

/-- `date2julian` (i32 arithmetic, truncating division). -/
def date2julian (year month day : Int) : Int :=
  let y := if month > 2 then year + 4800 else year + 4799
  let m := if month > 2 then month + 1 else month + 13
  let century := rdiv y 100
  let julian := y * 365 - 32167
  let julian := julian + (rdiv y 4 - century + rdiv century 4)
  let julian := julian + (rdiv (7834 * m) 256 + day)
  julian

/-- `julian2date` (u32 arithmetic on a non-negative Julian day: `/`, `%` are the natural ones). -/
def julian2date (julianDay : Int) : Int × Int × Int :=
  let julian := julianDay + 32044
  let quad := julian / 146097
  let extra := (julian - quad * 146097) * 4 + 3
  let julian := julian + (60 + quad * 3 + extra / 146097)
  let quad := julian / 1461
  let julian := julian - quad * 1461
  let y := julian * 4 / 1461
  let julian := if y ≠ 0 then (julian + 305) % 365 + 123 else (julian + 306) % 366 + 123
  let y := y + quad * 4
  let year := y - 4800
  let quad := julian * 2141 / 65536
  let day := julian - 7834 * quad / 256
  let month := (quad + 10) % MONTHS_PER_YEAR + 1
  (year, month, day)

def UNIX_EPOCH_JULIAN : Int := date2julian 1970 1 1
def DATE_MIN_JULIAN : Int := date2julian DATE_MIN_YEAR 1 1
def DATE_MAX_JULIAN : Int := date2julian DATE_MAX_YEAR 12 31
def DATE_MIN_DAYS : Int := DATE_MIN_JULIAN - UNIX_EPOCH_JULIAN
def DATE_MAX_DAYS : Int := DATE_MAX_JULIAN - UNIX_EPOCH_JULIAN
def TIMESTAMP_MIN : Int := (DATE_MIN_JULIAN - UNIX_EPOCH_JULIAN) * USECONDS_PER_DAY
def TIMESTAMP_MAX : Int := (date2julian 10000 1 1 - UNIX_EPOCH_JULIAN) * USECONDS_PER_DAY - 1

def isValidDate (date : Int) : Prop := date ≥ DATE_MIN_DAYS ∧ date ≤ DATE_MAX_DAYS
def isValidTimestamp (ts : Int) : Prop := ts ≥ TIMESTAMP_MIN ∧ ts ≤ TIMESTAMP_MAX
def isValidTime (t : Int) : Prop := t ≥ 0 ∧ t < USECONDS_PER_DAY

instance (x : Int) : Decidable (isValidDate x) := by unfold isValidDate; exact inferInstance
instance (x : Int) : Decidable (isValidTimestamp x) := by unfold isValidTimestamp; exact inferInstance
instance (x : Int) : Decidable (isValidTime x) := by unfold isValidTime; exact inferInstance

def isLeapYear (year : Int) : Bool :=
  rrem year 4 == 0 && (rrem year 100 != 0 || rrem year 400 == 0)

/-- `days_of_month`: `DAY_TABLE[is_leap_year as usize][month as usize]`. -/
def daysOfMonth (year month : Int) : Int :=
  idxD (idxD DAYS_OF_MONTH_TABLE (boolToInt (isLeapYear year)) []) month 0

/-- `the_day_of_year`: `SUM_OF_DAYS_TABLE[leap][month - 1] + day`. -/
def theDayOfYear (year month day : Int) : Int :=
  idxD (idxD SUM_OF_DAYS_TABLE (boolToInt (isLeapYear year)) []) (month - 1) 0 + day

/-- `<[u32]>::binary_search` as implemented by the standard library (size-halving loop):
    returns `Ok i` / `Err i` as `(found, i)`. Modelled by its specification on a sorted slice with
    distinct entries: the index of the element if present, else the insertion point. -/
def binarySearch (xs : List Int) (x : Int) : Bool × Int :=
  let lt := (xs.filter (· < x)).length
  (xs.contains x, Int.ofNat lt)

/-- `the_month_day_of_days(days, leap)`; `sum_of_days[month - 1]` panics when `month = 0`. -/
def theMonthDayOfDays (days : Int) (leap : Bool) : Chk (Int × Int) := do
  let sums := idxD SUM_OF_DAYS_TABLE (boolToInt leap) []
  let (_, month) := binarySearch sums days
  let base ← idx sums (month - 1)
  pure (month, days - base)

end SqlDt
