/-
  Model/Types: src/date.rs, src/time.rs, src/timestamp.rs, src/interval.rs, src/oracle.rs —
  the arithmetic of the six value types on their raw integer representations
  (Date = days, Time/Timestamp/IntervalDT/OracleDate = microseconds, IntervalYM = months).
  Mirrors the Rust statement by statement.  Core Lean only.
-/
import SqlDt.Model.Common
import SqlDt.Model.F64
namespace SqlDt
open Gen

inductive TUnit where
  | century | year | isoYear | quarter | month | week | isoWeek | monthStartWeek | day
  | sundayStartWeek | hour | minute
  deriving DecidableEq, Repr, Inhabited

/-- A local wall-clock reading (`chrono::NaiveDateTime` fields the crate looks at). -/
structure Clock where
  year : Int
  month : Int
  day : Int
  hour : Int
  minute : Int
  second : Int
  usec : Int
  deriving Repr, DecidableEq, Inhabited

/-! ### Time -/
namespace Time

def fromHmsUnchecked (h mi s us : Int) : Int :=
  h * USECONDS_PER_HOUR + mi * USECONDS_PER_MINUTE + s * USECONDS_PER_SECOND + us

def validateHms (h mi s : Int) : Chk Unit :=
  if h ≥ HOURS_PER_DAY then .error .TimeOutOfRange
  else if mi ≥ MINUTES_PER_HOUR then .error .InvalidMinute
  else if s ≥ SECONDS_PER_MINUTE then .error .InvalidSecond
  else .ok ()

def tryFromHms (h mi s us : Int) : Chk Int :=
  if h ≥ HOURS_PER_DAY then .error .TimeOutOfRange
  else if mi ≥ MINUTES_PER_HOUR then .error .InvalidMinute
  else if s ≥ SECONDS_PER_MINUTE then .error .InvalidSecond
  else if us > USECONDS_MAX then .error .InvalidFraction
  else .ok (fromHmsUnchecked h mi s us)

def isValid (h mi s us : Int) : Bool :=
  if h ≥ HOURS_PER_DAY then false
  else if mi ≥ MINUTES_PER_HOUR then false
  else if s ≥ SECONDS_PER_MINUTE then false
  else if us > USECONDS_MAX then false
  else true

def tryFromUsecs (u : Int) : Chk Int :=
  if isValidTime u then .ok u else .error .TimeOutOfRange

def extract (t : Int) : Int × Int × Int × Int :=
  let hour := rdiv t USECONDS_PER_HOUR
  let t := t - hour * USECONDS_PER_HOUR
  let minute := rdiv t USECONDS_PER_MINUTE
  let t := t - minute * USECONDS_PER_MINUTE
  let sec := rdiv t USECONDS_PER_SECOND
  let t := t - sec * USECONDS_PER_SECOND
  (hour, minute, sec, t)

def subTime (a b : Int) : Int := a - b

def addIntervalDt (t i : Int) : Int :=
  let temp := t + rrem i USECONDS_PER_DAY
  if temp ≥ 0 then rrem temp USECONDS_PER_DAY else temp + USECONDS_PER_DAY

def subIntervalDt (t i : Int) : Int := addIntervalDt t (-i)

def hour (t : Int) : Int := rdiv t USECONDS_PER_HOUR
def minute (t : Int) : Int := rdiv (rrem t USECONDS_PER_HOUR) USECONDS_PER_MINUTE
def second (t : Int) : F64 :=
  F64.div (F64.ofInt (rrem t USECONDS_PER_MINUTE)) (F64.ofInt USECONDS_PER_SECOND)

/-- `Time::from(IntervalDT)`. -/
def fromIntervalDt (i : Int) : Int := rrem (if i < 0 then -i else i) USECONDS_PER_DAY

end Time

/-! ### IntervalYM -/
namespace IntervalYM

def isValidMonths (m : Int) : Prop := m ≤ INTERVAL_MAX_MONTH ∧ m ≥ -INTERVAL_MAX_MONTH
instance (x : Int) : Decidable (isValidMonths x) := by unfold isValidMonths; exact inferInstance

def tryFromYm (year month : Int) : Chk Int :=
  if year ≥ INTERVAL_MAX_YEAR ∧ (year ≠ INTERVAL_MAX_YEAR ∨ month ≠ 0) then .error .IntervalOutOfRange
  else if month ≥ MONTHS_PER_YEAR then .error .InvalidMonth
  else .ok (year * MONTHS_PER_YEAR + month)

def isValidYm (year month : Int) : Bool :=
  if year ≥ INTERVAL_MAX_YEAR ∧ (year ≠ INTERVAL_MAX_YEAR ∨ month ≠ 0) then false
  else if month ≥ MONTHS_PER_YEAR then false
  else true

def tryFromMonths (m : Int) : Chk Int :=
  if isValidMonths m then .ok m else .error .IntervalOutOfRange

/-- `(sign, year, month)`, sign = 1 | -1. -/
def extract (v : Int) : Int × Int × Int :=
  if v < 0 then
    let year := (-v) / MONTHS_PER_YEAR
    (-1, year, (-v) - year * MONTHS_PER_YEAR)
  else
    let year := v / MONTHS_PER_YEAR
    (1, year, v - year * MONTHS_PER_YEAR)

def negate (v : Int) : Int := -v

def addIntervalYm (a b : Int) : Chk Int :=
  match checkedI32 (a + b) with
  | some r => tryFromMonths r
  | none => .error .IntervalOutOfRange

def subIntervalYm (a b : Int) : Chk Int := addIntervalYm a (negate b)

def mulF64 (v : Int) (x : F64) : Chk Int :=
  let result := F64.mul (F64.ofInt v) x
  if result.isInfinite then .error .NumericOverflow
  else if result.isNan then .error .InvalidNumber
  else tryFromMonths (F64.toI32 result)

def divF64 (v : Int) (x : F64) : Chk Int :=
  if x.isZero then .error .DivideByZero
  else
    let result := F64.div (F64.ofInt v) x
    if result.isInfinite then .error .NumericOverflow
    else if result.isNan then .error .InvalidNumber
    else tryFromMonths (F64.toI32 result)

def year (v : Int) : Int := rdiv v MONTHS_PER_YEAR
def month (v : Int) : Int := rrem v MONTHS_PER_YEAR

end IntervalYM

/-! ### IntervalDT -/
namespace IntervalDT

def isValidUsecs (u : Int) : Prop := u ≤ INTERVAL_MAX_USECONDS ∧ u ≥ -INTERVAL_MAX_USECONDS
instance (x : Int) : Decidable (isValidUsecs x) := by unfold isValidUsecs; exact inferInstance

def fromDhmsUnchecked (d h mi s us : Int) : Int :=
  d * USECONDS_PER_DAY + (h * USECONDS_PER_HOUR + mi * USECONDS_PER_MINUTE + s * USECONDS_PER_SECOND + us)

def tryFromDhms (d h mi s us : Int) : Chk Int :=
  if d ≥ INTERVAL_MAX_DAY ∧ (d ≠ INTERVAL_MAX_DAY ∨ h ≠ 0 ∨ mi ≠ 0 ∨ s ≠ 0 ∨ us ≠ 0) then
    .error .IntervalOutOfRange
  else if h ≥ HOURS_PER_DAY then .error .TimeOutOfRange
  else if mi ≥ MINUTES_PER_HOUR then .error .InvalidMinute
  else if s ≥ SECONDS_PER_MINUTE then .error .InvalidSecond
  else if us > USECONDS_MAX then .error .InvalidFraction
  else .ok (fromDhmsUnchecked d h mi s us)

def isValid (d h mi s us : Int) : Bool :=
  if d ≥ INTERVAL_MAX_DAY ∧ (d ≠ INTERVAL_MAX_DAY ∨ h ≠ 0 ∨ mi ≠ 0 ∨ s ≠ 0 ∨ us ≠ 0) then false
  else if h ≥ HOURS_PER_DAY then false
  else if mi ≥ MINUTES_PER_HOUR then false
  else if s ≥ SECONDS_PER_MINUTE then false
  else if us > USECONDS_MAX then false
  else true

def tryFromUsecs (u : Int) : Chk Int :=
  if isValidUsecs u then .ok u else .error .IntervalOutOfRange

/-- `(sign, day, hour, minute, sec, usec)`. -/
def extract (v : Int) : Int × Int × Int × Int × Int × Int :=
  let sign : Int := if v < 0 then -1 else 1
  let a := if v < 0 then -v else v
  let day := a / USECONDS_PER_DAY
  let time := a - day * USECONDS_PER_DAY
  let hour := time / USECONDS_PER_HOUR
  let time := time - hour * USECONDS_PER_HOUR
  let minute := time / USECONDS_PER_MINUTE
  let time := time - minute * USECONDS_PER_MINUTE
  let sec := time / USECONDS_PER_SECOND
  let usec := time - sec * USECONDS_PER_SECOND
  (sign, day, hour, minute, sec, usec)

def negate (v : Int) : Int := -v

def addIntervalDt (a b : Int) : Chk Int :=
  match checkedI64 (a + b) with
  | some r => tryFromUsecs r
  | none => .error .IntervalOutOfRange

def subIntervalDt (a b : Int) : Chk Int := addIntervalDt a (negate b)

def mulF64 (v : Int) (x : F64) : Chk Int :=
  let result := F64.mul (F64.ofInt v) x
  if result.isInfinite then .error .NumericOverflow
  else if result.isNan then .error .InvalidNumber
  else tryFromUsecs (F64.toI64 result)

def divF64 (v : Int) (x : F64) : Chk Int :=
  if x.isZero then .error .DivideByZero
  else
    let result := F64.div (F64.ofInt v) x
    if result.isInfinite then .error .NumericOverflow
    else if result.isNan then .error .InvalidNumber
    else tryFromUsecs (F64.toI64 result)

def subTime (v t : Int) : Chk Int := tryFromUsecs (v - t)

def day (v : Int) : Int := rdiv v USECONDS_PER_DAY
def hour (v : Int) : Int := rdiv (rrem v USECONDS_PER_DAY) USECONDS_PER_HOUR
def minute (v : Int) : Int := rdiv (rrem v USECONDS_PER_HOUR) USECONDS_PER_MINUTE
def second (v : Int) : F64 :=
  F64.div (F64.ofInt (rrem v USECONDS_PER_MINUTE)) (F64.ofInt USECONDS_PER_SECOND)

end IntervalDT

/-! ### Date -/
namespace Date

def fromYmdUnchecked (y m d : Int) : Int := date2julian y m d - UNIX_EPOCH_JULIAN

def validateYmd (y m d : Int) : Chk Unit :=
  if y < DATE_MIN_YEAR ∨ y > DATE_MAX_YEAR then .error .DateOutOfRange
  else if m < 1 ∨ m > MONTHS_PER_YEAR then .error .InvalidMonth
  else if d < 1 ∨ d > 31 then .error .InvalidDay
  else if d > daysOfMonth y m then .error .InvalidDate
  else .ok ()

def tryFromYmd (y m d : Int) : Chk Int :=
  if y < DATE_MIN_YEAR ∨ y > DATE_MAX_YEAR then .error .DateOutOfRange
  else if m < 1 ∨ m > MONTHS_PER_YEAR then .error .InvalidMonth
  else if d < 1 ∨ d > 31 then .error .InvalidDay
  else if d > daysOfMonth y m then .error .InvalidDate
  else .ok (fromYmdUnchecked y m d)

def isValid (y m d : Int) : Bool :=
  if y < DATE_MIN_YEAR ∨ y > DATE_MAX_YEAR then false
  else if m < 1 ∨ m > MONTHS_PER_YEAR then false
  else if d < 1 ∨ d > 31 then false
  else if d > daysOfMonth y m then false
  else true

def tryFromDays (days : Int) : Chk Int :=
  if isValidDate days then .ok days else .error .DateOutOfRange

def extract (d : Int) : Int × Int × Int := julian2date (d + UNIX_EPOCH_JULIAN)

def year (d : Int) : Int := (extract d).1
def month (d : Int) : Int := (extract d).2.1
def day (d : Int) : Int := (extract d).2.2

def addDays (d k : Int) : Chk Int :=
  match checkedI32 (d + k) with
  | some r => tryFromDays r
  | none => .error .DateOutOfRange

def subDays (d k : Int) : Chk Int :=
  match checkedI32 (d - k) with
  | some r => tryFromDays r
  | none => .error .DateOutOfRange

def subDate (a b : Int) : Int := a - b

/-- The year/month carry of `add_interval_ym_internal`: `(new_year, new_month)` from `month + interval`. -/
def monthCarry (year month interval : Int) : Int × Int :=
  let newMonth := month + interval
  if newMonth > MONTHS_PER_YEAR then
    (year + rdiv (newMonth - 1) MONTHS_PER_YEAR, rrem (newMonth - 1) MONTHS_PER_YEAR + 1)
  else if newMonth < 1 then
    (year + (rdiv newMonth MONTHS_PER_YEAR - 1), rrem newMonth MONTHS_PER_YEAR + MONTHS_PER_YEAR)
  else (year, newMonth)

def addIntervalYmInternal (d interval : Int) : Chk Int :=
  let (year, month, day) := extract d
  let (newYear, newMonth) := monthCarry year month interval
  tryFromYmd newYear newMonth day

/-- `day_of_week`: 1 = Sunday … 7 = Saturday. -/
def dayOfWeek (d : Int) : Int :=
  let date := rrem (d + UNIX_EPOCH_DOW - 1) 7
  let date := if date < 0 then date + 7 else date
  date + 1

def weekDayOfJulian (date : Int) : Int :=
  let date := rrem date 7
  if date < 0 then date + 7 else date

def dateToIsoYear (d : Int) : Int :=
  let year := year d
  let currentJulianDay := d + UNIX_EPOCH_JULIAN
  let fourth := date2julian year 1 4
  let offset := weekDayOfJulian fourth
  let (fourth, offset, year) :=
    if currentJulianDay < fourth - offset then
      let f := date2julian (year - 1) 1 4
      (f, weekDayOfJulian f, year - 1)
    else (fourth, offset, year)
  let numOfWeek := rdiv (currentJulianDay - (fourth - offset)) 7 + 1
  if numOfWeek ≥ 52 then
    let f := date2julian (year + 1) 1 4
    let o := weekDayOfJulian f
    if currentJulianDay ≥ f - o then year + 1 else year
  else year

/-- Apply a `(method, offset)` week-table row selected by `i` (`TABLE[i as usize]`). -/
def applyWeekTable (tbl : List (Bool × Int)) (i : Int) (d : Int) : Chk Int := do
  let (isSub, k) ← idx tbl i
  if isSub then subDays d k else pure d

def roundWeekInternal (d year : Int) : Chk Int :=
  applyWeekTable WEEK_TABLE (rrem (subDate d (fromYmdUnchecked year 1 1)) 7) d

def roundMonthStartWeekInternal (d day : Int) : Chk Int :=
  applyWeekTable MONTH_START_WEEK_TABLE (rrem day 7) d

def lastDayOfMonth (d : Int) : Int :=
  let (year, month, day) := extract d
  d + daysOfMonth year month - day

def truncCentury (d : Int) : Chk Int :=
  let year := year d
  let year := if rrem year 100 = 0 then year - 1 else year
  .ok (fromYmdUnchecked (rdiv year 100 * 100 + 1) 1 1)

def truncYear (d : Int) : Chk Int := .ok (fromYmdUnchecked (year d) 1 1)

def truncIsoYear (d : Int) : Chk Int :=
  let first := fromYmdUnchecked (dateToIsoYear d) 1 1
  applyWeekTable ISO_YEAR_TABLE (dayOfWeek first) first

def truncQuarter (d : Int) : Chk Int := do
  let (year, month, _) := extract d
  let qm ← idx QUARTER_FIRST_MONTH (month - 1)
  pure (fromYmdUnchecked year qm 1)

def truncMonth (d : Int) : Chk Int :=
  let (year, month, _) := extract d
  .ok (fromYmdUnchecked year month 1)

def truncWeek (d : Int) : Chk Int :=
  subDays d (rrem (subDate d (fromYmdUnchecked (year d) 1 1)) 7)

def truncIsoWeek (d : Int) : Chk Int := applyWeekTable TRUNC_ISO_WEEK_TABLE (dayOfWeek d) d

def truncMonthStartWeek (d : Int) : Chk Int :=
  let remain := rrem (day d) 7
  subDays d (if remain = 0 then 6 else remain - 1)

def truncSundayStartWeek (d : Int) : Chk Int := subDays d (dayOfWeek d - 1)

def trunc (u : TUnit) (d : Int) : Chk Int :=
  match u with
  | .century => truncCentury d
  | .year => truncYear d
  | .isoYear => truncIsoYear d
  | .quarter => truncQuarter d
  | .month => truncMonth d
  | .week => truncWeek d
  | .isoWeek => truncIsoWeek d
  | .monthStartWeek => truncMonthStartWeek d
  | .day => .ok d
  | .sundayStartWeek => truncSundayStartWeek d
  | .hour => .ok d
  | .minute => .ok d

def roundCentury (d : Int) : Chk Int :=
  let inputYear := year d
  if inputYear > DATE_MAX_YEAR - 49 then .error .DateOutOfRange
  else
    let century := rdiv inputYear 100
    let century :=
      if rrem inputYear 100 = 0 then century - 1
      else if rrem inputYear 100 > 50 then century + 1
      else century
    .ok (fromYmdUnchecked (century * 100 + 1) 1 1)

def roundYear (d : Int) : Chk Int :=
  let (year, month, _) := extract d
  if month ≥ 7 then
    if year = DATE_MAX_YEAR then .error .DateOutOfRange
    else .ok (fromYmdUnchecked (year + 1) 1 1)
  else .ok (fromYmdUnchecked year 1 1)

def roundIsoYear (d : Int) : Chk Int :=
  let (year, month, _) := extract d
  if month ≥ 7 then
    if year = DATE_MAX_YEAR then .error .DateOutOfRange
    else truncIsoYear (fromYmdUnchecked (year + 1) 1 4)
  else truncIsoYear d

def roundQuarter (d : Int) : Chk Int := do
  let (year, month, day) := extract d
  let isRound := day ≥ ROUNDS_UP_DAY
  let index := month - 1
  let (year, qm) ←
    if isRound then do
      let q ← idx QUARTER_ROUND_MONTH index
      pure ((if month ≥ 11 then year + 1 else year), q)
    else do
      let q ← idx QUARTER_TRUNC_MONTH index
      pure ((if month = 12 then year + 1 else year), q)
  if year > DATE_MAX_YEAR then .error .DateOutOfRange
  else pure (fromYmdUnchecked year qm 1)

def roundMonth (d : Int) : Chk Int :=
  let (year, month, day) := extract d
  if day ≥ ROUNDS_UP_DAY then
    if month = 12 then
      if year = DATE_MAX_YEAR then .error .DateOutOfRange
      else .ok (fromYmdUnchecked (year + 1) 1 1)
    else .ok (fromYmdUnchecked year (month + 1) 1)
  else .ok (fromYmdUnchecked year month 1)

def roundWeek (d : Int) : Chk Int := roundWeekInternal d (year d)
def roundIsoWeek (d : Int) : Chk Int := applyWeekTable ROUND_ISO_WEEK_TABLE (dayOfWeek d) d
def roundMonthStartWeek (d : Int) : Chk Int := roundMonthStartWeekInternal d (day d)
def roundSundayStartWeek (d : Int) : Chk Int := applyWeekTable SUNDAY_START_WEEK_TABLE (dayOfWeek d) d

def round (u : TUnit) (d : Int) : Chk Int :=
  match u with
  | .century => roundCentury d
  | .year => roundYear d
  | .isoYear => roundIsoYear d
  | .quarter => roundQuarter d
  | .month => roundMonth d
  | .week => roundWeek d
  | .isoWeek => roundIsoWeek d
  | .monthStartWeek => roundMonthStartWeek d
  | .day => .ok d
  | .sundayStartWeek => roundSundayStartWeek d
  | .hour => .ok d
  | .minute => .ok d

def now (c : Clock) : Chk Int := tryFromYmd c.year c.month c.day

end Date

/-! ### Timestamp -/
namespace Timestamp

def new (date time : Int) : Int := date * USECONDS_PER_DAY + time

def extract (ts : Int) : Int × Int :=
  if ts < 0 then
    let tempTime := rrem ts USECONDS_PER_DAY
    if tempTime < 0 then (rdiv ts USECONDS_PER_DAY - 1, tempTime + USECONDS_PER_DAY)
    else (rdiv ts USECONDS_PER_DAY, tempTime)
  else (rdiv ts USECONDS_PER_DAY, rrem ts USECONDS_PER_DAY)

def date (ts : Int) : Int :=
  if ts < 0 ∧ rrem ts USECONDS_PER_DAY ≠ 0 then rdiv ts USECONDS_PER_DAY - 1
  else rdiv ts USECONDS_PER_DAY

def time (ts : Int) : Int :=
  let tempTime := rrem ts USECONDS_PER_DAY
  if tempTime < 0 then tempTime + USECONDS_PER_DAY else tempTime

def tryFromUsecs (u : Int) : Chk Int :=
  if isValidTimestamp u then .ok u else .error .DateOutOfRange

def andHms (d h mi s us : Int) : Chk Int := do
  let t ← Time.tryFromHms h mi s us
  pure (new d t)

def addIntervalDt (ts i : Int) : Chk Int :=
  match checkedI64 (ts + i) with
  | some r => tryFromUsecs r
  | none => .error .DateOutOfRange

def addIntervalYm (ts i : Int) : Chk Int := do
  let (date, time) := extract ts
  let d ← Date.addIntervalYmInternal date i
  pure (new d time)

def addTime (ts t : Int) : Chk Int := tryFromUsecs (ts + t)
def subTime (ts t : Int) : Chk Int := tryFromUsecs (ts - t)

def addDays (ts : Int) (days : F64) : Chk Int :=
  let microseconds := F64.roundHalfAway (F64.mul days (F64.ofInt USECONDS_PER_DAY))
  if microseconds.isInfinite then .error .NumericOverflow
  else if microseconds.isNan then .error .InvalidNumber
  else
    match checkedI64 (ts + F64.toI64 microseconds) with
    | some r => tryFromUsecs r
    | none => .error .DateOutOfRange

def subDays (ts : Int) (days : F64) : Chk Int := addDays ts (F64.neg days)

def subTimestamp (a b : Int) : Int := a - b
def subDate (ts d : Int) : Int := subTimestamp ts (new d 0)
def subIntervalDt (ts i : Int) : Chk Int := addIntervalDt ts (IntervalDT.negate i)
def subIntervalYm (ts i : Int) : Chk Int := addIntervalYm ts (IntervalYM.negate i)

def lastDayOfMonth (ts : Int) : Int :=
  let (sqldate, _) := extract ts
  let (year, month, day) := Date.extract sqldate
  ts + (daysOfMonth year month - day) * USECONDS_PER_DAY

def hour (ts : Int) : Int := Time.hour (time ts)

def trunc (u : TUnit) (ts : Int) : Chk Int :=
  match u with
  | .day => .ok (new (date ts) 0)
  | .hour => .ok (new (date ts) (Time.fromHmsUnchecked (hour ts) 0 0 0))
  | .minute =>
    let (h, mi, _, _) := Time.extract (time ts)
    .ok (new (date ts) (Time.fromHmsUnchecked h mi 0 0))
  | u => do
    let d ← Date.trunc u (date ts)
    pure (new d 0)

/-- The shared prologue of the four week roundings: move to the next day from 12:00 on. -/
def shiftHalfDay (ts : Int) : Chk Int :=
  let (date, time) := extract ts
  if Time.hour time ≥ 12 then Date.addDays date 1 else .ok date

def round (u : TUnit) (ts : Int) : Chk Int :=
  match u with
  | .week => do
    let date ← shiftHalfDay ts
    let d ← Date.roundWeekInternal date (Date.extract date).1
    pure (new d 0)
  | .isoWeek => do
    let date ← shiftHalfDay ts
    let d ← Date.roundIsoWeek date
    pure (new d 0)
  | .monthStartWeek => do
    let date ← shiftHalfDay ts
    let d ← Date.roundMonthStartWeekInternal date (Date.extract date).2.2
    pure (new d 0)
  | .sundayStartWeek => do
    let date ← shiftHalfDay ts
    let d ← Date.roundSundayStartWeek date
    pure (new d 0)
  | .day => do
    let d ← if hour ts ≥ 12 then Date.addDays (date ts) 1 else pure (date ts)
    pure (new d 0)
  | .hour => do
    let (h, mi, _, _) := Time.extract (time ts)
    if mi ≥ 30 then
      if h ≥ 23 then do
        let d ← Date.addDays (date ts) 1
        pure (new d (Time.fromHmsUnchecked 0 0 0 0))
      else pure (new (date ts) (Time.fromHmsUnchecked (h + 1) 0 0 0))
    else pure (new (date ts) (Time.fromHmsUnchecked h 0 0 0))
  | .minute => do
    let (h, mi, s, _) := Time.extract (time ts)
    if s ≥ 30 then
      if mi = 59 then
        if h = 23 then do
          let d ← Date.addDays (date ts) 1
          pure (new d (Time.fromHmsUnchecked 0 0 0 0))
        else pure (new (date ts) (Time.fromHmsUnchecked (h + 1) 0 0 0))
      else pure (new (date ts) (Time.fromHmsUnchecked h (mi + 1) 0 0))
    else pure (new (date ts) (Time.fromHmsUnchecked h mi 0 0))
  | u => do
    let d ← Date.round u (date ts)
    pure (new d 0)

def now (c : Clock) : Chk Int := do
  let d ← Date.tryFromYmd c.year c.month c.day
  let t ← Time.tryFromHms c.hour c.minute c.second c.usec
  pure (new d t)

/-- `Timestamp::try_from(Time)`. -/
def fromTime (t : Int) (c : Clock) : Chk Int := do
  let d ← Date.tryFromYmd c.year c.month c.day
  pure (new d t)

end Timestamp

/-! ### oracle::Date -/
namespace OracleDate

def MAX : Int := Timestamp.new DATE_MAX_DAYS (Time.fromHmsUnchecked 23 59 59 0)

def new (date time : Int) : Int :=
  let time := if rrem time USECONDS_PER_SECOND ≠ 0 then rdiv time USECONDS_PER_SECOND * USECONDS_PER_SECOND else time
  Timestamp.new date time

def isValidDate (u : Int) : Prop := isValidTimestamp u ∧ rrem u USECONDS_PER_SECOND = 0
instance (x : Int) : Decidable (isValidDate x) := by unfold isValidDate; exact inferInstance

def tryFromUsecs (u : Int) : Chk Int :=
  if isValidDate u then .ok u else .error .DateOutOfRange

/-- `oracle::Date::from(Timestamp)`: floor to the second. -/
def fromTimestamp (ts : Int) : Int :=
  let temp := rdiv ts USECONDS_PER_SECOND * USECONDS_PER_SECOND
  if ts < 0 ∧ temp > ts then temp - USECONDS_PER_SECOND else temp

def addIntervalDt (od i : Int) : Chk Int := do
  let r ← Timestamp.addIntervalDt od i
  pure (fromTimestamp r)

def addIntervalYm (od i : Int) : Chk Int := do
  let r ← Timestamp.addIntervalYm od i
  pure (fromTimestamp r)

/-- Nearest whole second, halves away from zero, in integer arithmetic (after the fix of D8). -/
def roundToSecond (u : Int) : Int :=
  let secs := rdiv u USECONDS_PER_SECOND
  let rem := rrem u USECONDS_PER_SECOND
  let secs :=
    if (if rem < 0 then -rem else rem) * 2 ≥ USECONDS_PER_SECOND then
      (if u < 0 then secs - 1 else secs + 1)
    else secs
  secs * USECONDS_PER_SECOND

def addDays (od : Int) (days : F64) : Chk Int := do
  let ts ← Timestamp.addDays od days
  Timestamp.tryFromUsecs (roundToSecond ts)

def subDays (od : Int) (days : F64) : Chk Int := addDays od (F64.neg days)

def subDate (a b : Int) : F64 := F64.div (F64.ofInt (a - b)) (F64.ofInt USECONDS_PER_DAY)

def subIntervalDt (od i : Int) : Chk Int := addIntervalDt od (IntervalDT.negate i)
def subIntervalYm (od i : Int) : Chk Int := addIntervalYm od (IntervalYM.negate i)

def lastDayOfMonth (od : Int) : Int := fromTimestamp (Timestamp.lastDayOfMonth od)

def trunc (u : TUnit) (od : Int) : Chk Int := do
  let r ← Timestamp.trunc u od
  pure (fromTimestamp r)

def round (u : TUnit) (od : Int) : Chk Int := do
  let r ← Timestamp.round u od
  pure (fromTimestamp r)

def now (c : Clock) : Chk Int := do
  let d ← Date.tryFromYmd c.year c.month c.day
  let t ← Time.tryFromHms c.hour c.minute c.second 0
  pure (new d t)

def fromTime (t : Int) (c : Clock) : Chk Int := do
  let d ← Date.tryFromYmd c.year c.month c.day
  pure (new d t)

end OracleDate

end SqlDt
