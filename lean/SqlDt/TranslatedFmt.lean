/-
  GENERATED FILE - do not edit.  Written by tools/rs2lean.py from <repo>/src/format.rs on every run (phase 6).
  The byte-slice leaf functions of the formatter / parser: `&[u8]` is `List Nat` (the model's `Bytes`), a byte taken
  out of a slice is an `Int` (`Int.ofNat b`, Rust type `u8`), `usize` is `Int`.  Slicing, indexing and the iterator
  idioms are the fixed combinators below; their bounds are obligations of the `_safe` predicates.
  `-- UNTRANSLATED` definitions are aliases of the hand-written model (see TranslatedFmtStatus.json).
-/
import SqlDt.Translated
set_option linter.unusedVariables false
namespace SqlDt.Tr
open SqlDt SqlDt.Gen

/-! ### Byte slices and the iterator idioms (fixed combinators of the translation) -/

/-- `s.first()`: the first byte as a `u8` value. -/
def bFirst (s : List Nat) : Option Int := match s with | [] => none | b :: _ => some (Int.ofNat b)
/-- `s.len()`, `it.count()`. -/
def bLen (s : List Nat) : Int := Int.ofNat s.length
/-- `s[i]` (the bound `i < s.len()` is an obligation of `_safe`). -/
def bGet (s : List Nat) (i : Int) : Int := Int.ofNat (idxD s i 0)
/-- `&s[lo..]`, `&s[..hi]`, `&s[lo..hi]` (bounds: `_safe`). -/
def bFrom (s : List Nat) (lo : Int) : List Nat := s.drop lo.toNat
def bTo (s : List Nat) (hi : Int) : List Nat := s.take hi.toNat
def bSlice (s : List Nat) (lo hi : Int) : List Nat := (s.take hi.toNat).drop lo.toNat
/-- `s[i] = v`. -/
def bSet (s : List Nat) (i v : Int) : List Nat := if i < 0 then s else s.set i.toNat v.toNat
/-- `it.position(p)`. -/
def bPosition (p : Nat → Bool) (s : List Nat) : Option Int := (s.findIdx? p).map Int.ofNat
/-- `u8::is_ascii_digit`, `is_ascii_whitespace` (space, \t, \n, form feed, \r), `is_ascii_uppercase/lowercase`. -/
def isAsciiDigit (b : Int) : Bool := decide (48 ≤ b ∧ b ≤ 57)
def isAsciiWhitespace (b : Int) : Bool := decide (b = 32 ∨ b = 9 ∨ b = 10 ∨ b = 12 ∨ b = 13)
def isAsciiUppercase (b : Int) : Bool := decide (65 ≤ b ∧ b ≤ 90)
def isAsciiLowercase (b : Int) : Bool := decide (97 ≤ b ∧ b ≤ 122)
def toAsciiLowercase (b : Int) : Int := if 65 ≤ b ∧ b ≤ 90 then b + 32 else b
def toAsciiUppercase (b : Int) : Int := if 97 ≤ b ∧ b ≤ 122 then b - 32 else b
/-- `<[u8]>::eq_ignore_ascii_case`: same length, bytewise equal after `to_ascii_lowercase`. -/
def bEqIgnoreCase : List Nat → List Nat → Bool
  | [], [] => true
  | a :: s, b :: t => decide (toAsciiLowercase (Int.ofNat a) = toAsciiLowercase (Int.ofNat b)) && bEqIgnoreCase s t
  | _, _ => false

/-- Safety of `it.fold(init, f)`: the obligation `P acc x` of the closure body holds at every step. -/
def foldSafe {α : Type} (f : α → Nat → α) (P : α → Nat → Prop) : α → List Nat → Prop
  | _, [] => True
  | a, x :: xs => P a x ∧ foldSafe f P (f a x) xs

/-- `for (i, x) in xs.iter().enumerate() { .. return r; .. }` as a search: the first item on which the body returns
    (`f i x = some r`), `none` when the loop runs to its end. -/
def forFirst {β : Type} (f : Int → List Nat → Option β) : Int → List (List Nat) → Option β
  | _, [] => none
  | i, x :: xs => match f i x with
    | some r => some r
    | none => forFirst f (i + 1) xs

/-- Safety of such a loop: the obligation `P i x` of the body holds for every item that is reached. -/
def forFirstSafe {β : Type} (f : Int → List Nat → Option β) (P : Int → List Nat → Prop) : Int → List (List Nat) → Prop
  | _, [] => True
  | i, x :: xs => P i x ∧ (f i x = none → forFirstSafe f P (i + 1) xs)

/-- `while cond(st) { st = step(st) }` with an iteration bound known at translation time. -/
def loopN {σ : Type} : Nat → (σ → Bool) → (σ → σ) → σ → σ
  | 0, _, _, s => s
  | n + 1, cond, step, s => if cond s = true then loopN n cond step (step s) else s

/-- Safety of such a loop: the condition (`Pc`) and, while it holds, the body (`Pb`) are safe in every state reached,
    and the condition is false when the fuel is used up (so the bounded loop is the loop). -/
def loopSafe {σ : Type} : Nat → (σ → Bool) → (σ → σ) → (σ → Prop) → (σ → Prop) → σ → Prop
  | 0, cond, _, Pc, _, s => Pc s ∧ cond s = false
  | n + 1, cond, step, Pc, Pb, s => Pc s ∧ (cond s = true → Pb s ∧ loopSafe n cond step Pc Pb (step s))

/-- `format.rs::expect_char` (format.rs:1801), body sha1 03b8fc6cd730 -/
def expect_char (s : List Nat) (expected : Int) : Bool :=
  match bFirst s with
  | some ch => if ch = expected then true else false
  | none => false

/-- No arithmetic node of `format.rs::expect_char` leaves its Rust integer type, no division by zero, no index out of range
    (path-sensitive; calls contribute the callee's predicate). -/
def expect_char_safe (s : List Nat) (expected : Int) : Prop :=
  True

/-- `format.rs::eat_whitespaces` (format.rs:1847), body sha1 7670cce9da8c -/
def eat_whitespaces (s : List Nat) : List Nat :=
  -- format.rs:1848: let i = s.iter().take_while(|&i| i.is_ascii_whitespace()).count();
  let i : Int := bLen (List.takeWhile (fun (i : Nat) => isAsciiWhitespace (Int.ofNat i)) s)
  bFrom s i

/-- No arithmetic node of `format.rs::eat_whitespaces` leaves its Rust integer type, no division by zero, no index out of range
    (path-sensitive; calls contribute the callee's predicate). -/
def eat_whitespaces_safe (s : List Nat) : Prop :=
  let i : Int := bLen (List.takeWhile (fun (i : Nat) => isAsciiWhitespace (Int.ofNat i)) s)
  0 ≤ i ∧ i ≤ bLen s

/-- `format.rs::eat_digits` (format.rs:1837), body sha1 097bf770b85b -/
def eat_digits (s : List Nat) (max_len : Int) : (List Nat) × (List Nat) :=
  -- format.rs:1838: let i = s
  let i : Int :=
    bLen (List.takeWhile (fun (i : Nat) => isAsciiDigit (Int.ofNat i)) (List.take (Int.toNat max_len) s))
  (bTo s i, bFrom s i)

/-- No arithmetic node of `format.rs::eat_digits` leaves its Rust integer type, no division by zero, no index out of range
    (path-sensitive; calls contribute the callee's predicate). -/
def eat_digits_safe (s : List Nat) (max_len : Int) : Prop :=
  let i : Int :=
    bLen (List.takeWhile (fun (i : Nat) => isAsciiDigit (Int.ofNat i)) (List.take (Int.toNat max_len) s))
  (0 ≤ i ∧ i ≤ bLen s) ∧ 0 ≤ i ∧ i ≤ bLen s

/-- `format.rs::parse_number` (format.rs:1806), body sha1 a1a594c6442e -/
def parse_number (input : List Nat) (max_len : Int) : Chk (Bool × Int × (List Nat)) :=
  -- format.rs:1807: let (negative, s) = match input.first() {
  match bFirst input with
  | some ch =>
      -- format.rs:1807: let (negative, s) = match input.first() {
      let negative_s : Bool × (List Nat) :=
        if ch = 43 then (false, bFrom input 1) else if ch = 45 then (true, bFrom input 1) else (false, input)
      let negative : Bool := negative_s.1
      let s : List Nat := negative_s.2
      -- format.rs:1820: let (digits, s) = eat_digits(s, max_len);
      let digits_s : (List Nat) × (List Nat) := Tr.eat_digits s max_len
      let digits : List Nat := digits_s.1
      let s : List Nat := digits_s.2
      -- format.rs:1821: if digits.is_empty() {
      if List.isEmpty digits = true then
        -- format.rs:1822: return Err(Error::ParseError(
        Except.error Err.ParseError
      else
        -- format.rs:1827: let int = digits
        let int : Int := List.foldl (fun (int : Int) (i : Nat) => int * 10 + (Int.ofNat i - 48)) 0 digits
        -- format.rs:1831: let int = if negative { -int } else { int };
        let int : Int := if negative = true then -int else int
        Except.ok (negative, int, s)
  | none => Except.error Err.ParseError

/-- No arithmetic node of `format.rs::parse_number` leaves its Rust integer type, no division by zero, no index out of range
    (path-sensitive; calls contribute the callee's predicate). -/
def parse_number_safe (input : List Nat) (max_len : Int) : Prop :=
  match bFirst input with
  | some ch =>
      (ch = 43 → 0 ≤ 1 ∧ 1 ≤ bLen input) ∧
      (¬ ch = 43 → ch = 45 → 0 ≤ 1 ∧ 1 ≤ bLen input) ∧
      let negative_s : Bool × (List Nat) :=
        if ch = 43 then (false, bFrom input 1) else if ch = 45 then (true, bFrom input 1) else (false, input)
      let negative : Bool := negative_s.1
      let s : List Nat := negative_s.2
      Tr.eat_digits_safe s max_len ∧
      let digits_s : (List Nat) × (List Nat) := Tr.eat_digits s max_len
      let digits : List Nat := digits_s.1
      let s : List Nat := digits_s.2
      (¬ List.isEmpty digits = true →
        (foldSafe (fun (int : Int) (i : Nat) => int * 10 + (Int.ofNat i - 48)) (fun (int : Int) (i : Nat) => (fitsI32 (int * 10) ∧ fitsU8 (Int.ofNat i - 48)) ∧ fitsI32 (int * 10 + (Int.ofNat i - 48))) 0 digits) ∧
        let int : Int := List.foldl (fun (int : Int) (i : Nat) => int * 10 + (Int.ofNat i - 48)) 0 digits
        negative = true → fitsI32 (-int))
  | none => True

/-- `format.rs::parse_week_day_number` (format.rs:1984), body sha1 c001e18798c8 -/
def parse_week_day_number (s : List Nat) : Chk (Int × (List Nat)) :=
  -- format.rs:1985: if s.is_empty() {
  if List.isEmpty s = true then
    -- format.rs:1986: return Err(Error::ParseError(
    Except.error Err.ParseError
  else
    -- format.rs:1991: let num = s[0].wrapping_sub(b'0');
    let num : Int := asU8 (bGet s 0 - 48)
    -- format.rs:1992: if (1..=7).contains(&num) {
    if 1 ≤ num ∧ num ≤ 7 then
      -- format.rs:1993: return Ok((WeekDay::from(num as usize), &s[1..]));
      Except.ok (num, bFrom s 1)
    else
      Except.error Err.ParseError

/-- No arithmetic node of `format.rs::parse_week_day_number` leaves its Rust integer type, no division by zero, no index out of range
    (path-sensitive; calls contribute the callee's predicate). -/
def parse_week_day_number_safe (s : List Nat) : Prop :=
  (¬ List.isEmpty s = true →
    0 ≤ 0 ∧
    0 < bLen s ∧
    let num : Int := asU8 (bGet s 0 - 48)
    1 ≤ num ∧ num ≤ 7 → 0 ≤ 1 ∧ 1 ≤ bLen s)

/-- `format.rs::write_u32` (format.rs:1774), body sha1 0b368682b154 -/
def write_u32 (value : Int) (width : Int) : List Nat :=
  -- the bytes written to the `fmt::Write` sink `w`
  let w : List Nat := []
  -- format.rs:1775: debug_assert!(width < 11 && width > 0);
  -- format.rs:1776: let mut buf: [u8; 11] = [b'0'; 11];
  let buf : List Nat := List.replicate 11 48
  -- format.rs:1777: let mut index: usize = 10;
  let index : Int := 10
  -- format.rs:1779: let mut val = value;
  let val : Int := value
  -- format.rs:1780: while val >= 10 {
  let buf_index_val : (List Nat) × Int × Int :=
    loopN
      10
      (fun (st1 : (List Nat) × Int × Int) =>
          let buf : List Nat := st1.1
          let index : Int := st1.2.1
          let val : Int := st1.2.2
          decide (val ≥ 10))
      (fun (st1 : (List Nat) × Int × Int) =>
          let buf : List Nat := st1.1
          let index : Int := st1.2.1
          let val : Int := st1.2.2
          -- format.rs:1781: let v = val % 10;
          let v : Int := val % 10
          -- format.rs:1782: val /= 10;
          let val : Int := val / 10
          -- format.rs:1784: buf[index] = v as u8 + b'0';
          let buf : List Nat := bSet buf index (asU8 v + 48)
          -- format.rs:1785: index -= 1;
          let index : Int := index - 1
          (buf, index, val))
      (buf, index, val)
  let buf : List Nat := buf_index_val.1
  let index : Int := buf_index_val.2.1
  let val : Int := buf_index_val.2.2
  -- format.rs:1788: buf[index] = val as u8 + b'0';
  let buf : List Nat := bSet buf index (asU8 val + 48)
  -- format.rs:1790: let len = 11 - index;
  let len : Int := 11 - index
  -- format.rs:1791: if width > len {
  let index : Int :=
    if width > len then
      -- format.rs:1792: index -= width - len;
      let index : Int := index - (width - len)
      index
    else
      index
  -- format.rs:1794: let s = { std::str::from_utf8_unchecked(&buf[index..11]) };
  let s : List Nat := bSlice buf index 11
  -- format.rs:1796: w.write_str(s)?;
  let w : List Nat := w ++ s
  w

/-- No arithmetic node of `format.rs::write_u32` leaves its Rust integer type, no division by zero, no index out of range
    (path-sensitive; calls contribute the callee's predicate). -/
def write_u32_safe (value : Int) (width : Int) : Prop :=
  let w : List Nat := []
  width < 11 ∧
  width > 0 ∧
  let buf : List Nat := List.replicate 11 48
  let index : Int := 10
  let val : Int := value
  (loopSafe
     10
     (fun (st1 : (List Nat) × Int × Int) =>
         let buf : List Nat := st1.1
         let index : Int := st1.2.1
         let val : Int := st1.2.2
         decide (val ≥ 10))
     (fun (st1 : (List Nat) × Int × Int) =>
         let buf : List Nat := st1.1
         let index : Int := st1.2.1
         let val : Int := st1.2.2
         -- format.rs:1781: let v = val % 10;
         let v : Int := val % 10
         -- format.rs:1782: val /= 10;
         let val : Int := val / 10
         -- format.rs:1784: buf[index] = v as u8 + b'0';
         let buf : List Nat := bSet buf index (asU8 v + 48)
         -- format.rs:1785: index -= 1;
         let index : Int := index - 1
         (buf, index, val))
     (fun (st1 : (List Nat) × Int × Int) =>
         True)
     (fun (st1 : (List Nat) × Int × Int) =>
         let buf : List Nat := st1.1
         let index : Int := st1.2.1
         let val : Int := st1.2.2
         let v : Int := val % 10
         let val : Int := val / 10
         fitsU8 (asU8 v + 48) ∧
         0 ≤ index ∧
         index < bLen buf ∧
         let buf : List Nat := bSet buf index (asU8 v + 48)
         fitsU64 (index - 1))
     (buf, index, val)) ∧
  let buf_index_val : (List Nat) × Int × Int :=
    loopN
      10
      (fun (st1 : (List Nat) × Int × Int) =>
          let buf : List Nat := st1.1
          let index : Int := st1.2.1
          let val : Int := st1.2.2
          decide (val ≥ 10))
      (fun (st1 : (List Nat) × Int × Int) =>
          let buf : List Nat := st1.1
          let index : Int := st1.2.1
          let val : Int := st1.2.2
          -- format.rs:1781: let v = val % 10;
          let v : Int := val % 10
          -- format.rs:1782: val /= 10;
          let val : Int := val / 10
          -- format.rs:1784: buf[index] = v as u8 + b'0';
          let buf : List Nat := bSet buf index (asU8 v + 48)
          -- format.rs:1785: index -= 1;
          let index : Int := index - 1
          (buf, index, val))
      (buf, index, val)
  let buf : List Nat := buf_index_val.1
  let index : Int := buf_index_val.2.1
  let val : Int := buf_index_val.2.2
  fitsU8 (asU8 val + 48) ∧
  0 ≤ index ∧
  index < bLen buf ∧
  let buf : List Nat := bSet buf index (asU8 val + 48)
  fitsU64 (11 - index) ∧
  let len : Int := 11 - index
  (width > len → fitsU64 (width - len) ∧ fitsU64 (index - (width - len))) ∧
  let index : Int :=
    if width > len then
      -- format.rs:1792: index -= width - len;
      let index : Int := index - (width - len)
      index
    else
      index
  (0 ≤ index ∧ index ≤ 11) ∧ 11 ≤ bLen buf

/-- `format.rs::parse_fraction` (format.rs:1918), body sha1 5537ec48b167 -/
def parse_fraction (s : List Nat) (max_len : Int) : Chk (Int × (List Nat)) :=
  -- format.rs:1919: match s.first() {
  match bFirst s with
  | some ch =>
      if ch = 45 then
        -- format.rs:1922: return Err(Error::ParseError(
        Except.error Err.ParseError
      else
        -- format.rs:1932: let (digits, s) = eat_digits(s, max_len);
        let digits_s : (List Nat) × (List Nat) := Tr.eat_digits s max_len
        let digits : List Nat := digits_s.1
        let s : List Nat := digits_s.2
        -- format.rs:1933: let int = digits
        let int : Int := List.foldl (fun (int : Int) (i : Nat) => int * 10 + (Int.ofNat i - 48)) 0 digits
        Except.ok (F64.toU32 (F64.roundHalfAway (F64.mul (F64.ofInt int) (idxD [F64.ofInt 1000000, F64.ofInt 100000, F64.ofInt 10000, F64.ofInt 1000, F64.ofInt 100, F64.ofInt 10, F64.ofInt 1, F64.ofBits 0x3fb999999999999a, F64.ofBits 0x3f847ae147ae147b, F64.ofBits 0x3f50624dd2f1a9fc] (bLen digits) (F64.ofInt 0)))), s)
  | none =>
      -- format.rs:1928: return Ok((0, s));
      Except.ok (0, s)

/-- No arithmetic node of `format.rs::parse_fraction` leaves its Rust integer type, no division by zero, no index out of range
    (path-sensitive; calls contribute the callee's predicate). -/
def parse_fraction_safe (s : List Nat) (max_len : Int) : Prop :=
  match bFirst s with
  | some ch =>
      (¬ ch = 45 →
        Tr.eat_digits_safe s max_len ∧
        let digits_s : (List Nat) × (List Nat) := Tr.eat_digits s max_len
        let digits : List Nat := digits_s.1
        let s : List Nat := digits_s.2
        (foldSafe (fun (int : Int) (i : Nat) => int * 10 + (Int.ofNat i - 48)) (fun (int : Int) (i : Nat) => (fitsI32 (int * 10) ∧ fitsU8 (Int.ofNat i - 48)) ∧ fitsI32 (int * 10 + (Int.ofNat i - 48))) 0 digits) ∧
        let int : Int := List.foldl (fun (int : Int) (i : Nat) => int * 10 + (Int.ofNat i - 48)) 0 digits
        0 ≤ bLen digits ∧ bLen digits < 10)
  | none => True

/-- `format.rs::NaiveDateTime::fraction` (format.rs:386), body sha1 19f3644b7a46 -/
-- inlined helpers: format.rs::NaiveDateTime::usec
def NDT.fraction (self : SqlDt.NDT) (p : Int) : Int :=
  -- format.rs:387: debug_assert!(p < 10);
  F64.toU32 (F64.div (F64.ofInt ((fun (self : SqlDt.NDT) => self.usec) self)) (idxD [F64.ofInt 1000000, F64.ofInt 100000, F64.ofInt 10000, F64.ofInt 1000, F64.ofInt 100, F64.ofInt 10, F64.ofInt 1, F64.ofBits 0x3fb999999999999a, F64.ofBits 0x3f847ae147ae147b, F64.ofBits 0x3f50624dd2f1a9fc] p (F64.ofInt 0)))

/-- No arithmetic node of `format.rs::NaiveDateTime::fraction` leaves its Rust integer type, no division by zero, no index out of range
    (path-sensitive; calls contribute the callee's predicate). -/
def NDT.fraction_safe (self : SqlDt.NDT) (p : Int) : Prop :=
  p < 10 ∧ 0 ≤ p ∧ p < 10

/-- `format.rs::parse_ampm` (format.rs:1887), body sha1 afd4b2179e4d -/
-- inlined helpers: format.rs::CaseInsensitive for [ u8 ]::starts_with
def parse_ampm (s : List Nat) (style : Int) : Chk ((Option Bool) × (List Nat)) :=
  -- format.rs:1888: if s.is_empty() {
  if List.isEmpty s = true then
    -- format.rs:1889: return Ok((None, s));
    Except.ok (none, s)
  else if style = 3 ∨ style = 2 then
    if (fun (self : List Nat) (needle : List Nat) => let n : Int := bLen needle; decide (bLen self ≥ n ∧ bEqIgnoreCase needle (bTo self n) = true)) s [65, 46, 77, 46] = true then
      Except.ok (some false, bFrom s 4)
    else if (fun (self : List Nat) (needle : List Nat) => let n : Int := bLen needle; decide (bLen self ≥ n ∧ bEqIgnoreCase needle (bTo self n) = true)) s [80, 46, 77, 46] = true then
      Except.ok (some true, bFrom s 4)
    else
      Except.error Err.ParseError
  else if (fun (self : List Nat) (needle : List Nat) => let n : Int := bLen needle; decide (bLen self ≥ n ∧ bEqIgnoreCase needle (bTo self n) = true)) s [65, 77] = true then
    Except.ok (some false, bFrom s 2)
  else if (fun (self : List Nat) (needle : List Nat) => let n : Int := bLen needle; decide (bLen self ≥ n ∧ bEqIgnoreCase needle (bTo self n) = true)) s [80, 77] = true then
    Except.ok (some true, bFrom s 2)
  else
    Except.error Err.ParseError

/-- No arithmetic node of `format.rs::parse_ampm` leaves its Rust integer type, no division by zero, no index out of range
    (path-sensitive; calls contribute the callee's predicate). -/
def parse_ampm_safe (s : List Nat) (style : Int) : Prop :=
  (¬ List.isEmpty s = true →
    (style = 3 ∨ style = 2 →
      ((fun (self : List Nat) (needle : List Nat) => let n : Int := bLen needle; bLen self ≥ n → 0 ≤ n ∧ n ≤ bLen self) s [65, 46, 77, 46]) ∧
      ((fun (self : List Nat) (needle : List Nat) => let n : Int := bLen needle; decide (bLen self ≥ n ∧ bEqIgnoreCase needle (bTo self n) = true)) s [65, 46, 77, 46] = true →
        0 ≤ 4 ∧ 4 ≤ bLen s) ∧
      (¬ (fun (self : List Nat) (needle : List Nat) => let n : Int := bLen needle; decide (bLen self ≥ n ∧ bEqIgnoreCase needle (bTo self n) = true)) s [65, 46, 77, 46] = true →
        ((fun (self : List Nat) (needle : List Nat) => let n : Int := bLen needle; bLen self ≥ n → 0 ≤ n ∧ n ≤ bLen self) s [80, 46, 77, 46]) ∧
        ((fun (self : List Nat) (needle : List Nat) => let n : Int := bLen needle; decide (bLen self ≥ n ∧ bEqIgnoreCase needle (bTo self n) = true)) s [80, 46, 77, 46] = true →
          0 ≤ 4 ∧ 4 ≤ bLen s))) ∧
    (¬ (style = 3 ∨ style = 2) →
      ((fun (self : List Nat) (needle : List Nat) => let n : Int := bLen needle; bLen self ≥ n → 0 ≤ n ∧ n ≤ bLen self) s [65, 77]) ∧
      ((fun (self : List Nat) (needle : List Nat) => let n : Int := bLen needle; decide (bLen self ≥ n ∧ bEqIgnoreCase needle (bTo self n) = true)) s [65, 77] = true →
        0 ≤ 2 ∧ 2 ≤ bLen s) ∧
      (¬ (fun (self : List Nat) (needle : List Nat) => let n : Int := bLen needle; decide (bLen self ≥ n ∧ bEqIgnoreCase needle (bTo self n) = true)) s [65, 77] = true →
        ((fun (self : List Nat) (needle : List Nat) => let n : Int := bLen needle; bLen self ≥ n → 0 ≤ n ∧ n ≤ bLen self) s [80, 77]) ∧
        ((fun (self : List Nat) (needle : List Nat) => let n : Int := bLen needle; decide (bLen self ≥ n ∧ bEqIgnoreCase needle (bTo self n) = true)) s [80, 77] = true →
          0 ≤ 2 ∧ 2 ≤ bLen s))))

/-- `format.rs::parse_month_name` (format.rs:1943), body sha1 267f9dea111a -/
-- inlined helpers: format.rs::CaseInsensitive for [ u8 ]::starts_with
def parse_month_name (s : List Nat) : Chk (Int × (List Nat)) :=
  -- format.rs:1944: for (index, mon) in MONTH_NAME_TABLE[Capital as usize].iter().enumerate() {
  match forFirst (β := Chk (Int × (List Nat))) (fun (index : Int) (mon : List Nat) => if (fun (self : List Nat) (needle : List Nat) => let n : Int := bLen needle; decide (bLen self ≥ n ∧ bEqIgnoreCase needle (bTo self n) = true)) s mon = true then some (Except.ok (index + 1, bFrom s (bLen mon))) else none) 0 (idxD MONTH_NAME_TABLE 0 []) with
  | some r2 => r2
  | none =>
      -- format.rs:1950: for (index, mon) in MONTH_NAME_TABLE[AbbrCapital as usize].iter().enumerate() {
      match forFirst (β := Chk (Int × (List Nat))) (fun (index : Int) (mon : List Nat) => if (fun (self : List Nat) (needle : List Nat) => let n : Int := bLen needle; decide (bLen self ≥ n ∧ bEqIgnoreCase needle (bTo self n) = true)) s mon = true then some (Except.ok (index + 1, bFrom s (bLen mon))) else none) 0 (idxD MONTH_NAME_TABLE 3 []) with
      | some r1 => r1
      | none => Except.error Err.ParseError

/-- No arithmetic node of `format.rs::parse_month_name` leaves its Rust integer type, no division by zero, no index out of range
    (path-sensitive; calls contribute the callee's predicate). -/
def parse_month_name_safe (s : List Nat) : Prop :=
  0 ≤ 0 ∧
  0 < 6 ∧
  (forFirstSafe (β := Chk (Int × (List Nat)))
     (fun (index : Int) (mon : List Nat) =>
         if (fun (self : List Nat) (needle : List Nat) => let n : Int := bLen needle; decide (bLen self ≥ n ∧ bEqIgnoreCase needle (bTo self n) = true)) s mon = true then
           -- format.rs:1946: return Ok((Month::from(index + 1), &s[mon.len()..]));
           some (Except.ok (index + 1, bFrom s (bLen mon)))
         else
           none)
     (fun (index : Int) (mon : List Nat) =>
         ((fun (self : List Nat) (needle : List Nat) => let n : Int := bLen needle; bLen self ≥ n → 0 ≤ n ∧ n ≤ bLen self) s mon) ∧
         ((fun (self : List Nat) (needle : List Nat) => let n : Int := bLen needle; decide (bLen self ≥ n ∧ bEqIgnoreCase needle (bTo self n) = true)) s mon = true →
           fitsU64 (index + 1) ∧ 0 ≤ bLen mon ∧ bLen mon ≤ bLen s))
     0
     (idxD MONTH_NAME_TABLE 0 [])) ∧
  (match forFirst (β := Chk (Int × (List Nat))) (fun (index : Int) (mon : List Nat) => if (fun (self : List Nat) (needle : List Nat) => let n : Int := bLen needle; decide (bLen self ≥ n ∧ bEqIgnoreCase needle (bTo self n) = true)) s mon = true then some (Except.ok (index + 1, bFrom s (bLen mon))) else none) 0 (idxD MONTH_NAME_TABLE 0 []) with
   | some r2 => True
   | none =>
       0 ≤ 3 ∧
       3 < 6 ∧
       (forFirstSafe (β := Chk (Int × (List Nat)))
          (fun (index : Int) (mon : List Nat) =>
              if (fun (self : List Nat) (needle : List Nat) => let n : Int := bLen needle; decide (bLen self ≥ n ∧ bEqIgnoreCase needle (bTo self n) = true)) s mon = true then
                -- format.rs:1952: return Ok((Month::from(index + 1), &s[mon.len()..]));
                some (Except.ok (index + 1, bFrom s (bLen mon)))
              else
                none)
          (fun (index : Int) (mon : List Nat) =>
              ((fun (self : List Nat) (needle : List Nat) => let n : Int := bLen needle; bLen self ≥ n → 0 ≤ n ∧ n ≤ bLen self) s mon) ∧
              ((fun (self : List Nat) (needle : List Nat) => let n : Int := bLen needle; decide (bLen self ≥ n ∧ bEqIgnoreCase needle (bTo self n) = true)) s mon = true →
                fitsU64 (index + 1) ∧ 0 ≤ bLen mon ∧ bLen mon ≤ bLen s))
          0
          (idxD MONTH_NAME_TABLE 3 [])))

/-- `format.rs::parse_week_day_name` (format.rs:1960), body sha1 cc9a82c120ba -/
-- inlined helpers: format.rs::CaseInsensitive for [ u8 ]::starts_with
def parse_week_day_name (s : List Nat) (style : Int) : Chk (Int × (List Nat)) :=
  -- format.rs:1961: match style {
  if style = 0 ∨ style = 1 ∨ style = 2 then
    match forFirst (β := Chk (Int × (List Nat))) (fun (index : Int) (day : List Nat) => if (fun (self : List Nat) (needle : List Nat) => let n : Int := bLen needle; decide (bLen self ≥ n ∧ bEqIgnoreCase needle (bTo self n) = true)) s day = true then some (Except.ok (index + 1, bFrom s (bLen day))) else none) 0 (idxD DAY_NAME_TABLE 0 []) with
    | some r1 => r1
    | none => Except.error Err.ParseError
  else
    match forFirst (β := Chk (Int × (List Nat))) (fun (index : Int) (day : List Nat) => if (fun (self : List Nat) (needle : List Nat) => let n : Int := bLen needle; decide (bLen self ≥ n ∧ bEqIgnoreCase needle (bTo self n) = true)) s day = true then some (Except.ok (index + 1, bFrom s (bLen day))) else none) 0 (idxD DAY_NAME_TABLE 3 []) with
    | some r2 => r2
    | none => Except.error Err.ParseError

/-- No arithmetic node of `format.rs::parse_week_day_name` leaves its Rust integer type, no division by zero, no index out of range
    (path-sensitive; calls contribute the callee's predicate). -/
def parse_week_day_name_safe (s : List Nat) (style : Int) : Prop :=
  (style = 0 ∨ style = 1 ∨ style = 2 →
    0 ≤ 0 ∧
    0 < 6 ∧
    (forFirstSafe (β := Chk (Int × (List Nat)))
       (fun (index : Int) (day : List Nat) =>
           if (fun (self : List Nat) (needle : List Nat) => let n : Int := bLen needle; decide (bLen self ≥ n ∧ bEqIgnoreCase needle (bTo self n) = true)) s day = true then
             -- format.rs:1965: return Ok((WeekDay::from(index + 1), &s[day.len()..]));
             some (Except.ok (index + 1, bFrom s (bLen day)))
           else
             none)
       (fun (index : Int) (day : List Nat) =>
           ((fun (self : List Nat) (needle : List Nat) => let n : Int := bLen needle; bLen self ≥ n → 0 ≤ n ∧ n ≤ bLen self) s day) ∧
           ((fun (self : List Nat) (needle : List Nat) => let n : Int := bLen needle; decide (bLen self ≥ n ∧ bEqIgnoreCase needle (bTo self n) = true)) s day = true →
             fitsU64 (index + 1) ∧ 0 ≤ bLen day ∧ bLen day ≤ bLen s))
       0
       (idxD DAY_NAME_TABLE 0 []))) ∧
  (¬ (style = 0 ∨ style = 1 ∨ style = 2) →
    0 ≤ 3 ∧
    3 < 6 ∧
    (forFirstSafe (β := Chk (Int × (List Nat)))
       (fun (index : Int) (day : List Nat) =>
           if (fun (self : List Nat) (needle : List Nat) => let n : Int := bLen needle; decide (bLen self ≥ n ∧ bEqIgnoreCase needle (bTo self n) = true)) s day = true then
             -- format.rs:1972: return Ok((WeekDay::from(index + 1), &s[day.len()..]));
             some (Except.ok (index + 1, bFrom s (bLen day)))
           else
             none)
       (fun (index : Int) (day : List Nat) =>
           ((fun (self : List Nat) (needle : List Nat) => let n : Int := bLen needle; bLen self ≥ n → 0 ≤ n ∧ n ≤ bLen self) s day) ∧
           ((fun (self : List Nat) (needle : List Nat) => let n : Int := bLen needle; decide (bLen self ≥ n ∧ bEqIgnoreCase needle (bTo self n) = true)) s day = true →
             fitsU64 (index + 1) ∧ 0 ≤ bLen day ∧ bLen day ≤ bLen s))
       0
       (idxD DAY_NAME_TABLE 3 [])))

/-- `format.rs::parse_year` (format.rs:1853), body sha1 12ce191fa262 -/
def parse_year (input : List Nat) (max_len : Int) (get_now : SqlDt.Clock) : Chk (Bool × Int × (List Nat)) :=
  if max_len = 2 then
    -- format.rs:1861: let input_len = input.len();
    let input_len : Int := bLen input
    match Tr.parse_number input 4 with
    | Except.error err => Except.error err
    | Except.ok r1 =>
        -- format.rs:1862: let (negative, year, rem) = parse_number(input, 4)?;
        let negative_year_rem : Bool × Int × (List Nat) := r1
        let negative : Bool := negative_year_rem.1
        let year : Int := negative_year_rem.2.1
        let rem : List Nat := negative_year_rem.2.2
        -- format.rs:1864: let sign_len = matches!(input.first(), Some(b'+') | Some(b'-')) as usize;
        let sign_len : Int :=
          boolToInt (match bFirst input with | some o2 => (if o2 = 43 ∨ o2 = 45 then true else false) | none => false)
        if input_len - bLen rem - sign_len > 2 then
          Except.ok (negative, year, rem)
        else
          -- format.rs:1868: let now = get_now();
          let now : SqlDt.Clock := get_now
          -- format.rs:1869: let current_year = now.year();
          let current_year : Int := now.year
          -- format.rs:1870: let result_year = current_year - current_year % 100 + year;
          let result_year : Int := current_year - rrem current_year 100 + year
          Except.ok (negative, result_year, rem)
  else if max_len = 1 ∨ max_len = 3 then
    match Tr.parse_number input max_len with
    | Except.error err => Except.error err
    | Except.ok r3 =>
        -- format.rs:1875: let (negative, year, rem) = parse_number(input, max_len)?;
        let negative_year_rem : Bool × Int × (List Nat) := r3
        let negative : Bool := negative_year_rem.1
        let year : Int := negative_year_rem.2.1
        let rem : List Nat := negative_year_rem.2.2
        -- format.rs:1876: let now = get_now();
        let now : SqlDt.Clock := get_now
        -- format.rs:1877: let current_year = now.year();
        let current_year : Int := now.year
        -- format.rs:1878: let result_year =
        let result_year : Int :=
          current_year - rrem current_year (asI32 (idxD YEAR_MODIFIER (max_len - 1) 0)) + year
        Except.ok (negative, result_year, rem)
  else
    Tr.parse_number input max_len

/-- No arithmetic node of `format.rs::parse_year` leaves its Rust integer type, no division by zero, no index out of range
    (path-sensitive; calls contribute the callee's predicate). -/
def parse_year_safe (input : List Nat) (max_len : Int) (get_now : SqlDt.Clock) : Prop :=
  (max_len = 2 →
    let input_len : Int := bLen input
    Tr.parse_number_safe input 4 ∧
    (match Tr.parse_number input 4 with
     | Except.error err => True
     | Except.ok r1 =>
         let negative_year_rem : Bool × Int × (List Nat) := r1
         let negative : Bool := negative_year_rem.1
         let year : Int := negative_year_rem.2.1
         let rem : List Nat := negative_year_rem.2.2
         let sign_len : Int :=
           boolToInt (match bFirst input with | some o2 => (if o2 = 43 ∨ o2 = 45 then true else false) | none => false)
         fitsU64 (input_len - bLen rem) ∧
         fitsU64 (input_len - bLen rem - sign_len) ∧
         (¬ input_len - bLen rem - sign_len > 2 →
           let now : SqlDt.Clock := get_now
           let current_year : Int := now.year
           fitsI32 (current_year - rrem current_year 100) ∧
           fitsI32 (current_year - rrem current_year 100 + year)))) ∧
  (¬ max_len = 2 →
    (max_len = 1 ∨ max_len = 3 →
      Tr.parse_number_safe input max_len ∧
      (match Tr.parse_number input max_len with
       | Except.error err => True
       | Except.ok r3 =>
           let negative_year_rem : Bool × Int × (List Nat) := r3
           let negative : Bool := negative_year_rem.1
           let year : Int := negative_year_rem.2.1
           let rem : List Nat := negative_year_rem.2.2
           let now : SqlDt.Clock := get_now
           let current_year : Int := now.year
           fitsU64 (max_len - 1) ∧
           0 ≤ max_len - 1 ∧
           max_len - 1 < 4 ∧
           asI32 (idxD YEAR_MODIFIER (max_len - 1) 0) ≠ 0 ∧
           ¬ (current_year = (-2147483648) ∧ asI32 (idxD YEAR_MODIFIER (max_len - 1) 0) = (-1)) ∧
           fitsI32 (current_year - rrem current_year (asI32 (idxD YEAR_MODIFIER (max_len - 1) 0))) ∧
           fitsI32 (current_year - rrem current_year (asI32 (idxD YEAR_MODIFIER (max_len - 1) 0)) + year))) ∧
    (¬ (max_len = 1 ∨ max_len = 3) → Tr.parse_number_safe input max_len))

end SqlDt.Tr
