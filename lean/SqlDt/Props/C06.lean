/-
  C06  Format then parse with the same lossless picture returns the original value.
  (Layer 1: the numeric building block — the digits a field is rendered with are read back to the same number,
   for every value and width — and kernel-checked round trips at the range boundaries through the serde pictures
   and a permuted, name-bearing picture.  The general induction over lossless pictures is the next layer.)
-/
import SqlDt.Lemmas.Digits
import SqlDt.Model.Serde
namespace SqlDt.C06
open SqlDt Gen Parser Spec

/-- Reading back the decimal digits of `n` gives `n` (the digit fold of `parse_number`). -/
theorem foldr_digitsRev : ∀ (f v : Nat), v < 10 ^ f →
    (digitsRev f v).foldr (fun d acc => acc * 10 + (Int.ofNat d - 48)) 0 = Int.ofNat v := by
  intro f
  induction f with
  | zero => intro v h; simp at h; subst h; simp [digitsRev]
  | succ f ih =>
    intro v h
    simp only [digitsRev]
    by_cases h10 : v ≥ 10
    · simp only [h10, ↓reduceIte, List.foldr_cons]
      have hp : 10 ^ (f + 1) = 10 * 10 ^ f := by rw [Nat.pow_succ]; omega
      rw [ih (v / 10) (by omega)]
      simp only [Int.ofNat_eq_natCast]
      omega
    · simp only [h10, ↓reduceIte, List.foldr_cons, List.foldr_nil, Int.ofNat_eq_natCast]; omega

theorem foldDigits_writeU32_nopad (v : Nat) (hv : v < 100000000000) :
    foldDigits (displayU32 (Int.ofNat v)) = Int.ofNat v := by
  unfold foldDigits displayU32
  rw [List.foldl_reverse]
  simpa using foldr_digitsRev 11 v (by omega)

theorem foldl_zeros (k : Nat) : (List.replicate k 48).foldl (fun acc d => acc * 10 + (Int.ofNat d - 48)) (0 : Int) = 0 := by
  induction k with
  | zero => rfl
  | succ k ih => rw [List.replicate_succ, List.foldl_cons]; simpa using ih

/-- Leading zeros do not change the value read. -/
theorem foldDigits_zeros (k : Nat) (ds : Bytes) : foldDigits (List.replicate k 48 ++ ds) = foldDigits ds := by
  unfold foldDigits
  rw [List.foldl_append, foldl_zeros]

/-- A zero-padded field is read back as the number it was rendered from, for every u32 value and width. -/
theorem foldDigits_writeU32 (v w : Nat) (hv : v < 100000000000) :
    foldDigits (writeU32 (Int.ofNat v) w) = Int.ofNat v := by
  unfold writeU32
  rw [foldDigits_zeros]
  exact foldDigits_writeU32_nopad v hv

/-- Kernel-checked round trips at the range boundaries (format ∘ parse ∘ format through one picture). -/
def roundTrips (ty : Ty) (v : Int) (pic : Bytes) : Bool :=
  match formatValue ty v pic none with
  | .ok text =>
    match parseValue ty text pic default with
    | .ok (v', _) => v' == v && (formatValue ty v' pic none == .ok text)
    | .error _ => false
  | .error _ => false

theorem boundary_round_trips :
    roundTrips .D (-719162) (Serde.picture .D) ∧ roundTrips .D 2932896 (Serde.picture .D) ∧
    roundTrips .TS (-62135596800000000) (Serde.picture .TS) ∧ roundTrips .TS 253402300799999999 (Serde.picture .TS) ∧
    roundTrips .T 0 (Serde.picture .T) ∧ roundTrips .T 86399999999 (Serde.picture .T) ∧
    roundTrips .YM 2136000000 (Serde.picture .YM) ∧ roundTrips .YM (-2136000000) (Serde.picture .YM) ∧
    roundTrips .DT 8640000000000000000 (Serde.picture .DT) ∧ roundTrips .DT (-8639999999999999999) (Serde.picture .DT) ∧
    roundTrips .OD 253402300799000000 (Serde.picture .OD) ∧
    roundTrips .TS 951782400123456 (bytesOf "Day, DD Month YYYY HH12:MI:SS.FF9 P.M.") ∧
    roundTrips .TS (-1) (bytesOf "FF7 SS MI HH24 DDD YYYY dy") := by
  decide +kernel

end SqlDt.C06
