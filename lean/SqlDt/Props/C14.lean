/-
  C14  Scaling an interval by a float truncates toward zero and classifies bad operands.
  Classification of every operand for all 2^64 bit patterns of the scalar; exact products for integer factors below
  2^53; sign symmetry; the half-ulp property of each rounding.
-/
import SqlDt.Lemmas.Div
import SqlDt.Lemmas.Float
import SqlDt.Lemmas.FloatUse
namespace SqlDt.C14
open SqlDt Gen

/-- Classification of a product: infinite → NumericOverflow, NaN → InvalidNumber, finite → the truncated value
    if it lies in the interval range, else IntervalOutOfRange. -/
theorem dt_mul_classify (v : Int) (x : F64) :
    IntervalDT.mulF64 v x =
      match F64.mul (F64.ofInt v) x with
      | .inf _ => .error .NumericOverflow
      | .nan => .error .InvalidNumber
      | .fin s m e =>
        if IntervalDT.isValidUsecs (F64.toI64 (.fin s m e)) then .ok (F64.toI64 (.fin s m e))
        else .error .IntervalOutOfRange := by
  unfold IntervalDT.mulF64 IntervalDT.tryFromUsecs
  cases F64.mul (F64.ofInt v) x <;> simp [F64.isInfinite, F64.isNan]

/-- Division: a zero divisor (either sign) is reported first, whatever the dividend. -/
theorem dt_div_zero (v : Int) (s : Bool) : IntervalDT.divF64 v (F64.zero s) = .error .DivideByZero := by
  unfold IntervalDT.divF64 F64.zero; simp [F64.isZero]

theorem dt_div_classify (v : Int) (x : F64) (hx : x.isZero = false) :
    IntervalDT.divF64 v x =
      match F64.div (F64.ofInt v) x with
      | .inf _ => .error .NumericOverflow
      | .nan => .error .InvalidNumber
      | .fin s m e =>
        if IntervalDT.isValidUsecs (F64.toI64 (.fin s m e)) then .ok (F64.toI64 (.fin s m e))
        else .error .IntervalOutOfRange := by
  unfold IntervalDT.divF64 IntervalDT.tryFromUsecs
  simp only [hx]
  cases F64.div (F64.ofInt v) x <;> simp [F64.isInfinite, F64.isNan]

theorem ym_mul_classify (v : Int) (x : F64) :
    IntervalYM.mulF64 v x =
      match F64.mul (F64.ofInt v) x with
      | .inf _ => .error .NumericOverflow
      | .nan => .error .InvalidNumber
      | .fin s m e =>
        if IntervalYM.isValidMonths (F64.toI32 (.fin s m e)) then .ok (F64.toI32 (.fin s m e))
        else .error .IntervalOutOfRange := by
  unfold IntervalYM.mulF64 IntervalYM.tryFromMonths
  cases F64.mul (F64.ofInt v) x <;> simp [F64.isInfinite, F64.isNan]

theorem ym_div_zero (v : Int) (s : Bool) : IntervalYM.divF64 v (F64.zero s) = .error .DivideByZero := by
  unfold IntervalYM.divF64 F64.zero; simp [F64.isZero]

theorem ym_div_classify (v : Int) (x : F64) (hx : x.isZero = false) :
    IntervalYM.divF64 v x =
      match F64.div (F64.ofInt v) x with
      | .inf _ => .error .NumericOverflow
      | .nan => .error .InvalidNumber
      | .fin s m e =>
        if IntervalYM.isValidMonths (F64.toI32 (.fin s m e)) then .ok (F64.toI32 (.fin s m e))
        else .error .IntervalOutOfRange := by
  unfold IntervalYM.divF64 IntervalYM.tryFromMonths
  simp only [hx]
  cases F64.div (F64.ofInt v) x <;> simp [F64.isInfinite, F64.isNan]

/-- A NaN multiplier or divisor is an invalid number; an infinite multiplier overflows (unless the interval is zero,
    where ∞·0 is NaN). -/
theorem dt_mul_nan (v : Int) : IntervalDT.mulF64 v .nan = .error .InvalidNumber := by
  rw [dt_mul_classify]; cases h : F64.ofInt v <;> simp [F64.mul]

theorem dt_div_nan (v : Int) : IntervalDT.divF64 v .nan = .error .InvalidNumber := by
  rw [dt_div_classify v .nan rfl]; cases h : F64.ofInt v <;> simp [F64.div]

/-- Whatever a scaling operation returns is inside the interval range. -/
theorem dt_mul_valid (v : Int) (x : F64) (r : Int) (h : IntervalDT.mulF64 v x = .ok r) : IntervalDT.isValidUsecs r := by
  rw [dt_mul_classify] at h
  split at h
  · cases h
  · cases h
  · split at h
    · cases h; assumption
    · cases h

theorem ym_mul_valid (v : Int) (x : F64) (r : Int) (h : IntervalYM.mulF64 v x = .ok r) : IntervalYM.isValidMonths r := by
  rw [ym_mul_classify] at h
  split at h
  · cases h
  · cases h
  · split at h
    · cases h; assumption
    · cases h

/-- The cast truncates toward zero and saturates: the value returned for a finite product `±m·2^e` is
    `±⌊m·2^e⌋` clamped to the i64 range (so anything beyond the range is out of the interval range too). -/
theorem toI64_trunc (s : Bool) (m : Nat) (e : Int) :
    F64.toI64 (.fin s m e) =
      let t := F64.truncInt s m e
      if t < I64_MIN then I64_MIN else if t > I64_MAX then I64_MAX else t := rfl

/-! ## Numeric layer (soft-float lemmas of Lemmas/Float) -/

theorem clamp_narrow (lo hi lo' hi' t x : Int) (h : (if t < lo then lo else if t > hi then hi else t) = x)
    (h1 : lo < x) (h2 : x < hi) (h3 : lo' ≤ x) (h4 : x ≤ hi') :
    (if t < lo' then lo' else if t > hi' then hi' else t) = x := by
  by_cases c1 : t < lo
  · rw [if_pos c1] at h; omega
  · rw [if_neg c1] at h
    by_cases c2 : t > hi
    · rw [if_pos c2] at h; omega
    · rw [if_neg c2] at h; subst h
      rw [if_neg (by omega), if_neg (by omega)]

theorem ofInt_zero : F64.ofInt 0 = F64.fin false 0 F64.EMIN := by decide

theorem ofInt_fin (k : Int) (hk : k.natAbs ≤ 9007199254740992) : ∃ s m e, F64.ofInt k = F64.fin s m e := by
  have ht := Lemmas.F64.toI64_ofInt k hk
  cases hf : F64.ofInt k with
  | nan =>
    by_cases h0 : k = 0
    · subst h0; rw [ofInt_zero] at hf; cases hf
    · rw [hf] at ht; simp [F64.toI64, F64.toIntSat] at ht; exact absurd ht.symm h0
  | inf s => rw [hf] at ht; unfold F64.toI64 F64.toIntSat at ht; cases s <;> simp [I64_MIN, I64_MAX] at ht <;> omega
  | fin s m e => exact ⟨s, m, e, rfl⟩

theorem mul_zero_fin (s : Bool) (m : Nat) (e : Int) :
    F64.mul (F64.fin false 0 F64.EMIN) (F64.fin s m e) = F64.zero (false != s) ∧
    F64.mul (F64.fin s m e) (F64.fin false 0 F64.EMIN) = F64.zero (s != false) := by
  constructor <;> simp [F64.mul, F64.round]

/-- Exact products: multiplying an interval by an integer-valued double gives exactly `v·k` whenever `v`, `k` and the
    product are at most 2^53 in magnitude (such a product is always inside the interval range). -/
theorem dt_mul_integer_exact (v k : Int) (hv : v.natAbs ≤ 9007199254740992) (hk : k.natAbs ≤ 9007199254740992)
    (hvk : (v * k).natAbs ≤ 9007199254740992) :
    IntervalDT.mulF64 v (F64.ofInt k) = .ok (v * k) := by
  have hr : IntervalDT.isValidUsecs (v * k) := by
    unfold IntervalDT.isValidUsecs INTERVAL_MAX_USECONDS; omega
  by_cases hz : v * k = 0
  · rw [hz]
    rcases Int.mul_eq_zero.1 hz with h0 | h0 <;> subst h0
    · obtain ⟨s, m, e, hf⟩ := ofInt_fin k hk
      rw [dt_mul_classify, hf, ofInt_zero, (mul_zero_fin s m e).1]
      cases s <;> decide
    · obtain ⟨s, m, e, hf⟩ := ofInt_fin v hv
      rw [dt_mul_classify, hf, ofInt_zero, (mul_zero_fin s m e).2]
      cases s <;> decide
  · rw [dt_mul_classify, Lemmas.F64.mul_ofInt_exact v k hv hk hvk hz]
    have ht := Lemmas.F64.toI64_ofInt (v * k) hvk
    obtain ⟨s, m, e, hf⟩ := ofInt_fin (v * k) hvk
    rw [hf] at ht
    simp only [hf, ht, hr, ↓reduceIte]

/-- Same for year-month intervals (months fit in i32, the product must stay within the interval range). -/
theorem ym_mul_integer_exact (v k : Int) (hv : v.natAbs ≤ 9007199254740992) (hk : k.natAbs ≤ 9007199254740992)
    (hvk : (v * k).natAbs ≤ 2136000000) :
    IntervalYM.mulF64 v (F64.ofInt k) = .ok (v * k) := by
  have hvk' : (v * k).natAbs ≤ 9007199254740992 := by omega
  have hr : IntervalYM.isValidMonths (v * k) := by
    unfold IntervalYM.isValidMonths INTERVAL_MAX_MONTH; omega
  have key : ∀ s m e, F64.ofInt (v * k) = F64.fin s m e → F64.toI32 (F64.fin s m e) = v * k := by
    intro s m e hf
    have ht := Lemmas.F64.toI64_ofInt (v * k) hvk'
    rw [hf] at ht
    exact clamp_narrow I64_MIN I64_MAX I32_MIN I32_MAX _ _ ht (by unfold I64_MIN; omega) (by unfold I64_MAX; omega)
      (by unfold I32_MIN; omega) (by unfold I32_MAX; omega)
  by_cases hz : v * k = 0
  · rw [hz]
    rcases Int.mul_eq_zero.1 hz with h0 | h0 <;> subst h0
    · obtain ⟨s, m, e, hf⟩ := ofInt_fin k hk
      rw [ym_mul_classify, hf, ofInt_zero, (mul_zero_fin s m e).1]
      cases s <;> decide
    · obtain ⟨s, m, e, hf⟩ := ofInt_fin v hv
      rw [ym_mul_classify, hf, ofInt_zero, (mul_zero_fin s m e).2]
      cases s <;> decide
  · rw [ym_mul_classify, Lemmas.F64.mul_ofInt_exact v k hv hk hvk' hz]
    obtain ⟨s, m, e, hf⟩ := ofInt_fin (v * k) hvk'
    simp only [hf, key s m e hf, hr, ↓reduceIte]


/-- Sign symmetry of the arithmetic: `(−x)·k = −(x·k) = x·(−k)` at the level of doubles (round-to-nearest-even and
    truncation toward zero are odd functions), for every interval value `x ≠ 0` and every double `k`. -/
theorem mul_sign_symmetry (v : Int) (hv : v ≠ 0) (k : F64) :
    F64.mul (F64.ofInt (-v)) k = F64.neg (F64.mul (F64.ofInt v) k) ∧
    F64.mul (F64.ofInt v) (F64.neg k) = F64.neg (F64.mul (F64.ofInt v) k) ∧
    F64.div (F64.ofInt (-v)) k = F64.neg (F64.div (F64.ofInt v) k) ∧
    F64.div (F64.ofInt v) (F64.neg k) = F64.neg (F64.div (F64.ofInt v) k) := by
  rw [Lemmas.F64.ofInt_neg v hv]
  exact ⟨Lemmas.F64.mul_neg_left _ _, Lemmas.F64.mul_neg_right _ _, Lemmas.F64.div_neg_left _ _, Lemmas.F64.div_neg_right _ _⟩

/-- …and the truncating cast commutes with negation (inside any symmetric range). -/
theorem trunc_neg (x : F64) (b : Int) (hb : 0 ≤ b) : F64.toIntSat (-b) b (F64.neg x) = -(F64.toIntSat (-b) b x) := by
  have := Lemmas.F64.toIntSat_neg (-b) b x (by omega)
  simpa using this

/-- Round-to-nearest-even, stated without division: the rounded significand/exponent of a positive rational `num/den`
    is canonical and within half a unit in the last place (hence relative error ≤ 2^-53 per operation in the normal
    range; `mul_f64`/`div_f64` perform two such roundings: the conversion of the interval and the product/quotient). -/
theorem rounding_half_ulp (num den m : Nat) (e : Int) (hn : 0 < num) (hd : 0 < den)
    (h : F64.roundPos num den = some (m, e)) :
    m < F64.P53 ∧ F64.EMIN ≤ e ∧ e ≤ F64.EMAX ∧ (F64.P52 ≤ m ∨ e = F64.EMIN) ∧
    2 * ((m * F64.pow2 e.toNat * den : Nat) - (num * F64.pow2 (-e).toNat : Nat) : Int).natAbs
      ≤ F64.pow2 e.toNat * den :=
  Lemmas.F64.roundPos_spec num den m e hn hd h

/-- Relative error of each correctly rounded operation in the normal range: `|computed − exact| ≤ u/(1+u)·exact` with
    `u = 2^-53`, without division: `(2^53 + 1)·|m·P·den − num·Q| ≤ num·Q`. `mul_f64`/`div_f64` perform two such operations
    (conversion of the interval to a double, then the product or quotient), which compose to
    `(1 + u/(1+u))² − 1 < 2u = 2^-52`. -/
theorem rounding_relative_error (num den m : Nat) (e : Int) (hn : 0 < num) (hd : 0 < den)
    (h : F64.roundPos num den = some (m, e)) (hnorm : F64.P52 ≤ m) (he : F64.EMIN < e) :
    9007199254740993 * ((m * F64.pow2 e.toNat * den : Nat) - (num * F64.pow2 (-e).toNat : Nat) : Int).natAbs
      ≤ num * F64.pow2 (-e).toNat :=
  Lemmas.F64.roundPos_rel num den m e hn hd h hnorm he

example : IntervalDT.mulF64 10 (F64.ofInt 3) = .ok 30 ∧ IntervalDT.divF64 10 (F64.ofInt 4) = .ok 2 ∧
    IntervalDT.divF64 (-10) (F64.ofInt 4) = .ok (-2) ∧ IntervalDT.divF64 10 (F64.zero true) = .error .DivideByZero ∧
    IntervalDT.mulF64 1 (.inf false) = .error .NumericOverflow ∧ IntervalDT.mulF64 0 (.inf false) = .error .InvalidNumber := by
  decide

end SqlDt.C14
