/-
  C14  Scaling an interval by a float truncates toward zero and classifies bad operands.
  (First layer: classification of every operand, for all 2^64 bit patterns of the scalar.
   The numeric layer – error bound, exactness for integer factors, sign symmetry – is in Lemmas/Float.)
-/
import SqlDt.Lemmas.Div
namespace SqlDt.C14
open SqlDt Gen

/-- Classification of a product: infinite → NumericOverflow, NaN → InvalidNumber, finite → the truncated value
    if it lies in the interval range, else IntervalOutOfRange. -/
theorem dt_mul_classify (v : Int) (x : F64) :
    IntervalDT.mulF64 v x =
      match F64.mul (F64.ofInt v) x with
      | .inf _ => .error .NumericOverflow
      | .nan => .error .InvalidNumber
      | .fin s m e =>
        if IntervalDT.isValidUsecs (F64.toI64 (.fin s m e)) then .ok (F64.toI64 (.fin s m e))
        else .error .IntervalOutOfRange := by
  unfold IntervalDT.mulF64 IntervalDT.tryFromUsecs
  cases F64.mul (F64.ofInt v) x <;> simp [F64.isInfinite, F64.isNan]

/-- Division: a zero divisor (either sign) is reported first, whatever the dividend. -/
theorem dt_div_zero (v : Int) (s : Bool) : IntervalDT.divF64 v (F64.zero s) = .error .DivideByZero := by
  unfold IntervalDT.divF64 F64.zero; simp [F64.isZero]

theorem dt_div_classify (v : Int) (x : F64) (hx : x.isZero = false) :
    IntervalDT.divF64 v x =
      match F64.div (F64.ofInt v) x with
      | .inf _ => .error .NumericOverflow
      | .nan => .error .InvalidNumber
      | .fin s m e =>
        if IntervalDT.isValidUsecs (F64.toI64 (.fin s m e)) then .ok (F64.toI64 (.fin s m e))
        else .error .IntervalOutOfRange := by
  unfold IntervalDT.divF64 IntervalDT.tryFromUsecs
  simp only [hx]
  cases F64.div (F64.ofInt v) x <;> simp [F64.isInfinite, F64.isNan]

theorem ym_mul_classify (v : Int) (x : F64) :
    IntervalYM.mulF64 v x =
      match F64.mul (F64.ofInt v) x with
      | .inf _ => .error .NumericOverflow
      | .nan => .error .InvalidNumber
      | .fin s m e =>
        if IntervalYM.isValidMonths (F64.toI32 (.fin s m e)) then .ok (F64.toI32 (.fin s m e))
        else .error .IntervalOutOfRange := by
  unfold IntervalYM.mulF64 IntervalYM.tryFromMonths
  cases F64.mul (F64.ofInt v) x <;> simp [F64.isInfinite, F64.isNan]

theorem ym_div_zero (v : Int) (s : Bool) : IntervalYM.divF64 v (F64.zero s) = .error .DivideByZero := by
  unfold IntervalYM.divF64 F64.zero; simp [F64.isZero]

theorem ym_div_classify (v : Int) (x : F64) (hx : x.isZero = false) :
    IntervalYM.divF64 v x =
      match F64.div (F64.ofInt v) x with
      | .inf _ => .error .NumericOverflow
      | .nan => .error .InvalidNumber
      | .fin s m e =>
        if IntervalYM.isValidMonths (F64.toI32 (.fin s m e)) then .ok (F64.toI32 (.fin s m e))
        else .error .IntervalOutOfRange := by
  unfold IntervalYM.divF64 IntervalYM.tryFromMonths
  simp only [hx]
  cases F64.div (F64.ofInt v) x <;> simp [F64.isInfinite, F64.isNan]

/-- A NaN multiplier or divisor is an invalid number; an infinite multiplier overflows (unless the interval is zero,
    where ∞·0 is NaN). -/
theorem dt_mul_nan (v : Int) : IntervalDT.mulF64 v .nan = .error .InvalidNumber := by
  rw [dt_mul_classify]; cases h : F64.ofInt v <;> simp [F64.mul]

theorem dt_div_nan (v : Int) : IntervalDT.divF64 v .nan = .error .InvalidNumber := by
  rw [dt_div_classify v .nan rfl]; cases h : F64.ofInt v <;> simp [F64.div]

/-- Whatever a scaling operation returns is inside the interval range. -/
theorem dt_mul_valid (v : Int) (x : F64) (r : Int) (h : IntervalDT.mulF64 v x = .ok r) : IntervalDT.isValidUsecs r := by
  rw [dt_mul_classify] at h
  split at h
  · cases h
  · cases h
  · split at h
    · cases h; assumption
    · cases h

theorem ym_mul_valid (v : Int) (x : F64) (r : Int) (h : IntervalYM.mulF64 v x = .ok r) : IntervalYM.isValidMonths r := by
  rw [ym_mul_classify] at h
  split at h
  · cases h
  · cases h
  · split at h
    · cases h; assumption
    · cases h

/-- The cast truncates toward zero and saturates: the value returned for a finite product `±m·2^e` is
    `±⌊m·2^e⌋` clamped to the i64 range (so anything beyond the range is out of the interval range too). -/
theorem toI64_trunc (s : Bool) (m : Nat) (e : Int) :
    F64.toI64 (.fin s m e) =
      let t := F64.truncInt s m e
      if t < I64_MIN then I64_MIN else if t > I64_MAX then I64_MAX else t := rfl

example : IntervalDT.mulF64 10 (F64.ofInt 3) = .ok 30 ∧ IntervalDT.divF64 10 (F64.ofInt 4) = .ok 2 ∧
    IntervalDT.divF64 (-10) (F64.ofInt 4) = .ok (-2) ∧ IntervalDT.divF64 10 (F64.zero true) = .error .DivideByZero ∧
    IntervalDT.mulF64 1 (.inf false) = .error .NumericOverflow ∧ IntervalDT.mulF64 0 (.inf false) = .error .InvalidNumber := by
  decide

end SqlDt.C14
