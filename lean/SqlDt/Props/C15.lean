/-
  C15  Serialization round-trips and deserialization never yields an out-of-range value.
-/
import SqlDt.Lemmas.Div
import SqlDt.Model.Serde
import SqlDt.Lemmas.RoundTrip
namespace SqlDt.C15
open SqlDt Gen

/-- Binary deserialisation of ANY raw integer either fails or yields a value inside the type's range
    (whole seconds for the Oracle-style date). -/
theorem deBin_valid (ty : Ty) (raw v : Int) (h : Serde.deBin ty raw = .ok v) : ty.Valid v ∧ v = raw := by
  unfold Serde.deBin at h
  cases ty <;> simp only [Date.tryFromDays, Time.tryFromUsecs, Timestamp.tryFromUsecs, IntervalYM.tryFromMonths,
    IntervalDT.tryFromUsecs, OracleDate.tryFromUsecs] at h <;>
  · split at h
    · rename_i r heq
      split at heq
      · cases heq; cases h; rename_i hv; exact ⟨hv, rfl⟩
      · cases heq
    · rename_i heq; split at heq <;> cases heq
    · cases h

/-- Binary round trip: every valid value decodes back to itself. -/
theorem deBin_serBin (ty : Ty) (v : Int) (hv : ty.Valid v) : Serde.deBin ty (Serde.serBin ty v) = .ok v := by
  unfold Serde.deBin Serde.serBin
  cases ty <;> simp only [Ty.Valid] at hv <;>
    simp [Date.tryFromDays, Time.tryFromUsecs, Timestamp.tryFromUsecs, IntervalYM.tryFromMonths,
      IntervalDT.tryFromUsecs, OracleDate.tryFromUsecs, hv]

/-- Out-of-range raw counts are rejected (the cases the unrepaired crate accepted). -/
example : Serde.deBin .D 2147483647 = .error .Serde ∧ Serde.deBin .T 9223372036854775807 = .error .Serde ∧
    Serde.deBin .OD 1 = .error .Serde ∧ Serde.deBin .D 2932896 = .ok 2932896 := by decide

/-! ### human-readable form (the six fixed pictures of `serialize.rs`) -/

/-- Human-readable serialisation of EVERY valid value of EVERY type succeeds and fits the 32-byte stack buffer
    (`StackStr<32>`): the `Err(ser::Error)` / overflow branch of `serialize` is unreachable for valid values. -/
theorem serStr_ok (ty : Ty) (v : Int) (hv : ty.Valid v) : ∃ text, Serde.serStr ty v = .ok text ∧ text.length ≤ 32 :=
  Lemmas.serStr_ok ty v hv

/-- Human-readable round trip: for EVERY valid value of EVERY type, and under any clock, deserialising the
    serialised text gives the value back. -/
theorem deStr_serStr (ty : Ty) (v : Int) (hv : ty.Valid v) (now : Clock) (text : Bytes)
    (h : Serde.serStr ty v = .ok text) : Serde.deStr ty text now = .ok v :=
  Lemmas.deStr_serStr ty v hv now text h

/-- The two together, without the intermediate text as a hypothesis. -/
theorem human_roundtrip (ty : Ty) (v : Int) (hv : ty.Valid v) (now : Clock) :
    (Serde.serStr ty v).bind (fun t => Serde.deStr ty t now) = .ok v := by
  obtain ⟨t, a, _⟩ := serStr_ok ty v hv
  rw [a]; exact deStr_serStr ty v hv now t a

/-- Human-readable deserialisation of ANY text, under any clock, either fails or yields a value inside the type's
    documented range (whole seconds for the Oracle-style date). -/
theorem deStr_valid (ty : Ty) (text : Bytes) (now : Clock) (v : Int) (h : Serde.deStr ty text now = .ok v) : ty.Valid v :=
  Lemmas.deStr_valid ty text now v h

/-- Non-vacuity: the extreme values of each type go through the human-readable form. -/
example : Serde.serStr .TS 253402300799999999 = .ok (bytesOf "9999-12-31 23:59:59.999999") ∧
    Serde.deStr .TS (bytesOf "9999-12-31 23:59:59.999999") default = .ok 253402300799999999 ∧
    Serde.deStr .D (bytesOf "0000-01-01") default = .error .Serde ∧
    Serde.deStr .OD (bytesOf "9999-12-31 23:59:60") default = .error .Serde := by decide +kernel

end SqlDt.C15
