/-
  C15  Serialization round-trips and deserialization never yields an out-of-range value.
-/
import SqlDt.Lemmas.Div
import SqlDt.Model.Serde
namespace SqlDt.C15
open SqlDt Gen

/-- Binary deserialisation of ANY raw integer either fails or yields a value inside the type's range
    (whole seconds for the Oracle-style date). -/
theorem deBin_valid (ty : Ty) (raw v : Int) (h : Serde.deBin ty raw = .ok v) : ty.Valid v ∧ v = raw := by
  unfold Serde.deBin at h
  cases ty <;> simp only [Date.tryFromDays, Time.tryFromUsecs, Timestamp.tryFromUsecs, IntervalYM.tryFromMonths,
    IntervalDT.tryFromUsecs, OracleDate.tryFromUsecs] at h <;>
  · split at h
    · rename_i r heq
      split at heq
      · cases heq; cases h; rename_i hv; exact ⟨hv, rfl⟩
      · cases heq
    · rename_i heq; split at heq <;> cases heq
    · cases h

/-- Binary round trip: every valid value decodes back to itself. -/
theorem deBin_serBin (ty : Ty) (v : Int) (hv : ty.Valid v) : Serde.deBin ty (Serde.serBin ty v) = .ok v := by
  unfold Serde.deBin Serde.serBin
  cases ty <;> simp only [Ty.Valid] at hv <;>
    simp [Date.tryFromDays, Time.tryFromUsecs, Timestamp.tryFromUsecs, IntervalYM.tryFromMonths,
      IntervalDT.tryFromUsecs, OracleDate.tryFromUsecs, hv]

/-- Out-of-range raw counts are rejected (the cases the unrepaired crate accepted). -/
example : Serde.deBin .D 2147483647 = .error .Serde ∧ Serde.deBin .T 9223372036854775807 = .error .Serde ∧
    Serde.deBin .OD 1 = .error .Serde ∧ Serde.deBin .D 2932896 = .ok 2932896 := by decide

end SqlDt.C15
