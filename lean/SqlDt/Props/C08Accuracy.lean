/-
  C08 (continuation): a fractional-day offset on a timestamp equals that offset, computed in double precision, rounded to the nearest microsecond.
  Statements over exact rational arithmetic (ℚ); proofs in Lemmas/Accuracy*.lean (single Mathlib tactic modules).
  `F64.val x` is the exact value ±m·2^e of a finite double, `truncQ` truncates toward zero, `roundHalfAwayQ` is the nearest
  integer with ties away from zero, `roundSecQ` the nearest multiple of 10^6 with ties away from zero.
-/
import SqlDt.Lemmas.AccuracyMain
namespace SqlDt.C08
open SqlDt Gen Lemmas

/-- **(5) C08.** For every valid timestamp `ts` and every finite double `x` (days), with `p = x·86400·10^6` the exact
    offset in microseconds: either there is a rational `q` with `|q − p| ≤ 2^-53·|p|` (the offset computed in double
    precision — ONE rounding) such that the call returns `ts + (q rounded to the nearest microsecond, ties away from
    zero)` exactly when that is a valid timestamp, and `DateOutOfRange` otherwise; or the double product overflowed
    (`NumericOverflow`, only for `|p| ≥ 2^1023`). -/
theorem ts_addDays_accuracy (ts : Int) (hts : isValidTimestamp ts) (s : Bool) (m : Nat) (e : Int) :
    (∃ q : ℚ, |q - F64.val (.fin s m e) * 86400000000| ≤ 2 ^ (-53 : Int) * |F64.val (.fin s m e) * 86400000000| ∧
      Timestamp.addDays ts (.fin s m e) =
        if isValidTimestamp (ts + roundHalfAwayQ q) then .ok (ts + roundHalfAwayQ q) else .error .DateOutOfRange) ∨
    (Timestamp.addDays ts (.fin s m e) = .error .NumericOverflow ∧
      (2 : ℚ) ^ (1023 : Int) ≤ |F64.val (.fin s m e) * 86400000000|) :=
  Accuracy.ts_addDays_accuracy ts hts s m e

/-- In the normal range (`|p| ≥ 2^-1022`) the witness is the computed double `fl(x · 86400e6)` itself, and the
    relative error is at most `u' = 2^-53/(1+2^-53)`. -/
theorem ts_addDays_accuracy_normal (ts : Int) (hts : isValidTimestamp ts) (s : Bool) (m : Nat) (e : Int)
    (hn : (2 : ℚ) ^ (-1022 : Int) ≤ |F64.val (.fin s m e) * 86400000000|) :
    (|F64.val (F64.mul (.fin s m e) (F64.ofInt 86400000000)) - F64.val (.fin s m e) * 86400000000| ≤
        F64.u' * |F64.val (.fin s m e) * 86400000000| ∧
      Timestamp.addDays ts (.fin s m e) =
        if isValidTimestamp (ts + roundHalfAwayQ (F64.val (F64.mul (.fin s m e) (F64.ofInt 86400000000))))
        then .ok (ts + roundHalfAwayQ (F64.val (F64.mul (.fin s m e) (F64.ofInt 86400000000))))
        else .error .DateOutOfRange) ∨
    (Timestamp.addDays ts (.fin s m e) = .error .NumericOverflow ∧
      (2 : ℚ) ^ (1023 : Int) ≤ |F64.val (.fin s m e) * 86400000000|) :=
  Accuracy.ts_addDays_accuracy_normal ts hts s m e hn

/-- The form of the property text: a returned timestamp is `ts` plus the double-precision offset rounded to the nearest
    microsecond; hence it is within `1/2 + 2^-53·|p|` microseconds of the exact `ts + p`. -/
theorem ts_addDays_ok (ts : Int) (hts : isValidTimestamp ts) (s : Bool) (m : Nat) (e : Int) (r : Int)
    (h : Timestamp.addDays ts (.fin s m e) = .ok r) :
    (∃ q : ℚ, |q - F64.val (.fin s m e) * 86400000000| ≤ 2 ^ (-53 : Int) * |F64.val (.fin s m e) * 86400000000| ∧
      r = ts + roundHalfAwayQ q ∧ isValidTimestamp r) ∧
    |(r : ℚ) - (ts : ℚ) - F64.val (.fin s m e) * 86400000000| ≤
      1 / 2 + 2 ^ (-53 : Int) * |F64.val (.fin s m e) * 86400000000| :=
  Accuracy.ts_addDays_ok ts hts s m e r h

/-- The error cases of `add_days` on a finite offset. -/
theorem ts_addDays_err (ts : Int) (hts : isValidTimestamp ts) (s : Bool) (m : Nat) (e : Int) (err : Err)
    (h : Timestamp.addDays ts (.fin s m e) = .error err) :
    (err = .DateOutOfRange ∧ ∃ q : ℚ,
      |q - F64.val (.fin s m e) * 86400000000| ≤ 2 ^ (-53 : Int) * |F64.val (.fin s m e) * 86400000000| ∧
      ¬ isValidTimestamp (ts + roundHalfAwayQ q)) ∨
    (err = .NumericOverflow ∧ (2 : ℚ) ^ (1023 : Int) ≤ |F64.val (.fin s m e) * 86400000000|) :=
  Accuracy.ts_addDays_err ts hts s m e err h

end SqlDt.C08
