/-
  C05  Parsing returns the value the text denotes and rejects text that denotes none.
  (Layer 1: leaf parsers, the rejection rules of the field loop that hold for EVERY input text,
   12-hour/meridian arithmetic, day-of-year decoding, final conversions with the microsecond carry.)
-/
import SqlDt.Lemmas.Div
import SqlDt.Model.Serde
import SqlDt.Props.C01
namespace SqlDt.C05
open SqlDt Gen Parser Spec

/-! ### rejection rules, for every type, clock, parser state and input -/

/-- Output-only codes (`W`, `WW`) can never be parsed. -/
theorem week_codes_rejected (ty : Ty) (now : Clock) (st : St) :
    parseField ty now st .WeekOfMonth = .error .ParseError ∧ parseField ty now st .WeekOfYear = .error .ParseError := by
  constructor <;> rfl

/-- A repeated field code is an error: year, month (number or name), day, hour (either kind), minute, second,
    fraction, day of week (name or number), day of year. -/
theorem duplicate_year (ty : Ty) (now : Clock) (st : St) (n : Nat) (h : st.isYearSet = true) :
    parseField ty now st (.Year n) = .error .ParseError := by
  simp only [parseField, perr, h]; split <;> rfl

theorem duplicate_month (ty : Ty) (now : Clock) (st : St) (h : st.isMonthSet = true) :
    parseField ty now st .Month = .error .ParseError ∧ ∀ s, parseField ty now st (.MonthName s) = .error .ParseError := by
  constructor
  · simp only [parseField, perr, h]; split <;> rfl
  · intro s; simp only [parseField, perr, h]; split <;> rfl

theorem duplicate_day (ty : Ty) (now : Clock) (st : St) (h : st.isDaySet = true) :
    parseField ty now st .Day = .error .ParseError := by
  simp only [parseField, perr, h]; split <;> rfl

theorem duplicate_hour (ty : Ty) (now : Clock) (st : St) (h : st.isHour24Set.isSome = true) :
    parseField ty now st .Hour24 = .error .ParseError ∧ parseField ty now st .Hour12 = .error .ParseError := by
  constructor <;> (simp only [parseField, perr, h]; split <;> rfl)

theorem duplicate_minute_second_fraction (ty : Ty) (now : Clock) (st : St) :
    (st.isMinSet = true → parseField ty now st .Minute = .error .ParseError) ∧
    (st.isSecSet = true → parseField ty now st .Second = .error .ParseError) ∧
    (st.isFractionSet = true → ∀ p, parseField ty now st (.Fraction p) = .error .ParseError) := by
  refine ⟨?_, ?_, ?_⟩
  · intro h; simp only [parseField, perr, h]; split <;> rfl
  · intro h; simp only [parseField, perr, h]; split <;> rfl
  · intro h p; simp only [parseField, perr, h]; split <;> rfl

theorem duplicate_dow_doy (ty : Ty) (now : Clock) (st : St) :
    (st.dow.isSome = true → (∀ s, parseField ty now st (.DayName s) = .error .ParseError) ∧
        parseField ty now st .DayOfWeek = .error .ParseError) ∧
    (st.doy.isSome = true → parseField ty now st .DayOfYear = .error .ParseError) := by
  refine ⟨?_, ?_⟩
  · intro h; refine ⟨?_, ?_⟩
    · intro s; simp only [parseField, perr, h]; split <;> rfl
    · simp only [parseField, perr, h]; split <;> rfl
  · intro h; simp only [parseField, perr, h]; split <;> rfl

/-- `HH24` after a meridian indicator (written, or left out at the end of the text – fix of D12), and a meridian
    indicator after `HH24`, are errors. -/
theorem hour24_precludes_meridian (ty : Ty) (now : Clock) (st : St) :
    (st.isAmPmSet = true → parseField ty now st .Hour24 = .error .ParseError) ∧
    (st.isHour24Set = some true → ∀ s, parseField ty now st (.AmPm s) = .error .ParseError) := by
  constructor
  · intro h; simp only [parseField, perr, h]; split
    · split <;> rfl
    · rfl
  · intro h s; simp only [parseField, perr, h]; split
    · split <;> rfl
    · rfl

/-- Tokens that do not apply to the type are errors whatever the input: e.g. any time field for `Date`,
    any date field for `Time`, `HH12`/meridian/names for intervals. -/
theorem inapplicable_rejected (now : Clock) (st : St) :
    parseField .D now st .Hour24 = .error .ParseError ∧ parseField .D now st .Minute = .error .ParseError ∧
    parseField .D now st .Second = .error .ParseError ∧ parseField .D now st (.Fraction none) = .error .ParseError ∧
    parseField .T now st (.Year 4) = .error .ParseError ∧ parseField .T now st .Month = .error .ParseError ∧
    parseField .T now st .Day = .error .ParseError ∧ parseField .T now st .DayOfYear = .error .ParseError ∧
    parseField .DT now st .Hour12 = .error .ParseError ∧ parseField .DT now st (.AmPm .Upper) = .error .ParseError ∧
    parseField .YM now st .Day = .error .ParseError ∧ parseField .YM now st (.MonthName .Upper) = .error .ParseError ∧
    parseField .OD now st (.Fraction (some 3)) = .error .ParseError := by
  refine ⟨?_, ?_, ?_, ?_, ?_, ?_, ?_, ?_, ?_, ?_, ?_, ?_, ?_⟩ <;> rfl

/-! ### 12-hour clock with a meridian indicator, both field orders -/

/-- hour-then-meridian and meridian-then-hour give `h mod 12 + 12·pm` for all 12 × 2 combinations. -/
theorem hour12_meridian (h : Int) (hh : 1 ≤ h ∧ h ≤ 12) (pm : Bool) :
    (({ hour := h, ampm := some pm } : NDT).adjustHour12).hour = h % 12 + (if pm then 12 else 0) := by
  unfold NDT.adjustHour12
  cases pm <;> simp only [] <;> (by_cases h12 : h = 12 <;> simp [h12] <;> omega)

/-- meridian first (hour still 0), then the hour field overwrites and re-adjusts: same result. -/
theorem meridian_then_hour12 (h : Int) (hh : 1 ≤ h ∧ h ≤ 12) (pm : Bool) :
    (({ (({ ampm := some pm } : NDT).adjustHour12) with hour := h } : NDT).adjustHour12).hour
      = h % 12 + (if pm then 12 else 0) := by
  unfold NDT.adjustHour12
  cases pm <;> simp only [] <;> (by_cases h12 : h = 12 <;> simp [h12] <;> omega)

/-! ### weekday number -/
theorem weekDayNumber_spec (ch : Nat) (rest : Bytes) (hb : ch < 256) :
    parseWeekDayNumber (ch :: rest) =
      if 49 ≤ ch ∧ ch ≤ 55 then .ok (Int.ofNat (ch - 48), rest) else .error .ParseError := by
  unfold parseWeekDayNumber perr
  simp only []
  by_cases h : 49 ≤ ch ∧ ch ≤ 55
  · have : 1 ≤ (ch + 256 - 48) % 256 ∧ (ch + 256 - 48) % 256 ≤ 7 := by omega
    have e : (ch + 256 - 48) % 256 = ch - 48 := by omega
    rw [if_pos this, if_pos h, e]
  · have : ¬ (1 ≤ (ch + 256 - 48) % 256 ∧ (ch + 256 - 48) % 256 ≤ 7) := by omega
    rw [if_neg this, if_neg h]

theorem weekDayNumber_empty : parseWeekDayNumber [] = .error .ParseError := rfl

/-! ### day of year → (month, day), both year kinds, every ordinal -/

/-- Executable statement of "the decoded (month, day) is the date with that ordinal". -/
def dayOfYearOk (leap : Bool) (n : Nat) : Bool :=
  match theMonthDayOfDays (Int.ofNat n) leap with
  | .ok (m, d) =>
    decide (1 ≤ m ∧ m ≤ 12 ∧ 1 ≤ d ∧
      d ≤ idxD (idxD DAYS_OF_MONTH_TABLE (boolToInt leap) []) m 0 ∧
      idxD (idxD SUM_OF_DAYS_TABLE (boolToInt leap) []) (m - 1) 0 + d = Int.ofNat n)
  | .error _ => false

/-- For every ordinal 1..365 (366 in a leap year) the decoded (month, day) is a real date of that kind of year whose
    ordinal is the input: the cumulative table entry before the month plus the day gives the ordinal back, and the
    day does not exceed the month's length. -/
theorem dayOfYear_decode_common : ∀ n < 365, dayOfYearOk false (n + 1) = true := by decide +kernel
theorem dayOfYear_decode_leap : ∀ n < 366, dayOfYearOk true (n + 1) = true := by decide +kernel

/-! ### final conversions -/

/-- Time of day: hour 24 / minute 60 / second 60 are errors (never normalised); the fraction may be 1_000_000 after
    half-up rounding and is then carried into the seconds; a carry past 23:59:59.999999 is an error. -/
theorem time_tryFrom (dt : NDT) (hh : 0 ≤ dt.hour) (hm : 0 ≤ dt.minute) (hs : 0 ≤ dt.sec)
    (hu : 0 ≤ dt.usec ∧ dt.usec ≤ 1000000) :
    tryFromNDT .T dt =
      if dt.hour ≥ 24 then .error .TimeOutOfRange
      else if dt.minute ≥ 60 then .error .InvalidMinute
      else if dt.sec ≥ 60 then .error .InvalidSecond
      else if dt.hour * 3600000000 + dt.minute * 60000000 + dt.sec * 1000000 + dt.usec < 86400000000 then
        .ok (dt.hour * 3600000000 + dt.minute * 60000000 + dt.sec * 1000000 + dt.usec)
      else .error .TimeOutOfRange := by
  simp only [tryFromNDT, Time.validateHms, Time.tryFromUsecs, HOURS_PER_DAY, MINUTES_PER_HOUR, SECONDS_PER_MINUTE,
    USECONDS_PER_HOUR, USECONDS_PER_MINUTE, USECONDS_PER_SECOND]
  by_cases h1 : dt.hour ≥ 24
  · simp [h1, bind, Except.bind]
  · by_cases h2 : dt.minute ≥ 60
    · simp [h1, h2, bind, Except.bind]
    · by_cases h3 : dt.sec ≥ 60
      · simp [h1, h2, h3, bind, Except.bind]
      · simp only [h1, h2, h3, ↓reduceIte, bind, Except.bind]
        by_cases h4 : dt.hour * 3600000000 + dt.minute * 60000000 + dt.sec * 1000000 + dt.usec < 86400000000
        · have : isValidTime (dt.hour * 3600000000 + dt.minute * 60000000 + dt.sec * 1000000 + dt.usec) :=
            (isValidTime_iff _).2 (by omega)
          simp [h4, this]
        · have : ¬ isValidTime (dt.hour * 3600000000 + dt.minute * 60000000 + dt.sec * 1000000 + dt.usec) :=
            fun x => h4 ((isValidTime_iff _).1 x).2
          simp [h4, this]

/-- Day-time interval: same carry (this is what the repaired `TryFrom<NaiveDateTime>` does). -/
theorem dt_tryFrom_carry :
    tryFromNDT .DT { day := 1, hour := 0, minute := 0, sec := 0, usec := 1000000, negative := false } = .ok 86401000000 ∧
    tryFromNDT .DT { day := 100000000, hour := 0, minute := 0, sec := 0, usec := 1000000 } = .error .IntervalOutOfRange ∧
    tryFromNDT .DT { day := 1, hour := 0, minute := 0, sec := 0, usec := 1000000, negative := true } = .ok (-86401000000) := by
  decide

/-- Date: Feb 30, month 13, day 0 … are errors with the documented kinds (never normalised). -/
theorem date_tryFrom (dt : NDT) : tryFromNDT .D dt = Date.tryFromYmd dt.year dt.month dt.day := rfl

/-- TIMESTAMP, final conversion: real calendar date required (Feb 30, month 13, day 0 … are errors of the documented
    kinds, never normalised), hour<24, minute<60, second<60; the value is the exact microsecond count, a fraction of
    1_000_000 µs (after half-up rounding) carries into the seconds and further; a carry past 9999-12-31 23:59:59.999999
    is `DateOutOfRange`. -/
theorem ts_tryFrom (dt : NDT) (hv : ValidYMD dt.year dt.month dt.day) (hh : 0 ≤ dt.hour ∧ dt.hour < 24)
    (hm : 0 ≤ dt.minute ∧ dt.minute < 60) (hs : 0 ≤ dt.sec ∧ dt.sec < 60) :
    tryFromNDT .TS dt =
      Timestamp.tryFromUsecs (dayNumber dt.year dt.month dt.day * 86400000000 + dt.hour * 3600000000 +
        dt.minute * 60000000 + dt.sec * 1000000 + dt.usec) := by
  obtain ⟨y1, y9, m1, m12, d1, dd⟩ := hv
  have d31 : dt.day ≤ 31 := by
    unfold dim at dd; split at dd
    · split at dd <;> omega
    · split at dd <;> omega
  have hdn := Lemmas.fromYmd_eq_dayNumber dt.year dt.month dt.day ⟨by omega, by omega⟩ ⟨m1, m12⟩
  unfold Date.fromYmdUnchecked at hdn
  simp only [tryFromNDT, Date.validateYmd, Time.validateHms, DATE_MIN_YEAR, DATE_MAX_YEAR, MONTHS_PER_YEAR,
    HOURS_PER_DAY, MINUTES_PER_HOUR, SECONDS_PER_MINUTE, USECONDS_PER_DAY, USECONDS_PER_HOUR, USECONDS_PER_MINUTE,
    USECONDS_PER_SECOND, Lemmas.daysOfMonth_eq _ _ (by omega : 0 ≤ dt.year) ⟨m1, m12⟩]
  have c1 : ¬ (dt.year < 1 ∨ dt.year > 9999) := by omega
  have c2 : ¬ (dt.month < 1 ∨ dt.month > 12) := by omega
  have c3 : ¬ (dt.day < 1 ∨ dt.day > 31) := by omega
  have c4 : ¬ (dt.day > dim dt.year dt.month) := by omega
  have c5 : ¬ dt.hour ≥ 24 := by omega
  have c6 : ¬ dt.minute ≥ 60 := by omega
  have c7 : ¬ dt.sec ≥ 60 := by omega
  simp only [c1, c2, c3, c4, c5, c6, c7, ↓reduceIte, bind, Except.bind]
  congr 1
  omega

/-- …and each out-of-range component is rejected with its own error kind, in this order. -/
theorem ts_tryFrom_rejects (dt : NDT) :
    (dt.year < 1 ∨ dt.year > 9999 → tryFromNDT .TS dt = .error .DateOutOfRange) ∧
    (1 ≤ dt.year ∧ dt.year ≤ 9999 → (dt.month < 1 ∨ dt.month > 12) → tryFromNDT .TS dt = .error .InvalidMonth) ∧
    (1 ≤ dt.year ∧ dt.year ≤ 9999 → 1 ≤ dt.month ∧ dt.month ≤ 12 → (dt.day < 1 ∨ dt.day > 31) →
        tryFromNDT .TS dt = .error .InvalidDay) ∧
    (1 ≤ dt.year ∧ dt.year ≤ 9999 → 1 ≤ dt.month ∧ dt.month ≤ 12 → 1 ≤ dt.day ∧ dt.day ≤ 31 →
        dt.day > dim dt.year dt.month → tryFromNDT .TS dt = .error .InvalidDate) := by
  refine ⟨?_, ?_, ?_, ?_⟩
  · intro h; simp [tryFromNDT, Date.validateYmd, DATE_MIN_YEAR, DATE_MAX_YEAR, h, bind, Except.bind]
  · intro hy h
    have c1 : ¬ (dt.year < 1 ∨ dt.year > 9999) := by omega
    simp [tryFromNDT, Date.validateYmd, DATE_MIN_YEAR, DATE_MAX_YEAR, MONTHS_PER_YEAR, c1, h, bind, Except.bind]
  · intro hy hm h
    have c1 : ¬ (dt.year < 1 ∨ dt.year > 9999) := by omega
    have c2 : ¬ (dt.month < 1 ∨ dt.month > 12) := by omega
    simp [tryFromNDT, Date.validateYmd, DATE_MIN_YEAR, DATE_MAX_YEAR, MONTHS_PER_YEAR, c1, c2, h, bind, Except.bind]
  · intro hy hm hd h
    have c1 : ¬ (dt.year < 1 ∨ dt.year > 9999) := by omega
    have c2 : ¬ (dt.month < 1 ∨ dt.month > 12) := by omega
    have c3 : ¬ (dt.day < 1 ∨ dt.day > 31) := by omega
    have h' : dt.day > daysOfMonth dt.year dt.month := by rw [Lemmas.daysOfMonth_eq _ _ (by omega) hm]; exact h
    simp [tryFromNDT, Date.validateYmd, DATE_MIN_YEAR, DATE_MAX_YEAR, MONTHS_PER_YEAR, c1, c2, c3, h', bind, Except.bind]

/-- DAY OF YEAR at the level of the parser: accepted exactly for 1 ≤ n ≤ 365 (366 in a leap year); the decoded month/day
    must agree with a month or day the text also supplied, and fills in whichever is missing. -/
theorem resolveDoy_range (st : St) (dt : NDT) (n : Int) (hn : st.doy = some n)
    (hbad : n = 0 ∨ (isLeapYear dt.year = false ∧ n > 365) ∨ (isLeapYear dt.year = true ∧ n > 366)) :
    resolveDoy st dt = .error .ParseError := by
  unfold resolveDoy
  simp only [hn]
  have : n = 0 ∨ (¬ isLeapYear dt.year = true ∧ n > 365) ∨ (isLeapYear dt.year = true ∧ n > 366) := by
    rcases hbad with h | h | h
    · exact Or.inl h
    · exact Or.inr (Or.inl ⟨by simp [h.1], h.2⟩)
    · exact Or.inr (Or.inr h)
  rw [if_pos this]; rfl

/-- The weekday named or numbered in the text must be the weekday of the assembled date; otherwise an error. -/
theorem finish_weekday (ty : Ty) (st : St) (dt : NDT) (reads : Nat) (w date : Int) (hw : st.dow = some w)
    (hd : Date.tryFromYmd dt.year dt.month dt.day = .ok date) :
    finish ty st dt reads =
      if Date.dayOfWeek date = w then (tryFromNDT ty dt).map (fun v => (v, reads)) else .error .ParseError := by
  unfold finish
  simp only [hw, hd, bind, Except.bind]
  by_cases h : Date.dayOfWeek date = w
  · subst h
    simp only [ne_eq, not_true_eq_false, ↓reduceIte]
    cases tryFromNDT ty dt <;> rfl
  · simp only [h, ne_eq, not_false_eq_true, ↓reduceIte]; rfl


/-! ### leftover input -/

/-- If anything other than whitespace is left after the last field, parsing fails – for every type, picture and clock. -/
theorem leftover_rejected (ty : Ty) (fields : List Field) (input : Bytes) (now : Clock) (st : St)
    (h1 : parseFields ty now (initSt ty input) fields = .ok st) (h2 : (eatWhitespaces st.s).isEmpty = false) :
    parse ty fields input now = .error .ParseError := by
  unfold parse
  simp only [h1, bind, Except.bind, h2]
  rfl

example : parseValue .D (bytesOf "2021-02-30") (bytesOf "YYYY-MM-DD") default = .error .InvalidDate ∧
    parseValue .T (bytesOf "24:00:00") (bytesOf "HH24:MI:SS") default = .error .TimeOutOfRange ∧
    parseValue .D (bytesOf "2021-02-03 x") (bytesOf "YYYY-MM-DD") default = .error .ParseError ∧
    parseValue .T (bytesOf "23:59:59.9999995") (bytesOf "HH24:MI:SS.FF7") default = .error .TimeOutOfRange ∧
    parseValue .T (bytesOf "23:59:58.9999995") (bytesOf "HH24:MI:SS.FF7") default = .ok (86399000000, 0) := by
  decide

end SqlDt.C05
