/-
  C12  Time-of-day arithmetic wraps modulo 24 hours.
-/
import SqlDt.Lemmas.Div
namespace SqlDt.C12
open SqlDt Gen

/-- `t + i` reduced modulo one day (Euclidean remainder, so the result lies in 0 ≤ · < 24 h), for every valid
    time of day and **every** integer interval (no range restriction on `i` is needed). -/
theorem addIntervalDt_eq_emod (t i : Int) (ht : isValidTime t) :
    Time.addIntervalDt t i = (t + i) % 86400000000 := by
  rw [isValidTime_iff] at ht
  unfold Time.addIntervalDt USECONDS_PER_DAY
  by_cases hi : 0 ≤ i
  · rw [rrem_nonneg_eq hi]
    have h1 : t + i % 86400000000 ≥ 0 := by omega
    simp only [h1, ↓reduceIte]
    rw [rrem_nonneg_eq h1]; omega
  · have hi' : i < 0 := by omega
    rw [rrem_neg_eq hi']
    by_cases h1 : t + -(-i % 86400000000) ≥ 0
    · simp only [h1, ↓reduceIte]; rw [rrem_nonneg_eq h1]; omega
    · simp only [h1, ↓reduceIte]; omega

/-- The result is a valid time of day. -/
theorem addIntervalDt_valid (t i : Int) (ht : isValidTime t) : isValidTime (Time.addIntervalDt t i) := by
  rw [addIntervalDt_eq_emod t i ht, isValidTime_iff]; omega

/-- Subtracting is adding the negation, hence `(t - i) mod 24 h`. -/
theorem subIntervalDt_eq_emod (t i : Int) (ht : isValidTime t) :
    Time.subIntervalDt t i = (t - i) % 86400000000 := by
  unfold Time.subIntervalDt; rw [addIntervalDt_eq_emod t (-i) ht]; congr 1

/-- Adding then subtracting the same interval returns the original time. -/
theorem add_sub_cancel (t i : Int) (ht : isValidTime t) :
    Time.subIntervalDt (Time.addIntervalDt t i) i = t := by
  rw [subIntervalDt_eq_emod _ _ (addIntervalDt_valid t i ht), addIntervalDt_eq_emod t i ht]
  rw [isValidTime_iff] at ht; omega

/-- Whole days do not change a time of day. -/
theorem add_whole_days (t k : Int) (ht : isValidTime t) : Time.addIntervalDt t (k * 86400000000) = t := by
  rw [addIntervalDt_eq_emod _ _ ht]; rw [isValidTime_iff] at ht; omega

/-- The difference of two times of day is their exact signed microsecond difference, and it is a valid interval. -/
theorem subTime_exact (a b : Int) : Time.subTime a b = a - b := rfl

theorem subTime_valid (a b : Int) (ha : isValidTime a) (hb : isValidTime b) :
    IntervalDT.isValidUsecs (Time.subTime a b) := by
  rw [isValidTime_iff] at ha hb
  unfold IntervalDT.isValidUsecs Time.subTime INTERVAL_MAX_USECONDS; omega

/-- Converting an interval to a time of day keeps its magnitude modulo one day. -/
theorem fromIntervalDt_eq (i : Int) : Time.fromIntervalDt i = i.natAbs % 86400000000 := by
  unfold Time.fromIntervalDt USECONDS_PER_DAY
  by_cases h : i < 0
  · simp only [h, ↓reduceIte]; rw [rrem_nonneg_eq (by omega)]; omega
  · simp only [h, ↓reduceIte]; rw [rrem_nonneg_eq (by omega)]; omega

theorem fromIntervalDt_valid (i : Int) : isValidTime (Time.fromIntervalDt i) := by
  rw [fromIntervalDt_eq, isValidTime_iff]; omega

example : isValidTime 0 ∧ isValidTime 86399999999 ∧ Time.addIntervalDt 0 (-1) = 86399999999 := by decide

end SqlDt.C12
