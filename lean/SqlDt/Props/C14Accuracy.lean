/-
  C14 (continuation): scaling computes the real product/quotient to double precision (relative error ≤ 2^-52) and truncates toward zero.
  Statements over exact rational arithmetic (ℚ); proofs in Lemmas/Accuracy*.lean (single Mathlib tactic modules).
  `F64.val x` is the exact value ±m·2^e of a finite double, `truncQ` truncates toward zero, `roundHalfAwayQ` is the nearest
  integer with ties away from zero, `roundSecQ` the nearest multiple of 10^6 with ties away from zero.
-/
import SqlDt.Lemmas.AccuracyMain
namespace SqlDt.C14
open SqlDt Gen Lemmas

/-- **(1) Value of the cast.** `x as iN` on a finite double truncates its exact value toward zero and saturates. -/
theorem cast_value (lo hi : Int) (s : Bool) (m : Nat) (e : Int) :
    F64.toIntSat lo hi (.fin s m e) = clamp lo hi (truncQ (F64.val (.fin s m e))) :=
  Accuracy.cast_value lo hi s m e

/-- **(2a) Half-ulp.** Round-to-nearest-even of the positive rational `num/den` is within half a unit in the last
    place, unconditionally. -/
theorem rounding_half_ulp_rat (num den m : Nat) (e : Int) (hn : 0 < num) (hd : 0 < den)
    (h : F64.roundPos num den = some (m, e)) :
    |(m : ℚ) * 2 ^ e - (num : ℚ) / den| ≤ 2 ^ (e - 1) :=
  Accuracy.rounding_half_ulp num den m e hn hd h

/-- … and, more generally, whenever the exact value is in the normal range `≥ 2^-1022`. -/
theorem rounding_relative_normal (num den m : Nat) (e : Int) (hn : 0 < num) (hd : 0 < den)
    (h : F64.roundPos num den = some (m, e)) (hx : (2 : ℚ) ^ (-1022 : Int) ≤ (num : ℚ) / den) :
    |(m : ℚ) * 2 ^ e - (num : ℚ) / den| ≤ (2 ^ (-53 : Int) / (1 + 2 ^ (-53 : Int))) * ((num : ℚ) / den) :=
  Accuracy.rounding_relative_normal num den m e hn hd h hx

/-- **(3) Conversion.** Every integer `|v| ≤ 2^63` converts to a finite double within relative error `u'`,
    exactly when `|v| ≤ 2^53`. -/
theorem conversion_accuracy (v : Int) (hv : v.natAbs ≤ 2 ^ 63) :
    (∃ (s : Bool) (m : Nat) (e : Int), F64.ofInt v = .fin s m e) ∧
    |F64.val (F64.ofInt v) - (v : ℚ)| ≤ (2 ^ (-53 : Int) / (1 + 2 ^ (-53 : Int))) * |(v : ℚ)| ∧
    (v.natAbs ≤ 2 ^ 53 → F64.val (F64.ofInt v) = (v : ℚ)) :=
  Accuracy.conversion_accuracy v hv

/-- **(4) C14, day-time interval × double.** For every valid interval `v` (microseconds) and every finite double `x`,
    with `p = v·x` the exact real product: either there is a rational `q` with `|q − p| ≤ 2^-52·|p|` (the product
    computed to double precision) such that the call returns `q` truncated toward zero to whole microseconds when that
    is inside the interval range and `IntervalOutOfRange` otherwise; or the double product overflowed to `±∞`
    (`NumericOverflow`), which needs `|p| ≥ 2^1023/(1+u')`. -/
theorem dt_mul_accuracy (v : Int) (hv : IntervalDT.isValidUsecs v) (s : Bool) (m : Nat) (e : Int) :
    (∃ q : ℚ, |q - (v : ℚ) * F64.val (.fin s m e)| ≤ 2 ^ (-52 : Int) * |(v : ℚ) * F64.val (.fin s m e)| ∧
      IntervalDT.mulF64 v (.fin s m e) =
        if IntervalDT.isValidUsecs (truncQ q) then .ok (truncQ q) else .error .IntervalOutOfRange) ∨
    (IntervalDT.mulF64 v (.fin s m e) = .error .NumericOverflow ∧
      (2 : ℚ) ^ (1023 : Int) ≤ (1 + F64.u') * |(v : ℚ) * F64.val (.fin s m e)|) :=
  Accuracy.dt_mul_accuracy v hv s m e

/-- In the normal range (`|p| ≥ 2^-1021`) the witness is the computed double `fl(fl(v)·x)` itself. -/
theorem dt_mul_accuracy_normal (v : Int) (hv : IntervalDT.isValidUsecs v) (s : Bool) (m : Nat) (e : Int)
    (hn : (2 : ℚ) ^ (-1021 : Int) ≤ |(v : ℚ) * F64.val (.fin s m e)|) :
    (|F64.val (F64.mul (F64.ofInt v) (.fin s m e)) - (v : ℚ) * F64.val (.fin s m e)| ≤
        2 ^ (-52 : Int) * |(v : ℚ) * F64.val (.fin s m e)| ∧
      IntervalDT.mulF64 v (.fin s m e) =
        if IntervalDT.isValidUsecs (truncQ (F64.val (F64.mul (F64.ofInt v) (.fin s m e))))
        then .ok (truncQ (F64.val (F64.mul (F64.ofInt v) (.fin s m e)))) else .error .IntervalOutOfRange) ∨
    (IntervalDT.mulF64 v (.fin s m e) = .error .NumericOverflow ∧
      (2 : ℚ) ^ (1023 : Int) ≤ (1 + F64.u') * |(v : ℚ) * F64.val (.fin s m e)|) :=
  Accuracy.dt_mul_accuracy_normal v hv s m e hn

/-- The form of the property text: a returned value is the double-precision product truncated toward zero. -/
theorem dt_mul_ok (v : Int) (hv : IntervalDT.isValidUsecs v) (s : Bool) (m : Nat) (e : Int) (r : Int)
    (h : IntervalDT.mulF64 v (.fin s m e) = .ok r) :
    ∃ q : ℚ, |q - (v : ℚ) * F64.val (.fin s m e)| ≤ 2 ^ (-52 : Int) * |(v : ℚ) * F64.val (.fin s m e)| ∧
      r = truncQ q ∧ IntervalDT.isValidUsecs r :=
  Accuracy.dt_mul_ok v hv s m e r h

/-- The error cases: out of range only if the truncated double-precision product is outside the interval range;
    overflow only if the exact product is astronomically large. No other error occurs for a finite multiplier. -/
theorem dt_mul_err (v : Int) (hv : IntervalDT.isValidUsecs v) (s : Bool) (m : Nat) (e : Int) (err : Err)
    (h : IntervalDT.mulF64 v (.fin s m e) = .error err) :
    (err = .IntervalOutOfRange ∧ ∃ q : ℚ,
      |q - (v : ℚ) * F64.val (.fin s m e)| ≤ 2 ^ (-52 : Int) * |(v : ℚ) * F64.val (.fin s m e)| ∧
      ¬ IntervalDT.isValidUsecs (truncQ q)) ∨
    (err = .NumericOverflow ∧ (2 : ℚ) ^ (1023 : Int) ≤ (1 + F64.u') * |(v : ℚ) * F64.val (.fin s m e)|) :=
  Accuracy.dt_mul_err v hv s m e err h

/-- **C14, day-time interval ÷ double** (`x ≠ 0`; a zero divisor gives `DivideByZero`, `C14.dt_div_zero`). -/
theorem dt_div_accuracy (v : Int) (hv : IntervalDT.isValidUsecs v) (s : Bool) (m : Nat) (e : Int) (hm : m ≠ 0) :
    (∃ q : ℚ, |q - (v : ℚ) / F64.val (.fin s m e)| ≤ 2 ^ (-52 : Int) * |(v : ℚ) / F64.val (.fin s m e)| ∧
      IntervalDT.divF64 v (.fin s m e) =
        if IntervalDT.isValidUsecs (truncQ q) then .ok (truncQ q) else .error .IntervalOutOfRange) ∨
    (IntervalDT.divF64 v (.fin s m e) = .error .NumericOverflow ∧
      (2 : ℚ) ^ (1023 : Int) ≤ (1 + F64.u') * |(v : ℚ) / F64.val (.fin s m e)|) :=
  Accuracy.dt_div_accuracy v hv s m e hm

theorem dt_div_ok (v : Int) (hv : IntervalDT.isValidUsecs v) (s : Bool) (m : Nat) (e : Int) (hm : m ≠ 0) (r : Int)
    (h : IntervalDT.divF64 v (.fin s m e) = .ok r) :
    ∃ q : ℚ, |q - (v : ℚ) / F64.val (.fin s m e)| ≤ 2 ^ (-52 : Int) * |(v : ℚ) / F64.val (.fin s m e)| ∧
      r = truncQ q ∧ IntervalDT.isValidUsecs r :=
  Accuracy.dt_div_ok v hv s m e hm r h

/-- **C14, year-month interval × double** (months; the cast is `as i32`). -/
theorem ym_mul_accuracy (v : Int) (hv : IntervalYM.isValidMonths v) (s : Bool) (m : Nat) (e : Int) :
    (∃ q : ℚ, |q - (v : ℚ) * F64.val (.fin s m e)| ≤ 2 ^ (-52 : Int) * |(v : ℚ) * F64.val (.fin s m e)| ∧
      IntervalYM.mulF64 v (.fin s m e) =
        if IntervalYM.isValidMonths (truncQ q) then .ok (truncQ q) else .error .IntervalOutOfRange) ∨
    (IntervalYM.mulF64 v (.fin s m e) = .error .NumericOverflow ∧
      (2 : ℚ) ^ (1023 : Int) ≤ (1 + F64.u') * |(v : ℚ) * F64.val (.fin s m e)|) :=
  Accuracy.ym_mul_accuracy v hv s m e

theorem ym_mul_ok (v : Int) (hv : IntervalYM.isValidMonths v) (s : Bool) (m : Nat) (e : Int) (r : Int)
    (h : IntervalYM.mulF64 v (.fin s m e) = .ok r) :
    ∃ q : ℚ, |q - (v : ℚ) * F64.val (.fin s m e)| ≤ 2 ^ (-52 : Int) * |(v : ℚ) * F64.val (.fin s m e)| ∧
      r = truncQ q ∧ IntervalYM.isValidMonths r :=
  Accuracy.ym_mul_ok v hv s m e r h

/-- **C14, year-month interval ÷ double** (`x ≠ 0`). -/
theorem ym_div_accuracy (v : Int) (hv : IntervalYM.isValidMonths v) (s : Bool) (m : Nat) (e : Int) (hm : m ≠ 0) :
    (∃ q : ℚ, |q - (v : ℚ) / F64.val (.fin s m e)| ≤ 2 ^ (-52 : Int) * |(v : ℚ) / F64.val (.fin s m e)| ∧
      IntervalYM.divF64 v (.fin s m e) =
        if IntervalYM.isValidMonths (truncQ q) then .ok (truncQ q) else .error .IntervalOutOfRange) ∨
    (IntervalYM.divF64 v (.fin s m e) = .error .NumericOverflow ∧
      (2 : ℚ) ^ (1023 : Int) ≤ (1 + F64.u') * |(v : ℚ) / F64.val (.fin s m e)|) :=
  Accuracy.ym_div_accuracy v hv s m e hm

theorem ym_div_ok (v : Int) (hv : IntervalYM.isValidMonths v) (s : Bool) (m : Nat) (e : Int) (hm : m ≠ 0) (r : Int)
    (h : IntervalYM.divF64 v (.fin s m e) = .ok r) :
    ∃ q : ℚ, |q - (v : ℚ) / F64.val (.fin s m e)| ≤ 2 ^ (-52 : Int) * |(v : ℚ) / F64.val (.fin s m e)| ∧
      r = truncQ q ∧ IntervalYM.isValidMonths r :=
  Accuracy.ym_div_ok v hv s m e hm r h

end SqlDt.C14
