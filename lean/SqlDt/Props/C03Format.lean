/-
  C03 (continuation): FORMATTING never panics – one statement for every valid value of every type and every picture.
  Built on the end-to-end `format = render` theorems of C04 and the decomposition of valid values into components
  (Lemmas/RoundTrip); kept apart from Props/C03.lean only for the import order.
-/
import SqlDt.Props.C03
import SqlDt.Props.C04
import SqlDt.Lemmas.RoundTrip
namespace SqlDt.C03
open SqlDt Gen Spec

theorem bind_toChk_np (pic : Bytes) (g : List Field → Option Bytes) :
    ((Lexer.tryNew pic).bind fun fields => Lemmas.toChk (g fields)) ≠ .error .Panic := by
  cases ht : Lexer.tryNew pic with
  | error e => simp [Except.bind]; intro hc; subst hc; exact tryNew_no_panic pic ht
  | ok fields => simp only [Except.bind]; cases g fields <;> simp [Lemmas.toChk]

/-- For EVERY valid value of EVERY type and EVERY byte string used as picture, `format` (into a `String`) returns the
    text or an error (`InvalidFormat` for a bad picture, `FormatError` for a token that does not apply) – never a panic:
    no table index, digit buffer, `unreachable!` arm or arithmetic step can fail. -/
theorem format_no_panic (ty : Ty) (v : Int) (hv : ty.Valid v) (pic : Bytes) :
    formatValue ty v pic none ≠ .error .Panic := by
  cases ty <;> simp only [Ty.Valid] at hv
  · obtain ⟨y, m, d, hymd, rfl⟩ := Lemmas.decomp_D v hv
    rw [C04.format_date y m d hymd pic]; exact bind_toChk_np pic _
  · obtain ⟨h, mi, s, us, hh, hm, hs, hu, rfl, _⟩ := Lemmas.decomp_T v ((SqlDt.isValidTime_iff v).1 hv)
    rw [C04.format_time h mi s us hh hm hs hu pic]; exact bind_toChk_np pic _
  · obtain ⟨y, m, d, h, mi, s, us, hymd, hh, hm, hs, hu, rfl, _⟩ := Lemmas.decomp_TS v hv
    rw [C04.format_timestamp .TS (Or.inl rfl) y m d h mi s us hymd hh hm hs hu pic]; exact bind_toChk_np pic _
  · obtain ⟨neg, y, mo, hy, hm, hz, _, rfl⟩ := Lemmas.decomp_YM v hv
    rw [C04.format_interval_ym neg y mo hy hm hz pic]; exact bind_toChk_np pic _
  · obtain ⟨neg, d, h, mi, s, us, hd, hh, hm, hs, hu, hz, _, rfl⟩ := Lemmas.decomp_DT v hv
    rw [C04.format_interval_dt neg d h mi s us hd hh hm hs hu hz pic]; exact bind_toChk_np pic _
  · obtain ⟨lo, hi, hsec⟩ := (C16.isValidDate_iff v).1 hv
    obtain ⟨y, m, d, h, mi, s, us, hymd, hh, hm, hs, hu, rfl, _⟩ := Lemmas.decomp_TS v ((SqlDt.isValidTimestamp_iff v).2 ⟨lo, hi⟩)
    rw [C04.format_timestamp .OD (Or.inr rfl) y m d h mi s us hymd hh hm hs hu pic]; exact bind_toChk_np pic _

/-- The same into the 32-byte serde buffer, for the six fixed pictures. -/
theorem serStr_no_panic (ty : Ty) (v : Int) (hv : ty.Valid v) : Serde.serStr ty v ≠ .error .Panic := by
  obtain ⟨t, a, _⟩ := Lemmas.serStr_ok ty v hv
  rw [a]; simp

end SqlDt.C03
