/-
  C10  Truncation returns the latest unit boundary not after the value.
  All twelve units, on dates, timestamps and Oracle-style dates, against independent boundary predicates
  (`Spec.IsBoundary`).  Layer 1 (sub-day units and weekday-anchored weeks by direct arithmetic) is in Lemmas/C10Base;
  the calendar units use Lemmas/UnitsModel (crate code = closed form) and Lemmas/UnitsSpec (closed form = greatest boundary).
-/
import SqlDt.Lemmas.C10Base
import SqlDt.Lemmas.UnitsModel
import SqlDt.Lemmas.UnitsSpec


namespace SqlDt.C10
open SqlDt Gen Spec

/-- DATE TRUNCATION, every unit, every real date of years 1..9999: the crate returns the GREATEST unit boundary not after
    the date (boundaries by the independent per-unit predicates `Spec.IsBoundary`: 1 January of a year ≡ 1 mod 100, the
    Monday that starts the ISO year, day 1/8/15/22/29 of the month, …) when that boundary is representable, and
    `DateOutOfRange` otherwise. -/
theorem date_trunc (u : TUnit) (y m d : Int) (h : ValidYMD y m d) :
    Date.trunc u (dayNumber y m d) = inRangeDay (truncOf u (y, m, d) (dayNumber y m d)) ∧
    Spec.GreatestLE (IsBoundary u) (dayNumber y m d) (truncOf u (y, m, d) (dayNumber y m d)) :=
  ⟨Lemmas.date_trunc_eq u y m d h, Lemmas.truncOf_greatest u y m d h.2.2⟩

/-- 0001-01-01 (a Monday, first day of a century) starts every unit except the Sunday week … -/
theorem min_is_boundary (u : TUnit) (hu : u ≠ .sundayStartWeek) : IsBoundary u MIN_DAY := by
  refine ⟨1, 1, 1, by decide, by decide, ?_⟩
  cases u <;> first | (exact absurd rfl hu) | decide | skip
  · exact ⟨by decide, 1, by decide, by decide⟩

/-- … hence truncation NEVER fails for the other eleven units, and for the Sunday week it fails exactly when the
    preceding Sunday lies before 0001-01-01 (the six dates 0001-01-01 .. 0001-01-06). -/
theorem date_trunc_ok (u : TUnit) (hu : u ≠ .sundayStartWeek) (y m d : Int) (h : ValidYMD y m d) :
    Date.trunc u (dayNumber y m d) = .ok (truncOf u (y, m, d) (dayNumber y m d)) := by
  obtain ⟨he, hb, hle, hg⟩ := date_trunc u y m d h
  have hr := Lemmas.dayNumber_range y m d h
  have hmin := hg MIN_DAY (min_is_boundary u hu) (by unfold MIN_DAY; omega)
  rw [he]; unfold inRangeDay MIN_DAY MAX_DAY at *
  have : -719162 ≤ truncOf u (y, m, d) (dayNumber y m d) ∧ truncOf u (y, m, d) (dayNumber y m d) ≤ 2932896 := by omega
  rw [if_pos this]

/-- Never moves forward; idempotent; monotone (at the level of the crate's results). -/
theorem date_trunc_le (u : TUnit) (y m d b : Int) (h : ValidYMD y m d) (hb : Date.trunc u (dayNumber y m d) = .ok b) :
    b ≤ dayNumber y m d ∧ IsBoundary u b := by
  obtain ⟨he, hbd, hle, _⟩ := date_trunc u y m d h
  rw [he] at hb; unfold inRangeDay at hb
  split at hb
  · cases hb; exact ⟨hle, hbd⟩
  · cases hb

theorem date_trunc_mono (u : TUnit) (y m d y' m' d' b b' : Int) (h : ValidYMD y m d) (h' : ValidYMD y' m' d')
    (hle : dayNumber y m d ≤ dayNumber y' m' d')
    (hb : Date.trunc u (dayNumber y m d) = .ok b) (hb' : Date.trunc u (dayNumber y' m' d') = .ok b') : b ≤ b' := by
  rw [Lemmas.date_trunc_eq u y m d h] at hb; rw [Lemmas.date_trunc_eq u y' m' d' h'] at hb'
  unfold inRangeDay at hb hb'
  split at hb
  · split at hb'
    · cases hb; cases hb'
      exact Lemmas.truncOf_mono u y m d y' m' d' h.2.2 h'.2.2 hle
    · cases hb'
  · cases hb

theorem date_trunc_idem (u : TUnit) (y m d y' m' d' : Int) (h : ValidYMD y m d) (h' : ValidYMD y' m' d')
    (hb : Date.trunc u (dayNumber y m d) = .ok (dayNumber y' m' d')) :
    Date.trunc u (dayNumber y' m' d') = .ok (dayNumber y' m' d') := by
  rw [Lemmas.date_trunc_eq u y m d h] at hb
  unfold inRangeDay at hb
  split at hb
  · have hb2 : truncOf u (y, m, d) (dayNumber y m d) = dayNumber y' m' d' := Except.ok.inj hb
    have := Lemmas.truncOf_idem u y m d y' m' d' h.2.2 h'.2.2 hb2.symm
    rw [Lemmas.date_trunc_eq u y' m' d' h', this]
    have hr' := Lemmas.dayNumber_range y' m' d' h'
    unfold inRangeDay MIN_DAY MAX_DAY
    rw [if_pos hr']
  · cases hb

/-- TIMESTAMP TRUNCATION, every unit, every valid timestamp (`(y, m, d)` is the calendar date of its day):
    date-sized units give that date's boundary at 00:00:00 (time of day cleared), hour/minute the top of the hour/minute. -/
theorem ts_trunc (u : TUnit) (x : Int) (hx : isValidTimestamp x) (y m d : Int) (h : ValidYMD y m d)
    (hd : dayNumber y m d = x / 86400000000) :
    Timestamp.trunc u x = truncTsOf u (y, m, d) x :=
  Lemmas.ts_trunc_eq u x hx y m d h hd

/-- Oracle-style dates truncate as timestamps (the result is a whole second, so the final floor is the identity). -/
theorem od_trunc (u : TUnit) (x : Int) : OracleDate.trunc u x = (Timestamp.trunc u x).map OracleDate.fromTimestamp := by
  unfold OracleDate.trunc; cases Timestamp.trunc u x <;> rfl

example : ValidYMD 2015 6 15 ∧ Date.trunc .isoYear (dayNumber 2015 6 15) = .ok (dayNumber 2014 12 29) ∧
    Date.trunc .century (dayNumber 2000 6 1) = .ok (dayNumber 1901 1 1) ∧
    Date.trunc .monthStartWeek (dayNumber 2021 2 28) = .ok (dayNumber 2021 2 22) := by decide +kernel

/-! Sub-day units on timestamps, directly on the microsecond line (from Lemmas/C10Base). -/
theorem ts_trunc_day (ts : Int) : ∃ b, Timestamp.trunc .day ts = .ok b ∧ C10B.GreatestLE C10B.IsDayStart ts b := C10B.ts_trunc_day ts
theorem ts_trunc_hour (ts : Int) : ∃ b, Timestamp.trunc .hour ts = .ok b ∧ C10B.GreatestLE C10B.IsHourStart ts b := C10B.ts_trunc_hour ts
theorem ts_trunc_minute (ts : Int) : ∃ b, Timestamp.trunc .minute ts = .ok b ∧ C10B.GreatestLE C10B.IsMinuteStart ts b :=
  C10B.ts_trunc_minute ts
theorem date_trunc_sundayWeek_fails_iff' (d : Int) (hd : isValidDate d) :
    (∃ e, Date.truncSundayStartWeek d = .error e) ↔ d < -719162 + 6 := C10B.date_trunc_sundayWeek_fails_iff d hd

end SqlDt.C10
