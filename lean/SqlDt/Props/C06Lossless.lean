/-
  C06 (continuation): THE ROUND TRIP for the whole class of lossless pictures.
  `Spec.Lossless ty fields` (Spec/Lossless.lean) is a decidable reading of "a picture that carries all of v's information
  unambiguously": every component exactly once (four-digit year for dates; month – number or name – and day, or the day
  of the year; the hour on the 24-hour clock, or on the 12-hour clock with a meridian indicator; minute, second; at least
  six fraction digits for the types that have a fraction), optional additional weekday / day-of-year tokens, ANY field
  order, ANY separators and name styles, variable-width fields (interval years/days, `FF`, abbreviated month names)
  followed by a separator, the signed interval field first.
-/
import SqlDt.Lemmas.ReadingRoundTrip
import SqlDt.Lemmas.ReadingExamples
namespace SqlDt.C06
open SqlDt Gen Spec Parser

/-- For EVERY valid value of EVERY type, EVERY lossless picture and any clock: parsing the formatted text with the same
    picture yields the value again. -/
theorem format_parse (ty : Ty) (v : Int) (hv : ty.Valid v) (fields : List Field)
    (hwf : ∀ f ∈ fields, Lemmas.Field.WellFormed f) (hl : Lossless ty fields = true) (now : Clock) (text : Bytes)
    (hf : Formatter.format ty v fields none = .ok text) :
    ∃ r, Parser.parse ty fields text now = .ok (v, r) :=
  Lemmas.format_parse ty v hv fields hwf hl now text hf

/-- …and formatting that parse result with the picture reproduces the text byte for byte. -/
theorem format_parse_format (ty : Ty) (v : Int) (hv : ty.Valid v) (fields : List Field)
    (hwf : ∀ f ∈ fields, Lemmas.Field.WellFormed f) (hl : Lossless ty fields = true) (now : Clock) (text : Bytes)
    (hf : Formatter.format ty v fields none = .ok text) :
    ∃ v' r, Parser.parse ty fields text now = .ok (v', r) ∧ Formatter.format ty v' fields none = .ok text :=
  Lemmas.format_parse_format ty v hv fields hwf hl now text hf

/-- The same from the picture TEXT (`T::format(picture)` then `T::parse(text, picture)`). -/
theorem roundtrip_from_picture (ty : Ty) (v : Int) (hv : ty.Valid v) (pic : Bytes) (fields : List Field)
    (hp : Lexer.tryNew pic = .ok fields) (hl : Lossless ty fields = true) (now : Clock) (text : Bytes)
    (hf : formatValue ty v pic none = .ok text) :
    ∃ r, parseValue ty text pic now = .ok (v, r) := by
  unfold formatValue at hf
  unfold parseValue
  simp only [hp, bind, Except.bind] at hf ⊢
  exact format_parse ty v hv fields (Lemmas.tryNew_wf pic fields hp) hl now text hf

/-- Non-vacuity: pictures of all six types in the class (any order, names, extra weekday / day of year), and some that are
    not (two-digit year, missing day, three fraction digits, 12-hour clock without meridian, …). -/
example : Lemmas.Examples.lossless .TS "Day, DD Month YYYY HH12:MI:SS.FF9 P.M." = true ∧
    Lemmas.Examples.lossless .TS "FF7 SS MI HH24 DDD YYYY dy" = true ∧ Lemmas.Examples.lossless .D "DD Mon YYYY D" = true ∧
    Lemmas.Examples.lossless .T "a.m. HH12 MI SS FF6" = true ∧ Lemmas.Examples.lossless .OD "DDD YYYY HH12 PM MI SS" = true ∧
    Lemmas.Examples.lossless .YM "YYYY-MM" = true ∧ Lemmas.Examples.lossless .DT "DD,FF9;SS/MI\\HH24" = true ∧
    Lemmas.Examples.lossless .D "YY-MM-DD" = false ∧ Lemmas.Examples.lossless .T "HH24:MI:SS.FF3" = false ∧
    Lemmas.Examples.lossless .T "HH:MI:SS.FF6" = false := by
  decide +kernel

end SqlDt.C06
