/-
  C13  Intervals decompose into sign and fields uniquely and negate symmetrically.
-/
import SqlDt.Lemmas.Div
namespace SqlDt.C13
open SqlDt Gen

/-! ### year-month intervals (all 4,272,000,001 values: by proof, not enumeration) -/

/-- value = sign × (years × 12 + months), months in 0..11, years ≥ 0, sign = −1 exactly for negative values. -/
theorem ym_extract_spec (v : Int) :
    let (sign, y, m) := IntervalYM.extract v
    (sign = if v < 0 then -1 else 1) ∧ 0 ≤ y ∧ 0 ≤ m ∧ m < 12 ∧ v = sign * (y * 12 + m) := by
  unfold IntervalYM.extract MONTHS_PER_YEAR
  by_cases h : v < 0 <;> simp only [h, ↓reduceIte] <;> refine ⟨trivial, ?_, ?_, ?_, ?_⟩ <;> omega

/-- The decomposition is unique. -/
theorem ym_decomp_unique (s y m s' y' m' : Int) (hs : s = 1 ∨ s = -1) (hs' : s' = 1 ∨ s' = -1)
    (hy : 0 ≤ y) (hy' : 0 ≤ y') (hm : 0 ≤ m ∧ m < 12) (hm' : 0 ≤ m' ∧ m' < 12)
    (hne : y * 12 + m ≠ 0) (h : s * (y * 12 + m) = s' * (y' * 12 + m')) : s = s' ∧ y = y' ∧ m = m' := by
  rcases hs with rfl | rfl <;> rcases hs' with rfl | rfl <;> omega

/-- The constructor accepts exactly the (year, month) tuples whose value lies in the range and month < 12,
    reporting the year-range error first. (Arguments are `u32`: non-negative.) -/
theorem ym_tryFromYm_spec (y m : Int) (hy : 0 ≤ y) (hm : 0 ≤ m) :
    IntervalYM.tryFromYm y m =
      if y > 178000000 ∨ (y = 178000000 ∧ m ≠ 0) then .error .IntervalOutOfRange
      else if m ≥ 12 then .error .InvalidMonth
      else .ok (y * 12 + m) := by
  unfold IntervalYM.tryFromYm INTERVAL_MAX_YEAR MONTHS_PER_YEAR
  by_cases h1 : y ≥ 178000000 ∧ (y ≠ 178000000 ∨ m ≠ 0)
  · have : y > 178000000 ∨ (y = 178000000 ∧ m ≠ 0) := by omega
    simp [h1, this]
  · have : ¬ (y > 178000000 ∨ (y = 178000000 ∧ m ≠ 0)) := by omega
    simp [h1, this]

theorem ym_isValidYm_iff (y m : Int) (hy : 0 ≤ y) (hm : 0 ≤ m) :
    IntervalYM.isValidYm y m = true ↔ (m < 12 ∧ y * 12 + m ≤ 2136000000) := by
  unfold IntervalYM.isValidYm INTERVAL_MAX_YEAR MONTHS_PER_YEAR
  by_cases h1 : y ≥ 178000000 ∧ (y ≠ 178000000 ∨ m ≠ 0)
  · simp only [h1, ↓reduceIte]; constructor
    · intro h; cases h
    · intro h; omega
  · simp only [h1, ↓reduceIte]
    by_cases h2 : m ≥ 12
    · simp only [h2, ↓reduceIte]; constructor
      · intro h; cases h
      · intro h; omega
    · simp only [h2, ↓reduceIte]; constructor
      · intro _; omega
      · intro _; trivial

/-- Accepted tuples give in-range values; extract ∘ constructor = id. -/
theorem ym_extract_fromYm (y m : Int) (hy : 0 ≤ y) (hm : 0 ≤ m) (hm12 : m < 12) :
    IntervalYM.extract (y * 12 + m) = (1, y, m) := by
  unfold IntervalYM.extract MONTHS_PER_YEAR
  have : ¬ (y * 12 + m < 0) := by omega
  simp only [this, ↓reduceIte, Prod.mk.injEq, true_and]; omega

theorem ym_tryFromYm_valid (y m v : Int) (hy : 0 ≤ y) (hm : 0 ≤ m) (h : IntervalYM.tryFromYm y m = .ok v) :
    IntervalYM.isValidMonths v := by
  rw [ym_tryFromYm_spec y m hy hm] at h
  unfold IntervalYM.isValidMonths INTERVAL_MAX_MONTH
  split at h; · cases h
  split at h; · cases h
  cases h; omega

/-- Negation is an involution that maps the range onto itself. -/
theorem ym_negate_involutive (v : Int) : IntervalYM.negate (IntervalYM.negate v) = v := by
  unfold IntervalYM.negate; omega

theorem ym_negate_valid (v : Int) (h : IntervalYM.isValidMonths v) : IntervalYM.isValidMonths (IntervalYM.negate v) := by
  unfold IntervalYM.isValidMonths IntervalYM.negate at *; omega

/-- The signed accessors agree with the decomposition: year = sign × years, month = sign × months. -/
theorem ym_accessors (v : Int) :
    IntervalYM.year v = (IntervalYM.extract v).1 * (IntervalYM.extract v).2.1 ∧
    IntervalYM.month v = (IntervalYM.extract v).1 * (IntervalYM.extract v).2.2 := by
  unfold IntervalYM.year IntervalYM.month IntervalYM.extract MONTHS_PER_YEAR
  by_cases h : v < 0
  · simp only [h, ↓reduceIte, rdiv_neg_eq h, rrem_neg_eq h]; omega
  · have h' : 0 ≤ v := by omega
    simp only [h, ↓reduceIte, rdiv_nonneg_eq h', rrem_nonneg_eq h']; omega

theorem ym_tryFromMonths_spec (v : Int) :
    IntervalYM.tryFromMonths v = if -2136000000 ≤ v ∧ v ≤ 2136000000 then .ok v else .error .IntervalOutOfRange := by
  unfold IntervalYM.tryFromMonths IntervalYM.isValidMonths INTERVAL_MAX_MONTH
  by_cases h : v ≤ 2136000000 ∧ v ≥ -2136000000
  · have : -2136000000 ≤ v ∧ v ≤ 2136000000 := by omega
    simp [h, this]
  · have : ¬ (-2136000000 ≤ v ∧ v ≤ 2136000000) := by omega
    simp [h, this]

/-! ### day-time intervals -/

/-- value = sign × (days·86400e6 + hours·3600e6 + minutes·60e6 + seconds·1e6 + µs) with the fields in range. -/
theorem dt_extract_spec (v : Int) :
    let (sign, d, h, mi, s, us) := IntervalDT.extract v
    (sign = if v < 0 then -1 else 1) ∧ 0 ≤ d ∧ 0 ≤ h ∧ h < 24 ∧ 0 ≤ mi ∧ mi < 60 ∧ 0 ≤ s ∧ s < 60 ∧
      0 ≤ us ∧ us < 1000000 ∧
      v = sign * (d * 86400000000 + h * 3600000000 + mi * 60000000 + s * 1000000 + us) := by
  unfold IntervalDT.extract USECONDS_PER_DAY USECONDS_PER_HOUR USECONDS_PER_MINUTE USECONDS_PER_SECOND
  by_cases h : v < 0 <;> simp only [h, ↓reduceIte] <;>
    refine ⟨trivial, ?_, ?_, ?_, ?_, ?_, ?_, ?_, ?_, ?_, ?_⟩ <;> omega

/-- extract ∘ constructor = id on in-range field tuples. -/
theorem dt_extract_fromDhms (d h mi s us : Int) (hd : 0 ≤ d) (hh : 0 ≤ h ∧ h < 24) (hm : 0 ≤ mi ∧ mi < 60)
    (hs : 0 ≤ s ∧ s < 60) (hu : 0 ≤ us ∧ us < 1000000) :
    IntervalDT.extract (IntervalDT.fromDhmsUnchecked d h mi s us) = (1, d, h, mi, s, us) := by
  unfold IntervalDT.extract IntervalDT.fromDhmsUnchecked USECONDS_PER_DAY USECONDS_PER_HOUR USECONDS_PER_MINUTE
    USECONDS_PER_SECOND
  have : ¬ (d * 86400000000 + (h * 3600000000 + mi * 60000000 + s * 1000000 + us) < 0) := by omega
  simp only [this, ↓reduceIte, Prod.mk.injEq, true_and]
  refine ⟨?_, ?_, ?_, ?_, ?_⟩ <;> omega

/-- The constructor accepts exactly the tuples with fields in range whose value is ≤ 100000000 days, and reports
    the first offending field in the order day-range, hour, minute, second, fraction. -/
theorem dt_tryFromDhms_spec (d h mi s us : Int) (hd : 0 ≤ d) (hh : 0 ≤ h) (hm : 0 ≤ mi) (hs : 0 ≤ s) (hu : 0 ≤ us) :
    IntervalDT.tryFromDhms d h mi s us =
      if d > 100000000 ∨ (d = 100000000 ∧ (h ≠ 0 ∨ mi ≠ 0 ∨ s ≠ 0 ∨ us ≠ 0)) then .error .IntervalOutOfRange
      else if h ≥ 24 then .error .TimeOutOfRange
      else if mi ≥ 60 then .error .InvalidMinute
      else if s ≥ 60 then .error .InvalidSecond
      else if us ≥ 1000000 then .error .InvalidFraction
      else .ok (d * 86400000000 + h * 3600000000 + mi * 60000000 + s * 1000000 + us) := by
  unfold IntervalDT.tryFromDhms IntervalDT.fromDhmsUnchecked INTERVAL_MAX_DAY HOURS_PER_DAY MINUTES_PER_HOUR
    SECONDS_PER_MINUTE USECONDS_MAX USECONDS_PER_DAY USECONDS_PER_HOUR USECONDS_PER_MINUTE USECONDS_PER_SECOND
  by_cases h1 : d ≥ 100000000 ∧ (d ≠ 100000000 ∨ h ≠ 0 ∨ mi ≠ 0 ∨ s ≠ 0 ∨ us ≠ 0)
  · have : d > 100000000 ∨ (d = 100000000 ∧ (h ≠ 0 ∨ mi ≠ 0 ∨ s ≠ 0 ∨ us ≠ 0)) := by omega
    simp [h1, this]
  · have : ¬ (d > 100000000 ∨ (d = 100000000 ∧ (h ≠ 0 ∨ mi ≠ 0 ∨ s ≠ 0 ∨ us ≠ 0))) := by omega
    simp only [h1, this, ↓reduceIte]
    by_cases h2 : h ≥ 24 <;> simp only [h2, ↓reduceIte]
    by_cases h3 : mi ≥ 60 <;> simp only [h3, ↓reduceIte]
    by_cases h4 : s ≥ 60 <;> simp only [h4, ↓reduceIte]
    by_cases h5 : us > 999999
    · have : us ≥ 1000000 := by omega
      simp [h5, this]
    · have : ¬ us ≥ 1000000 := by omega
      simp only [h5, this, ↓reduceIte]
      congr 1; omega

theorem dt_tryFromDhms_valid (d h mi s us v : Int) (hd : 0 ≤ d) (hh : 0 ≤ h) (hm : 0 ≤ mi) (hs : 0 ≤ s) (hu : 0 ≤ us)
    (hv : IntervalDT.tryFromDhms d h mi s us = .ok v) : IntervalDT.isValidUsecs v := by
  rw [dt_tryFromDhms_spec d h mi s us hd hh hm hs hu] at hv
  unfold IntervalDT.isValidUsecs INTERVAL_MAX_USECONDS
  split at hv; · cases hv
  split at hv; · cases hv
  split at hv; · cases hv
  split at hv; · cases hv
  split at hv; · cases hv
  cases hv; omega

theorem dt_negate_involutive (v : Int) : IntervalDT.negate (IntervalDT.negate v) = v := by
  unfold IntervalDT.negate; omega

theorem dt_negate_valid (v : Int) (h : IntervalDT.isValidUsecs v) : IntervalDT.isValidUsecs (IntervalDT.negate v) := by
  unfold IntervalDT.isValidUsecs IntervalDT.negate at *; omega

/-- Signed accessors = sign × field. -/
theorem dt_accessors (v : Int) :
    IntervalDT.day v = (IntervalDT.extract v).1 * (IntervalDT.extract v).2.1 ∧
    IntervalDT.hour v = (IntervalDT.extract v).1 * (IntervalDT.extract v).2.2.1 ∧
    IntervalDT.minute v = (IntervalDT.extract v).1 * (IntervalDT.extract v).2.2.2.1 := by
  unfold IntervalDT.day IntervalDT.hour IntervalDT.minute IntervalDT.extract USECONDS_PER_DAY USECONDS_PER_HOUR
    USECONDS_PER_MINUTE USECONDS_PER_SECOND
  by_cases h : v < 0
  · simp only [h, ↓reduceIte, rdiv_neg_eq h, rrem_neg_eq h]
    have a1 : -(-v % 86400000000) < 0 ∨ -(-v % 86400000000) = 0 := by omega
    have a2 : -(-v % 3600000000) < 0 ∨ -(-v % 3600000000) = 0 := by omega
    refine ⟨by omega, ?_, ?_⟩
    · rcases a1 with a | a
      · rw [rdiv_neg_eq a]; omega
      · rw [a]; simp [rdiv]; omega
    · rcases a2 with a | a
      · rw [rdiv_neg_eq a]; omega
      · rw [a]; simp [rdiv]; omega
  · have h' : 0 ≤ v := by omega
    simp only [h, ↓reduceIte, rdiv_nonneg_eq h', rrem_nonneg_eq h']
    refine ⟨by omega, ?_, ?_⟩
    · rw [rdiv_nonneg_eq (by omega)]; omega
    · rw [rdiv_nonneg_eq (by omega)]; omega

example : IntervalYM.isValidMonths 2136000000 ∧ IntervalYM.isValidMonths (-2136000000) ∧
    IntervalDT.isValidUsecs 8640000000000000000 ∧ IntervalYM.extract (-25) = (-1, 2, 1) := by decide

end SqlDt.C13
