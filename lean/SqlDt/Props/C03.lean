/-
  C03  No safe public call panics, whatever its arguments.
  In the model a panic is the value `.error .Panic`; each theorem says an operation never produces it.
  (Layer 1: the picture compiler, for every byte string; the purely arithmetic operations, for every argument.)
-/
import SqlDt.Lemmas.Div
import SqlDt.Lemmas.NoPanic
import SqlDt.Lemmas.RenderAll
import SqlDt.Model.Serde
namespace SqlDt.C03
open SqlDt Gen

/-- `Formatter::try_new` never panics: for every byte string it returns a field list or `InvalidFormat`. -/
theorem tryNewAux_no_panic : ∀ (fuel : Nat) (input : Bytes) (acc : List Field),
    Lexer.tryNewAux fuel input acc ≠ .error .Panic := by
  intro fuel
  induction fuel with
  | zero => intro input acc h; simp [Lexer.tryNewAux] at h
  | succ n ih =>
    intro input acc
    unfold Lexer.tryNewAux
    cases hn : Lexer.next input with
    | none => simp
    | some p =>
      obtain ⟨field, rest⟩ := p
      simp only
      split
      · simp
      · split
        · simp
        · exact ih rest _

theorem tryNew_no_panic (pic : Bytes) : Lexer.tryNew pic ≠ .error .Panic :=
  tryNewAux_no_panic _ _ _

/-- …and its only error is `InvalidFormat`. -/
theorem tryNewAux_error : ∀ (fuel : Nat) (input : Bytes) (acc : List Field) (e : Err),
    Lexer.tryNewAux fuel input acc = .error e → e = .InvalidFormat := by
  intro fuel
  induction fuel with
  | zero => intro input acc e h; simp [Lexer.tryNewAux] at h
  | succ n ih =>
    intro input acc e
    unfold Lexer.tryNewAux
    cases hn : Lexer.next input with
    | none => simp
    | some p =>
      obtain ⟨field, rest⟩ := p
      simp only
      split
      · intro h; cases h; rfl
      · split
        · intro h; cases h; rfl
        · exact ih rest _ e

/-- The checked constructors and linear arithmetic return a value or a range error, never a panic
    (for every argument, valid or not). -/
theorem arithmetic_no_panic (a b : Int) :
    Date.tryFromDays a ≠ .error .Panic ∧ Date.addDays a b ≠ .error .Panic ∧ Date.subDays a b ≠ .error .Panic ∧
    Timestamp.tryFromUsecs a ≠ .error .Panic ∧ Timestamp.addIntervalDt a b ≠ .error .Panic ∧
    Timestamp.addTime a b ≠ .error .Panic ∧ Timestamp.subTime a b ≠ .error .Panic ∧
    IntervalYM.addIntervalYm a b ≠ .error .Panic ∧ IntervalDT.addIntervalDt a b ≠ .error .Panic ∧
    IntervalDT.subTime a b ≠ .error .Panic ∧ Time.tryFromUsecs a ≠ .error .Panic ∧
    OracleDate.tryFromUsecs a ≠ .error .Panic := by
  refine ⟨?_, ?_, ?_, ?_, ?_, ?_, ?_, ?_, ?_, ?_, ?_, ?_⟩ <;>
    simp only [Date.tryFromDays, Date.addDays, Date.subDays, Timestamp.tryFromUsecs, Timestamp.addIntervalDt,
      Timestamp.addTime, Timestamp.subTime, IntervalYM.addIntervalYm, IntervalYM.tryFromMonths,
      IntervalDT.addIntervalDt, IntervalDT.tryFromUsecs, IntervalDT.subTime, Time.tryFromUsecs,
      OracleDate.tryFromUsecs, checkedI32, checkedI64] <;>
    (repeat' split) <;> simp

/-- Scaling by a double never panics, for all 2^64 bit patterns (NaN, ±∞, ±0 included). -/
theorem scaling_no_panic (v : Int) (x : F64) :
    IntervalDT.mulF64 v x ≠ .error .Panic ∧ IntervalDT.divF64 v x ≠ .error .Panic ∧
    IntervalYM.mulF64 v x ≠ .error .Panic ∧ IntervalYM.divF64 v x ≠ .error .Panic := by
  refine ⟨?_, ?_, ?_, ?_⟩ <;>
    simp only [IntervalDT.mulF64, IntervalDT.divF64, IntervalYM.mulF64, IntervalYM.divF64,
      IntervalDT.tryFromUsecs, IntervalYM.tryFromMonths] <;>
    (repeat' split) <;> simp

/-- `add_days` with any double (NaN → InvalidNumber, ±∞ → NumericOverflow, huge → DateOutOfRange). -/
theorem addDays_no_panic (ts : Int) (x : F64) : Timestamp.addDays ts x ≠ .error .Panic := by
  simp only [Timestamp.addDays, Timestamp.tryFromUsecs, checkedI64]
  (repeat' split) <;> simp

/-- Binary deserialisation of any raw integer never panics. -/
theorem deBin_no_panic (ty : Ty) (raw : Int) : Serde.deBin ty raw ≠ .error .Panic := by
  cases ty <;>
    simp only [Serde.deBin, Date.tryFromDays, Time.tryFromUsecs, Timestamp.tryFromUsecs, IntervalYM.tryFromMonths,
      IntervalDT.tryFromUsecs, OracleDate.tryFromUsecs] <;>
    (intro h; split at h
     · cases h
     · rename_i heq; split at heq <;> cases heq
     · cases h)

/-- PARSING never panics: `T::parse(text, picture)` for every type, ANY two byte strings and any clock returns a value
    or an error (every table index in the parser is shown in range: year modifiers, fraction factors, the cumulative
    day table behind `DDD`, and no field of a compiled picture is `Invalid`). -/
theorem parse_no_panic (ty : Ty) (text pic : Bytes) (now : Clock) : parseValue ty text pic now ≠ .error .Panic :=
  Lemmas.parseValue_np ty text pic now

/-- Human-readable deserialisation never panics. -/
theorem deStr_no_panic (ty : Ty) (text : Bytes) (now : Clock) : Serde.deStr ty text now ≠ .error .Panic := by
  unfold Serde.deStr
  have := parse_no_panic ty text (Serde.picture ty) now
  cases h : parseValue ty text (Serde.picture ty) now with
  | ok v => simp
  | error e =>
    cases e <;> simp
    exact absurd h this

/-- FORMATTING never panics (into a `String`): the result is the text or an error – an inapplicable field is reported
    as `FormatError`. Stated per type through the `format = render` theorems of C04; e.g. for dates and times of day: -/
theorem format_date_no_panic (y m d : Int) (h : Spec.ValidYMD y m d) (pic : Bytes) :
    formatValue .D (Spec.dayNumber y m d) pic none ≠ .error .Panic := by
  unfold formatValue
  cases ht : Lexer.tryNew pic with
  | error e => simp [bind, Except.bind]; intro hc; subst hc; exact tryNew_no_panic pic ht
  | ok fields =>
    simp only [bind, Except.bind]
    rw [Lemmas.format_date y m d h fields (Lemmas.tryNew_wf pic fields ht)]
    cases Spec.render .D (Lemmas.compsOfDate y m d) fields <;> simp [Lemmas.toChk]

theorem format_ts_no_panic (ty : Ty) (hty : ty = .TS ∨ ty = .OD) (y m d h mi s us : Int) (hv : Spec.ValidYMD y m d)
    (hh : 0 ≤ h ∧ h < 24) (hm : 0 ≤ mi ∧ mi < 60) (hs : 0 ≤ s ∧ s < 60) (hu : 0 ≤ us ∧ us < 1000000) (pic : Bytes) :
    formatValue ty (Lemmas.tsOf y m d h mi s us) pic none ≠ .error .Panic := by
  unfold formatValue
  cases ht : Lexer.tryNew pic with
  | error e => simp [bind, Except.bind]; intro hc; subst hc; exact tryNew_no_panic pic ht
  | ok fields =>
    simp only [bind, Except.bind]
    rw [Lemmas.format_ts ty hty y m d h mi s us hv hh hm hs hu fields (Lemmas.tryNew_wf pic fields ht)]
    cases Spec.render ty (Lemmas.compsOfTs y m d h mi s us) fields <;> simp [Lemmas.toChk]

example : Lexer.tryNew (List.replicate 30 32) = .ok [.Blank 30] ∧
    Parser.parseWeekDayNumber [43] = .error .ParseError := by decide

end SqlDt.C03
