/-
  C11  Rounding picks one of the two adjacent unit boundaries by the documented rule.
  All twelve units on dates and timestamps: the crate's code (tables, Julian-day arithmetic) equals the calendar-level
  closed form `Spec.roundOf` (Lemmas/UnitsModel), and the closed form is "truncation or the next boundary, chosen from the
  documented midpoint on; boundaries fixed; monotone except the ISO year" (Lemmas/UnitsSpec).
  Two known findings are stated as theorems: D1 (`round_century` on years divisible by 100 – excluded from the main
  theorem and characterised exactly by `round_century_deviation`) and D9 (Sunday-week rounding below 0001-01-04).
-/
import SqlDt.Lemmas.C11Base
import SqlDt.Lemmas.UnitsModel
import SqlDt.Lemmas.UnitsSpec
namespace SqlDt.C11
open SqlDt Gen Spec

/-- DATE ROUNDING, every unit, every real date of years 1..9999 (except `century` on years divisible by 100, see below):
    the crate returns `Spec.roundOf` when it is representable, `DateOutOfRange` otherwise. -/
theorem date_round_partial (u : TUnit) (y m d : Int) (h : ValidYMD y m d) (hD1 : u = .century → y % 100 ≠ 0) :
    Date.round u (dayNumber y m d) = inRangeDay (roundOf u (y, m, d) (dayNumber y m d)) :=
  Lemmas.date_round_eq u y m d h hD1

/-- The chosen value is the truncation or the NEXT unit boundary after the date – nothing else. -/
theorem round_adjacent (u : TUnit) (y m d : Int) (h : IsDate y m d) :
    roundOf u (y, m, d) (dayNumber y m d) = truncOf u (y, m, d) (dayNumber y m d) ∨
    LeastGT (IsBoundary u) (dayNumber y m d) (roundOf u (y, m, d) (dayNumber y m d)) :=
  Lemmas.roundOf_adjacent u y m d h

/-- A date already on a boundary is returned unchanged. -/
theorem round_fixed (u : TUnit) (y m d : Int) (h : IsDate y m d) (hb : IsBoundary u (dayNumber y m d)) :
    roundOf u (y, m, d) (dayNumber y m d) = dayNumber y m d :=
  Lemmas.roundOf_fixed u y m d h hb

/-- The later boundary is chosen exactly from the documented midpoint on: year 51 of the century, 1 July, the 16th of the
    quarter's second month, the 16th of the month, the fifth day of the week. -/
theorem round_midpoints (y m d : Int) (h : IsDate y m d) :
    let n := dayNumber y m d
    (roundOf .century (y, m, d) n ≠ truncOf .century (y, m, d) n ↔ (y - 1) % 100 + 1 ≥ 51) ∧
    (roundOf .year (y, m, d) n ≠ truncOf .year (y, m, d) n ↔ m ≥ 7) ∧
    (roundOf .quarter (y, m, d) n ≠ truncOf .quarter (y, m, d) n ↔
        ((m - 1) % 3 = 2 ∨ ((m - 1) % 3 = 1 ∧ d ≥ 16))) ∧
    (roundOf .month (y, m, d) n ≠ truncOf .month (y, m, d) n ↔ d ≥ 16) ∧
    (roundOf .isoWeek (y, m, d) n ≠ truncOf .isoWeek (y, m, d) n ↔ n - truncOf .isoWeek (y, m, d) n ≥ 4) ∧
    (roundOf .sundayStartWeek (y, m, d) n ≠ truncOf .sundayStartWeek (y, m, d) n ↔
        n - truncOf .sundayStartWeek (y, m, d) n ≥ 4) :=
  Lemmas.roundOf_midpoints y m d h

/-- Except for the ISO year, rounding is monotone. -/
theorem round_mono (u : TUnit) (hu : u ≠ .isoYear) (y m d y' m' d' : Int) (h : IsDate y m d) (h' : IsDate y' m' d')
    (hle : dayNumber y m d ≤ dayNumber y' m' d') :
    roundOf u (y, m, d) (dayNumber y m d) ≤ roundOf u (y', m', d') (dayNumber y' m' d') :=
  Lemmas.roundOf_mono u hu y m d y' m' d' h h' hle

/-- Rounding fails exactly when the chosen boundary is not a representable date; it is never below the truncation, so a
    failure on the low side can only come from a failing truncation (Sunday week, see D9). -/
theorem round_fails_iff (u : TUnit) (y m d : Int) (h : ValidYMD y m d) (hD1 : u = .century → y % 100 ≠ 0) :
    (∃ e, Date.round u (dayNumber y m d) = .error e) ↔
      ¬ (MIN_DAY ≤ roundOf u (y, m, d) (dayNumber y m d) ∧ roundOf u (y, m, d) (dayNumber y m d) ≤ MAX_DAY) := by
  rw [date_round_partial u y m d h hD1]
  unfold inRangeDay
  by_cases hr : MIN_DAY ≤ roundOf u (y, m, d) (dayNumber y m d) ∧ roundOf u (y, m, d) (dayNumber y m d) ≤ MAX_DAY
  · rw [if_pos hr]; constructor
    · rintro ⟨e, he⟩; cases he
    · intro hn; exact absurd hr hn
  · rw [if_neg hr]; constructor
    · intro _; exact hr
    · intro _; exact ⟨_, rfl⟩

/-- TIMESTAMP ROUNDING, every unit, every valid timestamp: `(y, m, d)` is the calendar date of the deciding day – the
    timestamp's own day for century/year/quarter/month/ISO year, the day containing `x + 12 h` for the four week units
    and the day unit (i.e. up from noon of the fourth day / from 12:00); hour and minute round up from minute 30 /
    second 30. Same exclusion as for dates. -/
theorem ts_round_partial (u : TUnit) (x : Int) (hx : isValidTimestamp x) (y m d : Int)
    (h : IsDate y m d ∧ 1 ≤ y ∧ y ≤ 10000) (hd : dayNumber y m d = decidingDay u x)
    (hD1 : u = .century → y % 100 ≠ 0) :
    Timestamp.round u x = roundTsOf u (y, m, d) x :=
  Lemmas.ts_round_eq u x hx y m d h hd hD1

/-- Oracle-style dates round as timestamps. -/
theorem od_round (u : TUnit) (x : Int) : OracleDate.round u x = (Timestamp.round u x).map OracleDate.fromTimestamp := by
  unfold OracleDate.round; cases Timestamp.round u x <;> rfl

/-! ### Known finding D1 – what the crate does on the excluded inputs, for EVERY year divisible by 100 -/

/-- For a year divisible by 100 (100, 200, …, 9900) `round_century` returns the START of that year's own century
    (e.g. 2000-xx-xx ↦ 1901-01-01) although the documented choice – year 100 of a century is ≥ 51 – is the next one
    (2001-01-01).  The existing test `timestamp::tests::test_round` pins this behaviour. -/
theorem round_century_deviation (y m d : Int) (h : ValidYMD y m d) (hy : y % 100 = 0) (h9 : y ≤ 9900) :
    Date.round .century (dayNumber y m d) = .ok (dayNumber (y - 99) 1 1) ∧
    roundOf .century (y, m, d) (dayNumber y m d) = dayNumber (y + 1) 1 1 :=
  Lemmas.date_round_century_dev y m d h hy h9

/-- A witness, and the loss of monotonicity it causes. -/
theorem roundCentury_counterexample :
    Date.roundCentury 11109 = .ok (-25202) ∧ Date.roundCentury 10743 = .ok 11323 ∧ (10743 : Int) < 11109 := by decide

/-! ### Known finding D9 – Sunday-week rounding fails below 0001-01-04 (the chosen boundary 0000-12-31 does not exist) -/
theorem roundSundayWeek_counterexample :
    Date.roundSundayStartWeek (-719162) = .error .DateOutOfRange ∧ Date.roundSundayStartWeek (-719159) = .ok (-719156) := by
  decide

/-! Layer 1 results kept from Lemmas/C11Base (closed form of day rounding on the microsecond line). -/
theorem ts_round_day (ts : Int) (h : isValidTimestamp ts) :
    Timestamp.round .day ts =
      if ts % 86400000000 ≥ 43200000000 then
        (if ts / 86400000000 + 1 ≤ 2932896 then .ok ((ts / 86400000000 + 1) * 86400000000) else .error .DateOutOfRange)
      else .ok (ts - ts % 86400000000) := C11B.ts_round_day ts h

example : ValidYMD 2021 8 16 ∧ Date.round .quarter (dayNumber 2021 8 16) = .ok (dayNumber 2021 10 1) ∧
    Date.round .quarter (dayNumber 2021 8 15) = .ok (dayNumber 2021 7 1) ∧
    Date.round .century (dayNumber 1951 1 1) = .ok (dayNumber 2001 1 1) ∧
    Date.round .century (dayNumber 9950 6 1) = .ok (dayNumber 9901 1 1) ∧
    Date.round .century (dayNumber 9951 1 1) = .error .DateOutOfRange := by decide +kernel

end SqlDt.C11
