/-
  C03 (completion of the per-operation table): for every operation of the line protocol (tools/catalog.py `OPS`) whose
  model function can express a failure (returns `Chk _`) and that is not already the subject of a theorem of its own in
  Props/C03.lean, C03Units.lean or C03Format.lean: `op args ≠ .error .Panic`, stated about the SAME model expression the
  driver (Driver.lean, `handler`) evaluates.  Hypotheses are at most the validity of value-typed arguments – most rows
  need none at all, i.e. hold for every integer, every double and every clock.
  Operations whose model function is TOTAL (returns a plain `Int`/`Bool`/tuple/`F64`, no `Chk`) have nothing to state:
  the arithmetic they perform is bounded by the receivers' validity (theorems of C07/C08/C12/C13) and the model has no
  failure value for them; tools/rows_map.json lists them with `"C03": "total"`.
-/
import SqlDt.Props.C03Units
namespace SqlDt.C03Rows
open SqlDt Gen

/-- A checked value followed by a pure step. -/
theorem bind_pure_np {α β} (x : Chk α) (g : α → β) (hx : x ≠ .error .Panic) :
    (do let a ← x; pure (g a) : Chk β) ≠ .error .Panic :=
  C03.bind_np' x _ hx (fun a _ => by simp [pure, Except.pure])

/-! ### checked constructors (every integer argument) -/

/-- `D.try_from_ymd`. -/
theorem date_tryFromYmd_np (y m d : Int) : Date.tryFromYmd y m d ≠ .error .Panic := by
  unfold Date.tryFromYmd; (repeat' split) <;> simp

/-- `D.try_from_days`. -/
theorem date_tryFromDays_np (k : Int) : Date.tryFromDays k ≠ .error .Panic := (C03.arithmetic_no_panic k 0).1

/-- `T.try_from_hms`. -/
theorem time_tryFromHms_np (h mi s us : Int) : Time.tryFromHms h mi s us ≠ .error .Panic := by
  unfold Time.tryFromHms; (repeat' split) <;> simp

/-- `T.try_from_usecs`. -/
theorem time_tryFromUsecs_np (k : Int) : Time.tryFromUsecs k ≠ .error .Panic := (C03.arithmetic_no_panic k 0).2.2.2.2.2.2.2.2.2.2.1

/-- `TS.try_from_usecs`. -/
theorem ts_tryFromUsecs_np (k : Int) : Timestamp.tryFromUsecs k ≠ .error .Panic := (C03.arithmetic_no_panic k 0).2.2.2.1

/-- `YM.try_from_ym`. -/
theorem ym_tryFromYm_np (y m : Int) : IntervalYM.tryFromYm y m ≠ .error .Panic := by
  unfold IntervalYM.tryFromYm; (repeat' split) <;> simp

/-- `YM.try_from_months`. -/
theorem ym_tryFromMonths_np (k : Int) : IntervalYM.tryFromMonths k ≠ .error .Panic := by
  unfold IntervalYM.tryFromMonths; split <;> simp

/-- `DT.try_from_dhms`. -/
theorem dt_tryFromDhms_np (d h mi s us : Int) : IntervalDT.tryFromDhms d h mi s us ≠ .error .Panic := by
  unfold IntervalDT.tryFromDhms; (repeat' split) <;> simp

/-- `DT.try_from_usecs`. -/
theorem dt_tryFromUsecs_np (k : Int) : IntervalDT.tryFromUsecs k ≠ .error .Panic := by
  unfold IntervalDT.tryFromUsecs; split <;> simp

/-- `OD.try_from_usecs`. -/
theorem od_tryFromUsecs_np (k : Int) : OracleDate.tryFromUsecs k ≠ .error .Panic :=
  (C03.arithmetic_no_panic k 0).2.2.2.2.2.2.2.2.2.2.2

example : Date.tryFromYmd (-2147483648) 4294967295 4294967295 = .error .DateOutOfRange ∧
    Time.tryFromHms 4294967295 4294967295 4294967295 4294967295 = .error .TimeOutOfRange ∧
    IntervalDT.tryFromDhms 4294967295 0 0 0 0 = .error .IntervalOutOfRange ∧
    IntervalYM.tryFromYm 178000000 0 = .ok 2136000000 := by decide

/-! ### Date -/

/-- `D.and_hms`. -/
theorem date_andHms_np (d h mi s us : Int) : Timestamp.andHms d h mi s us ≠ .error .Panic :=
  bind_pure_np _ _ (time_tryFromHms_np h mi s us)

/-- `D.add_days`. -/
theorem date_addDays_np (d k : Int) : Date.addDays d k ≠ .error .Panic := (C03.arithmetic_no_panic d k).2.1

/-- `D.sub_days`. -/
theorem date_subDays_np (d k : Int) : Date.subDays d k ≠ .error .Panic := (C03.arithmetic_no_panic d k).2.2.1

/-- `D.add_ym`: any valid date, ANY month count. -/
theorem date_addIntervalYm_np (d i : Int) (hd : isValidDate d) :
    (do let r ← Date.addIntervalYmInternal d i; pure (Timestamp.new r 0) : Chk Int) ≠ .error .Panic :=
  bind_pure_np _ _ (C03.date_addMonths_no_panic d i hd)

/-- `D.sub_ym`. -/
theorem date_subIntervalYm_np (d i : Int) (hd : isValidDate d) :
    (do let r ← Date.addIntervalYmInternal d (IntervalYM.negate i); pure (Timestamp.new r 0) : Chk Int) ≠ .error .Panic :=
  date_addIntervalYm_np d (IntervalYM.negate i) hd

example : isValidDate 2932896 ∧ IntervalYM.isValidMonths (-2136000000) ∧
    (do let r ← Date.addIntervalYmInternal 2932896 (IntervalYM.negate (-2136000000)); pure (Timestamp.new r 0) : Chk Int)
      = .error .DateOutOfRange := by decide

/-- `D.add_dt`. -/
theorem date_addIntervalDt_np (d i : Int) : Timestamp.addIntervalDt (Timestamp.new d 0) i ≠ .error .Panic :=
  (C03.arithmetic_no_panic _ i).2.2.2.2.1

/-- `D.sub_dt`. -/
theorem date_subIntervalDt_np (d i : Int) : Timestamp.subIntervalDt (Timestamp.new d 0) i ≠ .error .Panic :=
  (C03.arithmetic_no_panic _ (IntervalDT.negate i)).2.2.2.2.1

/-- `D.sub_time`. -/
theorem date_subTime_np (d t : Int) : Timestamp.subTime (Timestamp.new d 0) t ≠ .error .Panic :=
  (C03.arithmetic_no_panic _ t).2.2.2.2.2.2.1

/-- `D.now`, under ANY clock. -/
theorem date_now_np (c : Clock) : Date.now c ≠ .error .Panic := date_tryFromYmd_np _ _ _

/-! ### Time -/

/-- `T.mul_f64`, all 2^64 bit patterns. -/
theorem time_mulF64_np (t : Int) (x : F64) : IntervalDT.mulF64 t x ≠ .error .Panic := (C03.scaling_no_panic t x).1

/-- `T.div_f64`. -/
theorem time_divF64_np (t : Int) (x : F64) : IntervalDT.divF64 t x ≠ .error .Panic := (C03.scaling_no_panic t x).2.1

/-! ### Timestamp -/

/-- `TS.add_dt`. -/
theorem ts_addIntervalDt_np (ts i : Int) : Timestamp.addIntervalDt ts i ≠ .error .Panic :=
  (C03.arithmetic_no_panic ts i).2.2.2.2.1

/-- `TS.sub_dt`. -/
theorem ts_subIntervalDt_np (ts i : Int) : Timestamp.subIntervalDt ts i ≠ .error .Panic :=
  ts_addIntervalDt_np ts (IntervalDT.negate i)

/-- `TS.sub_ym`: any valid timestamp, ANY month count. -/
theorem ts_subIntervalYm_np (ts i : Int) (hts : isValidTimestamp ts) : Timestamp.subIntervalYm ts i ≠ .error .Panic :=
  C03.ts_addMonths_no_panic ts (IntervalYM.negate i) hts

/-- `TS.add_time`. -/
theorem ts_addTime_np (ts t : Int) : Timestamp.addTime ts t ≠ .error .Panic := (C03.arithmetic_no_panic ts t).2.2.2.2.2.1

/-- `TS.sub_time`. -/
theorem ts_subTime_np (ts t : Int) : Timestamp.subTime ts t ≠ .error .Panic := (C03.arithmetic_no_panic ts t).2.2.2.2.2.2.1

/-- `TS.sub_days`, every double. -/
theorem ts_subDays_np (ts : Int) (x : F64) : Timestamp.subDays ts x ≠ .error .Panic := C03.addDays_no_panic ts (F64.neg x)

/-- `TS.now`, under ANY clock. -/
theorem ts_now_np (c : Clock) : Timestamp.now c ≠ .error .Panic := by
  unfold Timestamp.now
  exact C03.bind_np' _ _ (date_tryFromYmd_np _ _ _) (fun d _ => bind_pure_np _ _ (time_tryFromHms_np _ _ _ _))

/-- `TS.from_T`, under ANY clock. -/
theorem ts_fromTime_np (t : Int) (c : Clock) : Timestamp.fromTime t c ≠ .error .Panic :=
  bind_pure_np _ _ (date_tryFromYmd_np _ _ _)

/-- `oracle::Date::add_days`, every integer receiver, every double (the rows `OD.add_days`, `TS.oracle_add_days`). -/
theorem od_addDays_np (od : Int) (x : F64) : OracleDate.addDays od x ≠ .error .Panic := by
  unfold OracleDate.addDays
  exact C03.bind_np' _ _ (C03.addDays_no_panic od x) (fun ts _ => ts_tryFromUsecs_np _)

/-- `TS.oracle_add_days`. -/
theorem ts_oracleAddDays_np (ts : Int) (x : F64) : OracleDate.addDays (OracleDate.fromTimestamp ts) x ≠ .error .Panic :=
  od_addDays_np _ x

/-- `TS.oracle_sub_days`. -/
theorem ts_oracleSubDays_np (ts : Int) (x : F64) :
    OracleDate.addDays (OracleDate.fromTimestamp ts) (F64.neg x) ≠ .error .Panic := od_addDays_np _ _

example : Timestamp.now { year := 262000, month := 12, day := 31, hour := 23, minute := 59, second := 59, usec := 999999 }
      = .error .DateOutOfRange ∧
    OracleDate.addDays 253402300799000000 (F64.ofBits 0x7FF8000000000000) = .error .InvalidNumber ∧
    OracleDate.addDays 253402300799000000 (F64.ofBits 0x7FF0000000000000) = .error .NumericOverflow := by decide

/-! ### Intervals -/

/-- `YM.add_ym`. -/
theorem ym_add_np (a b : Int) : IntervalYM.addIntervalYm a b ≠ .error .Panic := (C03.arithmetic_no_panic a b).2.2.2.2.2.2.2.1

/-- `YM.sub_ym`. -/
theorem ym_sub_np (a b : Int) : IntervalYM.subIntervalYm a b ≠ .error .Panic := ym_add_np a (IntervalYM.negate b)

/-- `YM.mul_f64`. -/
theorem ym_mulF64_np (v : Int) (x : F64) : IntervalYM.mulF64 v x ≠ .error .Panic := (C03.scaling_no_panic v x).2.2.1

/-- `YM.div_f64`. -/
theorem ym_divF64_np (v : Int) (x : F64) : IntervalYM.divF64 v x ≠ .error .Panic := (C03.scaling_no_panic v x).2.2.2

/-- `DT.add_dt`. -/
theorem dt_add_np (a b : Int) : IntervalDT.addIntervalDt a b ≠ .error .Panic := (C03.arithmetic_no_panic a b).2.2.2.2.2.2.2.2.1

/-- `DT.sub_dt`. -/
theorem dt_sub_np (a b : Int) : IntervalDT.subIntervalDt a b ≠ .error .Panic := dt_add_np a (IntervalDT.negate b)

/-- `DT.mul_f64`. -/
theorem dt_mulF64_np (v : Int) (x : F64) : IntervalDT.mulF64 v x ≠ .error .Panic := (C03.scaling_no_panic v x).1

/-- `DT.div_f64`. -/
theorem dt_divF64_np (v : Int) (x : F64) : IntervalDT.divF64 v x ≠ .error .Panic := (C03.scaling_no_panic v x).2.1

/-- `DT.sub_time`. -/
theorem dt_subTime_np (v t : Int) : IntervalDT.subTime v t ≠ .error .Panic := (C03.arithmetic_no_panic v t).2.2.2.2.2.2.2.2.2.1

example : IntervalDT.divF64 86400000000 (F64.ofBits 0x8000000000000000) = .error .DivideByZero ∧
    IntervalYM.subIntervalYm (-2136000000) 2136000000 = .error .IntervalOutOfRange := by decide

/-! ### Oracle-style date -/

/-- `OD.add_dt`. -/
theorem od_addIntervalDt_np (od i : Int) : OracleDate.addIntervalDt od i ≠ .error .Panic :=
  bind_pure_np _ _ (ts_addIntervalDt_np od i)

/-- `OD.sub_dt`. -/
theorem od_subIntervalDt_np (od i : Int) : OracleDate.subIntervalDt od i ≠ .error .Panic :=
  od_addIntervalDt_np od (IntervalDT.negate i)

/-- `OD.add_ym`: any receiver in the timestamp range (in particular every valid Oracle-style date), ANY month count. -/
theorem od_addIntervalYm_np (od i : Int) (hod : isValidTimestamp od) : OracleDate.addIntervalYm od i ≠ .error .Panic :=
  bind_pure_np _ _ (C03.ts_addMonths_no_panic od i hod)

/-- `OD.sub_ym`. -/
theorem od_subIntervalYm_np (od i : Int) (hod : isValidTimestamp od) : OracleDate.subIntervalYm od i ≠ .error .Panic :=
  od_addIntervalYm_np od (IntervalYM.negate i) hod

/-- `OD.add_time`. -/
theorem od_addTime_np (od t : Int) : Timestamp.addTime od t ≠ .error .Panic := ts_addTime_np od t

/-- `OD.sub_time`. -/
theorem od_subTime_np (od t : Int) : Timestamp.subTime od t ≠ .error .Panic := ts_subTime_np od t

/-- `OD.sub_days`. -/
theorem od_subDays_np (od : Int) (x : F64) : OracleDate.subDays od x ≠ .error .Panic := od_addDays_np od (F64.neg x)

/-- `OD.from_T`, under ANY clock. -/
theorem od_fromTime_np (t : Int) (c : Clock) : OracleDate.fromTime t c ≠ .error .Panic :=
  bind_pure_np _ _ (date_tryFromYmd_np _ _ _)

/-- `OD.now`, under ANY clock. -/
theorem od_now_np (c : Clock) : OracleDate.now c ≠ .error .Panic := by
  unfold OracleDate.now
  exact C03.bind_np' _ _ (date_tryFromYmd_np _ _ _) (fun d _ => bind_pure_np _ _ (time_tryFromHms_np _ _ _ _))

example : OracleDate.isValidDate 253402300799000000 ∧ isValidTimestamp 253402300799000000 ∧
    OracleDate.addIntervalYm 253402300799000000 1 = .error .DateOutOfRange ∧
    OracleDate.subIntervalYm 253402300799000000 1 = .error .InvalidDate ∧
    OracleDate.subIntervalYm 253402300799000000 2 = .ok 253397030399000000 := by decide

end SqlDt.C03Rows
