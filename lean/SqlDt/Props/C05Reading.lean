/-
  C05 (continuation): THE DENOTED VALUE.  `Spec/Reading.lean` says, from the documentation's point of view and without
  calling the crate's parser, how a text may be written for a picture (`Lex`: optional blanks, '+', leading zeros or none,
  names in any letter case, month names for a month number, AM/PM in any case, 1–9 fraction digits, trailing time fields
  left out) and which value such a reading DENOTES (`denote`: defaults from the clock, year completion, 12-hour clock,
  fraction rounded half-up with the carry propagated, day of year, weekday; `none` whenever a component is out of its
  calendar/clock range, redundant fields disagree, a code repeats or does not apply).
  Theorem: for EVERY type, picture, reading, clock and number of trailing blanks, the parser returns exactly the denoted
  value, and an error (never a panic, never another value) when the reading denotes none.
  `Lex.fits` = the reading is one the documentation allows; `Delimited` = it is unambiguous for a left-to-right reader
  (a number shorter than the field's width is not directly followed by a digit, …; each clause has a counterexample in
  Lemmas/ReadingExamples).  The same specification is compared with the REAL crate on every run (tools/readings.py).
-/
import SqlDt.Lemmas.ReadingMain
import SqlDt.Lemmas.ReadingExamples
namespace SqlDt.C05
open SqlDt Gen Spec Parser

theorem parse_reading (ty : Ty) (items : List (Field × Lex)) (tb : Nat) (now : Clock)
    (hwf : ∀ p ∈ items, Lemmas.Field.WellFormed p.1)
    (hfit : ∀ p ∈ items, Lex.fits ty p.1 p.2 = true) (hdel : Delimited ty items = true) :
    match denote ty items now with
    | some v => ∃ r, Parser.parse ty (items.map Prod.fst) (write items tb) now = .ok (v, r)
    | none => ∃ e, Parser.parse ty (items.map Prod.fst) (write items tb) now = .error e ∧ e ≠ .Panic :=
  Lemmas.parse_reading ty items tb now hwf hfit hdel

/-- The two halves separately. -/
theorem parse_denoted (ty : Ty) (items : List (Field × Lex)) (tb : Nat) (now : Clock) (v : Int)
    (hwf : ∀ p ∈ items, Lemmas.Field.WellFormed p.1) (hfit : ∀ p ∈ items, Lex.fits ty p.1 p.2 = true)
    (hdel : Delimited ty items = true) (hv : denote ty items now = some v) :
    ∃ r, Parser.parse ty (items.map Prod.fst) (write items tb) now = .ok (v, r) := by
  have h := parse_reading ty items tb now hwf hfit hdel
  rw [hv] at h; exact h

theorem parse_rejected (ty : Ty) (items : List (Field × Lex)) (tb : Nat) (now : Clock)
    (hwf : ∀ p ∈ items, Lemmas.Field.WellFormed p.1) (hfit : ∀ p ∈ items, Lex.fits ty p.1 p.2 = true)
    (hdel : Delimited ty items = true) (hv : denote ty items now = none) :
    ∃ e, Parser.parse ty (items.map Prod.fst) (write items tb) now = .error e ∧ e ≠ .Panic := by
  have h := parse_reading ty items tb now hwf hfit hdel
  rw [hv] at h; exact h

/-- Non-vacuity: a lenient reading of 2024-02-29 13:05:09.1234567 (blanks, '+', unpadded numbers, seven fraction digits
    rounded half-up) fits, is delimited and denotes the timestamp; and February 30 denotes nothing. -/
example :
    let items : List (Field × Lex) :=
      [(.Year 4, .num 1 .plus 0 2024), (.Hyphen, .punct 1), (.Month, .num 1 .none 0 2), (.Hyphen, .punct 1),
       (.Day, .num 0 .none 0 29), (.Blank 1, .blank 2), (.Hour24, .num 0 .none 0 13), (.Colon, .punct 1),
       (.Minute, .num 1 .none 0 5), (.Colon, .punct 1), (.Second, .num 0 .none 0 9), (.Dot, .punct 1),
       (.Fraction (some 9), .frac 1 [1, 2, 3, 4, 5, 6, 7])]
    items.all (fun p => Lex.fits .TS p.1 p.2) = true ∧ Delimited .TS items = true ∧
      denote .TS items default = some 1709211909123457 ∧
      denote .D [(.Year 4, .num 0 .none 0 2023), (.Hyphen, .punct 0), (.Month, .num 0 .none 0 2), (.Hyphen, .punct 0),
                 (.Day, .num 0 .none 0 30)] default = none := by
  decide +kernel

end SqlDt.C05
