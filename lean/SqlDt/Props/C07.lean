/-
  C07  A timestamp is exactly its (date, time-of-day) pair, before and after 1970.
  Property theorems only; helper lemmas live in Lemmas/.
-/
import SqlDt.Lemmas.Div
import SqlDt.Lemmas.FloatUse
namespace SqlDt.C07
open SqlDt Gen

/-- Splitting a combined timestamp returns the pair, for every day number and every microsecond of the day
    (negative day numbers included; no range assumption on the date is needed). -/
theorem extract_new (d t : Int) (ht : isValidTime t) :
    Timestamp.extract (Timestamp.new d t) = (d, t) := by
  rw [isValidTime_iff] at ht
  rw [Timestamp.extract_eq]; unfold Timestamp.new USECONDS_PER_DAY
  simp only [Prod.mk.injEq]; omega

/-- Combining the two halves of a timestamp gives it back. -/
theorem new_extract (ts : Int) :
    Timestamp.new (Timestamp.extract ts).1 (Timestamp.extract ts).2 = ts := by
  rw [Timestamp.extract_eq]; unfold Timestamp.new USECONDS_PER_DAY
  simp only; omega

/-- The time half is always a valid time of day. -/
theorem extract_time_valid (ts : Int) : isValidTime (Timestamp.extract ts).2 := by
  rw [isValidTime_iff, Timestamp.extract_eq]; simp only; omega

/-- `date()` and `time()` (separate code paths in the crate) agree with `extract`. -/
theorem date_time_eq_extract (ts : Int) :
    (Timestamp.date ts, Timestamp.time ts) = Timestamp.extract ts := by
  rw [Timestamp.extract_eq, Timestamp.date_eq, Timestamp.time_eq]

/-- The date half of a valid timestamp is a valid date. -/
theorem extract_date_valid (ts : Int) (h : isValidTimestamp ts) : isValidDate (Timestamp.extract ts).1 := by
  rw [isValidTimestamp_iff] at h; rw [isValidDate_iff, Timestamp.extract_eq]; simp only; omega

/-- A valid (date, time) pair combines to a valid timestamp. -/
theorem new_valid (d t : Int) (hd : isValidDate d) (ht : isValidTime t) : isValidTimestamp (Timestamp.new d t) := by
  rw [isValidDate_iff] at hd; rw [isValidTime_iff] at ht; rw [isValidTimestamp_iff]
  unfold Timestamp.new USECONDS_PER_DAY; omega

/-- Chronological order of timestamps is the lexicographic order of (date, time). -/
theorem new_le_iff (d t d' t' : Int) (ht : isValidTime t) (ht' : isValidTime t') :
    Timestamp.new d t ≤ Timestamp.new d' t' ↔ (d < d' ∨ (d = d' ∧ t ≤ t')) := by
  rw [isValidTime_iff] at ht ht'
  unfold Timestamp.new USECONDS_PER_DAY; omega

theorem new_inj (d t d' t' : Int) (ht : isValidTime t) (ht' : isValidTime t') :
    Timestamp.new d t = Timestamp.new d' t' ↔ (d = d' ∧ t = t') := by
  rw [isValidTime_iff] at ht ht'
  unfold Timestamp.new USECONDS_PER_DAY; omega

/-! Times of day ↔ (hour, minute, second, microsecond) -/

/-- `try_from_hms` accepts exactly the tuples hour<24, minute<60, second<60, µs<10^6 (arguments are u32, so ≥ 0),
    reports the first offending field, and the accepted value is the exact microsecond count. -/
theorem tryFromHms_spec (h mi s us : Int) :
    Time.tryFromHms h mi s us =
      if h ≥ 24 then .error .TimeOutOfRange
      else if mi ≥ 60 then .error .InvalidMinute
      else if s ≥ 60 then .error .InvalidSecond
      else if us ≥ 1000000 then .error .InvalidFraction
      else .ok (h * 3600000000 + mi * 60000000 + s * 1000000 + us) := by
  unfold Time.tryFromHms Time.fromHmsUnchecked HOURS_PER_DAY MINUTES_PER_HOUR SECONDS_PER_MINUTE USECONDS_MAX
    USECONDS_PER_HOUR USECONDS_PER_MINUTE USECONDS_PER_SECOND
  split; · rfl
  split; · rfl
  split; · rfl
  split
  · rename_i hx; have : us ≥ 1000000 := by omega
    simp [this]
  · rename_i hx; have : ¬ us ≥ 1000000 := by omega
    simp [this]

theorem isValid_iff (h mi s us : Int) :
    Time.isValid h mi s us = true ↔ (h < 24 ∧ mi < 60 ∧ s < 60 ∧ us ≤ 999999) := by
  unfold Time.isValid HOURS_PER_DAY MINUTES_PER_HOUR SECONDS_PER_MINUTE USECONDS_MAX
  split <;> (try split) <;> (try split) <;> (try split) <;> simp <;> omega

/-- Every accepted tuple yields a valid time of day. -/
theorem tryFromHms_valid (h mi s us v : Int) (h0 : 0 ≤ h) (m0 : 0 ≤ mi) (s0 : 0 ≤ s) (u0 : 0 ≤ us)
    (hv : Time.tryFromHms h mi s us = .ok v) : isValidTime v := by
  rw [tryFromHms_spec h mi s us] at hv
  rw [isValidTime_iff]
  split at hv; · cases hv
  split at hv; · cases hv
  split at hv; · cases hv
  split at hv; · cases hv
  cases hv; omega

/-- extract ∘ try_from_hms = id on accepted tuples. -/
theorem extract_fromHms (h mi s us : Int) (h0 : 0 ≤ h) (m0 : 0 ≤ mi) (s0 : 0 ≤ s) (u0 : 0 ≤ us)
    (hh : h < 24) (hm : mi < 60) (hs : s < 60) (hu : us < 1000000) :
    Time.extract (Time.fromHmsUnchecked h mi s us) = (h, mi, s, us) := by
  have p : 0 ≤ Time.fromHmsUnchecked h mi s us := by
    unfold Time.fromHmsUnchecked USECONDS_PER_HOUR USECONDS_PER_MINUTE USECONDS_PER_SECOND; omega
  rw [Time.extract_eq _ p]
  unfold Time.fromHmsUnchecked USECONDS_PER_HOUR USECONDS_PER_MINUTE USECONDS_PER_SECOND
  simp only [Prod.mk.injEq]
  refine ⟨?_, ?_, ?_, ?_⟩ <;> omega

/-- try_from_hms ∘ extract = id on valid times, and the extracted fields are in range. -/
theorem fromHms_extract (t : Int) (ht : isValidTime t) :
    0 ≤ (Time.extract t).1 ∧ (Time.extract t).1 < 24 ∧ 0 ≤ (Time.extract t).2.1 ∧ (Time.extract t).2.1 < 60 ∧
    0 ≤ (Time.extract t).2.2.1 ∧ (Time.extract t).2.2.1 < 60 ∧ 0 ≤ (Time.extract t).2.2.2 ∧
    (Time.extract t).2.2.2 < 1000000 ∧
    Time.fromHmsUnchecked (Time.extract t).1 (Time.extract t).2.1 (Time.extract t).2.2.1 (Time.extract t).2.2.2 = t := by
  rw [isValidTime_iff] at ht
  rw [Time.extract_eq _ ht.1]
  unfold Time.fromHmsUnchecked USECONDS_PER_HOUR USECONDS_PER_MINUTE USECONDS_PER_SECOND
  simp only
  refine ⟨?_, ?_, ?_, ?_, ?_, ?_, ?_, ?_, ?_⟩ <;> omega

/-- `try_from_usecs` gate. -/
theorem tryFromUsecs_spec (u : Int) :
    Time.tryFromUsecs u = if 0 ≤ u ∧ u < 86400000000 then .ok u else .error .TimeOutOfRange := by
  unfold Time.tryFromUsecs
  by_cases h : isValidTime u
  · have h' := (isValidTime_iff u).1 h; simp [h, h']
  · have h' : ¬ (0 ≤ u ∧ u < 86400000000) := fun x => h ((isValidTime_iff u).2 x)
    simp [h, h']

/-- The hour / minute accessors of a time of day are the extracted fields. -/
theorem accessors_eq_extract (t : Int) (ht : isValidTime t) :
    Time.hour t = (Time.extract t).1 ∧ Time.minute t = (Time.extract t).2.1 := by
  rw [isValidTime_iff] at ht
  rw [Time.extract_eq _ ht.1, Time.hour_eq _ ht.1, Time.minute_eq _ ht.1]
  exact ⟨rfl, rfl⟩

/-- The `second()` accessor (of a time of day, hence of a timestamp and an Oracle-style date, which delegate to it) is
    the double NEAREST to `(seconds·10^6 + µs) / 10^6`: one correctly rounded division of the exact sub-minute count. -/
theorem second_correctly_rounded (t : Int) (ht : isValidTime t) :
    Time.second t = F64.round false (t % 60000000).toNat 1000000 :=
  Lemmas.Time.second_eq t ((isValidTime_iff t).1 ht)

/-- Non-vacuity: the hypotheses are met by the extreme and an interior value. -/
example : isValidTime 0 ∧ isValidTime 86399999999 ∧ isValidTimestamp (Timestamp.new (-719162) 0) ∧
    isValidTimestamp (Timestamp.new 2932896 86399999999) ∧ isValidDate (-1) := by decide

end SqlDt.C07
