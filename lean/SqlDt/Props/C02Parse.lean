/-
  C02 (continuation): the text entry points.  Kept apart from Props/C02.lean because the lemmas it cites
  (Lemmas/RoundTripValid) themselves build on the rows proved there.
-/
import SqlDt.Lemmas.RoundTrip
namespace SqlDt.C02
open SqlDt Gen

/-- `T::parse(text, picture)`: whatever it returns – for ANY picture fields, ANY text and ANY clock – lies inside the
    type's documented range (whole seconds for the Oracle-style date). -/
theorem parse_valid (ty : Ty) (fields : List Field) (input : Bytes) (now : Clock) (v : Int) (r : Nat)
    (h : Parser.parse ty fields input now = .ok (v, r)) : ty.Valid v :=
  Lemmas.parse_valid ty fields input now v r h

/-- The same through the picture lexer: `parseValue` is `Formatter::try_new` followed by `parse`. -/
theorem parseValue_valid (ty : Ty) (text pic : Bytes) (now : Clock) (v : Int) (r : Nat)
    (h : parseValue ty text pic now = .ok (v, r)) : ty.Valid v := by
  unfold parseValue at h
  cases hl : Lexer.tryNew pic with
  | error e => rw [hl] at h; cases h
  | ok fields => rw [hl] at h; exact parse_valid ty fields text now v r h

/-- Human-readable deserialisation (`visit_str`) is one such entry point. -/
theorem deStr_valid (ty : Ty) (text : Bytes) (now : Clock) (v : Int) (h : Serde.deStr ty text now = .ok v) : ty.Valid v :=
  Lemmas.deStr_valid ty text now v h

/-- Non-vacuity: texts at and just beyond the range through the parser. -/
example : (parseValue .D (bytesOf "9999-12-31") (bytesOf "YYYY-MM-DD") default).toOption.map Prod.fst = some 2932896 ∧
    (parseValue .D (bytesOf "0000-12-31") (bytesOf "YYYY-MM-DD") default).toOption = none ∧
    (parseValue .DT (bytesOf "100000000 00:00:00.000001") (bytesOf "DD HH24:MI:SS.FF6") default).toOption = none := by
  decide +kernel

end SqlDt.C02
