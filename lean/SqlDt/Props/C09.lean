/-
  C09  Adding months keeps the day of month and time, or fails; month ends are exact.
  (Layer 1: the year/month carry is floor division by 12 for every offset in the interval range and
   cannot overflow i32; subtraction is addition of the negation; the time of day is carried unchanged.)
-/
import SqlDt.Lemmas.Div
import SqlDt.Props.C01
namespace SqlDt.C09
open SqlDt Gen Spec

/-- The two truncating-division branches of the carry compute floor division of the absolute month index:
    target = (t / 12, t mod 12 + 1) with t = 12·year + (month − 1) + k, for every month 1..12 and EVERY integer k. -/
theorem monthCarry_floor (year month k : Int) (hm : 1 ≤ month ∧ month ≤ 12) :
    Date.monthCarry year month k =
      ((12 * year + (month - 1) + k) / 12, (12 * year + (month - 1) + k) % 12 + 1) := by
  unfold Date.monthCarry MONTHS_PER_YEAR
  simp only []
  by_cases h1 : month + k > 12
  · simp only [h1, ↓reduceIte]
    rw [rdiv_nonneg_eq (by omega), rrem_nonneg_eq (by omega)]
    simp only [Prod.mk.injEq]; omega
  · simp only [h1, ↓reduceIte]
    by_cases h2 : month + k < 1
    · simp only [h2, ↓reduceIte]
      by_cases h3 : month + k = 0
      · rw [h3]; simp only [rdiv, rrem]; simp only [Prod.mk.injEq]; omega
      · rw [rdiv_neg_eq (by omega), rrem_neg_eq (by omega)]
        simp only [Prod.mk.injEq]; omega
    · simp only [h2, ↓reduceIte, Prod.mk.injEq]; omega

/-- The resulting month is always a real month. -/
theorem monthCarry_month_range (year month k : Int) (hm : 1 ≤ month ∧ month ≤ 12) :
    1 ≤ (Date.monthCarry year month k).2 ∧ (Date.monthCarry year month k).2 ≤ 12 := by
  rw [monthCarry_floor year month k hm]; simp only; omega

/-- No i32 overflow: `month as i32 + interval.months()` and the carried year stay inside i32 for every
    offset in the interval range. -/
theorem monthCarry_no_overflow (year month k : Int) (hy : 1 ≤ year ∧ year ≤ 9999) (hm : 1 ≤ month ∧ month ≤ 12)
    (hk : IntervalYM.isValidMonths k) :
    fitsI32 (month + k) ∧ fitsI32 (Date.monthCarry year month k).1 := by
  unfold IntervalYM.isValidMonths INTERVAL_MAX_MONTH at hk
  rw [monthCarry_floor year month k hm]
  unfold fitsI32 I32_MIN I32_MAX; simp only; omega

/-- Subtracting a year-month interval is adding its negation (Date, Timestamp and OracleDate). -/
theorem ts_sub_eq_add_neg (ts i : Int) : Timestamp.subIntervalYm ts i = Timestamp.addIntervalYm ts (-i) := rfl
theorem od_sub_eq_add_neg (od i : Int) : OracleDate.subIntervalYm od i = OracleDate.addIntervalYm od (-i) := rfl

/-- On a timestamp the time of day is carried over unchanged: the result is the moved date at the same time. -/
theorem ts_addIntervalYm_eq (ts i : Int) :
    Timestamp.addIntervalYm ts i =
      (Date.addIntervalYmInternal (ts / 86400000000) i).map (fun d => Timestamp.new d (ts % 86400000000)) := by
  unfold Timestamp.addIntervalYm
  rw [Timestamp.extract_eq]
  cases h : Date.addIntervalYmInternal (ts / 86400000000) i <;>
    simp [h, Except.map, bind, Except.bind, pure, Except.pure]

/-- Adding zero months changes nothing, whenever the receiver's own (y, m, d) is accepted. -/
theorem monthCarry_zero (year month : Int) (hm : 1 ≤ month ∧ month ≤ 12) :
    Date.monthCarry year month 0 = (year, month) := by
  rw [monthCarry_floor year month 0 hm]; simp only [Prod.mk.injEq]; omega

/-- Adding k then −k months returns to the same (year, month). -/
theorem monthCarry_inverse (year month k : Int) (hm : 1 ≤ month ∧ month ≤ 12) :
    Date.monthCarry (Date.monthCarry year month k).1 (Date.monthCarry year month k).2 (-k) = (year, month) := by
  have h2 := monthCarry_month_range year month k hm
  rw [monthCarry_floor _ _ (-k) h2, monthCarry_floor year month k hm]
  simp only [Prod.mk.injEq]; omega

/-! ## Layer 2: on the calendar -/

/-- Target of adding `k` months to (y, m): floor division of the absolute month index. -/
def targetYear (y m k : Int) : Int := (12 * y + (m - 1) + k) / 12
def targetMonth (y m k : Int) : Int := (12 * y + (m - 1) + k) % 12 + 1

/-- ADDING MONTHS, for every real date of years 1..9999 and EVERY integer offset: same day of month in the month `k`
    months away; `DateOutOfRange` exactly when the target year leaves 1..9999, `InvalidDate` exactly when the target month
    has no such day (never clamped, never spilled into the next month). -/
theorem addMonths_spec (y m d k : Int) (h : ValidYMD y m d) :
    Date.addIntervalYmInternal (dayNumber y m d) k =
      if targetYear y m k < 1 ∨ targetYear y m k > 9999 then .error .DateOutOfRange
      else if d > dim (targetYear y m k) (targetMonth y m k) then .error .InvalidDate
      else .ok (dayNumber (targetYear y m k) (targetMonth y m k) d) := by
  obtain ⟨_, _, hex⟩ := C01.tryFromYmd_roundtrip y m d h
  obtain ⟨y1, y9, m1, m12, d1, dd⟩ := h
  unfold Date.addIntervalYmInternal
  rw [hex]
  simp only []
  rw [monthCarry_floor y m k ⟨m1, m12⟩]
  simp only []
  rw [C01.tryFromYmd_classify]
  unfold targetYear targetMonth
  have d31 : d ≤ 31 := by
    unfold dim at dd; split at dd
    · split at dd <;> omega
    · split at dd <;> omega
  by_cases c1 : (12 * y + (m - 1) + k) / 12 < 1 ∨ (12 * y + (m - 1) + k) / 12 > 9999
  · rw [if_pos c1, if_pos c1]
  · rw [if_neg c1, if_neg c1]
    have c2 : ¬ ((12 * y + (m - 1) + k) % 12 + 1 < 1 ∨ (12 * y + (m - 1) + k) % 12 + 1 > 12) := by omega
    have c3 : ¬ (d < 1 ∨ d > 31) := by omega
    rw [if_neg c2, if_neg c3, Lemmas.daysOfMonth_eq _ _ (by omega) (by omega)]
    by_cases c4 : d > dim ((12 * y + (m - 1) + k) / 12) ((12 * y + (m - 1) + k) % 12 + 1)
    · rw [if_pos c4, if_pos c4]
    · rw [if_neg c4, if_neg c4, ← UNIX_EPOCH_JULIAN_eq]
      exact congrArg _ (Lemmas.fromYmd_eq_dayNumber _ _ d (by omega) (by omega))

/-- LAST DAY OF MONTH: the final day (28, 29, 30 or 31) of the date's own month; always a valid date. -/
theorem lastDayOfMonth_spec (y m d : Int) (h : ValidYMD y m d) :
    Date.lastDayOfMonth (dayNumber y m d) = dayNumber y m (dim y m) ∧ ValidYMD y m (dim y m) := by
  obtain ⟨_, _, hex⟩ := C01.tryFromYmd_roundtrip y m d h
  obtain ⟨y1, y9, m1, m12, d1, dd⟩ := h
  unfold Date.lastDayOfMonth
  rw [hex]
  simp only []
  rw [Lemmas.daysOfMonth_eq _ _ (by omega) ⟨m1, m12⟩]
  refine ⟨?_, y1, y9, m1, m12, by omega, Int.le_refl _⟩
  unfold dayNumber; omega

/-- On a timestamp the time of day is unchanged: the result is the same microsecond of the last day of the month. -/
theorem ts_lastDayOfMonth_spec (x y m d : Int) (h : ValidYMD y m d) (hd : dayNumber y m d = x / 86400000000) :
    Timestamp.lastDayOfMonth x = dayNumber y m (dim y m) * 86400000000 + x % 86400000000 := by
  obtain ⟨_, _, hex⟩ := C01.tryFromYmd_roundtrip y m d h
  obtain ⟨y1, y9, m1, m12, d1, dd⟩ := h
  unfold Timestamp.lastDayOfMonth
  rw [Timestamp.extract_eq]
  simp only []
  rw [← hd, hex]
  simp only []
  rw [Lemmas.daysOfMonth_eq _ _ (by omega) ⟨m1, m12⟩]
  unfold USECONDS_PER_DAY dayNumber at *
  omega

example : Date.monthCarry 2021 1 (-1) = (2020, 12) ∧ Date.monthCarry 2021 12 1 = (2022, 1) ∧
    Date.monthCarry 2021 6 (-18) = (2019, 12) ∧ Date.addIntervalYmInternal 18657 1 = .error .InvalidDate := by decide

end SqlDt.C09
