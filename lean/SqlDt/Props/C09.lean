/-
  C09  Adding months keeps the day of month and time, or fails; month ends are exact.
  (Layer 1: the year/month carry is floor division by 12 for every offset in the interval range and
   cannot overflow i32; subtraction is addition of the negation; the time of day is carried unchanged.)
-/
import SqlDt.Lemmas.Div
namespace SqlDt.C09
open SqlDt Gen

/-- The two truncating-division branches of the carry compute floor division of the absolute month index:
    target = (t / 12, t mod 12 + 1) with t = 12·year + (month − 1) + k, for every month 1..12 and EVERY integer k. -/
theorem monthCarry_floor (year month k : Int) (hm : 1 ≤ month ∧ month ≤ 12) :
    Date.monthCarry year month k =
      ((12 * year + (month - 1) + k) / 12, (12 * year + (month - 1) + k) % 12 + 1) := by
  unfold Date.monthCarry MONTHS_PER_YEAR
  simp only []
  by_cases h1 : month + k > 12
  · simp only [h1, ↓reduceIte]
    rw [rdiv_nonneg_eq (by omega), rrem_nonneg_eq (by omega)]
    simp only [Prod.mk.injEq]; omega
  · simp only [h1, ↓reduceIte]
    by_cases h2 : month + k < 1
    · simp only [h2, ↓reduceIte]
      by_cases h3 : month + k = 0
      · rw [h3]; simp only [rdiv, rrem]; simp only [Prod.mk.injEq]; omega
      · rw [rdiv_neg_eq (by omega), rrem_neg_eq (by omega)]
        simp only [Prod.mk.injEq]; omega
    · simp only [h2, ↓reduceIte, Prod.mk.injEq]; omega

/-- The resulting month is always a real month. -/
theorem monthCarry_month_range (year month k : Int) (hm : 1 ≤ month ∧ month ≤ 12) :
    1 ≤ (Date.monthCarry year month k).2 ∧ (Date.monthCarry year month k).2 ≤ 12 := by
  rw [monthCarry_floor year month k hm]; simp only; omega

/-- No i32 overflow: `month as i32 + interval.months()` and the carried year stay inside i32 for every
    offset in the interval range. -/
theorem monthCarry_no_overflow (year month k : Int) (hy : 1 ≤ year ∧ year ≤ 9999) (hm : 1 ≤ month ∧ month ≤ 12)
    (hk : IntervalYM.isValidMonths k) :
    fitsI32 (month + k) ∧ fitsI32 (Date.monthCarry year month k).1 := by
  unfold IntervalYM.isValidMonths INTERVAL_MAX_MONTH at hk
  rw [monthCarry_floor year month k hm]
  unfold fitsI32 I32_MIN I32_MAX; simp only; omega

/-- Subtracting a year-month interval is adding its negation (Date, Timestamp and OracleDate). -/
theorem ts_sub_eq_add_neg (ts i : Int) : Timestamp.subIntervalYm ts i = Timestamp.addIntervalYm ts (-i) := rfl
theorem od_sub_eq_add_neg (od i : Int) : OracleDate.subIntervalYm od i = OracleDate.addIntervalYm od (-i) := rfl

/-- On a timestamp the time of day is carried over unchanged: the result is the moved date at the same time. -/
theorem ts_addIntervalYm_eq (ts i : Int) :
    Timestamp.addIntervalYm ts i =
      (Date.addIntervalYmInternal (ts / 86400000000) i).map (fun d => Timestamp.new d (ts % 86400000000)) := by
  unfold Timestamp.addIntervalYm
  rw [Timestamp.extract_eq]
  cases h : Date.addIntervalYmInternal (ts / 86400000000) i <;>
    simp [h, Except.map, bind, Except.bind, pure, Except.pure]

/-- Adding zero months changes nothing, whenever the receiver's own (y, m, d) is accepted. -/
theorem monthCarry_zero (year month : Int) (hm : 1 ≤ month ∧ month ≤ 12) :
    Date.monthCarry year month 0 = (year, month) := by
  rw [monthCarry_floor year month 0 hm]; simp only [Prod.mk.injEq]; omega

/-- Adding k then −k months returns to the same (year, month). -/
theorem monthCarry_inverse (year month k : Int) (hm : 1 ≤ month ∧ month ≤ 12) :
    Date.monthCarry (Date.monthCarry year month k).1 (Date.monthCarry year month k).2 (-k) = (year, month) := by
  have h2 := monthCarry_month_range year month k hm
  rw [monthCarry_floor _ _ (-k) h2, monthCarry_floor year month k hm]
  simp only [Prod.mk.injEq]; omega

example : Date.monthCarry 2021 1 (-1) = (2020, 12) ∧ Date.monthCarry 2021 12 1 = (2022, 1) ∧
    Date.monthCarry 2021 6 (-18) = (2019, 12) ∧ Date.addIntervalYmInternal 18657 1 = .error .InvalidDate := by decide

end SqlDt.C09
