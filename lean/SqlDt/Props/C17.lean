/-
  C17  Date, timestamp and Oracle-style date agree on the same instant.
-/
import SqlDt.Lemmas.Div
namespace SqlDt.C17
open SqlDt Gen

/-- The timestamp of a date's midnight. -/
def midnight (d : Int) : Int := Timestamp.new d 0

theorem date_midnight (d : Int) : Timestamp.date (midnight d) = d := by
  rw [Timestamp.date_eq]; unfold midnight Timestamp.new USECONDS_PER_DAY; omega

theorem time_midnight (d : Int) : Timestamp.time (midnight d) = 0 := by
  rw [Timestamp.time_eq]; unfold midnight Timestamp.new USECONDS_PER_DAY; omega

theorem extract_midnight (d : Int) : Timestamp.extract (midnight d) = (d, 0) := by
  rw [Timestamp.extract_eq]; unfold midnight Timestamp.new USECONDS_PER_DAY
  simp only [Prod.mk.injEq]; omega

/-- For the nine date-sized units `Timestamp` truncation is `Date` truncation of the date part, at midnight. -/
theorem trunc_dateUnit (u : TUnit) (hu : u ≠ .day ∧ u ≠ .hour ∧ u ≠ .minute) (ts : Int) :
    Timestamp.trunc u ts = (Date.trunc u (Timestamp.date ts)).map midnight := by
  cases u <;> simp at hu <;>
    (simp only [Timestamp.trunc]
     cases h : Date.trunc _ (Timestamp.date ts) <;>
       simp [Except.map, bind, Except.bind, pure, Except.pure, midnight])

/-- Truncation through `Timestamp` at a date's midnight = truncation through `Date`, at midnight
    (all twelve units; an error on one side is the same error on the other). -/
theorem trunc_midnight (u : TUnit) (d : Int) :
    Timestamp.trunc u (midnight d) = (Date.trunc u d).map midnight := by
  by_cases hu : u ≠ .day ∧ u ≠ .hour ∧ u ≠ .minute
  · rw [trunc_dateUnit u hu, date_midnight]
  · have : u = .day ∨ u = .hour ∨ u = .minute := by
      cases u <;> simp at hu ⊢
    rcases this with rfl | rfl | rfl
    · simp only [Timestamp.trunc, Date.trunc, date_midnight, Except.map]; rfl
    · simp only [Timestamp.trunc, Date.trunc, date_midnight, Except.map, Timestamp.hour, time_midnight]
      rfl
    · simp only [Timestamp.trunc, Date.trunc, date_midnight, Except.map, time_midnight]
      rfl

/-- An Oracle-style operation is the timestamp operation followed by the floor to the second. -/
theorem od_trunc_eq (u : TUnit) (od : Int) :
    OracleDate.trunc u od = (Timestamp.trunc u od).map OracleDate.fromTimestamp := by
  unfold OracleDate.trunc; cases Timestamp.trunc u od <;> rfl

theorem od_round_eq (u : TUnit) (od : Int) :
    OracleDate.round u od = (Timestamp.round u od).map OracleDate.fromTimestamp := by
  unfold OracleDate.round; cases Timestamp.round u od <;> rfl

theorem od_lastDay_eq (od : Int) :
    OracleDate.lastDayOfMonth od = OracleDate.fromTimestamp (Timestamp.lastDayOfMonth od) := rfl

/-- Last day of month through `Timestamp` at midnight = through `Date`. -/
theorem lastDay_midnight (d : Int) : Timestamp.lastDayOfMonth (midnight d) = midnight (Date.lastDayOfMonth d) := by
  unfold Timestamp.lastDayOfMonth Date.lastDayOfMonth
  rw [extract_midnight]
  simp only [midnight, Timestamp.new, USECONDS_PER_DAY]
  omega

/-- Adding months through `Timestamp` at midnight = through `Date` (the public `Date::add_interval_ym`
    returns exactly this timestamp). -/
theorem addYm_midnight (d i : Int) :
    Timestamp.addIntervalYm (midnight d) i = (Date.addIntervalYmInternal d i).map midnight := by
  unfold Timestamp.addIntervalYm
  rw [extract_midnight]
  cases h : Date.addIntervalYmInternal d i <;>
    simp [h, Except.map, bind, Except.bind, pure, Except.pure, midnight]

/-- Mixed comparisons compare the converted microsecond counts: date vs timestamp is
    `midnight d` vs `ts`; this is an order embedding of dates into timestamps. -/
theorem midnight_lt_iff (a b : Int) : midnight a < midnight b ↔ a < b := by
  unfold midnight Timestamp.new USECONDS_PER_DAY; omega

theorem midnight_inj (a b : Int) : midnight a = midnight b ↔ a = b := by
  unfold midnight Timestamp.new USECONDS_PER_DAY; omega

/-- A date is before/at/after a timestamp exactly when it is before/at/after the timestamp's own date
    (taking the time of day into account for equality). -/
theorem midnight_le_ts_iff (d ts : Int) : midnight d ≤ ts ↔ d ≤ Timestamp.date ts := by
  rw [Timestamp.date_eq]; unfold midnight Timestamp.new USECONDS_PER_DAY; omega

theorem shiftHalfDay_midnight (d : Int) : Timestamp.shiftHalfDay (midnight d) = .ok d := by
  unfold Timestamp.shiftHalfDay
  rw [extract_midnight]
  simp only []
  have : ¬ Time.hour 0 ≥ 12 := by decide
  simp only [this, ↓reduceIte]

theorem date_new0 (d : Int) : Timestamp.date (Timestamp.new d 0) = d := date_midnight d
theorem time_new0 (d : Int) : Timestamp.time (Timestamp.new d 0) = 0 := time_midnight d
theorem shift_new0 (d : Int) : Timestamp.shiftHalfDay (Timestamp.new d 0) = .ok d := shiftHalfDay_midnight d

/-- Rounding through `Timestamp` at a date's midnight = rounding through `Date`, at midnight: all twelve units,
    errors included (this is agreement between the types; what the rounded value IS, is C11). -/
theorem round_midnight (u : TUnit) (d : Int) :
    Timestamp.round u (midnight d) = (Date.round u d).map midnight := by
  cases u <;>
    simp only [Timestamp.round, Date.round, midnight, date_new0, time_new0, Timestamp.hour, shift_new0,
      bind, Except.bind, pure, Except.pure, Except.map, Date.roundWeek, Date.roundMonthStartWeek,
      Date.year, Date.day]
  all_goals first
    | rfl
    | (have h12 : ¬ Time.hour 0 ≥ 12 := by decide
       simp only [h12, ↓reduceIte]; done)
    | (have e : Time.extract 0 = (0, 0, 0, 0) := by decide
       simp only [e]; rfl)


example : midnight 0 = 0 ∧ midnight (-1) = -86400000000 ∧ Timestamp.trunc .hour (midnight 5) = .ok (midnight 5) := by decide

/-- DIFFERENCES: the difference of two dates taken through their midnight timestamps is the day difference in
    microseconds (so `Date::sub_date`, `Date::sub_timestamp`, `Timestamp::sub_date` describe the same distance). -/
theorem sub_midnight (a b : Int) :
    Timestamp.subTimestamp (midnight a) (midnight b) = Date.subDate a b * 86400000000 ∧
    Timestamp.subDate (midnight a) b = Date.subDate a b * 86400000000 := by
  unfold Timestamp.subDate Timestamp.subTimestamp Date.subDate midnight Timestamp.new USECONDS_PER_DAY
  constructor <;> omega

/-- WHOLE DAYS: adding `k` days to a date = adding the interval of `k` days to its midnight timestamp, errors included
    (for every valid date and every i32 `k`). -/
theorem addDays_midnight (d k : Int) (hd : isValidDate d) (_hk : fitsI32 k) :
    (Date.addDays d k).map midnight = Timestamp.addIntervalDt (midnight d) (k * 86400000000) := by
  have hv := (isValidDate_iff d).1 hd
  have em : midnight d + k * 86400000000 = (d + k) * 86400000000 := by
    unfold midnight Timestamp.new USECONDS_PER_DAY; omega
  by_cases hr : isValidDate (d + k)
  · -- the exact result is a date: both paths return it
    have hr' := (isValidDate_iff _).1 hr
    have h1 : fitsI32 (d + k) := by unfold fitsI32 I32_MIN I32_MAX; omega
    have h2 : fitsI64 (midnight d + k * 86400000000) := by rw [em]; unfold fitsI64 I64_MIN I64_MAX; omega
    have h3 : isValidTimestamp (midnight d + k * 86400000000) := by rw [em, isValidTimestamp_iff]; omega
    simp only [Date.addDays, Timestamp.addIntervalDt, checkedI32, checkedI64, h1, h2, ↓reduceIte, Date.tryFromDays,
      Timestamp.tryFromUsecs, hr, h3, Except.map]
    rw [em]; unfold midnight Timestamp.new USECONDS_PER_DAY; congr 1; omega
  · -- it is not: both paths report DateOutOfRange (whether or not the intermediate fits the machine integer)
    have hr' : ¬ (-719162 ≤ d + k ∧ d + k ≤ 2932896) := fun h => hr ((isValidDate_iff _).2 h)
    have h3 : ¬ isValidTimestamp (midnight d + k * 86400000000) := by rw [em, isValidTimestamp_iff]; omega
    have eD : Date.addDays d k = .error .DateOutOfRange := by
      unfold Date.addDays checkedI32
      by_cases h1 : fitsI32 (d + k)
      · simp only [h1, ↓reduceIte, Date.tryFromDays, hr]
      · simp only [h1, ↓reduceIte]
    have eT : Timestamp.addIntervalDt (midnight d) (k * 86400000000) = .error .DateOutOfRange := by
      unfold Timestamp.addIntervalDt checkedI64
      by_cases h2 : fitsI64 (midnight d + k * 86400000000)
      · simp only [h2, ↓reduceIte, Timestamp.tryFromUsecs, h3]
      · simp only [h2, ↓reduceIte]
    rw [eD, eT]; rfl

end SqlDt.C17
