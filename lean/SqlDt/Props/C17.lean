/-
  C17  Date, timestamp and Oracle-style date agree on the same instant.
-/
import SqlDt.Lemmas.Div
namespace SqlDt.C17
open SqlDt Gen

/-- The timestamp of a date's midnight. -/
def midnight (d : Int) : Int := Timestamp.new d 0

theorem date_midnight (d : Int) : Timestamp.date (midnight d) = d := by
  rw [Timestamp.date_eq]; unfold midnight Timestamp.new USECONDS_PER_DAY; omega

theorem time_midnight (d : Int) : Timestamp.time (midnight d) = 0 := by
  rw [Timestamp.time_eq]; unfold midnight Timestamp.new USECONDS_PER_DAY; omega

theorem extract_midnight (d : Int) : Timestamp.extract (midnight d) = (d, 0) := by
  rw [Timestamp.extract_eq]; unfold midnight Timestamp.new USECONDS_PER_DAY
  simp only [Prod.mk.injEq]; omega

/-- For the nine date-sized units `Timestamp` truncation is `Date` truncation of the date part, at midnight. -/
theorem trunc_dateUnit (u : TUnit) (hu : u ≠ .day ∧ u ≠ .hour ∧ u ≠ .minute) (ts : Int) :
    Timestamp.trunc u ts = (Date.trunc u (Timestamp.date ts)).map midnight := by
  cases u <;> simp at hu <;>
    (simp only [Timestamp.trunc]
     cases h : Date.trunc _ (Timestamp.date ts) <;>
       simp [Except.map, bind, Except.bind, pure, Except.pure, midnight])

/-- Truncation through `Timestamp` at a date's midnight = truncation through `Date`, at midnight
    (all twelve units; an error on one side is the same error on the other). -/
theorem trunc_midnight (u : TUnit) (d : Int) :
    Timestamp.trunc u (midnight d) = (Date.trunc u d).map midnight := by
  by_cases hu : u ≠ .day ∧ u ≠ .hour ∧ u ≠ .minute
  · rw [trunc_dateUnit u hu, date_midnight]
  · have : u = .day ∨ u = .hour ∨ u = .minute := by
      cases u <;> simp at hu ⊢
    rcases this with rfl | rfl | rfl
    · simp only [Timestamp.trunc, Date.trunc, date_midnight, Except.map]; rfl
    · simp only [Timestamp.trunc, Date.trunc, date_midnight, Except.map, Timestamp.hour, time_midnight]
      rfl
    · simp only [Timestamp.trunc, Date.trunc, date_midnight, Except.map, time_midnight]
      rfl

/-- An Oracle-style operation is the timestamp operation followed by the floor to the second. -/
theorem od_trunc_eq (u : TUnit) (od : Int) :
    OracleDate.trunc u od = (Timestamp.trunc u od).map OracleDate.fromTimestamp := by
  unfold OracleDate.trunc; cases Timestamp.trunc u od <;> rfl

theorem od_round_eq (u : TUnit) (od : Int) :
    OracleDate.round u od = (Timestamp.round u od).map OracleDate.fromTimestamp := by
  unfold OracleDate.round; cases Timestamp.round u od <;> rfl

theorem od_lastDay_eq (od : Int) :
    OracleDate.lastDayOfMonth od = OracleDate.fromTimestamp (Timestamp.lastDayOfMonth od) := rfl

/-- Last day of month through `Timestamp` at midnight = through `Date`. -/
theorem lastDay_midnight (d : Int) : Timestamp.lastDayOfMonth (midnight d) = midnight (Date.lastDayOfMonth d) := by
  unfold Timestamp.lastDayOfMonth Date.lastDayOfMonth
  rw [extract_midnight]
  simp only [midnight, Timestamp.new, USECONDS_PER_DAY]
  omega

/-- Adding months through `Timestamp` at midnight = through `Date` (the public `Date::add_interval_ym`
    returns exactly this timestamp). -/
theorem addYm_midnight (d i : Int) :
    Timestamp.addIntervalYm (midnight d) i = (Date.addIntervalYmInternal d i).map midnight := by
  unfold Timestamp.addIntervalYm
  rw [extract_midnight]
  cases h : Date.addIntervalYmInternal d i <;>
    simp [h, Except.map, bind, Except.bind, pure, Except.pure, midnight]

/-- Mixed comparisons compare the converted microsecond counts: date vs timestamp is
    `midnight d` vs `ts`; this is an order embedding of dates into timestamps. -/
theorem midnight_lt_iff (a b : Int) : midnight a < midnight b ↔ a < b := by
  unfold midnight Timestamp.new USECONDS_PER_DAY; omega

theorem midnight_inj (a b : Int) : midnight a = midnight b ↔ a = b := by
  unfold midnight Timestamp.new USECONDS_PER_DAY; omega

/-- A date is before/at/after a timestamp exactly when it is before/at/after the timestamp's own date
    (taking the time of day into account for equality). -/
theorem midnight_le_ts_iff (d ts : Int) : midnight d ≤ ts ↔ d ≤ Timestamp.date ts := by
  rw [Timestamp.date_eq]; unfold midnight Timestamp.new USECONDS_PER_DAY; omega

theorem shiftHalfDay_midnight (d : Int) : Timestamp.shiftHalfDay (midnight d) = .ok d := by
  unfold Timestamp.shiftHalfDay
  rw [extract_midnight]
  simp only []
  have : ¬ Time.hour 0 ≥ 12 := by decide
  simp only [this, ↓reduceIte]

theorem date_new0 (d : Int) : Timestamp.date (Timestamp.new d 0) = d := date_midnight d
theorem time_new0 (d : Int) : Timestamp.time (Timestamp.new d 0) = 0 := time_midnight d
theorem shift_new0 (d : Int) : Timestamp.shiftHalfDay (Timestamp.new d 0) = .ok d := shiftHalfDay_midnight d

/-- Rounding through `Timestamp` at a date's midnight = rounding through `Date`, at midnight: all twelve units,
    errors included (this is agreement between the types; what the rounded value IS, is C11). -/
theorem round_midnight (u : TUnit) (d : Int) :
    Timestamp.round u (midnight d) = (Date.round u d).map midnight := by
  cases u <;>
    simp only [Timestamp.round, Date.round, midnight, date_new0, time_new0, Timestamp.hour, shift_new0,
      bind, Except.bind, pure, Except.pure, Except.map, Date.roundWeek, Date.roundMonthStartWeek,
      Date.year, Date.day]
  all_goals first
    | rfl
    | (have h12 : ¬ Time.hour 0 ≥ 12 := by decide
       simp only [h12, ↓reduceIte]; done)
    | (have e : Time.extract 0 = (0, 0, 0, 0) := by decide
       simp only [e]; rfl)


example : midnight 0 = 0 ∧ midnight (-1) = -86400000000 ∧ Timestamp.trunc .hour (midnight 5) = .ok (midnight 5) := by decide

end SqlDt.C17
