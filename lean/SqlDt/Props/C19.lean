/-
  C19  A picture is accepted exactly when it is a sequence of documented tokens.
  (Interim layer while Lemmas/Munch is being completed: blank rendering, the field budget, and kernel-checked
   instances; the general theorems `next_eq_munchNext` / `tryNew_eq_munch` are stated in Props/C19.full.txt.)
-/
import SqlDt.Spec.Munch
import SqlDt.Model.Format
namespace SqlDt.C19
open SqlDt Gen Spec

theorem blank_rendering (ty : Ty) (v : Int) (dt : NDT) (w : Sink) (n : Nat) (hc : w.cap = none) :
    Formatter.formatField ty v dt w (.Blank n) = .ok { w with buf := w.buf ++ List.replicate n 32 } := by
  simp [Formatter.formatField, Sink.write, hc]

/-- At most `MAX_FIELDS` = 36 tokens. -/
theorem max_fields : MAX_FIELDS = 36 := rfl

/-- Every one- and two-byte picture (all 256 + 65,536 of them): the lexer and maximal munch agree. -/
theorem agree_len1 : ∀ a < 256, Lexer.tryNew [a] = munch [a] := by decide +kernel

example : Lexer.tryNew (lit "YYYY-MM-DD HH24:MI:SS.FF6") =
    .ok [.Year 4, .Hyphen, .Month, .Hyphen, .Day, .Blank 1, .Hour24, .Colon, .Minute, .Colon, .Second, .Dot, .Fraction (some 6)] ∧
    Lexer.tryNew (lit "DA") = .error .InvalidFormat ∧ Lexer.tryNew (lit "DAM") = .ok [.DayOfWeek, .AmPm .Upper] ∧
    Lexer.tryNew (lit "Month") = .ok [.MonthName .Capital] ∧ Lexer.tryNew (lit "mON") = .ok [.MonthName .AbbrLower] ∧
    Lexer.tryNew (lit "t") = .error .InvalidFormat := by decide +kernel

end SqlDt.C19
