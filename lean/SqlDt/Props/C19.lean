/-
  C19  A picture is accepted exactly when it is a sequence of documented tokens.
  Main theorem: the crate's hand-written dispatch (Model/Lexer) IS the generic maximal-munch tokenizer over the
  documented token table (Spec/Munch): same accept/reject, same fields, same styles, same blank-run lengths,
  for every byte string.
-/
import SqlDt.Lemmas.Munch
import SqlDt.Model.Format
namespace SqlDt.C19
open SqlDt Gen Spec

/-- `Formatter::try_new` = maximal munch over the documented table, for EVERY byte string:
    a picture compiles exactly when it splits by case-insensitive longest match into at most `MAX_FIELDS`
    documented tokens, and then the compiled field list is that token list. -/
theorem tryNew_eq_munch (pic : Bytes) : Lexer.tryNew pic = munch pic := Lemmas.tryNew_eq_munch pic

/-- First-token agreement for every byte string — except that on `FF0…` the crate gives up at once while maximal munch
    reads `FF` and fails on the `0` one step later (`next_ff0`): same overall verdict, as `tryNew_eq_munch` shows. -/
theorem next_eq_munchNext (s : Bytes) (h : ¬ Lemmas.startsFF0 s) : Lexer.nextNorm s = munchNext s :=
  Lemmas.next_eq_munchNext s h

theorem next_ff0 (a b : Nat) (r : Bytes) (ha : a = 70 ∨ a = 102) (hb : b = 70 ∨ b = 102) :
    Lexer.nextNorm (a :: b :: 48 :: r) = some none ∧
    munchNext (a :: b :: 48 :: r) = some (some (.Fraction none, 48 :: r)) ∧
    munchNext (48 :: r) = some none := Lemmas.next_ff0 a b r ha hb

/-- A run of blanks of ANY length is one token of exactly that length … -/
theorem blank_run (n : Nat) (rest : Bytes) (h : rest.head? ≠ some 32) :
    Lexer.next (List.replicate (n + 1) 32 ++ rest) = some (.Blank (n + 1), rest) := Lemmas.blank_run n rest h

/-- … and is rendered with that many blanks. -/
theorem blank_rendering (ty : Ty) (v : Int) (dt : NDT) (w : Sink) (n : Nat) (hc : w.cap = none) :
    Formatter.formatField ty v dt w (.Blank n) = .ok { w with buf := w.buf ++ List.replicate n 32 } := by
  simp [Formatter.formatField, Sink.write, hc]

/-- The only failure of picture compilation is a format error. -/
theorem tryNew_error_kind (pic : Bytes) (e : Err) (h : Lexer.tryNew pic = .error e) : e = .InvalidFormat := by
  unfold Lexer.tryNew at h
  revert h
  generalize pic.length + 1 = fuel
  generalize ([] : List Field) = acc
  induction fuel generalizing pic acc with
  | zero => intro h; simp [Lexer.tryNewAux] at h
  | succ n ih =>
    intro h
    unfold Lexer.tryNewAux at h
    split at h
    · cases h
    · split at h
      · cases h; rfl
      · split at h
        · cases h; rfl
        · exact ih _ _ h

/-- At most `MAX_FIELDS` = 36 tokens. -/
theorem max_fields : MAX_FIELDS = 36 := rfl

/-- Name style from the first two letters; meridian style lower-case only if all letters are. -/
example : nameStyle (lit "MOnth") false = .Upper ∧ nameStyle (lit "Month") false = .Capital ∧
    nameStyle (lit "mONTH") false = .Lower ∧ nameStyle (lit "Dy") true = .AbbrCapital ∧
    ampmStyle (lit "aM") false = .Upper ∧ ampmStyle (lit "a.m.") true = .LowerDot := by decide

example : Lexer.tryNew (lit "YYYY-MM-DD HH24:MI:SS.FF6") =
    .ok [.Year 4, .Hyphen, .Month, .Hyphen, .Day, .Blank 1, .Hour24, .Colon, .Minute, .Colon, .Second, .Dot, .Fraction (some 6)] ∧
    Lexer.tryNew (lit "DA") = .error .InvalidFormat ∧ Lexer.tryNew (lit "DAM") = .ok [.DayOfWeek, .AmPm .Upper] ∧
    Lexer.tryNew (lit "Month") = .ok [.MonthName .Capital] ∧ Lexer.tryNew (lit "mON") = .ok [.MonthName .AbbrLower] ∧
    Lexer.tryNew (lit "t") = .error .InvalidFormat ∧ Lexer.tryNew (lit "FF0") = .error .InvalidFormat := by decide +kernel

end SqlDt.C19
