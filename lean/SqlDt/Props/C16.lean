/-
  C16  The Oracle-style date always holds whole seconds, flooring sub-second input.
-/
import SqlDt.Lemmas.Div
import SqlDt.Lemmas.FloatUse
namespace SqlDt.C16
open SqlDt Gen

theorem isValidDate_iff (u : Int) :
    OracleDate.isValidDate u ↔ (-62135596800000000 ≤ u ∧ u ≤ 253402300799999999 ∧ u % 1000000 = 0) := by
  unfold OracleDate.isValidDate USECONDS_PER_SECOND
  rw [isValidTimestamp_iff]
  by_cases h : 0 ≤ u
  · rw [rrem_nonneg_eq h]; omega
  · rw [rrem_neg_eq (by omega)]; omega

/-- Converting a timestamp floors toward earlier time, also before 1970: result = ⌊ts / 10⁶⌋ · 10⁶. -/
theorem fromTimestamp_floor (ts : Int) : OracleDate.fromTimestamp ts = ts / 1000000 * 1000000 := by
  unfold OracleDate.fromTimestamp USECONDS_PER_SECOND
  by_cases h : 0 ≤ ts
  · rw [rdiv_nonneg_eq h]
    have : ¬ (ts < 0 ∧ ts / 1000000 * 1000000 > ts) := by omega
    simp only [this, ↓reduceIte]
  · have h' : ts < 0 := by omega
    rw [rdiv_neg_eq h']
    by_cases h2 : ts < 0 ∧ -(-ts / 1000000) * 1000000 > ts
    · simp only [h2, and_self, ↓reduceIte]; omega
    · simp only [h2, ↓reduceIte]; omega

/-- The converted value is a valid Oracle-style date (whole seconds, in range, ≤ 9999-12-31 23:59:59). -/
theorem fromTimestamp_valid (ts : Int) (h : isValidTimestamp ts) : OracleDate.isValidDate (OracleDate.fromTimestamp ts) := by
  rw [isValidTimestamp_iff] at h
  rw [isValidDate_iff, fromTimestamp_floor]; omega

/-- and it is the greatest whole second not after the timestamp. -/
theorem fromTimestamp_greatest (ts s : Int) (hs : s % 1000000 = 0) (hle : s ≤ ts) :
    s ≤ OracleDate.fromTimestamp ts ∧ OracleDate.fromTimestamp ts ≤ ts := by
  rw [fromTimestamp_floor]; omega

/-- A value that already is a whole second is unchanged. -/
theorem fromTimestamp_id (u : Int) (h : u % 1000000 = 0) : OracleDate.fromTimestamp u = u := by
  rw [fromTimestamp_floor]; omega

/-- `new(date, time)` drops the sub-second part of the time of day. -/
theorem new_eq (d t : Int) (ht : isValidTime t) :
    OracleDate.new d t = d * 86400000000 + t / 1000000 * 1000000 := by
  rw [isValidTime_iff] at ht
  unfold OracleDate.new Timestamp.new USECONDS_PER_SECOND USECONDS_PER_DAY
  rw [rrem_nonneg_eq ht.1, rdiv_nonneg_eq ht.1]
  by_cases h : t % 1000000 ≠ 0
  · simp only [h, ↓reduceIte, ne_eq, not_false_eq_true]
  · simp only [h, ↓reduceIte]; omega

theorem new_valid (d t : Int) (hd : isValidDate d) (ht : isValidTime t) : OracleDate.isValidDate (OracleDate.new d t) := by
  rw [new_eq d t ht, isValidDate_iff]
  rw [SqlDt.isValidDate_iff] at hd; rw [isValidTime_iff] at ht; omega

/-- Interval arithmetic = the timestamp result floored to the second (hence a valid Oracle-style date). -/
theorem addIntervalDt_eq (od i : Int) :
    OracleDate.addIntervalDt od i = (Timestamp.addIntervalDt od i).map OracleDate.fromTimestamp := by
  unfold OracleDate.addIntervalDt
  cases Timestamp.addIntervalDt od i <;> rfl

theorem addIntervalYm_eq (od i : Int) :
    OracleDate.addIntervalYm od i = (Timestamp.addIntervalYm od i).map OracleDate.fromTimestamp := by
  unfold OracleDate.addIntervalYm
  cases Timestamp.addIntervalYm od i <;> rfl

/-- Closed form of the integer rounding: floor to the second, plus one second from the half on
    (for negative counts: symmetric, halves away from zero). -/
theorem roundToSecond_cases (u : Int) :
    (0 ≤ u ∧ ((u % 1000000 * 2 ≥ 1000000 ∧ OracleDate.roundToSecond u = (u / 1000000 + 1) * 1000000) ∨
              (u % 1000000 * 2 < 1000000 ∧ OracleDate.roundToSecond u = u / 1000000 * 1000000))) ∨
    (u < 0 ∧ (((-u) % 1000000 * 2 ≥ 1000000 ∧ OracleDate.roundToSecond u = (-((-u) / 1000000) - 1) * 1000000) ∨
              ((-u) % 1000000 * 2 < 1000000 ∧ OracleDate.roundToSecond u = -((-u) / 1000000) * 1000000))) := by
  unfold OracleDate.roundToSecond USECONDS_PER_SECOND
  by_cases h : 0 ≤ u
  · left; refine ⟨h, ?_⟩
    rw [rdiv_nonneg_eq h, rrem_nonneg_eq h]
    have h1 : ¬ (u % 1000000 < 0) := by omega
    have h2 : ¬ (u < 0) := by omega
    simp only [h1, h2, ↓reduceIte]
    by_cases h3 : u % 1000000 * 2 ≥ 1000000
    · left; exact ⟨h3, by simp only [h3, ↓reduceIte]⟩
    · right; exact ⟨by omega, by simp only [h3, ↓reduceIte]⟩
  · have h' : u < 0 := by omega
    right; refine ⟨h', ?_⟩
    rw [rdiv_neg_eq h', rrem_neg_eq h']
    simp only [h', ↓reduceIte]
    by_cases h1 : -(-u % 1000000) < 0
    · simp only [h1, ↓reduceIte, Int.neg_neg]
      by_cases h3 : -u % 1000000 * 2 ≥ 1000000
      · left; exact ⟨h3, by simp only [h3, ↓reduceIte]⟩
      · right; exact ⟨by omega, by simp only [h3, ↓reduceIte]⟩
    · have hz : -u % 1000000 = 0 := by omega
      simp only [h1, ↓reduceIte, hz]
      right; constructor
      · omega
      · simp

/-- Rounding to the nearest second, halves away from zero, in exact integer arithmetic:
    the result is a whole second within half a second of the input; a tie goes away from zero. -/
theorem roundToSecond_spec (u : Int) :
    (OracleDate.roundToSecond u) % 1000000 = 0 ∧
    2 * (OracleDate.roundToSecond u - u) ≤ 1000000 ∧ 2 * (u - OracleDate.roundToSecond u) ≤ 1000000 ∧
    (2 * (OracleDate.roundToSecond u - u) < 1000000 ∨ 0 ≤ u) ∧ (2 * (u - OracleDate.roundToSecond u) < 1000000 ∨ u < 0) := by
  rcases roundToSecond_cases u with ⟨h, ⟨hc, hr⟩ | ⟨hc, hr⟩⟩ | ⟨h, ⟨hc, hr⟩ | ⟨hc, hr⟩⟩ <;> rw [hr] <;> omega

/-- `add_days` = the timestamp result rounded to the nearest second, then range-checked. -/
theorem addDays_eq (od : Int) (x : F64) :
    OracleDate.addDays od x =
      (Timestamp.addDays od x).bind fun ts => Timestamp.tryFromUsecs (OracleDate.roundToSecond ts) := rfl

/-- Whatever `add_days` returns is a valid Oracle-style date. -/
theorem addDays_valid (od : Int) (x : F64) (r : Int) (h : OracleDate.addDays od x = .ok r) :
    OracleDate.isValidDate r := by
  rw [addDays_eq] at h
  cases hts : Timestamp.addDays od x with
  | error e => rw [hts] at h; cases h
  | ok ts =>
    rw [hts] at h
    simp only [Except.bind] at h
    unfold Timestamp.tryFromUsecs at h
    split at h
    · cases h; rename_i hv
      have := (roundToSecond_spec ts).1
      rw [isValidTimestamp_iff] at hv
      rw [isValidDate_iff]; omega
    · cases h

/-- The constructor from a raw count accepts exactly whole seconds in range. -/
theorem tryFromUsecs_spec (u : Int) :
    OracleDate.tryFromUsecs u =
      if -62135596800000000 ≤ u ∧ u ≤ 253402300799999999 ∧ u % 1000000 = 0 then .ok u else .error .DateOutOfRange := by
  unfold OracleDate.tryFromUsecs
  by_cases h : OracleDate.isValidDate u
  · have h' := (isValidDate_iff u).1 h; rw [if_pos h, if_pos h']
  · have h' : ¬ (-62135596800000000 ≤ u ∧ u ≤ 253402300799999999 ∧ u % 1000000 = 0) :=
      fun x => h ((isValidDate_iff u).2 x)
    rw [if_neg h, if_neg h']

/-- The difference of two Oracle-style dates is their exact distance in days, correctly rounded to a double ONCE:
    the microsecond difference converts to `f64` exactly (a multiple of 10^6 below 2^59), only the division rounds. -/
theorem subDate_correctly_rounded (a b : Int) (ha : OracleDate.isValidDate a) (hb : OracleDate.isValidDate b) (hne : a ≠ b) :
    OracleDate.subDate a b = F64.round (decide (a - b < 0)) (a - b).natAbs 86400000000 :=
  Lemmas.OracleDate.subDate_eq a b ha hb hne

/-- The maximum is 9999-12-31 23:59:59. -/
theorem MAX_eq : OracleDate.MAX = 253402300799000000 := by decide

example : OracleDate.isValidDate 0 ∧ OracleDate.isValidDate (-62135596800000000) ∧ OracleDate.isValidDate 253402300799000000 ∧
    ¬ OracleDate.isValidDate 1 ∧ OracleDate.fromTimestamp (-1) = -1000000 := by decide

end SqlDt.C16
