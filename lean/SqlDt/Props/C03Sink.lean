/-
  C03 (continuation): formatting into a BOUNDED sink.  `Formatter::format(value, w)` takes any `fmt::Write`; the crate
  itself uses a 32-byte stack buffer for serde and `Display` adapters hand in arbitrary writers.  For EVERY capacity, every
  valid value of every type and every picture: the call returns exactly what the unbounded `String` sink would receive
  when that text fits, and a format error when it does not (or when the unbounded call fails) – never a panic, and never a
  truncated text reported as success.
-/
import SqlDt.Props.C03Format
import SqlDt.Lemmas.RenderCapTypes
namespace SqlDt.C03
open SqlDt Gen Spec

/-- A sink of capacity `n` against the unbounded sink, for every valid value, type, picture and capacity. -/
theorem format_bounded (ty : Ty) (v : Int) (hv : ty.Valid v) (pic : Bytes) (n : Nat) :
    formatValue ty v pic (some n) =
      match formatValue ty v pic none with
      | .ok t => if t.length ≤ n then .ok t else .error .FormatError
      | .error e => .error e := by
  obtain ⟨c, ha, hfr, hneg⟩ := Lemmas.renders_exists ty v hv
  unfold formatValue
  cases ht : Lexer.tryNew pic with
  | error e => rfl
  | ok fields =>
    simp only [bind, Except.bind]
    exact Lemmas.format_sink_rel ty v c ha hfr hneg fields (Lemmas.tryNew_wf pic fields ht) n

/-- Whatever the sink's capacity, `format` never panics. -/
theorem format_bounded_no_panic (ty : Ty) (v : Int) (hv : ty.Valid v) (pic : Bytes) (cap : Option Nat) :
    formatValue ty v pic cap ≠ .error .Panic := by
  cases cap with
  | none => exact format_no_panic ty v hv pic
  | some n =>
    rw [format_bounded ty v hv pic n]
    have h0 := format_no_panic ty v hv pic
    cases hf : formatValue ty v pic none with
    | error e => simp only; intro hc; injection hc with hc; subst hc; exact h0 hf
    | ok t => simp only; split <;> simp

/-- A text that was written is never a truncation: if the bounded call succeeds it returns the full text. -/
theorem format_bounded_ok (ty : Ty) (v : Int) (hv : ty.Valid v) (pic : Bytes) (n : Nat) (t : Bytes)
    (h : formatValue ty v pic (some n) = .ok t) : formatValue ty v pic none = .ok t ∧ t.length ≤ n := by
  rw [format_bounded ty v hv pic n] at h
  cases hf : formatValue ty v pic none with
  | error e => rw [hf] at h; simp at h
  | ok t' =>
    rw [hf] at h
    simp only at h
    split at h
    · injection h with h; subst h; exact ⟨rfl, by assumption⟩
    · simp at h

-- non-vacuity: the hypotheses are met by the epoch date, whose `YYYY-MM-DD` rendering has ten bytes
example : Ty.Valid .D 0 := by decide

end SqlDt.C03
