/-
  C16 (continuation): adding fractional days rounds to the nearest second.
  Statements over exact rational arithmetic (ℚ); proofs in Lemmas/Accuracy*.lean (single Mathlib tactic modules).
  `F64.val x` is the exact value ±m·2^e of a finite double, `truncQ` truncates toward zero, `roundHalfAwayQ` is the nearest
  integer with ties away from zero, `roundSecQ` the nearest multiple of 10^6 with ties away from zero.
-/
import SqlDt.Lemmas.AccuracyMain
namespace SqlDt.C16
open SqlDt Gen Lemmas

/-- **(6a)** `round_to_second` is the nearest multiple of one second (10^6 µs), ties away from zero. -/
theorem roundToSecond_nearest (u : Int) :
    OracleDate.roundToSecond u = 1000000 * roundHalfAwayQ ((u : ℚ) / 1000000) :=
  Accuracy.roundToSecond_spec u

/-- **(6b) C16.** `oracle::Date::add_days(od, x)` is the C08 result rounded to the nearest second: with `q` the
    double-precision offset (`|q − p| ≤ 2^-53·|p|`, `p = x·86400·10^6`) and `t = od + round(q)`, the call returns
    `roundSecQ t` when both `t` and `roundSecQ t` are valid timestamps, and `DateOutOfRange` otherwise
    (or `NumericOverflow` when the double product overflowed). -/
theorem od_addDays_accuracy (od : Int) (hod : isValidTimestamp od) (s : Bool) (m : Nat) (e : Int) :
    (∃ q : ℚ, |q - F64.val (.fin s m e) * 86400000000| ≤ 2 ^ (-53 : Int) * |F64.val (.fin s m e) * 86400000000| ∧
      OracleDate.addDays od (.fin s m e) =
        if isValidTimestamp (od + roundHalfAwayQ q) ∧ isValidTimestamp (roundSecQ (od + roundHalfAwayQ q))
        then .ok (roundSecQ (od + roundHalfAwayQ q)) else .error .DateOutOfRange) ∨
    (OracleDate.addDays od (.fin s m e) = .error .NumericOverflow ∧
      (2 : ℚ) ^ (1023 : Int) ≤ |F64.val (.fin s m e) * 86400000000|) :=
  Accuracy.od_addDays_accuracy od hod s m e

/-- A returned Oracle date is a whole second within half a second of `od + round(q)`. -/
theorem od_addDays_ok (od : Int) (hod : isValidTimestamp od) (s : Bool) (m : Nat) (e : Int) (r : Int)
    (h : OracleDate.addDays od (.fin s m e) = .ok r) :
    ∃ q : ℚ, |q - F64.val (.fin s m e) * 86400000000| ≤ 2 ^ (-53 : Int) * |F64.val (.fin s m e) * 86400000000| ∧
      r = roundSecQ (od + roundHalfAwayQ q) ∧ isValidTimestamp (od + roundHalfAwayQ q) ∧ isValidTimestamp r ∧
      |(r : ℚ) - ((od + roundHalfAwayQ q : Int) : ℚ)| ≤ 500000 :=
  Accuracy.od_addDays_ok od hod s m e r h

end SqlDt.C16
