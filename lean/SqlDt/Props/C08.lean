/-
  C08  Day and microsecond arithmetic is exact, invertible and exactly range-checked.
  Every theorem quantifies over all valid receivers and ALL representable operands (whole i32 / i64).
-/
import SqlDt.Lemmas.Div
import SqlDt.Lemmas.FloatUse
namespace SqlDt.C08
open SqlDt Gen

/-- Exact-result characterisation of a checked linear operation: `ok` with the exact integer iff it is in range. -/
def exactOr (inRange : Int → Prop) [DecidablePred inRange] (e : Err) (x : Int) : Chk Int :=
  if inRange x then .ok x else .error e

theorem Date.addDays_exact (d k : Int) (hd : isValidDate d) (hk : fitsI32 k) :
    Date.addDays d k = exactOr isValidDate .DateOutOfRange (d + k) := by
  rw [isValidDate_iff] at hd
  unfold Date.addDays checkedI32 Date.tryFromDays exactOr fitsI32 I32_MIN I32_MAX at *
  by_cases h : -2147483648 ≤ d + k ∧ d + k ≤ 2147483647
  · simp only [h, and_self, ↓reduceIte]
  · have : ¬ isValidDate (d + k) := by rw [isValidDate_iff]; omega
    simp only [h, ↓reduceIte, this]

theorem Date.subDays_exact (d k : Int) (hd : isValidDate d) (hk : fitsI32 k) :
    Date.subDays d k = exactOr isValidDate .DateOutOfRange (d - k) := by
  rw [isValidDate_iff] at hd
  unfold Date.subDays checkedI32 Date.tryFromDays exactOr fitsI32 I32_MIN I32_MAX at *
  by_cases h : -2147483648 ≤ d - k ∧ d - k ≤ 2147483647
  · simp only [h, and_self, ↓reduceIte]
  · have : ¬ isValidDate (d - k) := by rw [isValidDate_iff]; omega
    simp only [h, ↓reduceIte, this]

/-- The difference of two dates is exact and needs no range gate (fits i32). -/
theorem Date.subDate_exact (a b : Int) (ha : isValidDate a) (hb : isValidDate b) :
    Date.subDate a b = a - b ∧ fitsI32 (a - b) := by
  rw [isValidDate_iff] at ha hb; unfold Date.subDate fitsI32 I32_MIN I32_MAX; omega

theorem Timestamp.addIntervalDt_exact (ts i : Int) (hts : isValidTimestamp ts) (hi : fitsI64 i) :
    Timestamp.addIntervalDt ts i = exactOr isValidTimestamp .DateOutOfRange (ts + i) := by
  rw [isValidTimestamp_iff] at hts
  unfold Timestamp.addIntervalDt checkedI64 Timestamp.tryFromUsecs exactOr fitsI64 I64_MIN I64_MAX at *
  by_cases h : -9223372036854775808 ≤ ts + i ∧ ts + i ≤ 9223372036854775807
  · simp only [h, and_self, ↓reduceIte]
  · have : ¬ isValidTimestamp (ts + i) := by rw [isValidTimestamp_iff]; omega
    simp only [h, ↓reduceIte, this]

theorem Timestamp.subIntervalDt_exact (ts i : Int) (hts : isValidTimestamp ts) (hi : IntervalDT.isValidUsecs i) :
    Timestamp.subIntervalDt ts i = exactOr isValidTimestamp .DateOutOfRange (ts - i) := by
  unfold Timestamp.subIntervalDt IntervalDT.negate
  have : fitsI64 (-i) := by
    unfold IntervalDT.isValidUsecs INTERVAL_MAX_USECONDS at hi; unfold fitsI64 I64_MIN I64_MAX; omega
  rw [Timestamp.addIntervalDt_exact ts (-i) hts this]; congr 1

theorem Timestamp.addTime_exact (ts t : Int) :
    Timestamp.addTime ts t = exactOr isValidTimestamp .DateOutOfRange (ts + t) := by
  unfold Timestamp.addTime Timestamp.tryFromUsecs exactOr; rfl

theorem Timestamp.subTime_exact (ts t : Int) :
    Timestamp.subTime ts t = exactOr isValidTimestamp .DateOutOfRange (ts - t) := by
  unfold Timestamp.subTime Timestamp.tryFromUsecs exactOr; rfl

/-- `add_time`/`sub_time` use an unchecked `+`/`-`: it cannot overflow i64 for valid operands. -/
theorem Timestamp.addTime_no_overflow (ts t : Int) (hts : isValidTimestamp ts) (ht : isValidTime t) :
    fitsI64 (ts + t) ∧ fitsI64 (ts - t) := by
  rw [isValidTimestamp_iff] at hts; rw [isValidTime_iff] at ht
  unfold fitsI64 I64_MIN I64_MAX; omega

/-- Differences of timestamps are exact, fit i64 and are valid day-time intervals (no gate needed). -/
theorem Timestamp.subTimestamp_exact (a b : Int) (ha : isValidTimestamp a) (hb : isValidTimestamp b) :
    Timestamp.subTimestamp a b = a - b ∧ IntervalDT.isValidUsecs (a - b) := by
  rw [isValidTimestamp_iff] at ha hb
  unfold Timestamp.subTimestamp IntervalDT.isValidUsecs INTERVAL_MAX_USECONDS; omega

theorem Timestamp.subDate_exact (ts d : Int) (hts : isValidTimestamp ts) (hd : isValidDate d) :
    Timestamp.subDate ts d = ts - d * 86400000000 ∧ IntervalDT.isValidUsecs (Timestamp.subDate ts d) := by
  rw [isValidTimestamp_iff] at hts; rw [isValidDate_iff] at hd
  unfold Timestamp.subDate Timestamp.subTimestamp Timestamp.new IntervalDT.isValidUsecs INTERVAL_MAX_USECONDS
    USECONDS_PER_DAY; omega

theorem IntervalYM.add_exact (a b : Int) (ha : IntervalYM.isValidMonths a) (hb : IntervalYM.isValidMonths b) :
    IntervalYM.addIntervalYm a b = exactOr IntervalYM.isValidMonths .IntervalOutOfRange (a + b) := by
  unfold IntervalYM.isValidMonths INTERVAL_MAX_MONTH at ha hb
  unfold IntervalYM.addIntervalYm checkedI32 IntervalYM.tryFromMonths exactOr fitsI32 I32_MIN I32_MAX
  by_cases h : -2147483648 ≤ a + b ∧ a + b ≤ 2147483647
  · simp only [h, and_self, ↓reduceIte]
  · have : ¬ IntervalYM.isValidMonths (a + b) := by unfold IntervalYM.isValidMonths INTERVAL_MAX_MONTH; omega
    simp only [h, ↓reduceIte, this]

theorem IntervalYM.sub_exact (a b : Int) (ha : IntervalYM.isValidMonths a) (hb : IntervalYM.isValidMonths b) :
    IntervalYM.subIntervalYm a b = exactOr IntervalYM.isValidMonths .IntervalOutOfRange (a - b) := by
  unfold IntervalYM.subIntervalYm IntervalYM.negate
  have hb' : IntervalYM.isValidMonths (-b) := by unfold IntervalYM.isValidMonths at *; omega
  rw [IntervalYM.add_exact a (-b) ha hb']; congr 1

theorem IntervalDT.add_exact (a b : Int) (ha : IntervalDT.isValidUsecs a) (hb : IntervalDT.isValidUsecs b) :
    IntervalDT.addIntervalDt a b = exactOr IntervalDT.isValidUsecs .IntervalOutOfRange (a + b) := by
  unfold IntervalDT.isValidUsecs INTERVAL_MAX_USECONDS at ha hb
  unfold IntervalDT.addIntervalDt checkedI64 IntervalDT.tryFromUsecs exactOr fitsI64 I64_MIN I64_MAX
  by_cases h : -9223372036854775808 ≤ a + b ∧ a + b ≤ 9223372036854775807
  · simp only [h, and_self, ↓reduceIte]
  · have : ¬ IntervalDT.isValidUsecs (a + b) := by unfold IntervalDT.isValidUsecs INTERVAL_MAX_USECONDS; omega
    simp only [h, ↓reduceIte, this]

theorem IntervalDT.sub_exact (a b : Int) (ha : IntervalDT.isValidUsecs a) (hb : IntervalDT.isValidUsecs b) :
    IntervalDT.subIntervalDt a b = exactOr IntervalDT.isValidUsecs .IntervalOutOfRange (a - b) := by
  unfold IntervalDT.subIntervalDt IntervalDT.negate
  have hb' : IntervalDT.isValidUsecs (-b) := by unfold IntervalDT.isValidUsecs at *; omega
  rw [IntervalDT.add_exact a (-b) ha hb']; congr 1

theorem IntervalDT.subTime_exact (v t : Int) :
    IntervalDT.subTime v t = exactOr IntervalDT.isValidUsecs .IntervalOutOfRange (v - t) := by
  unfold IntervalDT.subTime IntervalDT.tryFromUsecs exactOr; rfl

/-! ### Invertibility corollaries -/

/-- x + i − i = x whenever the intermediate exists. -/
theorem Date.add_sub_cancel (d k r : Int) (hd : isValidDate d) (hk : fitsI32 k)
    (h : Date.addDays d k = .ok r) : Date.subDays r k = .ok d := by
  rw [Date.addDays_exact d k hd hk] at h
  unfold exactOr at h
  split at h
  · cases h; rename_i hv
    rw [Date.subDays_exact (d + k) k hv hk]; unfold exactOr
    have : d + k - k = d := by omega
    rw [this]; simp [hd]
  · cases h

/-- (x + i) − x = i. -/
theorem Date.add_then_diff (d k r : Int) (hd : isValidDate d) (hk : fitsI32 k)
    (h : Date.addDays d k = .ok r) : Date.subDate r d = k := by
  rw [Date.addDays_exact d k hd hk] at h
  unfold exactOr at h
  split at h
  · cases h; unfold Date.subDate; omega
  · cases h

/-- a − b = −(b − a). -/
theorem Date.subDate_antisymm (a b : Int) : Date.subDate a b = -(Date.subDate b a) := by
  unfold Date.subDate; omega

theorem Timestamp.subTimestamp_antisymm (a b : Int) :
    Timestamp.subTimestamp a b = IntervalDT.negate (Timestamp.subTimestamp b a) := by
  unfold Timestamp.subTimestamp IntervalDT.negate; omega

theorem Timestamp.add_sub_cancel (ts i r : Int) (hts : isValidTimestamp ts) (hi : IntervalDT.isValidUsecs i)
    (h : Timestamp.addIntervalDt ts i = .ok r) : Timestamp.subIntervalDt r i = .ok ts := by
  have hi64 : fitsI64 i := by
    unfold IntervalDT.isValidUsecs INTERVAL_MAX_USECONDS at hi; unfold fitsI64 I64_MIN I64_MAX; omega
  rw [Timestamp.addIntervalDt_exact ts i hts hi64] at h
  unfold exactOr at h
  split at h
  · cases h; rename_i hv
    rw [Timestamp.subIntervalDt_exact (ts + i) i hv hi]; unfold exactOr
    have : ts + i - i = ts := by omega
    rw [this]; simp [hts]
  · cases h

/-! ### Fractional-day offsets (f64) -/

/-- Whole days: `add_days(k as f64)` adds exactly `k` days with the exact range gate, for every |k| ≤ 100000. -/
theorem Timestamp.addDays_whole (ts k : Int) (hk : k.natAbs ≤ 100000) :
    Timestamp.addDays ts (F64.ofInt k) =
      (match checkedI64 (ts + k * 86400000000) with
       | some r => Timestamp.tryFromUsecs r
       | none => .error .DateOutOfRange) :=
  Lemmas.Timestamp.addDays_whole ts k hk

/-- Any offset whose microsecond count `n` is exactly representable by the product `x · 86400·10^6` (halves, quarters, …
    of a day; any whole number of microseconds below 2^53 that the product hits exactly) is added exactly. For the
    remaining doubles the offset is `roundHalfAway(fl(x · 86400·10^6))` by definition of the model (`Timestamp.addDays`),
    i.e. the offset rounded to the nearest microsecond up to the one rounding of the product (relative 2^-53, see
    `C14.rounding_half_ulp`); NaN gives `InvalidNumber`, ±∞ `NumericOverflow` (`C03.addDays_no_panic`). -/
theorem Timestamp.addDays_exact (ts n : Int) (x : F64) (hn : n.natAbs ≤ 9007199254740992)
    (hx : F64.mul x (F64.ofInt 86400000000) = F64.ofInt n) :
    Timestamp.addDays ts x =
      (match checkedI64 (ts + n) with
       | some r => Timestamp.tryFromUsecs r
       | none => .error .DateOutOfRange) :=
  Lemmas.Timestamp.addDays_exact ts n x hn hx

example : isValidDate 0 ∧ fitsI32 5 ∧ Date.addDays 0 5 = .ok 5 ∧ Date.addDays 2932896 1 = .error .DateOutOfRange ∧
    Date.addDays 0 2147483647 = .error .DateOutOfRange := by decide

end SqlDt.C08
