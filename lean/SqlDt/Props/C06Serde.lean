/-
  C06 (continuation): the full round trip, for every valid value, through the six lossless pictures that the crate
  itself relies on (the serde human-readable form).  Kept apart from Props/C06.lean because Lemmas/RoundTripLeaf
  builds on the digit lemmas proved there.
-/
import SqlDt.Lemmas.RoundTrip
namespace SqlDt.C06
open SqlDt Gen

/-- For EVERY valid value of EVERY type and any clock: formatting with the type's serde picture succeeds and
    parsing that text with the same picture returns exactly the value. -/
theorem serde_picture_roundtrip (ty : Ty) (v : Int) (hv : ty.Valid v) (now : Clock) :
    ∃ text, formatValue ty v (Serde.picture ty) (some 32) = .ok text ∧
      ∃ r, parseValue ty text (Serde.picture ty) now = .ok (v, r) := by
  obtain ⟨text, a, _, c⟩ := Lemmas.serde_roundtrip ty v hv
  refine ⟨text, ?_, ?_⟩
  · unfold Serde.serStr Serde.BUF_CAP Gen.SERDE_BUF_CAP at a
    split at a
    · rename_i t h; cases a; exact h
    · cases a
    · split at a <;> cases a
    · cases a
  · have c := c now
    unfold Serde.deStr at c
    split at c
    · rename_i v' r h; cases c; exact ⟨r, h⟩
    · cases c
    · cases c

end SqlDt.C06
