/-
  C18  Missing date fields default from the current local date, and only then.
  The clock is a parameter of the model; theorems quantify over all clocks.
-/
import SqlDt.Lemmas.Div
import SqlDt.Lemmas.ClockFree
import SqlDt.Model.Serde
namespace SqlDt.C18
open SqlDt Gen Parser

/-- `now()` constructors and time-of-day → timestamp conversions report exactly the clock's fields. -/
theorem date_now (c : Clock) : Date.now c = Date.tryFromYmd c.year c.month c.day := rfl

theorem ts_now (c : Clock) :
    Timestamp.now c = (Date.tryFromYmd c.year c.month c.day).bind fun d =>
      (Time.tryFromHms c.hour c.minute c.second c.usec).bind fun t => .ok (Timestamp.new d t) := rfl

theorem ts_fromTime (t : Int) (c : Clock) :
    Timestamp.fromTime t c = (Date.tryFromYmd c.year c.month c.day).map fun d => Timestamp.new d t := by
  unfold Timestamp.fromTime; cases Date.tryFromYmd c.year c.month c.day <;> rfl

theorem od_now (c : Clock) :
    OracleDate.now c = (Date.tryFromYmd c.year c.month c.day).bind fun d =>
      (Time.tryFromHms c.hour c.minute c.second 0).bind fun t => .ok (OracleDate.new d t) := rfl

/-- A four-digit year field (and every interval year field) never consults the clock. -/
theorem parseYear4_clock_free (input : Bytes) (c1 c2 : Clock) (n : Nat) (hn : n ≠ 1 ∧ n ≠ 2 ∧ n ≠ 3) :
    parseYear input n c1 = parseYear input n c2 ∧
    ∀ r, parseYear input n c1 = .ok r → r.2.2.2 = false := by
  unfold parseYear
  have h2 : ¬ n = 2 := hn.2.1
  have h13 : ¬ (n = 1 ∨ n = 3) := by omega
  simp only [h2, h13, ↓reduceIte]
  refine ⟨trivial, ?_⟩
  intro r hr
  cases hp : parseNumber input n with
  | error e => simp [hp, bind, Except.bind] at hr
  | ok v =>
    obtain ⟨a, b, c⟩ := v
    simp [hp, bind, Except.bind, pure, Except.pure] at hr
    rw [← hr]

/-- One-, two- and three-digit year fields are completed with the leading digits of the clock's year:
    `year − year mod 10ⁿ + digits`. -/
theorem parseYear_completion (input : Bytes) (c : Clock) (n : Nat) (hn : n = 1 ∨ n = 3) (neg : Bool) (v : Int) (rem : Bytes)
    (hp : parseNumber input n = .ok (neg, v, rem)) :
    parseYear input n c = .ok (neg, c.year - rrem c.year (if n = 1 then 10 else 1000) + v, rem, true) := by
  unfold parseYear
  have h2 : ¬ n = 2 := by omega
  simp only [h2, hn, ↓reduceIte, hp, bind, Except.bind, pure, Except.pure]
  rcases hn with rfl | rfl <;> simp [idx, YEAR_MODIFIER]

/-- Two-digit field: at most two digits are completed with the current century, three or four digits are a
    literal year (a leading sign is not a digit). -/
theorem parseYear2 (input : Bytes) (c : Clock) (neg : Bool) (v : Int) (rem : Bytes)
    (hp : parseNumber input 4 = .ok (neg, v, rem)) :
    parseYear input 2 c =
      let signLen := match input with
        | ch :: _ => if ch = B '+' ∨ ch = B '-' then 1 else 0
        | [] => 0
      if input.length - rem.length - signLen > 2 then .ok (neg, v, rem, false)
      else .ok (neg, c.year - rrem c.year 100 + v, rem, true) := by
  unfold parseYear
  simp only [↓reduceIte, hp, bind, Except.bind, pure, Except.pure]
  split <;> rfl

/-- CLOCK INDEPENDENCE, for all clocks, texts and pictures: when the picture has no short year field (Y, YY, YYY)
    and – for types with a date – contains a year token and a month token (number or name), the result of parsing
    (value or error, and the clock-read count) is the same under any two clocks. In particular a text that supplies
    a full year, month and day is parsed without regard to the current date. -/
theorem parse_clock_independent (ty : Ty) (fields : List Field) (input : Bytes) (c1 c2 : Clock)
    (hfree : ∀ f ∈ fields, Lemmas.Field.clockFree f = true ∨ ty.info.IS_INTERVAL_YM = true)
    (hdate : ty.info.HAS_DATE = true →
      (∃ n, Field.Year n ∈ fields) ∧ (Field.Month ∈ fields ∨ ∃ s, Field.MonthName s ∈ fields)) :
    Parser.parse ty fields input c1 = Parser.parse ty fields input c2 :=
  Lemmas.parse_clock_independent ty fields input c1 c2 hfree hdate

/-- The same at the level of `T::parse(text, picture)`. -/
theorem parseValue_clock_independent (ty : Ty) (pic text : Bytes) (c1 c2 : Clock)
    (h : ∀ fields, Lexer.tryNew pic = .ok fields →
      (∀ f ∈ fields, Lemmas.Field.clockFree f = true ∨ ty.info.IS_INTERVAL_YM = true) ∧
      (ty.info.HAS_DATE = true →
        (∃ n, Field.Year n ∈ fields) ∧ (Field.Month ∈ fields ∨ ∃ s, Field.MonthName s ∈ fields))) :
    parseValue ty text pic c1 = parseValue ty text pic c2 := by
  unfold parseValue
  cases ht : Lexer.tryNew pic with
  | error e => rfl
  | ok fields =>
    simp only [bind, Except.bind]
    exact Lemmas.parse_clock_independent ty fields text c1 c2 (h fields ht).1 (h fields ht).2

/-- Without a short year field the field loop itself never looks at the clock (whatever else is missing). -/
theorem fields_clock_independent (ty : Ty) (c1 c2 : Clock) (fields : List Field) (st : St)
    (hfree : ∀ f ∈ fields, Lemmas.Field.clockFree f = true ∨ ty.info.IS_INTERVAL_YM = true) :
    Parser.parseFields ty c1 st fields = Parser.parseFields ty c2 st fields :=
  Lemmas.parseFields_clockFree ty c1 c2 fields st hfree

/-- Non-vacuity: the hypotheses hold for e.g. `YYYY-MM-DD HH24:MI:SS` on timestamps. -/
example : ∃ fields, Lexer.tryNew (bytesOf "YYYY-MM-DD HH24:MI:SS") = .ok fields ∧
    (∀ f ∈ fields, Lemmas.Field.clockFree f = true) ∧ Field.Year 4 ∈ fields ∧ Field.Month ∈ fields :=
  ⟨[.Year 4, .Hyphen, .Month, .Hyphen, .Day, .Blank 1, .Hour24, .Colon, .Minute, .Colon, .Second],
    by decide +kernel, by decide +kernel, by decide +kernel, by decide +kernel⟩

/-- Omitted day is 1, omitted time fields are zero, the omitted 12-hour field is 12 (model defaults). -/
theorem ndt_defaults : ({} : NDT).day = 1 ∧ ({} : NDT).hour = 0 ∧ ({} : NDT).minute = 0 ∧ ({} : NDT).sec = 0 ∧
    ({} : NDT).usec = 0 ∧ ({} : NDT).month = 0 := by decide

example : parseValue .D (bytesOf "05-17") (bytesOf "MM-DD") { year := 2024, month := 3, day := 15, hour := 0, minute := 0, second := 0, usec := 0 }
      = .ok (19860, 1) ∧
    parseValue .D (bytesOf "21-03-04") (bytesOf "YY-MM-DD") { year := 1987, month := 3, day := 15, hour := 0, minute := 0, second := 0, usec := 0 }
      = .ok (-17835, 1) := by decide +kernel

end SqlDt.C18
