/-
  C02 (completion of the per-operation table): one row for every value-returning operation of the line protocol
  (tools/catalog.py `OPS`) that has no row of its own in Props/C02.lean / Props/C02Parse.lean.
  Every row is stated about the SAME model expression the driver (Driver.lean, `handler`) evaluates for the operation,
  in the shape `Valid receiver/args → op args = ok v → Valid v`.  Hypotheses are only the validity of value-typed
  arguments; `u32` scalars are `0 ≤ x` (needed: the model computes on unbounded integers), `i32`/`i64`/`f64` scalars
  and clocks are unrestricted (a clock's month/day are unsigned: `0 ≤`).  A hypothesis that the proof does not need is
  left out, which makes the row stronger.  tools/rows_map.json maps every protocol operation to its row;
  tools/rows_check.py checks the map against the catalogue and the driver and that every named theorem exists.
-/
import SqlDt.Props.C02
namespace SqlDt.C02Rows
open SqlDt Gen

/-! ### shared steps -/

/-- A checked date followed by `Timestamp.new · t` for a valid time of day is a valid timestamp. -/
theorem bind_new {r : Chk Int} {t v : Int} (ht : isValidTime t) (hr : ∀ d, r = .ok d → isValidDate d)
    (h : (do let d ← r; pure (Timestamp.new d t) : Chk Int) = .ok v) : isValidTimestamp v := by
  cases r with
  | error e => simp [bind, Except.bind] at h
  | ok d =>
    simp [bind, Except.bind, pure, Except.pure] at h
    subst h; exact C02.ts_new d t (hr d rfl) ht

/-- The same with the Oracle-style constructor (drops the sub-second part). -/
theorem bind_odNew {r : Chk Int} {t v : Int} (ht : isValidTime t) (hr : ∀ d, r = .ok d → isValidDate d)
    (h : (do let d ← r; pure (OracleDate.new d t) : Chk Int) = .ok v) : OracleDate.isValidDate v := by
  cases r with
  | error e => simp [bind, Except.bind] at h
  | ok d =>
    simp [bind, Except.bind, pure, Except.pure] at h
    subst h; exact C02.od_new d t (hr d rfl) ht

theorem time_zero_valid : isValidTime 0 := by decide

/-- Every valid Oracle-style date is a valid timestamp (`OD.to_TS`, and the receiver of every delegated operation). -/
theorem od_toTimestamp (od : Int) (h : OracleDate.isValidDate od) : isValidTimestamp od := h.1

/-- Every valid time of day is a valid day-time interval (`DT.from_T`: the identity on the raw count). -/
theorem dt_fromTime (t : Int) (ht : isValidTime t) : IntervalDT.isValidUsecs t := by
  rw [isValidTime_iff] at ht
  unfold IntervalDT.isValidUsecs INTERVAL_MAX_USECONDS; omega

/-! ### Date -/

/-- `D.to_TS` (`Timestamp::from(Date)`): midnight of a valid date. -/
theorem date_toTimestamp (d : Int) (hd : isValidDate d) : isValidTimestamp (Timestamp.new d 0) :=
  C02.ts_new d 0 hd time_zero_valid

example : isValidDate 2932896 ∧ Timestamp.new 2932896 0 = 253402214400000000 ∧ isValidDate (-719162) ∧
    Timestamp.new (-719162) 0 = -62135596800000000 := by decide

/-- `D.and_hms`. -/
theorem date_andHms (d h mi s us v : Int) (hd : isValidDate d) (h0 : 0 ≤ h) (m0 : 0 ≤ mi) (s0 : 0 ≤ s) (u0 : 0 ≤ us)
    (hv : Timestamp.andHms d h mi s us = .ok v) : isValidTimestamp v := by
  unfold Timestamp.andHms at hv
  cases ht : Time.tryFromHms h mi s us with
  | error e => simp [ht, bind, Except.bind] at hv
  | ok t =>
    simp [ht, bind, Except.bind, pure, Except.pure] at hv
    subst hv
    exact C02.ts_new d t hd (C02.time_tryFromHms h mi s us t h0 m0 s0 u0 ht)

example : isValidDate 2932896 ∧ Timestamp.andHms 2932896 23 59 59 999999 = .ok 253402300799999999 ∧
    Timestamp.andHms 0 24 0 0 0 = .error .TimeOutOfRange := by decide

/-- `D.and_time`. -/
theorem date_andTime (d t : Int) (hd : isValidDate d) (ht : isValidTime t) : isValidTimestamp (Timestamp.new d t) :=
  C02.ts_new d t hd ht

/-- `D.add_time` (`Date + Time`). -/
theorem date_addTime (d t : Int) (hd : isValidDate d) (ht : isValidTime t) : isValidTimestamp (Timestamp.new d t) :=
  C02.ts_new d t hd ht

/-- `D.add_ym` (`Date + IntervalYM`, a timestamp at midnight), for ANY month count. -/
theorem date_addIntervalYm (d i v : Int) (hd : isValidDate d)
    (h : (do let r ← Date.addIntervalYmInternal d i; pure (Timestamp.new r 0) : Chk Int) = .ok v) :
    isValidTimestamp v :=
  bind_new time_zero_valid (fun r hr => C02.date_addMonths d i r hd hr) h

/-- `D.sub_ym`. -/
theorem date_subIntervalYm (d i v : Int) (hd : isValidDate d)
    (h : (do let r ← Date.addIntervalYmInternal d (IntervalYM.negate i); pure (Timestamp.new r 0) : Chk Int) = .ok v) :
    isValidTimestamp v :=
  date_addIntervalYm d (IntervalYM.negate i) v hd h

example : isValidDate 19782 ∧ IntervalYM.isValidMonths 1 ∧
    (do let r ← Date.addIntervalYmInternal 19782 1; pure (Timestamp.new r 0) : Chk Int) = .ok 1711670400000000 ∧
    (do let r ← Date.addIntervalYmInternal 19753 1; pure (Timestamp.new r 0) : Chk Int) = .error .InvalidDate := by
  decide

/-- `D.add_dt` (`Date + IntervalDT`). -/
theorem date_addIntervalDt (d i v : Int) (h : Timestamp.addIntervalDt (Timestamp.new d 0) i = .ok v) :
    isValidTimestamp v := C02.ts_addIntervalDt _ i v h

/-- `D.sub_dt`. -/
theorem date_subIntervalDt (d i v : Int) (h : Timestamp.subIntervalDt (Timestamp.new d 0) i = .ok v) :
    isValidTimestamp v := C02.ts_subIntervalDt _ i v h

/-- `D.sub_time`. -/
theorem date_subTime (d t v : Int) (h : Timestamp.subTime (Timestamp.new d 0) t = .ok v) : isValidTimestamp v :=
  C02.ts_subTime _ t v h

/-- `D.sub_ts` (`Date − Timestamp`, a day-time interval). -/
theorem date_subTimestamp (d ts : Int) (hd : isValidDate d) (hts : isValidTimestamp ts) :
    IntervalDT.isValidUsecs (Timestamp.subTimestamp (Timestamp.new d 0) ts) :=
  C02.ts_subTimestamp _ ts (date_toTimestamp d hd) hts

example : isValidDate (-719162) ∧ isValidTimestamp 253402300799999999 ∧
    Timestamp.subTimestamp (Timestamp.new (-719162) 0) 253402300799999999 = -315537897599999999 ∧
    IntervalDT.isValidUsecs (-315537897599999999) := by decide

/-! ### Time -/

/-- `IntervalDT / f64` (the row `DT.div_f64`). -/
theorem dt_divF64 (v : Int) (x : F64) (r : Int) (h : IntervalDT.divF64 v x = .ok r) : IntervalDT.isValidUsecs r := by
  unfold IntervalDT.divF64 at h
  split at h; · cases h
  simp only [] at h
  split at h; · cases h
  split at h; · cases h
  exact C02.gate_valid h

/-- `T.mul_f64` (`Time * f64`, a day-time interval). -/
theorem time_mulF64 (t : Int) (x : F64) (r : Int) (h : IntervalDT.mulF64 t x = .ok r) : IntervalDT.isValidUsecs r :=
  C02.dt_mulF64 t x r h

/-- `T.div_f64`. -/
theorem time_divF64 (t : Int) (x : F64) (r : Int) (h : IntervalDT.divF64 t x = .ok r) : IntervalDT.isValidUsecs r :=
  dt_divF64 t x r h

/-- `T.from_TS` (`Time::from(Timestamp)`): the time-of-day half, for every integer. -/
theorem time_fromTimestamp (ts : Int) : isValidTime (Timestamp.time ts) := by
  rw [Timestamp.time_eq, isValidTime_iff]; omega

/-- `T.from_OD`. -/
theorem time_fromOracleDate (od : Int) : isValidTime (Timestamp.time od) := time_fromTimestamp od

example : Timestamp.time (-1) = 86399999999 ∧ Timestamp.time (-62135596800000000) = 0 := by decide

/-! ### Timestamp -/

/-- `TS.sub_ym`, for ANY month count. -/
theorem ts_subIntervalYm (ts i v : Int) (hts : isValidTimestamp ts) (h : Timestamp.subIntervalYm ts i = .ok v) :
    isValidTimestamp v := C02.ts_addMonths ts (IntervalYM.negate i) v hts h

/-- `TS.sub_days`, for every double. -/
theorem ts_subDays (ts : Int) (x : F64) (v : Int) (h : Timestamp.subDays ts x = .ok v) : isValidTimestamp v :=
  C02.ts_addDays ts (F64.neg x) v h

/-- `TS.oracle_sub_date` (`Timestamp − oracle::Date`). -/
theorem ts_oracleSubDate (ts od : Int) (hts : isValidTimestamp ts) (hod : OracleDate.isValidDate od) :
    IntervalDT.isValidUsecs (Timestamp.subTimestamp ts od) := C02.ts_subTimestamp ts od hts hod.1

/-- `TS.oracle_add_days`: the Oracle-style sum of a timestamp and a number of days, for every double. -/
theorem ts_oracleAddDays (ts : Int) (x : F64) (r : Int) (h : OracleDate.addDays (OracleDate.fromTimestamp ts) x = .ok r) :
    OracleDate.isValidDate r := C02.od_addDays _ x r h

/-- `TS.oracle_sub_days`. -/
theorem ts_oracleSubDays (ts : Int) (x : F64) (r : Int)
    (h : OracleDate.addDays (OracleDate.fromTimestamp ts) (F64.neg x) = .ok r) : OracleDate.isValidDate r :=
  C02.od_addDays _ (F64.neg x) r h

/-! ### Intervals -/

/-- `YM.sub_ym`. -/
theorem ym_sub (a b v : Int) (h : IntervalYM.subIntervalYm a b = .ok v) : IntervalYM.isValidMonths v :=
  C02.ym_add a (IntervalYM.negate b) v h

/-- `YM.div_f64`, for every double. -/
theorem ym_divF64 (v : Int) (x : F64) (r : Int) (h : IntervalYM.divF64 v x = .ok r) : IntervalYM.isValidMonths r := by
  unfold IntervalYM.divF64 at h
  split at h; · cases h
  simp only [] at h
  split at h; · cases h
  split at h; · cases h
  exact C02.gate_valid h

/-- `DT.sub_dt`. -/
theorem dt_sub (a b v : Int) (h : IntervalDT.subIntervalDt a b = .ok v) : IntervalDT.isValidUsecs v :=
  C02.dt_add a (IntervalDT.negate b) v h

example : IntervalYM.isValidMonths 2136000000 ∧ IntervalYM.subIntervalYm 2136000000 (-1) = .error .IntervalOutOfRange ∧
    IntervalDT.subIntervalDt 8640000000000000000 8640000000000000000 = .ok 0 ∧ isValidTime 86399999999 ∧
    IntervalDT.isValidUsecs 86399999999 := by decide

/-! ### Oracle-style date -/

/-- `OD.extract`: the (date, time) halves of a valid Oracle-style date. -/
theorem od_extract (od : Int) (h : OracleDate.isValidDate od) :
    isValidDate (Timestamp.extract od).1 ∧ isValidTime (Timestamp.extract od).2 := C02.ts_extract od h.1

/-- `OD.sub_dt`. -/
theorem od_subIntervalDt (od i r : Int) (h : OracleDate.subIntervalDt od i = .ok r) : OracleDate.isValidDate r :=
  C02.od_addIntervalDt od (IntervalDT.negate i) r h

/-- `OD.sub_ym`, for ANY month count. -/
theorem od_subIntervalYm (od i r : Int) (hod : OracleDate.isValidDate od) (h : OracleDate.subIntervalYm od i = .ok r) :
    OracleDate.isValidDate r := C02.od_addMonths od (IntervalYM.negate i) r hod h

/-- `OD.add_time` (`oracle::Date + Time`, a timestamp). -/
theorem od_addTime (od t v : Int) (h : Timestamp.addTime od t = .ok v) : isValidTimestamp v := C02.ts_addTime od t v h

/-- `OD.sub_time`. -/
theorem od_subTime (od t v : Int) (h : Timestamp.subTime od t = .ok v) : isValidTimestamp v := C02.ts_subTime od t v h

/-- `OD.sub_days`, for every double. -/
theorem od_subDays (od : Int) (x : F64) (r : Int) (h : OracleDate.subDays od x = .ok r) : OracleDate.isValidDate r :=
  C02.od_addDays od (F64.neg x) r h

/-- `OD.sub_ts` (`oracle::Date − Timestamp`). -/
theorem od_subTimestamp (od ts : Int) (hod : OracleDate.isValidDate od) (hts : isValidTimestamp ts) :
    IntervalDT.isValidUsecs (Timestamp.subTimestamp od ts) := C02.ts_subTimestamp od ts hod.1 hts

/-- `OD.from_T` (`oracle::Date::try_from(Time)`) under ANY clock: today's date with the time floored to the second. -/
theorem od_fromTime (t : Int) (c : Clock) (v : Int) (ht : isValidTime t) (hm : 0 ≤ c.month) (hd : 0 ≤ c.day)
    (h : OracleDate.fromTime t c = .ok v) : OracleDate.isValidDate v :=
  bind_odNew ht (fun d hd' => C02.date_tryFromYmd c.year c.month c.day d hm hd hd') h

/-- `OD.now` under ANY clock. -/
theorem od_now (c : Clock) (v : Int) (hm : 0 ≤ c.month) (hd : 0 ≤ c.day) (hh : 0 ≤ c.hour) (hmi : 0 ≤ c.minute)
    (hs : 0 ≤ c.second) (h : OracleDate.now c = .ok v) : OracleDate.isValidDate v := by
  unfold OracleDate.now at h
  cases hd' : Date.tryFromYmd c.year c.month c.day with
  | error e => simp [hd', bind, Except.bind] at h
  | ok d =>
    cases ht : Time.tryFromHms c.hour c.minute c.second 0 with
    | error e => simp [hd', ht, bind, Except.bind] at h
    | ok t =>
      simp [hd', ht, bind, Except.bind, pure, Except.pure] at h
      subst h
      exact C02.od_new d t (C02.date_tryFromYmd _ _ _ d hm hd hd')
        (C02.time_tryFromHms _ _ _ _ t hh hmi hs (by omega) ht)

example : OracleDate.isValidDate 253402300799000000 ∧ isValidTime 86399999999 ∧
    OracleDate.fromTime 86399999999 { year := 9999, month := 12, day := 31, hour := 0, minute := 0, second := 0, usec := 0 }
      = .ok 253402300799000000 ∧
    OracleDate.now { year := 2024, month := 2, day := 29, hour := 23, minute := 59, second := 59, usec := 999999 }
      = .ok 1709251199000000 ∧
    OracleDate.subDays 0 (F64.ofInt 1) = .ok (-86400000000) := by decide

/-! ### field tuples: the results that are not values of the six types but have a documented range
     (the kinds `year month day dow hour minute sec usec sign` of the protocol's range oracle, tools/catalog.py `valid`) -/

/-- `D.extract`: (year, month, day) of a valid date. -/
theorem date_extract_fields (d : Int) (hd : isValidDate d) :
    1 ≤ (Date.extract d).1 ∧ (Date.extract d).1 ≤ 9999 ∧ 1 ≤ (Date.extract d).2.1 ∧ (Date.extract d).2.1 ≤ 12 ∧
    1 ≤ (Date.extract d).2.2 ∧ (Date.extract d).2.2 ≤ 31 := by
  obtain ⟨⟨y1, y9, m1, m12, d1, dd⟩, _⟩ := C01.extract_roundtrip d hd
  have d31 : (Date.extract d).2.2 ≤ 31 := by
    unfold Spec.dim at dd; split at dd
    · split at dd <;> omega
    · split at dd <;> omega
  exact ⟨y1, y9, m1, m12, d1, d31⟩

/-- `D.dow`: 1 = Sunday … 7 = Saturday, for every day number. -/
theorem date_dayOfWeek_range (d : Int) : 1 ≤ Date.dayOfWeek d ∧ Date.dayOfWeek d ≤ 7 := C01.dayOfWeek_range d

/-- `T.extract`: (hour, minute, second, microsecond) of a valid time of day. -/
theorem time_extract_fields (t : Int) (ht : isValidTime t) :
    0 ≤ (Time.extract t).1 ∧ (Time.extract t).1 ≤ 23 ∧ 0 ≤ (Time.extract t).2.1 ∧ (Time.extract t).2.1 ≤ 59 ∧
    0 ≤ (Time.extract t).2.2.1 ∧ (Time.extract t).2.2.1 ≤ 59 ∧ 0 ≤ (Time.extract t).2.2.2 ∧
    (Time.extract t).2.2.2 ≤ 999999 := by
  obtain ⟨a, b, c, d, e, f, g, h, _⟩ := C07.fromHms_extract t ht
  omega

/-- `YM.extract`: (sign, years, months) of every integer. -/
theorem ym_extract_fields (v : Int) :
    ((IntervalYM.extract v).1 = 1 ∨ (IntervalYM.extract v).1 = -1) ∧ 0 ≤ (IntervalYM.extract v).2.1 ∧
    0 ≤ (IntervalYM.extract v).2.2 ∧ (IntervalYM.extract v).2.2 ≤ 11 := by
  unfold IntervalYM.extract MONTHS_PER_YEAR
  by_cases h : v < 0 <;> simp only [h, ↓reduceIte, or_true, true_or, true_and] <;> omega

/-- `DT.extract`: (sign, days, hours, minutes, seconds, microseconds) of every integer. -/
theorem dt_extract_fields (v : Int) :
    ((IntervalDT.extract v).1 = 1 ∨ (IntervalDT.extract v).1 = -1) ∧ 0 ≤ (IntervalDT.extract v).2.1 ∧
    0 ≤ (IntervalDT.extract v).2.2.1 ∧ (IntervalDT.extract v).2.2.1 ≤ 23 ∧
    0 ≤ (IntervalDT.extract v).2.2.2.1 ∧ (IntervalDT.extract v).2.2.2.1 ≤ 59 ∧
    0 ≤ (IntervalDT.extract v).2.2.2.2.1 ∧ (IntervalDT.extract v).2.2.2.2.1 ≤ 59 ∧
    0 ≤ (IntervalDT.extract v).2.2.2.2.2 ∧ (IntervalDT.extract v).2.2.2.2.2 ≤ 999999 := by
  unfold IntervalDT.extract USECONDS_PER_DAY USECONDS_PER_HOUR USECONDS_PER_MINUTE USECONDS_PER_SECOND
  by_cases h : v < 0 <;> simp only [h, ↓reduceIte, or_true, true_or, true_and] <;> omega

example : Date.extract 2932896 = (9999, 12, 31) ∧ Time.extract 86399999999 = (23, 59, 59, 999999) ∧
    IntervalYM.extract (-2136000000) = (-1, 178000000, 0) ∧
    IntervalDT.extract (-86399999999) = (-1, 0, 23, 59, 59, 999999) := by decide

end SqlDt.C02Rows
