/-
  C03 (continuation): truncation, rounding and month arithmetic never panic for valid receivers – corollaries of the
  closed forms of C09/C10/C11 (their results are a value or `DateOutOfRange`/`InvalidDate`, never the model's `Panic`,
  which is what an out-of-bounds table index, a failed `unwrap` or an arithmetic overflow in the crate is mapped to).
-/
import SqlDt.Props.C02
import SqlDt.Props.C03
namespace SqlDt.C03
open SqlDt Gen Spec

theorem inRangeDay_np (b : Int) : inRangeDay b ≠ .error .Panic := by
  unfold inRangeDay; split <;> simp

/-- `Date::trunc_*`, all 12 units, every valid date. -/
theorem date_trunc_no_panic (u : TUnit) (d : Int) (hd : isValidDate d) : Date.trunc u d ≠ .error .Panic := by
  obtain ⟨y, m, dd, hv, rfl⟩ := C02.date_decompose d hd
  rw [(C10.date_trunc u y m dd hv).1]; exact inRangeDay_np _

/-- `Date::round_*`, all 12 units, every valid date (the recorded deviation D1 included: it returns a value). -/
theorem date_round_no_panic (u : TUnit) (d : Int) (hd : isValidDate d) : Date.round u d ≠ .error .Panic := by
  obtain ⟨y, m, dd, hv, rfl⟩ := C02.date_decompose d hd
  by_cases hD1 : u = .century → y % 100 ≠ 0
  · rw [C11.date_round_partial u y m dd hv hD1]; exact inRangeDay_np _
  · have hu : u = .century := by
      by_cases h : u = .century
      · exact h
      · exact absurd (fun h' => absurd h' h) hD1
    have hy : y % 100 = 0 := by
      by_cases h : y % 100 = 0
      · exact h
      · exact absurd (fun _ => h) hD1
    subst hu
    have h9 : y ≤ 9900 := by have := hv.2.1; omega
    rw [(C11.round_century_deviation y m dd hv hy h9).1]; simp

/-- `Timestamp::trunc_*`, all 12 units, every valid timestamp. -/
theorem ts_trunc_no_panic (u : TUnit) (x : Int) (hx : isValidTimestamp x) : Timestamp.trunc u x ≠ .error .Panic := by
  obtain ⟨y, m, dd, hv, hd⟩ := C02.ts_decompose x hx
  rw [C10.ts_trunc u x hx y m dd hv hd]
  unfold truncTsOf
  have key : ∀ b : Int, (inRangeDay b).map (· * DAY_US) ≠ .error .Panic := by
    intro b; unfold inRangeDay; split <;> simp [Except.map]
  cases u <;> first | exact key _ | simp

/-- Oracle-style dates truncate through the timestamp. -/
theorem od_trunc_no_panic (u : TUnit) (x : Int) (hx : isValidTimestamp x) : OracleDate.trunc u x ≠ .error .Panic := by
  rw [C10.od_trunc]
  cases h : Timestamp.trunc u x with
  | ok v => simp [Except.map]
  | error e => simp [Except.map]; intro he; subst he; exact ts_trunc_no_panic u x hx h

/-- Adding months to any valid date with ANY integer offset: a value, `DateOutOfRange` or `InvalidDate`. -/
theorem date_addMonths_no_panic (d k : Int) (hd : isValidDate d) : Date.addIntervalYmInternal d k ≠ .error .Panic := by
  obtain ⟨y, m, dd, hv, rfl⟩ := C02.date_decompose d hd
  rw [C09.addMonths_spec y m dd k hv]
  split
  · simp
  · split <;> simp

theorem bind_np' {α β} (x : Chk α) (f : α → Chk β) (hx : x ≠ .error .Panic)
    (hf : ∀ a, x = .ok a → f a ≠ .error .Panic) : (x >>= f) ≠ .error .Panic := by
  cases x with
  | ok a => exact hf a rfl
  | error e => simp only [bind, Except.bind]; intro h; cases h; exact hx rfl

theorem shiftHalfDay_np (x : Int) : Timestamp.shiftHalfDay x ≠ .error .Panic := by
  unfold Timestamp.shiftHalfDay
  simp only []
  split
  · exact (arithmetic_no_panic _ _).2.1
  · simp

/-- `Timestamp::round_*`, all 12 units, every valid timestamp. -/
theorem ts_round_no_panic (u : TUnit) (x : Int) (hx : isValidTimestamp x) : Timestamp.round u x ≠ .error .Panic := by
  have hdate : isValidDate (Timestamp.date x) := C02.ts_date_valid x hx
  have wk : ∀ (g : Int → Chk Int), (∀ d, isValidDate d → g d ≠ .error .Panic) →
      (Timestamp.shiftHalfDay x >>= fun date => g date >>= fun d => pure (Timestamp.new d 0)) ≠ .error .Panic := by
    intro g hg
    refine bind_np' _ _ (shiftHalfDay_np x) (fun date hs => ?_)
    refine bind_np' _ _ (hg date (C02.shift_valid x date hx hs)) (fun d _ => ?_)
    simp [pure, Except.pure]
  cases u
  case week => exact wk (fun d => Date.roundWeekInternal d (Date.extract d).1) (fun d hd => date_round_no_panic .week d hd)
  case isoWeek => exact wk Date.roundIsoWeek (fun d hd => date_round_no_panic .isoWeek d hd)
  case monthStartWeek =>
    exact wk (fun d => Date.roundMonthStartWeekInternal d (Date.extract d).2.2) (fun d hd => date_round_no_panic .monthStartWeek d hd)
  case sundayStartWeek => exact wk Date.roundSundayStartWeek (fun d hd => date_round_no_panic .sundayStartWeek d hd)
  case day =>
    simp only [Timestamp.round]
    split
    · exact bind_np' _ _ (arithmetic_no_panic _ _).2.1 (fun d _ => by simp [pure, Except.pure])
    · simp [pure, Except.pure, bind, Except.bind]
  case hour =>
    simp only [Timestamp.round]
    split
    · split
      · exact bind_np' _ _ (arithmetic_no_panic _ _).2.1 (fun d _ => by simp [pure, Except.pure])
      · simp [pure, Except.pure]
    · simp [pure, Except.pure]
  case minute =>
    simp only [Timestamp.round]
    split
    · split
      · split
        · exact bind_np' _ _ (arithmetic_no_panic _ _).2.1 (fun d _ => by simp [pure, Except.pure])
        · simp [pure, Except.pure]
      · simp [pure, Except.pure]
    · simp [pure, Except.pure]
  all_goals
    simp only [Timestamp.round]
    exact bind_np' _ _ (date_round_no_panic _ _ hdate) (fun d _ => by simp [pure, Except.pure])

/-- Oracle-style dates round through the timestamp. -/
theorem od_round_no_panic (u : TUnit) (x : Int) (hx : isValidTimestamp x) : OracleDate.round u x ≠ .error .Panic := by
  rw [C11.od_round]
  cases h : Timestamp.round u x with
  | ok v => simp [Except.map]
  | error e => simp [Except.map]; intro he; subst he; exact ts_round_no_panic u x hx h

/-- Adding months to any valid timestamp with any integer offset. -/
theorem ts_addMonths_no_panic (x k : Int) (hx : isValidTimestamp x) : Timestamp.addIntervalYm x k ≠ .error .Panic := by
  unfold Timestamp.addIntervalYm
  simp only []
  have hd : isValidDate (Timestamp.extract x).1 := by
    have := C02.ts_date_valid x hx
    have e := C07.date_time_eq_extract x
    have e1 : (Timestamp.extract x).1 = Timestamp.date x := by rw [← e]
    rwa [e1]
  exact bind_np' _ _ (date_addMonths_no_panic _ k hd) (fun d _ => by simp [pure, Except.pure])

end SqlDt.C03
