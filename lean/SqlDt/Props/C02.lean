/-
  C02  Every value produced by a safe operation lies in its type's documented range.
  One row per operation: `Valid args → op args = ok v → Valid v`.  Rows whose operation has a functional
  characterisation elsewhere (C07, C08, C12, C13, C14, C15, C16) cite it.
-/
import SqlDt.Props.C07
import SqlDt.Props.C08
import SqlDt.Props.C12
import SqlDt.Props.C13
import SqlDt.Props.C14
import SqlDt.Props.C16
namespace SqlDt.C02
open SqlDt Gen

/-- Anything a gate `if Valid x then ok x else err` returns is valid. -/
theorem gate_valid {P : Int → Prop} [DecidablePred P] {e : Err} {x v : Int}
    (h : (if P x then (.ok x : Chk Int) else .error e) = .ok v) : P v := by
  split at h
  · cases h; assumption
  · cases h

theorem date_tryFromDays (k v : Int) (h : Date.tryFromDays k = .ok v) : isValidDate v := gate_valid h
theorem time_tryFromUsecs (k v : Int) (h : Time.tryFromUsecs k = .ok v) : isValidTime v := gate_valid h
theorem ts_tryFromUsecs (k v : Int) (h : Timestamp.tryFromUsecs k = .ok v) : isValidTimestamp v := gate_valid h
theorem ym_tryFromMonths (k v : Int) (h : IntervalYM.tryFromMonths k = .ok v) : IntervalYM.isValidMonths v := gate_valid h
theorem dt_tryFromUsecs (k v : Int) (h : IntervalDT.tryFromUsecs k = .ok v) : IntervalDT.isValidUsecs v := gate_valid h
theorem od_tryFromUsecs (k v : Int) (h : OracleDate.tryFromUsecs k = .ok v) : OracleDate.isValidDate v := gate_valid h

theorem date_addDays (d k v : Int) (h : Date.addDays d k = .ok v) : isValidDate v := by
  unfold Date.addDays at h; split at h
  · exact gate_valid h
  · cases h

theorem date_subDays (d k v : Int) (h : Date.subDays d k = .ok v) : isValidDate v := by
  unfold Date.subDays at h; split at h
  · exact gate_valid h
  · cases h

theorem ts_addIntervalDt (ts i v : Int) (h : Timestamp.addIntervalDt ts i = .ok v) : isValidTimestamp v := by
  unfold Timestamp.addIntervalDt at h; split at h
  · exact gate_valid h
  · cases h

theorem ts_subIntervalDt (ts i v : Int) (h : Timestamp.subIntervalDt ts i = .ok v) : isValidTimestamp v :=
  ts_addIntervalDt _ _ _ h

theorem ts_addTime (ts t v : Int) (h : Timestamp.addTime ts t = .ok v) : isValidTimestamp v := gate_valid h
theorem ts_subTime (ts t v : Int) (h : Timestamp.subTime ts t = .ok v) : isValidTimestamp v := gate_valid h

theorem ts_addDays (ts : Int) (x : F64) (v : Int) (h : Timestamp.addDays ts x = .ok v) : isValidTimestamp v := by
  unfold Timestamp.addDays at h
  simp only [] at h
  split at h; · cases h
  split at h; · cases h
  split at h
  · exact gate_valid h
  · cases h

theorem ym_add (a b v : Int) (h : IntervalYM.addIntervalYm a b = .ok v) : IntervalYM.isValidMonths v := by
  unfold IntervalYM.addIntervalYm at h; split at h
  · exact gate_valid h
  · cases h

theorem dt_add (a b v : Int) (h : IntervalDT.addIntervalDt a b = .ok v) : IntervalDT.isValidUsecs v := by
  unfold IntervalDT.addIntervalDt at h; split at h
  · exact gate_valid h
  · cases h

theorem dt_subTime (a t v : Int) (h : IntervalDT.subTime a t = .ok v) : IntervalDT.isValidUsecs v := gate_valid h

/-- Rows proved in other property files (cited so the list is complete in one place). -/
theorem ts_new (d t : Int) (hd : isValidDate d) (ht : isValidTime t) : isValidTimestamp (Timestamp.new d t) :=
  C07.new_valid d t hd ht
theorem ts_extract (ts : Int) (h : isValidTimestamp ts) :
    isValidDate (Timestamp.extract ts).1 ∧ isValidTime (Timestamp.extract ts).2 :=
  ⟨C07.extract_date_valid ts h, C07.extract_time_valid ts⟩
theorem time_tryFromHms (h mi s us v : Int) (h0 : 0 ≤ h) (m0 : 0 ≤ mi) (s0 : 0 ≤ s) (u0 : 0 ≤ us)
    (hv : Time.tryFromHms h mi s us = .ok v) : isValidTime v := C07.tryFromHms_valid h mi s us v h0 m0 s0 u0 hv
theorem time_addIntervalDt (t i : Int) (ht : isValidTime t) : isValidTime (Time.addIntervalDt t i) :=
  C12.addIntervalDt_valid t i ht
theorem time_subIntervalDt (t i : Int) (ht : isValidTime t) : isValidTime (Time.subIntervalDt t i) :=
  C12.addIntervalDt_valid t (-i) ht
theorem time_subTime (a b : Int) (ha : isValidTime a) (hb : isValidTime b) : IntervalDT.isValidUsecs (Time.subTime a b) :=
  C12.subTime_valid a b ha hb
theorem time_fromIntervalDt (i : Int) : isValidTime (Time.fromIntervalDt i) := C12.fromIntervalDt_valid i
theorem ts_subTimestamp (a b : Int) (ha : isValidTimestamp a) (hb : isValidTimestamp b) :
    IntervalDT.isValidUsecs (Timestamp.subTimestamp a b) := by
  rw [(C08.Timestamp.subTimestamp_exact a b ha hb).1]; exact (C08.Timestamp.subTimestamp_exact a b ha hb).2
theorem ts_subDate (ts d : Int) (hts : isValidTimestamp ts) (hd : isValidDate d) :
    IntervalDT.isValidUsecs (Timestamp.subDate ts d) := (C08.Timestamp.subDate_exact ts d hts hd).2
theorem ym_tryFromYm (y m v : Int) (hy : 0 ≤ y) (hm : 0 ≤ m) (h : IntervalYM.tryFromYm y m = .ok v) :
    IntervalYM.isValidMonths v := C13.ym_tryFromYm_valid y m v hy hm h
theorem dt_tryFromDhms (d h mi s us v : Int) (hd : 0 ≤ d) (hh : 0 ≤ h) (hm : 0 ≤ mi) (hs : 0 ≤ s) (hu : 0 ≤ us)
    (hv : IntervalDT.tryFromDhms d h mi s us = .ok v) : IntervalDT.isValidUsecs v :=
  C13.dt_tryFromDhms_valid d h mi s us v hd hh hm hs hu hv
theorem ym_negate (v : Int) (h : IntervalYM.isValidMonths v) : IntervalYM.isValidMonths (IntervalYM.negate v) :=
  C13.ym_negate_valid v h
theorem dt_negate (v : Int) (h : IntervalDT.isValidUsecs v) : IntervalDT.isValidUsecs (IntervalDT.negate v) :=
  C13.dt_negate_valid v h
theorem dt_mulF64 (v : Int) (x : F64) (r : Int) (h : IntervalDT.mulF64 v x = .ok r) : IntervalDT.isValidUsecs r :=
  C14.dt_mul_valid v x r h
theorem ym_mulF64 (v : Int) (x : F64) (r : Int) (h : IntervalYM.mulF64 v x = .ok r) : IntervalYM.isValidMonths r :=
  C14.ym_mul_valid v x r h
theorem od_fromTimestamp (ts : Int) (h : isValidTimestamp ts) : OracleDate.isValidDate (OracleDate.fromTimestamp ts) :=
  C16.fromTimestamp_valid ts h
theorem od_new (d t : Int) (hd : isValidDate d) (ht : isValidTime t) : OracleDate.isValidDate (OracleDate.new d t) :=
  C16.new_valid d t hd ht
theorem od_addDays (od : Int) (x : F64) (r : Int) (h : OracleDate.addDays od x = .ok r) : OracleDate.isValidDate r :=
  C16.addDays_valid od x r h

theorem od_addIntervalDt (od i r : Int) (h : OracleDate.addIntervalDt od i = .ok r) : OracleDate.isValidDate r := by
  unfold OracleDate.addIntervalDt at h
  cases hts : Timestamp.addIntervalDt od i with
  | error e => rw [hts] at h; cases h
  | ok ts =>
    rw [hts] at h; cases h
    exact C16.fromTimestamp_valid ts (ts_addIntervalDt od i ts hts)

/-- Out-of-range results are errors, never wrapped or clamped: the exact-result theorems of C08 say that an
    operation returns `ok` only with the exact mathematical result. E.g. one day past the maximum: -/
example : Date.addDays 2932896 1 = .error .DateOutOfRange ∧ Date.subDays (-719162) 1 = .error .DateOutOfRange ∧
    Timestamp.addTime 253402300799999999 1 = .error .DateOutOfRange := by decide

end SqlDt.C02
