/-
  C02  Every value produced by a safe operation lies in its type's documented range.
  One row per operation: `Valid args → op args = ok v → Valid v`.  Rows whose operation has a functional
  characterisation elsewhere (C07, C08, C12, C13, C14, C15, C16) cite it.
-/
import SqlDt.Props.C07
import SqlDt.Props.C08
import SqlDt.Props.C12
import SqlDt.Props.C13
import SqlDt.Props.C14
import SqlDt.Props.C16
import SqlDt.Props.C09
import SqlDt.Props.C10
import SqlDt.Props.C11
namespace SqlDt.C02
open SqlDt Gen Spec

/-- Anything a gate `if Valid x then ok x else err` returns is valid. -/
theorem gate_valid {P : Int → Prop} [DecidablePred P] {e : Err} {x v : Int}
    (h : (if P x then (.ok x : Chk Int) else .error e) = .ok v) : P v := by
  split at h
  · cases h; assumption
  · cases h

theorem date_tryFromDays (k v : Int) (h : Date.tryFromDays k = .ok v) : isValidDate v := gate_valid h
theorem time_tryFromUsecs (k v : Int) (h : Time.tryFromUsecs k = .ok v) : isValidTime v := gate_valid h
theorem ts_tryFromUsecs (k v : Int) (h : Timestamp.tryFromUsecs k = .ok v) : isValidTimestamp v := gate_valid h
theorem ym_tryFromMonths (k v : Int) (h : IntervalYM.tryFromMonths k = .ok v) : IntervalYM.isValidMonths v := gate_valid h
theorem dt_tryFromUsecs (k v : Int) (h : IntervalDT.tryFromUsecs k = .ok v) : IntervalDT.isValidUsecs v := gate_valid h
theorem od_tryFromUsecs (k v : Int) (h : OracleDate.tryFromUsecs k = .ok v) : OracleDate.isValidDate v := gate_valid h

theorem date_addDays (d k v : Int) (h : Date.addDays d k = .ok v) : isValidDate v := by
  unfold Date.addDays at h; split at h
  · exact gate_valid h
  · cases h

theorem date_subDays (d k v : Int) (h : Date.subDays d k = .ok v) : isValidDate v := by
  unfold Date.subDays at h; split at h
  · exact gate_valid h
  · cases h

theorem ts_addIntervalDt (ts i v : Int) (h : Timestamp.addIntervalDt ts i = .ok v) : isValidTimestamp v := by
  unfold Timestamp.addIntervalDt at h; split at h
  · exact gate_valid h
  · cases h

theorem ts_subIntervalDt (ts i v : Int) (h : Timestamp.subIntervalDt ts i = .ok v) : isValidTimestamp v :=
  ts_addIntervalDt _ _ _ h

theorem ts_addTime (ts t v : Int) (h : Timestamp.addTime ts t = .ok v) : isValidTimestamp v := gate_valid h
theorem ts_subTime (ts t v : Int) (h : Timestamp.subTime ts t = .ok v) : isValidTimestamp v := gate_valid h

theorem ts_addDays (ts : Int) (x : F64) (v : Int) (h : Timestamp.addDays ts x = .ok v) : isValidTimestamp v := by
  unfold Timestamp.addDays at h
  simp only [] at h
  split at h; · cases h
  split at h; · cases h
  split at h
  · exact gate_valid h
  · cases h

theorem ym_add (a b v : Int) (h : IntervalYM.addIntervalYm a b = .ok v) : IntervalYM.isValidMonths v := by
  unfold IntervalYM.addIntervalYm at h; split at h
  · exact gate_valid h
  · cases h

theorem dt_add (a b v : Int) (h : IntervalDT.addIntervalDt a b = .ok v) : IntervalDT.isValidUsecs v := by
  unfold IntervalDT.addIntervalDt at h; split at h
  · exact gate_valid h
  · cases h

theorem dt_subTime (a t v : Int) (h : IntervalDT.subTime a t = .ok v) : IntervalDT.isValidUsecs v := gate_valid h

/-- Rows proved in other property files (cited so the list is complete in one place). -/
theorem ts_new (d t : Int) (hd : isValidDate d) (ht : isValidTime t) : isValidTimestamp (Timestamp.new d t) :=
  C07.new_valid d t hd ht
theorem ts_extract (ts : Int) (h : isValidTimestamp ts) :
    isValidDate (Timestamp.extract ts).1 ∧ isValidTime (Timestamp.extract ts).2 :=
  ⟨C07.extract_date_valid ts h, C07.extract_time_valid ts⟩
theorem time_tryFromHms (h mi s us v : Int) (h0 : 0 ≤ h) (m0 : 0 ≤ mi) (s0 : 0 ≤ s) (u0 : 0 ≤ us)
    (hv : Time.tryFromHms h mi s us = .ok v) : isValidTime v := C07.tryFromHms_valid h mi s us v h0 m0 s0 u0 hv
theorem time_addIntervalDt (t i : Int) (ht : isValidTime t) : isValidTime (Time.addIntervalDt t i) :=
  C12.addIntervalDt_valid t i ht
theorem time_subIntervalDt (t i : Int) (ht : isValidTime t) : isValidTime (Time.subIntervalDt t i) :=
  C12.addIntervalDt_valid t (-i) ht
theorem time_subTime (a b : Int) (ha : isValidTime a) (hb : isValidTime b) : IntervalDT.isValidUsecs (Time.subTime a b) :=
  C12.subTime_valid a b ha hb
theorem time_fromIntervalDt (i : Int) : isValidTime (Time.fromIntervalDt i) := C12.fromIntervalDt_valid i
theorem ts_subTimestamp (a b : Int) (ha : isValidTimestamp a) (hb : isValidTimestamp b) :
    IntervalDT.isValidUsecs (Timestamp.subTimestamp a b) := by
  rw [(C08.Timestamp.subTimestamp_exact a b ha hb).1]; exact (C08.Timestamp.subTimestamp_exact a b ha hb).2
theorem ts_subDate (ts d : Int) (hts : isValidTimestamp ts) (hd : isValidDate d) :
    IntervalDT.isValidUsecs (Timestamp.subDate ts d) := (C08.Timestamp.subDate_exact ts d hts hd).2
theorem ym_tryFromYm (y m v : Int) (hy : 0 ≤ y) (hm : 0 ≤ m) (h : IntervalYM.tryFromYm y m = .ok v) :
    IntervalYM.isValidMonths v := C13.ym_tryFromYm_valid y m v hy hm h
theorem dt_tryFromDhms (d h mi s us v : Int) (hd : 0 ≤ d) (hh : 0 ≤ h) (hm : 0 ≤ mi) (hs : 0 ≤ s) (hu : 0 ≤ us)
    (hv : IntervalDT.tryFromDhms d h mi s us = .ok v) : IntervalDT.isValidUsecs v :=
  C13.dt_tryFromDhms_valid d h mi s us v hd hh hm hs hu hv
theorem ym_negate (v : Int) (h : IntervalYM.isValidMonths v) : IntervalYM.isValidMonths (IntervalYM.negate v) :=
  C13.ym_negate_valid v h
theorem dt_negate (v : Int) (h : IntervalDT.isValidUsecs v) : IntervalDT.isValidUsecs (IntervalDT.negate v) :=
  C13.dt_negate_valid v h
theorem dt_mulF64 (v : Int) (x : F64) (r : Int) (h : IntervalDT.mulF64 v x = .ok r) : IntervalDT.isValidUsecs r :=
  C14.dt_mul_valid v x r h
theorem ym_mulF64 (v : Int) (x : F64) (r : Int) (h : IntervalYM.mulF64 v x = .ok r) : IntervalYM.isValidMonths r :=
  C14.ym_mul_valid v x r h
theorem od_fromTimestamp (ts : Int) (h : isValidTimestamp ts) : OracleDate.isValidDate (OracleDate.fromTimestamp ts) :=
  C16.fromTimestamp_valid ts h
theorem od_new (d t : Int) (hd : isValidDate d) (ht : isValidTime t) : OracleDate.isValidDate (OracleDate.new d t) :=
  C16.new_valid d t hd ht
theorem od_addDays (od : Int) (x : F64) (r : Int) (h : OracleDate.addDays od x = .ok r) : OracleDate.isValidDate r :=
  C16.addDays_valid od x r h

theorem od_addIntervalDt (od i r : Int) (h : OracleDate.addIntervalDt od i = .ok r) : OracleDate.isValidDate r := by
  unfold OracleDate.addIntervalDt at h
  cases hts : Timestamp.addIntervalDt od i with
  | error e => rw [hts] at h; cases h
  | ok ts =>
    rw [hts] at h; cases h
    exact C16.fromTimestamp_valid ts (ts_addIntervalDt od i ts hts)

/-! ### Calendar operations: truncation, rounding, last day of month, adding months — Date, Timestamp, OracleDate -/

/-- Every valid day number is the ordinal of a real date of years 1..9999. -/
theorem date_decompose (d : Int) (hd : isValidDate d) : ∃ y m dd, ValidYMD y m dd ∧ dayNumber y m dd = d := by
  obtain ⟨hv, hb⟩ := Lemmas.extract_roundtrip d hd
  refine ⟨_, _, _, hv, ?_⟩
  rw [← Lemmas.fromYmd_eq_dayNumber _ _ _ ⟨by have := hv.1; omega, by have := hv.2.1; omega⟩ ⟨hv.2.2.1, hv.2.2.2.1⟩]
  exact hb

theorem inRangeDay_valid (b v : Int) (h : inRangeDay b = .ok v) : isValidDate v := by
  unfold inRangeDay MIN_DAY MAX_DAY at h
  split at h
  · cases h; exact (isValidDate_iff _).2 (by assumption)
  · cases h

/-- Whatever a date constructor from (y, m, d) accepts is a valid date. -/
theorem date_tryFromYmd (y m d v : Int) (hm : 0 ≤ m) (hd : 0 ≤ d) (h : Date.tryFromYmd y m d = .ok v) : isValidDate v := by
  have hv := (C01.tryFromYmd_ok_iff y m d hm hd).1 ⟨v, h⟩
  obtain ⟨h1, h2, _⟩ := C01.tryFromYmd_roundtrip y m d hv
  rw [h1] at h; cases h; exact h2

theorem date_trunc (u : TUnit) (d v : Int) (hd : isValidDate d) (h : Date.trunc u d = .ok v) : isValidDate v := by
  obtain ⟨y, m, dd, hv, rfl⟩ := date_decompose d hd
  rw [Lemmas.date_trunc_eq u y m dd hv] at h
  exact inRangeDay_valid _ _ h

theorem date_round (u : TUnit) (d v : Int) (hd : isValidDate d) (h : Date.round u d = .ok v) : isValidDate v := by
  obtain ⟨y, m, dd, hv, rfl⟩ := date_decompose d hd
  by_cases hD1 : u = .century → y % 100 ≠ 0
  · rw [Lemmas.date_round_eq u y m dd hv hD1] at h
    exact inRangeDay_valid _ _ h
  · have hu : u = .century := by
      by_cases hu : u = .century
      · exact hu
      · exact absurd (fun h' => absurd h' hu) hD1
    have hy : y % 100 = 0 := by
      by_cases hy : y % 100 = 0
      · exact hy
      · exact absurd (fun _ => hy) hD1
    subst hu
    have y9 : y ≤ 9900 := by have := hv.2.1; omega
    rw [(Lemmas.date_round_century_dev y m dd hv hy y9).1] at h
    cases h
    have : ValidYMD (y - 99) 1 1 := ⟨by have := hv.1; omega, by omega, by decide, by decide, by decide, by
      unfold dim; simp⟩
    exact (isValidDate_iff _).2 (Lemmas.dayNumber_range _ _ _ this)

theorem date_lastDay (d : Int) (hd : isValidDate d) : isValidDate (Date.lastDayOfMonth d) := by
  obtain ⟨y, m, dd, hv, rfl⟩ := date_decompose d hd
  obtain ⟨h1, h2⟩ := C09.lastDayOfMonth_spec y m dd hv
  rw [h1]; exact (isValidDate_iff _).2 (Lemmas.dayNumber_range _ _ _ h2)

theorem date_addMonths (d k v : Int) (hd : isValidDate d) (h : Date.addIntervalYmInternal d k = .ok v) : isValidDate v := by
  obtain ⟨y, m, dd, hv, rfl⟩ := date_decompose d hd
  rw [C09.addMonths_spec y m dd k hv] at h
  split at h; · cases h
  split at h; · cases h
  cases h
  rename_i c1 c2
  have : ValidYMD (C09.targetYear y m k) (C09.targetMonth y m k) dd := by
    refine ⟨by omega, by omega, ?_, ?_, hv.2.2.2.2.1, by omega⟩ <;> (unfold C09.targetMonth; omega)
  exact (isValidDate_iff _).2 (Lemmas.dayNumber_range _ _ _ this)

theorem ts_decompose (x : Int) (hx : isValidTimestamp x) :
    ∃ y m dd, ValidYMD y m dd ∧ dayNumber y m dd = x / 86400000000 := by
  have := (isValidTimestamp_iff x).1 hx
  exact date_decompose _ ((isValidDate_iff _).2 (by omega))

theorem midnight_valid (b v : Int) (h : (inRangeDay b).map (· * DAY_US) = .ok v) : isValidTimestamp v := by
  unfold inRangeDay MIN_DAY MAX_DAY DAY_US at h
  split at h
  · simp [Except.map] at h; subst h
    rw [isValidTimestamp_iff]; omega
  · simp [Except.map] at h

theorem ts_trunc (u : TUnit) (x v : Int) (hx : isValidTimestamp x) (h : Timestamp.trunc u x = .ok v) :
    isValidTimestamp v := by
  obtain ⟨y, m, dd, hv, hd⟩ := ts_decompose x hx
  have hr := (isValidTimestamp_iff x).1 hx
  rw [Lemmas.ts_trunc_eq u x hx y m dd hv hd] at h
  cases u <;> simp only [truncTsOf] at h <;>
    first
    | exact midnight_valid _ _ h
    | (cases h; rw [isValidTimestamp_iff]; omega)

theorem new_valid' (d t : Int) (hd : isValidDate d) (ht : 0 ≤ t ∧ t < 86400000000) : isValidTimestamp (Timestamp.new d t) :=
  C07.new_valid d t hd ((isValidTime_iff t).2 ht)

theorem ts_date_valid (x : Int) (hx : isValidTimestamp x) : isValidDate (Timestamp.date x) := by
  have := (isValidTimestamp_iff x).1 hx
  rw [Timestamp.date_eq, isValidDate_iff]; omega

theorem shift_valid (x d : Int) (hx : isValidTimestamp x) (h : Timestamp.shiftHalfDay x = .ok d) : isValidDate d := by
  unfold Timestamp.shiftHalfDay at h
  rw [Timestamp.extract_eq] at h
  simp only [] at h
  have hr := (isValidTimestamp_iff x).1 hx
  split at h
  · exact date_addDays _ _ _ h
  · cases h; rw [isValidDate_iff]; omega

/-- Whatever `Timestamp::round_*` returns is a valid timestamp (all twelve units). -/
theorem ts_round (u : TUnit) (x v : Int) (hx : isValidTimestamp x) (h : Timestamp.round u x = .ok v) :
    isValidTimestamp v := by
  have hdv := ts_date_valid x hx
  have key : ∀ (r : Chk Int) (t : Int), (0 ≤ t ∧ t < 86400000000) → (∀ d, r = .ok d → isValidDate d) →
      (r.bind fun d => .ok (Timestamp.new d t)) = .ok v → isValidTimestamp v := by
    intro r t ht hr hb
    cases r with
    | error e => simp [Except.bind] at hb
    | ok d => simp [Except.bind] at hb; subst hb; exact new_valid' d t (hr d rfl) ht
  have hdr : ∀ (w : TUnit) (d0 d : Int), isValidDate d0 → Date.round w d0 = .ok d → isValidDate d :=
    fun w d0 d h0 h1 => date_round w d0 d h0 h1
  have ht0 : (0:Int) ≤ 0 ∧ (0:Int) < 86400000000 := by omega
  cases u
  case week =>
    simp only [Timestamp.round, bind] at h
    cases hs : Timestamp.shiftHalfDay x with
    | error e => simp [hs, Except.bind] at h
    | ok d0 =>
      simp only [hs, Except.bind] at h
      exact key (Date.roundWeekInternal d0 (Date.extract d0).1) 0 ht0
        (fun d hd => hdr .week d0 d (shift_valid x d0 hx hs) hd) (by simpa [Except.bind, pure, Except.pure] using h)
  case isoWeek =>
    simp only [Timestamp.round, bind] at h
    cases hs : Timestamp.shiftHalfDay x with
    | error e => simp [hs, Except.bind] at h
    | ok d0 =>
      simp only [hs, Except.bind] at h
      exact key (Date.roundIsoWeek d0) 0 ht0
        (fun d hd => hdr .isoWeek d0 d (shift_valid x d0 hx hs) hd) (by simpa [Except.bind, pure, Except.pure] using h)
  case monthStartWeek =>
    simp only [Timestamp.round, bind] at h
    cases hs : Timestamp.shiftHalfDay x with
    | error e => simp [hs, Except.bind] at h
    | ok d0 =>
      simp only [hs, Except.bind] at h
      exact key (Date.roundMonthStartWeekInternal d0 (Date.extract d0).2.2) 0 ht0
        (fun d hd => hdr .monthStartWeek d0 d (shift_valid x d0 hx hs) hd) (by simpa [Except.bind, pure, Except.pure] using h)
  case sundayStartWeek =>
    simp only [Timestamp.round, bind] at h
    cases hs : Timestamp.shiftHalfDay x with
    | error e => simp [hs, Except.bind] at h
    | ok d0 =>
      simp only [hs, Except.bind] at h
      exact key (Date.roundSundayStartWeek d0) 0 ht0
        (fun d hd => hdr .sundayStartWeek d0 d (shift_valid x d0 hx hs) hd) (by simpa [Except.bind, pure, Except.pure] using h)
  case day =>
    simp only [Timestamp.round, bind, pure, Except.pure] at h
    split at h
    · exact key (Date.addDays (Timestamp.date x) 1) 0 ht0 (fun d hd => date_addDays _ _ _ hd)
        (by simpa [Except.bind] using h)
    · simp only [Except.bind] at h; cases h; exact new_valid' _ 0 hdv ht0
  case hour =>
    have hr := (isValidTimestamp_iff x).1 hx
    have htm : 0 ≤ x % 86400000000 := by omega
    simp only [Timestamp.round, bind, pure, Except.pure, Timestamp.time_eq, Time.extract_eq _ htm] at h
    have hfh : ∀ hh : Int, 0 ≤ hh → hh ≤ 23 → 0 ≤ Time.fromHmsUnchecked hh 0 0 0 ∧ Time.fromHmsUnchecked hh 0 0 0 < 86400000000 := by
      intro hh h0 h1; unfold Time.fromHmsUnchecked USECONDS_PER_HOUR USECONDS_PER_MINUTE USECONDS_PER_SECOND; omega
    split at h
    · split at h
      · exact key (Date.addDays (Timestamp.date x) 1) _ (hfh 0 (by omega) (by omega)) (fun d hd => date_addDays _ _ _ hd)
          (by simpa [Except.bind] using h)
      · cases h
        exact new_valid' _ _ hdv (hfh _ (by omega) (by omega))
    · cases h
      exact new_valid' _ _ hdv (hfh _ (by omega) (by omega))
  case minute =>
    have hr := (isValidTimestamp_iff x).1 hx
    have htm : 0 ≤ x % 86400000000 := by omega
    simp only [Timestamp.round, bind, pure, Except.pure, Timestamp.time_eq, Time.extract_eq _ htm] at h
    have hfh : ∀ hh mm : Int, 0 ≤ hh → hh ≤ 23 → 0 ≤ mm → mm ≤ 59 →
        0 ≤ Time.fromHmsUnchecked hh mm 0 0 ∧ Time.fromHmsUnchecked hh mm 0 0 < 86400000000 := by
      intro hh mm h0 h1 m0 m1; unfold Time.fromHmsUnchecked USECONDS_PER_HOUR USECONDS_PER_MINUTE USECONDS_PER_SECOND; omega
    split at h
    · split at h
      · split at h
        · exact key (Date.addDays (Timestamp.date x) 1) _ (hfh 0 0 (by omega) (by omega) (by omega) (by omega))
            (fun d hd => date_addDays _ _ _ hd) (by simpa [Except.bind] using h)
        · cases h
          exact new_valid' _ _ hdv (hfh _ 0 (by omega) (by omega) (by omega) (by omega))
      · cases h
        exact new_valid' _ _ hdv (hfh _ _ (by omega) (by omega) (by omega) (by omega))
    · cases h
      exact new_valid' _ _ hdv (hfh _ _ (by omega) (by omega) (by omega) (by omega))
  all_goals
    (simp only [Timestamp.round, bind] at h
     exact key (Date.round _ (Timestamp.date x)) 0 ht0 (fun d hd => hdr _ _ d hdv hd)
       (by simpa [Except.bind, pure, Except.pure] using h))

theorem ts_lastDay (x : Int) (hx : isValidTimestamp x) : isValidTimestamp (Timestamp.lastDayOfMonth x) := by
  obtain ⟨y, m, dd, hv, hd⟩ := ts_decompose x hx
  rw [C09.ts_lastDayOfMonth_spec x y m dd hv hd]
  obtain ⟨_, h2⟩ := C09.lastDayOfMonth_spec y m dd hv
  have := Lemmas.dayNumber_range _ _ _ h2
  rw [isValidTimestamp_iff]; omega

theorem ts_addMonths (x k v : Int) (hx : isValidTimestamp x) (h : Timestamp.addIntervalYm x k = .ok v) :
    isValidTimestamp v := by
  rw [C09.ts_addIntervalYm_eq] at h
  have hr := (isValidTimestamp_iff x).1 hx
  cases hd : Date.addIntervalYmInternal (x / 86400000000) k with
  | error e => simp [hd, Except.map] at h
  | ok d =>
    simp [hd, Except.map] at h; subst h
    exact new_valid' d _ (date_addMonths _ k d ((isValidDate_iff _).2 (by omega)) hd) (by omega)

/-- Oracle-style dates: every operation is the timestamp operation followed by the floor to the second. -/
theorem od_of_ts (r : Chk Int) (v : Int) (hr : ∀ t, r = .ok t → isValidTimestamp t)
    (h : (r.bind fun t => .ok (OracleDate.fromTimestamp t)) = .ok v) : OracleDate.isValidDate v := by
  cases r with
  | error e => simp [Except.bind] at h
  | ok t => simp [Except.bind] at h; subst h; exact C16.fromTimestamp_valid t (hr t rfl)

theorem od_trunc (u : TUnit) (x v : Int) (hx : OracleDate.isValidDate x) (h : OracleDate.trunc u x = .ok v) :
    OracleDate.isValidDate v :=
  od_of_ts (Timestamp.trunc u x) v (fun t ht => ts_trunc u x t hx.1 ht) h

theorem od_round (u : TUnit) (x v : Int) (hx : OracleDate.isValidDate x) (h : OracleDate.round u x = .ok v) :
    OracleDate.isValidDate v :=
  od_of_ts (Timestamp.round u x) v (fun t ht => ts_round u x t hx.1 ht) h

theorem od_addMonths (x k v : Int) (hx : OracleDate.isValidDate x) (h : OracleDate.addIntervalYm x k = .ok v) :
    OracleDate.isValidDate v :=
  od_of_ts (Timestamp.addIntervalYm x k) v (fun t ht => ts_addMonths x k t hx.1 ht) h

theorem od_lastDay (x : Int) (hx : OracleDate.isValidDate x) : OracleDate.isValidDate (OracleDate.lastDayOfMonth x) :=
  C16.fromTimestamp_valid _ (ts_lastDay x hx.1)


/-! ### the `now` constructors and time-of-day → timestamp conversions, under ANY clock (clock fields as unsigned) -/

theorem date_now (c : Clock) (v : Int) (hm : 0 ≤ c.month) (hd : 0 ≤ c.day) (h : Date.now c = .ok v) : isValidDate v :=
  date_tryFromYmd c.year c.month c.day v hm hd h

theorem ts_now (c : Clock) (v : Int) (hm : 0 ≤ c.month) (hd : 0 ≤ c.day) (hh : 0 ≤ c.hour) (hmi : 0 ≤ c.minute)
    (hs : 0 ≤ c.second) (hu : 0 ≤ c.usec) (h : Timestamp.now c = .ok v) : isValidTimestamp v := by
  unfold Timestamp.now at h
  cases hd' : Date.tryFromYmd c.year c.month c.day with
  | error e => simp [hd', bind, Except.bind] at h
  | ok d =>
    cases ht : Time.tryFromHms c.hour c.minute c.second c.usec with
    | error e => simp [hd', ht, bind, Except.bind] at h
    | ok t =>
      simp [hd', ht, bind, Except.bind, pure, Except.pure] at h
      subst h
      exact ts_new d t (date_tryFromYmd _ _ _ d hm hd hd') (time_tryFromHms _ _ _ _ t hh hmi hs hu ht)

theorem ts_fromTime (t : Int) (c : Clock) (v : Int) (ht : isValidTime t) (hm : 0 ≤ c.month) (hd : 0 ≤ c.day)
    (h : Timestamp.fromTime t c = .ok v) : isValidTimestamp v := by
  unfold Timestamp.fromTime at h
  cases hd' : Date.tryFromYmd c.year c.month c.day with
  | error e => simp [hd', bind, Except.bind] at h
  | ok d =>
    simp [hd', bind, Except.bind, pure, Except.pure] at h
    subst h
    exact ts_new d t (date_tryFromYmd _ _ _ d hm hd hd') ht

/-- Out-of-range results are errors, never wrapped or clamped: the exact-result theorems of C08 say that an
    operation returns `ok` only with the exact mathematical result. E.g. one day past the maximum: -/
example : Date.addDays 2932896 1 = .error .DateOutOfRange ∧ Date.subDays (-719162) 1 = .error .DateOutOfRange ∧
    Timestamp.addTime 253402300799999999 1 = .error .DateOutOfRange := by decide

end SqlDt.C02
