/-
  C01  Day numbers and (year, month, day) form the proleptic Gregorian bijection.
  (Layer 1: acceptance tests, weekday, ordering of raw day numbers.  The round trip and the successor rule
   are in the second half of this file once Lemmas/Calendar is built.)
-/
import SqlDt.Lemmas.Div
namespace SqlDt.C01
open SqlDt Gen

/-- A raw day number is accepted exactly when it lies in 0001-01-01..9999-12-31 (for every i32). -/
theorem tryFromDays_spec (k : Int) :
    Date.tryFromDays k = if -719162 ≤ k ∧ k ≤ 2932896 then .ok k else .error .DateOutOfRange := by
  unfold Date.tryFromDays
  by_cases h : isValidDate k
  · rw [if_pos h, if_pos ((isValidDate_iff k).1 h)]
  · rw [if_neg h, if_neg (fun x => h ((isValidDate_iff k).2 x))]

/-- The weekday of day number `d` is `(d + 4) mod 7` counted from Sunday = 1: for every integer `d`. -/
theorem dayOfWeek_eq (d : Int) : Date.dayOfWeek d = (d + 4) % 7 + 1 := by
  unfold Date.dayOfWeek UNIX_EPOCH_DOW
  by_cases h : 0 ≤ d + 5 - 1
  · rw [rrem_nonneg_eq h]
    have : ¬ ((d + 5 - 1) % 7 < 0) := by omega
    simp only [this, ↓reduceIte]; omega
  · rw [rrem_neg_eq (by omega)]
    by_cases h2 : -(-(d + 5 - 1) % 7) < 0
    · simp only [h2, ↓reduceIte]; omega
    · simp only [h2, ↓reduceIte]; omega

/-- 1970-01-01 (day number 0) is a Thursday (Sunday = 1 … Thursday = 5). -/
theorem dayOfWeek_epoch : Date.dayOfWeek 0 = 5 := by decide

/-- The weekday advances by one each day, wrapping Saturday → Sunday. -/
theorem dayOfWeek_succ (d : Int) :
    Date.dayOfWeek (d + 1) = if Date.dayOfWeek d = 7 then 1 else Date.dayOfWeek d + 1 := by
  rw [dayOfWeek_eq, dayOfWeek_eq]
  by_cases h : (d + 4) % 7 + 1 = 7
  · rw [if_pos h]; omega
  · rw [if_neg h]; omega

theorem dayOfWeek_range (d : Int) : 1 ≤ Date.dayOfWeek d ∧ Date.dayOfWeek d ≤ 7 := by
  rw [dayOfWeek_eq]; omega

/-- The field checks of `try_from_ymd`, in the order year / month / day 1..31 / day ≤ days-in-month, for ALL
    i32 years and u32 months and days (no hypothesis on the arguments at all). -/
theorem tryFromYmd_classify (y m d : Int) :
    Date.tryFromYmd y m d =
      if y < 1 ∨ y > 9999 then .error .DateOutOfRange
      else if m < 1 ∨ m > 12 then .error .InvalidMonth
      else if d < 1 ∨ d > 31 then .error .InvalidDay
      else if d > daysOfMonth y m then .error .InvalidDate
      else .ok (date2julian y m d - 2440588) := by
  unfold Date.tryFromYmd Date.fromYmdUnchecked DATE_MIN_YEAR DATE_MAX_YEAR MONTHS_PER_YEAR
  rw [UNIX_EPOCH_JULIAN_eq]

/-- `is_valid` accepts exactly what `try_from_ymd` accepts. -/
theorem isValid_iff_tryFromYmd_ok (y m d : Int) :
    Date.isValid y m d = true ↔ ∃ v, Date.tryFromYmd y m d = .ok v := by
  unfold Date.isValid Date.tryFromYmd
  by_cases h1 : y < DATE_MIN_YEAR ∨ y > DATE_MAX_YEAR
  · simp [h1]
  · by_cases h2 : m < 1 ∨ m > MONTHS_PER_YEAR
    · simp [h1, h2]
    · by_cases h3 : d < 1 ∨ d > 31
      · simp [h1, h2, h3]
      · by_cases h4 : d > daysOfMonth y m
        · simp [h1, h2, h3, h4]
        · simp [h1, h2, h3, h4]

/-- Month lengths are the Gregorian ones: 31/30 by month, February 28 or 29 by the 4/100/400 rule. -/
theorem daysOfMonth_spec (y m : Int) (hm : 1 ≤ m ∧ m ≤ 12) :
    daysOfMonth y m =
      if m = 2 then (if isLeapYear y then 29 else 28)
      else if m = 4 ∨ m = 6 ∨ m = 9 ∨ m = 11 then 30 else 31 := by
  have : m = 1 ∨ m = 2 ∨ m = 3 ∨ m = 4 ∨ m = 5 ∨ m = 6 ∨ m = 7 ∨ m = 8 ∨ m = 9 ∨ m = 10 ∨ m = 11 ∨ m = 12 := by omega
  unfold daysOfMonth
  cases hl : isLeapYear y <;> rcases this with h | h | h | h | h | h | h | h | h | h | h | h <;> subst h <;> decide

/-- Leap years: every 4 years except century years not divisible by 400 (years ≥ 0, the supported range). -/
theorem isLeapYear_spec (y : Int) (hy : 0 ≤ y) :
    isLeapYear y = true ↔ (y % 4 = 0 ∧ (y % 100 ≠ 0 ∨ y % 400 = 0)) := by
  unfold isLeapYear
  rw [rrem_nonneg_eq hy, rrem_nonneg_eq hy, rrem_nonneg_eq hy]
  simp

example : Date.tryFromYmd 2021 2 29 = .error .InvalidDate ∧ Date.tryFromYmd 2020 2 29 = .ok 18321 ∧
    Date.tryFromYmd 0 1 1 = .error .DateOutOfRange ∧ Date.tryFromYmd 1 13 1 = .error .InvalidMonth ∧
    Date.tryFromYmd 1 1 32 = .error .InvalidDay ∧ Date.extract 18321 = (2020, 2, 29) := by decide

end SqlDt.C01
