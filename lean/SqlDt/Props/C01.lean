/-
  C01  Day numbers and (year, month, day) form the proleptic Gregorian bijection.
  (Layer 1: acceptance tests, weekday, ordering of raw day numbers.  The round trip and the successor rule
   are in the second half of this file once Lemmas/Calendar is built.)
-/
import SqlDt.Lemmas.Div
import SqlDt.Lemmas.Calendar
namespace SqlDt.C01
open SqlDt Gen Spec

/-- A raw day number is accepted exactly when it lies in 0001-01-01..9999-12-31 (for every i32). -/
theorem tryFromDays_spec (k : Int) :
    Date.tryFromDays k = if -719162 ≤ k ∧ k ≤ 2932896 then .ok k else .error .DateOutOfRange := by
  unfold Date.tryFromDays
  by_cases h : isValidDate k
  · rw [if_pos h, if_pos ((isValidDate_iff k).1 h)]
  · rw [if_neg h, if_neg (fun x => h ((isValidDate_iff k).2 x))]

/-- The weekday of day number `d` is `(d + 4) mod 7` counted from Sunday = 1: for every integer `d`. -/
theorem dayOfWeek_eq (d : Int) : Date.dayOfWeek d = (d + 4) % 7 + 1 := by
  unfold Date.dayOfWeek UNIX_EPOCH_DOW
  by_cases h : 0 ≤ d + 5 - 1
  · rw [rrem_nonneg_eq h]
    have : ¬ ((d + 5 - 1) % 7 < 0) := by omega
    simp only [this, ↓reduceIte]; omega
  · rw [rrem_neg_eq (by omega)]
    by_cases h2 : -(-(d + 5 - 1) % 7) < 0
    · simp only [h2, ↓reduceIte]; omega
    · simp only [h2, ↓reduceIte]; omega

/-- 1970-01-01 (day number 0) is a Thursday (Sunday = 1 … Thursday = 5). -/
theorem dayOfWeek_epoch : Date.dayOfWeek 0 = 5 := by decide

/-- The weekday advances by one each day, wrapping Saturday → Sunday. -/
theorem dayOfWeek_succ (d : Int) :
    Date.dayOfWeek (d + 1) = if Date.dayOfWeek d = 7 then 1 else Date.dayOfWeek d + 1 := by
  rw [dayOfWeek_eq, dayOfWeek_eq]
  by_cases h : (d + 4) % 7 + 1 = 7
  · rw [if_pos h]; omega
  · rw [if_neg h]; omega

theorem dayOfWeek_range (d : Int) : 1 ≤ Date.dayOfWeek d ∧ Date.dayOfWeek d ≤ 7 := by
  rw [dayOfWeek_eq]; omega

/-- The field checks of `try_from_ymd`, in the order year / month / day 1..31 / day ≤ days-in-month, for ALL
    i32 years and u32 months and days (no hypothesis on the arguments at all). -/
theorem tryFromYmd_classify (y m d : Int) :
    Date.tryFromYmd y m d =
      if y < 1 ∨ y > 9999 then .error .DateOutOfRange
      else if m < 1 ∨ m > 12 then .error .InvalidMonth
      else if d < 1 ∨ d > 31 then .error .InvalidDay
      else if d > daysOfMonth y m then .error .InvalidDate
      else .ok (date2julian y m d - 2440588) := by
  unfold Date.tryFromYmd Date.fromYmdUnchecked DATE_MIN_YEAR DATE_MAX_YEAR MONTHS_PER_YEAR
  rw [UNIX_EPOCH_JULIAN_eq]

/-- `is_valid` accepts exactly what `try_from_ymd` accepts. -/
theorem isValid_iff_tryFromYmd_ok (y m d : Int) :
    Date.isValid y m d = true ↔ ∃ v, Date.tryFromYmd y m d = .ok v := by
  unfold Date.isValid Date.tryFromYmd
  by_cases h1 : y < DATE_MIN_YEAR ∨ y > DATE_MAX_YEAR
  · simp [h1]
  · by_cases h2 : m < 1 ∨ m > MONTHS_PER_YEAR
    · simp [h1, h2]
    · by_cases h3 : d < 1 ∨ d > 31
      · simp [h1, h2, h3]
      · by_cases h4 : d > daysOfMonth y m
        · simp [h1, h2, h3, h4]
        · simp [h1, h2, h3, h4]

/-- Month lengths are the Gregorian ones: 31/30 by month, February 28 or 29 by the 4/100/400 rule. -/
theorem daysOfMonth_spec (y m : Int) (hm : 1 ≤ m ∧ m ≤ 12) :
    daysOfMonth y m =
      if m = 2 then (if isLeapYear y then 29 else 28)
      else if m = 4 ∨ m = 6 ∨ m = 9 ∨ m = 11 then 30 else 31 := by
  have : m = 1 ∨ m = 2 ∨ m = 3 ∨ m = 4 ∨ m = 5 ∨ m = 6 ∨ m = 7 ∨ m = 8 ∨ m = 9 ∨ m = 10 ∨ m = 11 ∨ m = 12 := by omega
  unfold daysOfMonth
  cases hl : isLeapYear y <;> rcases this with h | h | h | h | h | h | h | h | h | h | h | h <;> subst h <;> decide

/-- Leap years: every 4 years except century years not divisible by 400 (years ≥ 0, the supported range). -/
theorem isLeapYear_spec (y : Int) (hy : 0 ≤ y) :
    isLeapYear y = true ↔ (y % 4 = 0 ∧ (y % 100 ≠ 0 ∨ y % 400 = 0)) := by
  unfold isLeapYear
  rw [rrem_nonneg_eq hy, rrem_nonneg_eq hy, rrem_nonneg_eq hy]
  simp

/-! ## The bijection with the proleptic Gregorian calendar (Spec/Calendar: defined by its successor rule) -/

/-- ROUND TRIP 1: every in-range day number extracts to a real calendar date of years 1..9999 and converts back to
    the same number. -/
theorem extract_roundtrip (j : Int) (hj : isValidDate j) :
    ValidYMD (Date.extract j).1 (Date.extract j).2.1 (Date.extract j).2.2 ∧
    Date.tryFromYmd (Date.extract j).1 (Date.extract j).2.1 (Date.extract j).2.2 = .ok j := by
  obtain ⟨hv, hb⟩ := Lemmas.extract_roundtrip j hj
  refine ⟨hv, ?_⟩
  obtain ⟨y1, y9, m1, m12, d1, dd⟩ := hv
  rw [tryFromYmd_classify, ← UNIX_EPOCH_JULIAN_eq]
  rw [Lemmas.daysOfMonth_eq _ _ (by omega) ⟨m1, m12⟩]
  have d31 : (Date.extract j).2.2 ≤ 31 := by
    unfold dim at dd; split at dd
    · split at dd <;> omega
    · split at dd <;> omega
  have c1 : ¬ ((Date.extract j).1 < 1 ∨ (Date.extract j).1 > 9999) := by omega
  have c2 : ¬ ((Date.extract j).2.1 < 1 ∨ (Date.extract j).2.1 > 12) := by omega
  have c3 : ¬ ((Date.extract j).2.2 < 1 ∨ (Date.extract j).2.2 > 31) := by omega
  have c4 : ¬ ((Date.extract j).2.2 > dim (Date.extract j).1 (Date.extract j).2.1) := by omega
  rw [if_neg c1, if_neg c2, if_neg c3, if_neg c4]
  exact congrArg _ hb

/-- ROUND TRIP 2: every real date of years 1..9999 is accepted, its day number is in range and extracts back to it;
    and the day number is the calendar's ordinal `dayNumber`. -/
theorem tryFromYmd_roundtrip (y m d : Int) (h : ValidYMD y m d) :
    Date.tryFromYmd y m d = .ok (dayNumber y m d) ∧ isValidDate (dayNumber y m d) ∧
    Date.extract (dayNumber y m d) = (y, m, d) := by
  obtain ⟨hv, he⟩ := Lemmas.extract_fromYmd y m d h
  have hdn := Lemmas.fromYmd_eq_dayNumber y m d ⟨by have := h.1; omega, by have := h.2.1; omega⟩ ⟨h.2.2.1, h.2.2.2.1⟩
  rw [hdn] at hv he
  refine ⟨?_, hv, he⟩
  obtain ⟨y1, y9, m1, m12, d1, dd⟩ := h
  rw [tryFromYmd_classify, ← UNIX_EPOCH_JULIAN_eq, Lemmas.daysOfMonth_eq _ _ (by omega) ⟨m1, m12⟩]
  have d31 : d ≤ 31 := by
    unfold dim at dd; split at dd
    · split at dd <;> omega
    · split at dd <;> omega
  have c1 : ¬ (y < 1 ∨ y > 9999) := by omega
  have c2 : ¬ (m < 1 ∨ m > 12) := by omega
  have c3 : ¬ (d < 1 ∨ d > 31) := by omega
  have c4 : ¬ (d > dim y m) := by omega
  rw [if_neg c1, if_neg c2, if_neg c3, if_neg c4]
  exact congrArg _ hdn

/-- A triple is accepted EXACTLY when it names a real date of years 1..9999 (all i32 years, u32 months and days). -/
theorem tryFromYmd_ok_iff (y m d : Int) (hm : 0 ≤ m) (hd : 0 ≤ d) :
    (∃ v, Date.tryFromYmd y m d = .ok v) ↔ ValidYMD y m d := by
  constructor
  · rintro ⟨v, hv⟩
    rw [tryFromYmd_classify] at hv
    split at hv; · cases hv
    split at hv; · cases hv
    split at hv; · cases hv
    split at hv; · cases hv
    rename_i c1 c2 c3 c4
    rw [Lemmas.daysOfMonth_eq _ _ (by omega) (by omega)] at c4
    exact ⟨by omega, by omega, by omega, by omega, by omega, by omega⟩
  · intro h; exact ⟨_, (tryFromYmd_roundtrip y m d h).1⟩

/-- Consecutive day numbers are consecutive Gregorian dates: the calendar is *defined* by `Spec.nextDay`
    (day + 1 within the month, else first of the next month, else 1 January of the next year; month lengths 28/29/30/31
    with leap years every 4 years except century years not divisible by 400). -/
theorem extract_succ (j : Int) (hj : isValidDate j) (hj1 : isValidDate (j + 1)) :
    Date.extract (j + 1) = nextDay (Date.extract j) := Lemmas.extract_succ j hj hj1

theorem extract_min : Date.extract (-719162) = (1, 1, 1) := Lemmas.extract_min
theorem extract_max : Date.extract 2932896 = (9999, 12, 31) := Lemmas.extract_max

/-- Accepted dates order the same way as their (year, month, day) triples. -/
theorem order_iff_lex (y m d y' m' d' : Int) (h : ValidYMD y m d) (h' : ValidYMD y' m' d') :
    dayNumber y m d < dayNumber y' m' d' ↔ lexLt (y, m, d) (y', m', d') :=
  Lemmas.dayNumber_lt_iff y m d y' m' d' h.2.2 h'.2.2

example : Date.tryFromYmd 2021 2 29 = .error .InvalidDate ∧ Date.tryFromYmd 2020 2 29 = .ok 18321 ∧
    Date.tryFromYmd 0 1 1 = .error .DateOutOfRange ∧ Date.tryFromYmd 1 13 1 = .error .InvalidMonth ∧
    Date.tryFromYmd 1 1 32 = .error .InvalidDay ∧ Date.extract 18321 = (2020, 2, 29) := by decide

end SqlDt.C01
