/-
  C04  Formatting renders every field exactly as the picture specifies.
  Layer 1: every string table the formatter indexes — regenerated from the Rust source on each run — equals the
  arithmetic rendering it stands for (a changed table entry breaks the build here).
  Layer 2: for all six types, every value and every picture, `format` = `Spec.render` (Spec/Render.lean).
-/
import SqlDt.Lemmas.Digits
import SqlDt.Lemmas.RenderTypes
import SqlDt.Lemmas.RenderAll
import SqlDt.Lemmas.WellFormed
import SqlDt.Model.Parse
namespace SqlDt.C04
open SqlDt Gen Spec

theorem month_table : MONTH_TABLE = (List.range 13).map (pad 2) := by decide +kernel
theorem hour_table : HOUR_TABLE = (List.range 25).map (pad 2) := by decide +kernel
theorem day_table : DAY_TABLE = (List.range 32).map (pad 2) := by decide +kernel
theorem minute_second_table : MINUTE_SECOND_TABLE = (List.range 61).map (pad 2) := by decide +kernel
theorem day_of_week_table : DAY_OF_WEEK_TABLE = (List.range 8).map (pad 1) := by decide +kernel
theorem day_of_year_table : DAY_OF_YEAR_TABLE = (List.range 367).map (pad 3) := by decide +kernel

/-- Week of month: entry `d` (day of month 1..31) is `⌊(d−1)/7⌋+1`; entry 0 is unused. -/
theorem week_of_month_table :
    WEEK_OF_MONTH_TABLE = (List.range 32).map (fun d => if d = 0 then pad 1 0 else pad 1 (weekOf d)) := by decide +kernel

/-- Week of year: entry `n` (day of year 1..366) is `⌊(n−1)/7⌋+1` on two digits. -/
theorem week_of_year_table :
    WEEK_OF_YEAR_TABLE = (List.range 367).map (fun n => if n = 0 then pad 2 0 else pad 2 (weekOf n)) := by decide +kernel

/-- The six month-name rows are the English names in the six letter-case styles. -/
theorem month_name_table (style : NameStyle) :
    MONTH_NAME_TABLE.getD style.index [] = monthNames.map (styled style) := by
  cases style <;> decide +kernel

theorem day_name_table (style : NameStyle) :
    DAY_NAME_TABLE.getD style.index [] = dayNames.map (styled style) := by
  cases style <;> decide +kernel

/-- AM/PM spellings per style. -/
theorem ampm_text :
    AM_TEXT = ["AM", "am", "A.M.", "a.m."].map monthNames.bytesOf' ∧
    PM_TEXT = ["PM", "pm", "P.M.", "p.m."].map monthNames.bytesOf' := by decide +kernel

/-- The digit loop of `write_u32` produces the zero-padded decimal, for every u32 value and every width. -/
theorem writeU32_pad (v w : Nat) (hv : v ≤ 4294967295) : writeU32 (Int.ofNat v) w = pad w v :=
  writeU32_eq_pad v w (by omega)

/-- Cumulative day table = sum of the month lengths (both leap rows), so `the_day_of_year` is the ordinal day. -/
theorem sum_of_days_table :
    ∀ leap < 2, ∀ m < 12,
      (SUM_OF_DAYS_TABLE.getD leap []).getD m 0 =
        (((DAYS_OF_MONTH_TABLE.getD leap []).take (m + 1)).foldl (· + ·) 0) := by decide +kernel

/-! ### Layer 2: field by field and whole pictures -/

/-- FIELD BY FIELD, all six types: whenever the formatter's `NaiveDateTime` carries the components `c` of a valid value
    (`Lemmas.Agrees`), each token is written exactly as `Spec.renderField` says – or formatting fails with a format
    error when the token does not apply to the type. (`FractionOK`: the `f64` division of `FFn`, see Lemmas/Float.) -/
theorem formatField_eq_render (ty : Ty) (v : Int) (dt : NDT) (c : Comps) (w : Sink) (f : Field)
    (h : Lemmas.Agrees ty v dt c) (hf : Lemmas.Field.WellFormed f) (hfr : Lemmas.FractionOK dt c) :
    Formatter.formatField ty v dt w f = Lemmas.outcome w (renderField ty c f) :=
  Lemmas.formatField_eq_render ty v dt c w f h hf hfr

/-- WHOLE PICTURE, any type: the text is the sign (intervals only, once, first) followed by the renderings in picture
    order; one inapplicable token makes the whole call a format error. -/
theorem format_eq_render (ty : Ty) (v : Int) (c : Comps) (h : Lemmas.Agrees ty v (NDT.ofValue ty v) c)
    (hfr : Lemmas.FractionOK (NDT.ofValue ty v) c) (hneg : (NDT.ofValue ty v).negative = c.neg)
    (fields : List Field) (hwf : ∀ f ∈ fields, Lemmas.Field.WellFormed f) :
    Formatter.format ty v fields none = Lemmas.toChk (render ty c fields) :=
  Lemmas.format_eq_render ty v c h hfr hneg fields hwf

/-- DATES, end to end from the picture text: for every real date of years 1..9999 and EVERY picture,
    `Date::format(picture)` is the picture's compile error, or the specified rendering of (y, m, d) with its weekday
    and ordinal day, or a format error if the picture contains a token that does not apply to dates. -/
theorem format_date (y m d : Int) (h : ValidYMD y m d) (pic : Bytes) :
    formatValue .D (dayNumber y m d) pic none =
      (Lexer.tryNew pic).bind fun fields => Lemmas.toChk (render .D (Lemmas.compsOfDate y m d) fields) := by
  unfold formatValue
  cases ht : Lexer.tryNew pic with
  | error e => rfl
  | ok fields =>
    simp only [bind, Except.bind]
    exact Lemmas.format_date y m d h fields (Lemmas.tryNew_wf pic fields ht)

/-- Helper: from the picture text. -/
theorem from_picture (ty : Ty) (v : Int) (c : Comps) (pic : Bytes)
    (h : ∀ fields, (∀ f ∈ fields, Lemmas.Field.WellFormed f) →
      Formatter.format ty v fields none = Lemmas.toChk (render ty c fields)) :
    formatValue ty v pic none = (Lexer.tryNew pic).bind fun fields => Lemmas.toChk (render ty c fields) := by
  unfold formatValue
  cases ht : Lexer.tryNew pic with
  | error e => rfl
  | ok fields =>
    simp only [bind, Except.bind]
    exact h fields (Lemmas.tryNew_wf pic fields ht)

/-- TIMES OF DAY: every (hour<24, minute<60, second<60, µs<10^6) and every picture; fractional seconds are TRUNCATED to
    the requested digits (`Spec.fractionOf`), never rounded – including `FF7..FF9`, whose divisors 0.1/0.01/0.001 are
    not exact doubles (Lemmas/Float.fraction_eq). -/
theorem format_time (h mi s us : Int) (hh : 0 ≤ h ∧ h < 24) (hm : 0 ≤ mi ∧ mi < 60) (hs : 0 ≤ s ∧ s < 60)
    (hu : 0 ≤ us ∧ us < 1000000) (pic : Bytes) :
    formatValue .T (Time.fromHmsUnchecked h mi s us) pic none =
      (Lexer.tryNew pic).bind fun fields => Lemmas.toChk (render .T (Lemmas.compsOfTime h mi s us) fields) :=
  from_picture .T _ _ pic (fun fields hwf => Lemmas.format_time h mi s us hh hm hs hu fields hwf)

/-- TIMESTAMPS and ORACLE-STYLE DATES (`us = 0`): every real date of years 1..9999 with every time of day. -/
theorem format_timestamp (ty : Ty) (hty : ty = .TS ∨ ty = .OD) (y m d h mi s us : Int) (hv : ValidYMD y m d)
    (hh : 0 ≤ h ∧ h < 24) (hm : 0 ≤ mi ∧ mi < 60) (hs : 0 ≤ s ∧ s < 60) (hu : 0 ≤ us ∧ us < 1000000) (pic : Bytes) :
    formatValue ty (Lemmas.tsOf y m d h mi s us) pic none =
      (Lexer.tryNew pic).bind fun fields => Lemmas.toChk (render ty (Lemmas.compsOfTs y m d h mi s us) fields) :=
  from_picture ty _ _ pic (fun fields hwf => Lemmas.format_ts ty hty y m d h mi s us hv hh hm hs hu fields hwf)

/-- YEAR-MONTH INTERVALS `±(y years, mo months)`: sign first, once. -/
theorem format_interval_ym (neg : Bool) (y mo : Int) (hy : 0 ≤ y ∧ y ≤ 178000000) (hm : 0 ≤ mo ∧ mo < 12)
    (hz : neg = true → y * 12 + mo ≠ 0) (pic : Bytes) :
    formatValue .YM (Lemmas.ymOf neg y mo) pic none =
      (Lexer.tryNew pic).bind fun fields => Lemmas.toChk (render .YM (Lemmas.compsOfYM neg y mo) fields) :=
  from_picture .YM _ _ pic (fun fields hwf => Lemmas.format_ym neg y mo hy hm hz fields hwf)

/-- DAY-TIME INTERVALS `±(d days, h:mi:s.µs)`. -/
theorem format_interval_dt (neg : Bool) (d h mi s us : Int) (hd : 0 ≤ d ∧ d ≤ 100000000) (hh : 0 ≤ h ∧ h < 24)
    (hm : 0 ≤ mi ∧ mi < 60) (hs : 0 ≤ s ∧ s < 60) (hu : 0 ≤ us ∧ us < 1000000)
    (hz : neg = true → Lemmas.dtMag d h mi s us ≠ 0) (pic : Bytes) :
    formatValue .DT (Lemmas.dtOf neg d h mi s us) pic none =
      (Lexer.tryNew pic).bind fun fields => Lemmas.toChk (render .DT (Lemmas.compsOfDT neg d h mi s us) fields) :=
  from_picture .DT _ _ pic (fun fields hwf => Lemmas.format_dt neg d h mi s us hd hh hm hs hu hz fields hwf)

/-- Non-vacuity + a worked instance. -/
example : ValidYMD 2024 2 29 ∧
    formatValue .D (dayNumber 2024 2 29) (lit "Day, DD Month YYYY DDD W WW D") none
      = .ok (lit "Thursday, 29 February 2024 060 5 09 5") := by decide +kernel

end SqlDt.C04
