"""Operation catalogue of the line protocol (PROTOCOL.md): argument kinds and result kinds.

kinds: D T TS YM DT OD  raw receivers;  i32 u32 i64 f64 scalars;  unit;  ty;  hms (4 x u32);
       dhms (5 x u32);  ymd (i32,u32,u32);  clock (7 ints);  pic / text (byte strings).
result: list of kinds of the ok-payload (used by the range oracle of C02/C16), or None.
"""

UNITS = ["century", "year", "iso_year", "quarter", "month", "week", "iso_week", "month_start_week",
         "day", "sunday_start_week", "hour", "minute"]
TYPES = ["D", "T", "TS", "YM", "DT", "OD"]

# name: (arg kinds, result kinds)
OPS = {
    # Date
    "D.try_from_ymd": (["ymd"], ["D"]),
    "D.is_valid": (["ymd"], ["bool"]),
    "D.try_from_days": (["i32"], ["D"]),
    "D.extract": (["D"], ["year", "month", "day"]),
    "D.dow": (["D"], ["dow"]),
    "D.and_hms": (["D", "hms"], ["TS"]),
    "D.and_time": (["D", "T"], ["TS"]),
    "D.add_days": (["D", "i32"], ["D"]),
    "D.sub_days": (["D", "i32"], ["D"]),
    "D.sub_date": (["D", "D"], ["int"]),
    "D.add_ym": (["D", "YM"], ["TS"]),
    "D.sub_ym": (["D", "YM"], ["TS"]),
    "D.add_dt": (["D", "DT"], ["TS"]),
    "D.sub_dt": (["D", "DT"], ["TS"]),
    "D.add_time": (["D", "T"], ["TS"]),
    "D.sub_time": (["D", "T"], ["TS"]),
    "D.sub_ts": (["D", "TS"], ["DT"]),
    "D.last_day": (["D"], ["D"]),
    "D.trunc": (["unit", "D"], ["D"]),
    "D.round": (["unit", "D"], ["D"]),
    "D.acc": (["D"], None),
    "D.cmp_TS": (["D", "TS"], None),
    "D.cmp_OD": (["D", "OD"], None),
    "D.cmp": (["D", "D"], None),
    "D.now": (["clock"], ["D"]),
    "D.to_TS": (["D"], ["TS"]),
    # Time
    "T.try_from_hms": (["hms"], ["T"]),
    "T.is_valid": (["hms"], ["bool"]),
    "T.try_from_usecs": (["i64"], ["T"]),
    "T.extract": (["T"], ["hour", "minute", "sec", "usec"]),
    "T.sub_time": (["T", "T"], ["DT"]),
    "T.add_dt": (["T", "DT"], ["T"]),
    "T.sub_dt": (["T", "DT"], ["T"]),
    "T.mul_f64": (["T", "f64"], ["DT"]),
    "T.div_f64": (["T", "f64"], ["DT"]),
    "T.acc": (["T"], None),
    "T.from_TS": (["TS"], ["T"]),
    "T.from_DT": (["DT"], ["T"]),
    "T.from_OD": (["OD"], ["T"]),
    "T.cmp_DT": (["T", "DT"], None),
    "T.cmp": (["T", "T"], None),
    # Timestamp
    "TS.new": (["D", "T"], ["TS"]),
    "TS.extract": (["TS"], ["D", "T"]),
    "TS.try_from_usecs": (["i64"], ["TS"]),
    "TS.add_dt": (["TS", "DT"], ["TS"]),
    "TS.sub_dt": (["TS", "DT"], ["TS"]),
    "TS.add_ym": (["TS", "YM"], ["TS"]),
    "TS.sub_ym": (["TS", "YM"], ["TS"]),
    "TS.add_time": (["TS", "T"], ["TS"]),
    "TS.sub_time": (["TS", "T"], ["TS"]),
    "TS.add_days": (["TS", "f64"], ["TS"]),
    "TS.sub_days": (["TS", "f64"], ["TS"]),
    "TS.sub_date": (["TS", "D"], ["DT"]),
    "TS.sub_ts": (["TS", "TS"], ["DT"]),
    "TS.last_day": (["TS"], ["TS"]),
    "TS.trunc": (["unit", "TS"], ["TS"]),
    "TS.round": (["unit", "TS"], ["TS"]),
    "TS.acc": (["TS"], None),
    "TS.cmp_D": (["TS", "D"], None),
    "TS.cmp_OD": (["TS", "OD"], None),
    "TS.cmp": (["TS", "TS"], None),
    "TS.now": (["clock"], ["TS"]),
    "TS.from_T": (["T", "clock"], ["TS"]),
    "TS.oracle_sub_date": (["TS", "OD"], ["DT"]),
    "TS.oracle_add_days": (["TS", "f64"], ["OD"]),
    "TS.oracle_sub_days": (["TS", "f64"], ["OD"]),
    # IntervalYM
    "YM.try_from_ym": (["u32", "u32"], ["YM"]),
    "YM.is_valid_ym": (["u32", "u32"], ["bool"]),
    "YM.try_from_months": (["i32"], ["YM"]),
    "YM.extract": (["YM"], ["sign", "int", "int"]),
    "YM.add_ym": (["YM", "YM"], ["YM"]),
    "YM.sub_ym": (["YM", "YM"], ["YM"]),
    "YM.mul_f64": (["YM", "f64"], ["YM"]),
    "YM.div_f64": (["YM", "f64"], ["YM"]),
    "YM.neg": (["YM"], ["YM"]),
    "YM.acc": (["YM"], None),
    "YM.cmp": (["YM", "YM"], None),
    # IntervalDT
    "DT.try_from_dhms": (["dhms"], ["DT"]),
    "DT.is_valid": (["dhms"], ["bool"]),
    "DT.try_from_usecs": (["i64"], ["DT"]),
    "DT.extract": (["DT"], ["sign", "int", "hour", "minute", "sec", "usec"]),
    "DT.add_dt": (["DT", "DT"], ["DT"]),
    "DT.sub_dt": (["DT", "DT"], ["DT"]),
    "DT.mul_f64": (["DT", "f64"], ["DT"]),
    "DT.div_f64": (["DT", "f64"], ["DT"]),
    "DT.sub_time": (["DT", "T"], ["DT"]),
    "DT.neg": (["DT"], ["DT"]),
    "DT.acc": (["DT"], None),
    "DT.from_T": (["T"], ["DT"]),
    "DT.cmp_T": (["DT", "T"], None),
    "DT.cmp": (["DT", "DT"], None),
    # OracleDate
    "OD.new": (["D", "T"], ["OD"]),
    "OD.extract": (["OD"], ["D", "T"]),
    "OD.try_from_usecs": (["i64"], ["OD"]),
    "OD.add_dt": (["OD", "DT"], ["OD"]),
    "OD.sub_dt": (["OD", "DT"], ["OD"]),
    "OD.add_ym": (["OD", "YM"], ["OD"]),
    "OD.sub_ym": (["OD", "YM"], ["OD"]),
    "OD.add_time": (["OD", "T"], ["TS"]),
    "OD.sub_time": (["OD", "T"], ["TS"]),
    "OD.add_days": (["OD", "f64"], ["OD"]),
    "OD.sub_days": (["OD", "f64"], ["OD"]),
    "OD.sub_date": (["OD", "OD"], None),
    "OD.sub_ts": (["OD", "TS"], ["DT"]),
    "OD.last_day": (["OD"], ["OD"]),
    "OD.trunc": (["unit", "OD"], ["OD"]),
    "OD.round": (["unit", "OD"], ["OD"]),
    "OD.acc": (["OD"], None),
    "OD.from_TS": (["TS"], ["OD"]),
    "OD.to_TS": (["OD"], ["TS"]),
    "OD.from_T": (["T", "clock"], ["OD"]),
    "OD.now": (["clock"], ["OD"]),
    "OD.cmp_TS": (["OD", "TS"], None),
    "OD.cmp_D": (["OD", "D"], None),
    "OD.cmp": (["OD", "OD"], None),
    # serde
    "S.ser_bin": (["tyval"], None),
    "S.de_bin": (["tyraw"], ["tyres"]),
    "S.ser_str": (["tyval"], None),
}

DATE_MIN, DATE_MAX = -719162, 2932896
USECS_PER_DAY = 86400000000
TS_MIN = DATE_MIN * USECS_PER_DAY
TS_MAX = (DATE_MAX + 1) * USECS_PER_DAY - 1
OD_MAX = (DATE_MAX + 1) * USECS_PER_DAY - 1000000
YM_MAX = 2136000000
DT_MAX = 100000000 * USECS_PER_DAY


def valid(kind, v):
    """The documented range of each type (the C02 / C16 oracle)."""
    if kind == "D":
        return DATE_MIN <= v <= DATE_MAX
    if kind == "T":
        return 0 <= v < USECS_PER_DAY
    if kind == "TS":
        return TS_MIN <= v <= TS_MAX
    if kind == "OD":
        return TS_MIN <= v <= OD_MAX and v % 1000000 == 0
    if kind == "YM":
        return -YM_MAX <= v <= YM_MAX
    if kind == "DT":
        return -DT_MAX <= v <= DT_MAX
    if kind == "bool":
        return v in (0, 1)
    if kind == "year":
        return 1 <= v <= 9999
    if kind == "month":
        return 1 <= v <= 12
    if kind == "day":
        return 1 <= v <= 31
    if kind == "dow":
        return 1 <= v <= 7
    if kind == "hour":
        return 0 <= v <= 23
    if kind in ("minute", "sec"):
        return 0 <= v <= 59
    if kind == "usec":
        return 0 <= v <= 999999
    if kind == "sign":
        return v in (1, -1)
    return True
