#!/bin/bash
# usage: seed_eval.sh <worktree> <patch-file> <demo-test-name> <property> <seed-id> [extra check ids...]
# 1. confirms in the scratch worktree: baseline green + demo green; with patch: suite green, demo red
# 2. applies the patch to /repo, runs ./check <property> (quick), reverts /repo
# 3. stores patch + demo + meta under /verif/seeded/<seed-id>/
set -u
WT=$1; PATCH=$2; DEMO=$3; PID=$4; SID=$5; shift 5
export CARGO_NET_OFFLINE=true
OUT=/verif/seeded/$SID; mkdir -p $OUT
cp $PATCH $OUT/patch.diff; cp $WT/tests/$DEMO.rs $OUT/ 2>/dev/null
cd $WT && git checkout -q -- . 
base_suite=$(cargo test --offline --features ${FEATURES:-oracle,serde} --lib 2>&1 | grep -c "test result: ok")
base_demo=$(cargo test --offline --features ${FEATURES:-oracle,serde} --test $DEMO 2>&1 | grep -c "test result: ok")
git apply $PATCH || { echo "patch does not apply"; exit 2; }
mut_suite=$(cargo test --offline --features ${FEATURES:-oracle,serde} --lib 2>&1 | grep -c "test result: ok")
mut_suite_def=$(cargo test --offline --lib 2>&1 | grep -c "test result: ok")
mut_doc=$(cargo test --offline --features ${FEATURES:-oracle,serde} --doc 2>&1 | grep -c "test result: ok")
mut_demo=$(cargo test --offline --features ${FEATURES:-oracle,serde} --test $DEMO 2>&1 | grep -c "test result: FAILED")
git checkout -q -- .
echo "confirm: base_suite_ok=$base_suite base_demo_ok=$base_demo mut_suite_ok=$mut_suite mut_suite_default_ok=$mut_suite_def mut_doc_ok=$mut_doc mut_demo_failed=$mut_demo"
cd /verif
git -C /repo apply $OUT/patch.diff || { echo "patch does not apply to /repo"; exit 2; }
declare -A RES
for P in $PID "$@"; do
  ./check $P > $OUT/check-$P.out 2>&1; rc=$?
  RES[$P]=$rc
  echo "check $P rc=$rc: $(grep -c '^VIOLATION' $OUT/check-$P.out) violation line(s)"; grep '^VIOLATION' $OUT/check-$P.out | head -3
  first=$(grep -m1 '^VIOLATION' $OUT/check-$P.out | sed 's/.*replay=\([^ ]*\).*/\1/')
  [ -n "$first" ] && [ -f "$first" ] && cp $first $OUT/replay-$P.json
done
git -C /repo checkout -q -- .
python3 - <<PY
import json
meta={"seed_id":"$SID","property":"$PID","worktree_confirmation":{"baseline_suite_ok":$base_suite>0,"baseline_demo_ok":$base_demo>0,
 "mutated_suite_ok":$mut_suite>0 and $mut_suite_def>0,"mutated_doctests_ok":$mut_doc>0,"mutated_demo_fails":$mut_demo>0},
 "ran":["cargo test --offline [--features ${FEATURES:-oracle,serde}] --lib/--doc/--test $DEMO in the scratch worktree, with and without the patch",
        "git -C /repo apply patch.diff; ./check $PID (quick) $*; git -C /repo checkout -- ."],
 "check_exit_codes":{k:int(v) for k,v in [x.split('=') for x in "$(for k in "${!RES[@]}"; do echo -n "$k=${RES[$k]} "; done)".split()]}}
json.dump(meta,open("$OUT/meta.json","w"),indent=1)
PY
