#!/usr/bin/env python3
"""Write MANIFEST.json (kept in one place so the per-property texts stay consistent)."""
import json
import os

ROOT = os.path.normpath(os.path.join(os.path.dirname(os.path.abspath(__file__)), ".."))

LEVEL = {
    "C01": ("Theorems (all inputs): raw-day gate, field-check order of try_from_ymd for all i32/u32 arguments, is_valid ⇔ try_from_ymd ok, "
            "weekday = (d+4) mod 7 with day 0 a Thursday and +1 per day, Gregorian month lengths and leap rule. "
            "Tie: exhaustive — all 3,652,059 day numbers through extract/day_of_week/try_from_days and the (year −1..10001) × month × day grid through try_from_ymd/is_valid."),
    "C02": ("One theorem per value-returning operation (≈45 rows): Valid args → op = ok v → Valid v, most by the gate lemma, the rest cited from C07/C08/C12/C13/C14/C16. "
            "Tie: every value-returning op × boundary/random pools, both overflow modes, with a range oracle on every crate result."),
    "C03": ("Theorems: try_new never panics and fails only with InvalidFormat (all byte strings, induction); checked constructors, linear arithmetic, f64 scaling, add_days and binary deserialisation never produce Panic for any argument. "
            "Tie: every op × pools, generated + byte-random pictures and inputs, all pictures up to length 3/4, blank runs to 1000, on harness builds with overflow checks on AND off; any `panic` from the crate is a violation."),
    "C04": ("Theorems: every string table the formatter indexes (regenerated from the Rust source each run) equals its arithmetic meaning — two-digit fields, 3-digit day of year, week-of-month/year = ⌊(n−1)/7⌋+1, 72 month and 42 weekday names in six styles, AM/PM texts; write_u32 = zero-padded decimal for every u32 and width; cumulative-day table = prefix sums. "
            "Tie: all dates × 22 date tokens, all seconds × time tokens, all 10^6 µs × FF..FF9, random composite and inapplicable pictures."),
    "C05": ("Theorems for every input text/state/clock: W/WW, duplicate codes, HH24-vs-meridian and inapplicable codes are errors; leftover input is an error; 12h+meridian arithmetic in both field orders; weekday-number parser; day-of-year decoding correct for all 365/366 ordinals; Time conversion with µs carry and no normalisation. "
            "Tie: year × day-of-year grid, 12h/24h notation for every hour, 40k generated lenient/perturbed spellings, malformed stream."),
    "C06": ("Theorems: a rendered numeric field is read back as the same number for every u32 value and width (digit loop ∘ digit fold = id, leading zeros ignored); kernel-checked format∘parse∘format round trips at every range boundary through the serde pictures and permuted name-bearing pictures. The induction over all lossless pictures is not finished (partial). "
            "Tie: F.roundtrip (format, parse with the same Formatter, re-format) on all dates × 7 pictures, all seconds × 5 pictures, 40k generated lossless pictures for six types."),
    "C07": ("Theorems (omega): extract∘new = id and new∘extract = id for every day number and µs (also before 1970), date()/time() = extract, validity both ways, lexicographic order and injectivity; try_from_hms accepts exactly h<24,m<60,s<60,µs<10^6 with the first failing field reported, extract/from_hms mutually inverse, accessors = fields. Hash: partial — SipHash is not modelled; hash(a)=hash(b) ⇔ a=b is sampled on the crate. "
            "Tie: all dates × 5 critical times through new/extract/accessors, all 86,400 seconds × 3 µs and all 10^6 µs at 4 seconds, the hms grid."),
    "C08": ("Theorems for all valid receivers and ALL i32/i64 operands: each add/sub = exact integer result if in range else the range error (checked_add None ⇒ out of range), infallible differences in range without a gate, no i64 overflow in add_time/sub_time, x+i−i=x, (x+i)−x=i, a−b=−(b−a). The f64 day offset is modelled by the soft-float (rounding statement: partial, see DESIGN §7). "
            "Tie: 26 linear ops × boundary pools crossed + random, both overflow modes; all dates ± k days."),
    "C09": ("Theorems: the two truncating-division branches of the month carry = floor division of 12·y+(m−1)+k for every integer k; result month in 1..12; no i32 overflow for any offset in the interval range; sub = add∘neg; time of day carried unchanged on timestamps; carry is invertible. (last_day_of_month and the InvalidDate/DateOutOfRange split depend on the calendar layer: partial.) "
            "Tie: all dates × 15–81 month offsets incl. interval limits, all dates for last_day_of_month, timestamps × critical times."),
    "C10": ("Theorems: day/hour/minute truncation of every timestamp is the greatest boundary ≤ x (independent predicate), ISO-week and Sunday-week truncation of dates = greatest Monday/Sunday ≤ x, Sunday-week fails exactly for 0001-01-01..06; uniqueness ⇒ idempotent and monotone. Century/year/quarter/month/ISO-year/anchored weeks: partial (calendar layer). "
            "Tie: exhaustive — all dates × 12 units on Date, all dates × critical times on Timestamp/OracleDate, every second of 7 sampled days."),
    "C11": ("Theorems: day rounding of every valid timestamp in closed form (next day exactly from 12:00, error exactly when that is 10000-01-01), result adjacent and fixed on boundaries; ISO-week rounding of dates (forward from the fifth day). Counterexample theorems for the two known findings (round_century on years ≡ 0 mod 100, Sunday week before 0001-01-04). Other units: partial. "
            "Tie: as C10 for round_* (exhaustive on dates)."),
    "C12": ("Theorems (omega): add/sub_interval_dt = (t ± i) mod 24h for every valid time and EVERY integer interval, result valid, add then sub cancels, whole days are neutral, sub_time exact and a valid interval, Time::from(interval) = |i| mod 24h. "
            "Tie: all 86,400 seconds × 12+ boundary/random intervals, pools crossed for the mixed comparisons."),
    "C13": ("Theorems (omega, all 4,272,000,001 year-month values by proof): sign/field decomposition with ranges and uniqueness, constructors = classify for all u32 tuples with error order, is_valid ⇔, extract∘ctor = id, negation involutive and range-preserving, signed accessors = sign × field. "
            "Tie: year-month values strided + 300k contiguous at the ends and zero, day-time every second within ±2 days and powers of ten, constructor grids."),
    "C14": ("Theorems: complete classification of mul_f64/div_f64 for all 2^64 scalars (zero divisor first, NaN, ±∞, finite-in-range, finite-out-of-range incl. saturated casts), results in range, truncation toward zero by definition of the cast. Numeric layer (2^-52 bound, exact integer factors, sign symmetry): partial — soft-float lemmas in progress. "
            "Tie: scaling ops × intervals × 100+ special/random doubles; the soft-float itself diffed against hardware on 20k+ operations per run."),
    "C15": ("Theorems: for EVERY raw integer binary deserialisation yields a valid value equal to the raw count or an error; binary round trip for every valid value; never panics. Human-readable round trip: kernel-checked at range boundaries (C06), general statement partial. "
            "Tie: all dates and all seconds through serde_json + bincode serialisation, raw counts at limits ±2 and integer extremes, perturbed strings, short/ill-typed payloads (harness-only)."),
    "C16": ("Theorems (omega): validity ⇔ in range ∧ whole second; From<Timestamp> = ⌊ts/10^6⌋·10^6 (greatest whole second ≤ ts, also before 1970), new drops the sub-second part, interval arithmetic = timestamp result floored, integer rounding of add_days is within half a second with ties away from zero, whatever add_days returns is valid, MAX = 9999-12-31 23:59:59. "
            "Tie: all dates × 3 times × 5 sub-second parts for conversions, every OD op × pools, 20k fractional day offsets incl. half-second ties."),
    "C17": ("Theorems: Timestamp truncation at a date's midnight = Date truncation at midnight for all 12 units (errors included), Oracle ops = timestamp op then floor, last_day/add months agree through Date and Timestamp, midnight is an order embedding (mixed comparisons). Rounding agreement: partial. "
            "Tie: all dates × 12 units × trunc/round through all three types, mixed comparisons and shared ops × pools."),
    "C18": ("Theorems (clock is a parameter): now()/TryFrom<Time> = the clock's fields; YYYY and interval year fields never read the clock; Y/YYY completion = year − year mod 10^n + digits; YY rule with digits-only counting; default day 1 / time 0. Independence for complete pictures: instances kernel-checked, general theorem partial. "
            "Tie: clock hook — every 8th..204th local date as 'today' × 36 (type,text,picture) cases, now/from_time under pool clocks, 20k generated texts under random clocks with the clock-read counter compared."),
    "C19": ("Theorems so far: blank tokens render n blanks, MAX_FIELDS = 36, lexer = maximal munch on all one-byte pictures; the general theorem lexer = generic maximal-munch tokenizer over the documented table is stated (Props/C19.full.txt) and being proved. "
            "Tie: all 2.6M pictures up to length 4 (thorough: 5) over a 40-symbol alphabet with the compiled field list compared (stronger than probe text), random token sequences, blank runs to 600, probe-timestamp text."),
}

NOTE = ("Trusted: Lean 4.33 kernel; axioms ⊆ {propext, Classical.choice, Quot.sound} (audited per theorem on every run, no native_decide/bv_decide/sorry); "
        "tools/gen_tables.py (constants and tables regenerated from /repo/src on every run); the hand-written model SqlDt/Model/*.lean and its correspondence check "
        "(harness/ calls the real crate, lean/Driver.lean runs the model, identical request streams, outputs diffed). The theorems are about the model; on 64-bit/double domains "
        "the tie is boundary + seeded random sampling, on enumerable domains it is exhaustive as stated. Modelled, not verified: chrono clock (parameter), serde_json/bincode transport, "
        "String/StackStr sinks, hardware f64 (soft-float, diffed).")


def main():
    checks = []
    for i in range(1, 20):
        pid = "C%02d" % i
        checks.append({
            "property_id": pid,
            "quick_cmd": "./check %s --tier quick" % pid,
            "thorough_cmd": "./check %s --tier thorough" % pid,
            "evidence_file": "/verif/evidence/%s.json" % pid,
            "replay_cmd_template": "./check replay {path}",
            "engine": "lean-model+correspondence",
            "level_claimed": {"category": "proof", "text": LEVEL[pid], "design_ref": "DESIGN.md section 7, " + pid},
            "level_note": NOTE,
            "technique": "machine-checked proof in Lean 4 about a hand-written model, tied to the crate by differential execution",
        })
    m = {
        "version": 1,
        "setup_cmd": "./check setup",
        "hooks": {
            "guard": "verif-hooks (cargo feature)",
            "enable": "harness/Cargo.toml depends on /repo with features serde, oracle, verif-hooks",
            "baseline_off_cmd": "cd /repo && cargo test --workspace --no-fail-fast --offline",
            "source_commits": ["70da688"],
            "add_only": True,
        },
        "engines": [{
            "name": "lean-model+correspondence", "path": "/verif/lean, /verif/harness, /verif/tools, /verif/check",
            "serves_properties": ["C%02d" % i for i in range(1, 20)],
            "kind_free_text": "Lean 4 theorems (lake build + #print axioms audit) about a hand-written executable model; the model is tied to "
                              "/repo's current source on every run by regenerated tables and by running model and crate on the same request streams",
        }],
        "checks": checks,
        "notes": "Known findings are listed in /verif/known_findings.txt (two C11 deviations recorded, ten defects fixed by fix: commits in /repo).",
        "not_applicable": [],
    }
    with open(os.path.join(ROOT, "MANIFEST.json"), "w") as f:
        json.dump(m, f, indent=1)


if __name__ == "__main__":
    main()
