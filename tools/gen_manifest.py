#!/usr/bin/env python3
"""Write MANIFEST.json (kept in one place so the per-property texts stay consistent)."""
import json
import os

ROOT = os.path.normpath(os.path.join(os.path.dirname(os.path.abspath(__file__)), ".."))

LEVEL = {
    "C01": ("Theorems (all inputs, complete): raw-day gate; field-check order of try_from_ymd for all i32/u32 arguments and accepted ⇔ real date in years 1..9999; "
            "extract∘try_from_ymd = id and try_from_ymd∘extract = id on the whole range (400-year periodicity + one period by kernel evaluation); extract(j+1) = calendar successor of extract(j); "
            "weekday = (d+4) mod 7 with day 0 a Thursday; order of day numbers = lexicographic order of triples; month lengths and leap rule. "
            "Tie: exhaustive — all 3,652,059 day numbers through extract/day_of_week/try_from_days and the (year −1..10001) × month × day grid through try_from_ymd/is_valid; crate vs independent Lean Spec (`--spec`)."),
    "C02": ("One theorem per value-returning operation – COMPLETE over the protocol catalogue (tools/catalog.py, 118 operations: 90 rows, 28 operations return no value of the six types; tools/rows_map.json names for each operation the model function the driver calls and its row; tools/rows_check.py fails the check when an operation has no row, the row does not mention that model function, or its axioms are not the three allowed ones): Valid args → op = ok v → Valid v — constructors, linear and month arithmetic, f64 scaling and add_days, conversions, all 12 truncation/rounding units on Date/Timestamp/OracleDate, last-day-of-month (Props/C02, Props/C02Rows), "
            "and `parse` for ANY picture, text and clock (Props/C02Parse: parse_valid, deStr_valid). "
            "Tie: every value-returning op × boundary/random pools, both overflow modes, with a range oracle on every crate result."),
    "C03": ("Theorems: try_new never panics and fails only with InvalidFormat (all byte strings); `parse` never panics for ANY type, picture bytes, text bytes and clock; `format` never panics for EVERY valid value of every type and ANY picture bytes (Props/C03Format); "
            "`format` into ANY bounded sink returns exactly the full text when it fits and a format error otherwise – never a panic, never a truncated text reported as success (Props/C03Sink, every capacity); "
            "checked constructors, linear arithmetic, f64 scaling, add_days, binary and human-readable (de)serialisation never produce Panic. Trunc/round/month arithmetic no-panic follows from the closed forms of C09–C11 for valid receivers. "
            "One no-panic row per protocol operation whose model function can fail (Props/C03Rows; 60 rows, the other 58 operations are total functions in the model), completeness checked on every run by tools/rows_check.py. "
            "For the 198 + 12 translated functions of date.rs/time.rs/timestamp.rs/interval.rs/oracle.rs/common.rs additionally `Tr.f_safe`: no arithmetic node of the (mechanically translated) Rust body overflows its integer type and no table index is out of bounds, for all valid inputs (Lemmas/TranslatedSafe). "
            "Tie: every op × pools, generated + byte-random pictures and inputs, all pictures up to length 3/4, blank runs to 1000, long pictures, long non-ASCII payloads, the Display route, band values around cast thresholds, on harness builds with overflow checks on AND off; any `panic` from the crate is a violation."),
    "C04": ("Theorems (complete on the model): every table the formatter indexes (regenerated from the Rust source each run) equals its arithmetic meaning; write_u32 = zero-padded decimal for every u32 and width; "
            "fraction = ⌊µs / 10^(6−p)⌋ (or ·10^(p−6)) through the soft-float for all µs and p ≤ 9; `format = Spec.render` field by field and END TO END from the picture text for every valid value of all six types and EVERY picture (error iff the picture does not compile or a token does not apply). "
            "Tie: all dates × 22 date tokens, all seconds × time tokens, all 10^6 µs × FF..FF9, random composite/long/inapplicable pictures; crate vs independent Lean renderer (`--spec`)."),
    "C05": ("Theorems (complete on the model): THE DENOTED VALUE — for every type, picture, clock and every reading of the picture in the lenient forms the property lists (Spec/Reading.lean: optional blanks, '+', unpadded numbers, names in any letter case, month names for a month number, AM/PM any case, 1–9 fraction digits rounded half-up with the carry propagated, trailing time fields left out; `Lex.fits`, `Delimited`), `parse` returns exactly `Spec.denote` and an error (never a panic or another value) when the reading denotes no value: component out of range, redundant fields that disagree, repeated / output-only / inapplicable code (Props/C05Reading.parse_reading). Plus: leftover input is an error for every input; the individual rejection rules. "
            "Limits of the vocabulary (not of the proof): blanks are spaces, a fraction has ≥ 1 digit, numbers < 10^9. "
            "Tie: the same executable `Spec.denote` is compared with the REAL crate on 12k (thorough 60k) generated readings + a systematic calendar/clock grid per run (tools/readings.py; found D11 and D12, both fixed); year × day-of-year grid, 12h/24h notation for every hour, 40k generated lenient/perturbed spellings, malformed stream."),
    "C06": ("Theorems (complete on the model): for EVERY valid value of every type, EVERY picture in the decidable class `Spec.Lossless` (every component exactly once – four-digit year, month number or name and day or day-of-year, 24-hour or 12-hour-plus-meridian, minute, second, ≥ 6 fraction digits where the type has a fraction – any field order, separators, name styles, extra weekday / day-of-year tokens; variable-width fields delimited) and any clock: parse(format v) = v and re-formatting reproduces the text byte for byte (Props/C06Lossless.format_parse, format_parse_format, roundtrip_from_picture); the six serde pictures as a special case; digits round trip. "
            "Tie: F.roundtrip (format, parse with the same Formatter, re-format) on all dates × 7 pictures, all seconds × 5 pictures, 40k generated lossless pictures for six types; the reading pass (crate vs Spec.denote)."),
    "C07": ("Theorems (complete except hashing): extract∘new = id and new∘extract = id for every day number and µs (also before 1970), date()/time() = extract, validity both ways, lexicographic order and injectivity; try_from_hms accepts exactly h<24,m<60,s<60,µs<10^6 with the first failing field reported, extract/from_hms mutually inverse, accessors = fields, second() = s + µs/10^6 correctly rounded. Hash: SipHash is not modelled; hash(a)=hash(b) ⇔ a=b is sampled on the crate. "
            "Tie: all dates × 5 critical times through new/extract/accessors, all 86,400 seconds × 3 µs and all 10^6 µs at 4 seconds, dense µs sweeps of second(), the hms grid."),
    "C08": ("Theorems for all valid receivers and ALL i32/i64 operands: each add/sub = exact integer result if in range else the range error, infallible differences in range, no i64 overflow in add_time/sub_time, x+i−i=x, (x+i)−x=i, a−b=−(b−a). "
            "f64 day offsets (soft-float, statements over ℚ in Props/C08Accuracy): for EVERY valid timestamp and finite double x, add_days returns ts + roundHalfAway(q) with |q − x·86400e6| ≤ 2^-53·|x·86400e6| exactly when that is a valid timestamp, DateOutOfRange otherwise, NumericOverflow only if the double product overflowed; hence |r − ts − p| ≤ 1/2 + 2^-53|p|; exact for whole days and exactly representable offsets. "
            "Tie: 26 linear ops × boundary pools crossed + random, both overflow modes; all dates ± k days; 20k fractional offsets incl. ties."),
    "C09": ("Theorems (complete): add-months = same day and time in the month k away with year/month carried by floor division, for EVERY integer k; DateOutOfRange ⇔ the year leaves 1..9999, InvalidDate ⇔ that month has no such day (never clamps); no i32 overflow; sub = add∘neg; time of day unchanged; last_day_of_month = last day (28/29/30/31) of the value's own month, time unchanged. "
            "Tie: all dates × 15–81 month offsets incl. interval limits, all dates for last_day_of_month, timestamps × critical times."),
    "C10": ("Theorems (complete): for all 12 units on Date, Timestamp and OracleDate the crate code (six generated week tables, Julian arithmetic) = closed form = GREATEST unit boundary ≤ x against independent boundary predicates; hence idempotent, monotone, never forward; fails exactly when the boundary precedes 0001-01-01 (Sunday week of 0001-01-01..06 only). "
            "Tie: exhaustive — all dates × 12 units on Date, all dates × critical times on Timestamp/OracleDate, every second of sampled days; crate vs independent Lean Spec (`--spec`)."),
    "C11": ("Theorems (complete modulo the recorded finding D1): for all 12 units on Date and Timestamp rounding = truncation or the next boundary, boundaries fixed, later boundary chosen exactly from the documented midpoint, monotone except ISO year, fails ⇔ chosen boundary after the maximum; Oracle = timestamp then floor. "
            "round_century on years ≡ 0 mod 100 is excluded by hypothesis and characterised exactly (known finding D1); Sunday-week rounding before 0001-01-04 is stated as a counterexample theorem (D9). "
            "Tie: as C10 for round_* (exhaustive on dates); crate vs Spec."),
    "C12": ("Theorems (complete, omega): add/sub_interval_dt = (t ± i) mod 24h for every valid time and EVERY integer interval, result valid, add then sub cancels, whole days neutral, sub_time exact and a valid interval, Time::from(interval) = |i| mod 24h. Mixed Time/IntervalDT comparisons (`==` and `partial_cmp`, both directions): the translated Rust bodies equal comparison of the µs counts for all arguments (Lemmas/TranslatedCmp). "
            "Tie: all 86,400 seconds × 12+ boundary/random intervals, pools crossed for the mixed comparisons."),
    "C13": ("Theorems (complete): sign/field decomposition with ranges and uniqueness, constructors = classify for all u32 tuples with error order, is_valid ⇔, extract∘ctor = id, negation involutive and range-preserving, signed accessors = sign × field, second() correctly rounded. "
            "Tie: year-month values strided + 300k contiguous at the ends and zero, day-time every second within ±2 days and powers of ten, dense µs sweeps, constructor grids."),
    "C14": ("Theorems: complete classification of mul_f64/div_f64 for all 2^64 scalars; results in range; cast truncates toward zero and saturates; exact products for integer factors below 2^53; sign symmetry (−x)·k = −(x·k) = x·(−k) through rounding and cast; each rounding within half an ulp and relative error ≤ u/(1+u), u = 2^-53, in the normal range. "
            "Composed statement over ℚ (Props/C14Accuracy): for every valid interval and finite scalar, mul/div returns truncQ(q) for some q within relative error 2^-52 of the exact real product/quotient when that is in range, IntervalOutOfRange otherwise, NumericOverflow only on double overflow; in the normal range q is the computed double itself (counterexample for the subnormal range recorded). "
            "Tie: scaling ops × intervals × 100+ special/random doubles; the soft-float itself diffed against hardware on 20k+ operations per run."),
    "C15": ("Theorems (complete on the model): binary — every raw integer decodes to a valid value equal to the raw count or an error; round trip for every valid value. Human-readable — for EVERY valid value of every type serialisation succeeds within the 32-byte buffer and deserialising the text returns the value under any clock; ANY accepted text decodes to a value in range (whole seconds for the Oracle date); never panics. serde_json/bincode transport is exercised, not modelled. "
            "Tie: all dates and all seconds through serde_json + bincode, raw counts at limits ±2 and integer extremes, perturbed strings, short/ill-typed payloads (harness-only)."),
    "C16": ("Theorems (complete): validity ⇔ in range ∧ whole second; From<Timestamp> = ⌊ts/10^6⌋·10^6 (greatest whole second ≤ ts, also before 1970); new drops the sub-second part; interval arithmetic = timestamp result floored; add_days = timestamp add_days (C08Accuracy) then nearest second, ties away from zero (roundToSecond = 10^6·roundHalfAway(u/10^6), Props/C16Accuracy) and always valid; sub_date = correctly rounded quotient; parse/trunc/round results valid (C02). "
            "Tie: all dates × 3 times × 5 sub-second parts for conversions, every OD op × pools, 20k fractional day offsets incl. half-second ties."),
    "C17": ("Theorems (complete on the model): truncation AND rounding through Timestamp at a date's midnight = Date truncation/rounding at midnight for all 12 units (errors included); Oracle ops = timestamp op then floor; last_day/add-months agree through Date and Timestamp; midnight is an order embedding (all mixed comparisons, both argument orders). "
            "Tie: all dates × 12 units × trunc/round through all three types, mixed comparisons and shared ops (incl. differences) × pools."),
    "C18": ("Theorems (clock is a parameter): now()/TryFrom<Time> = the clock's fields; for ANY picture without 1–3-digit year fields whose text supplies year and month, `parse` is the same under every two clocks (general theorem); Y/YYY completion = year − year mod 10^n + digits; YY rule with digits-only counting; defaults day 1 / time 0 (the HH12 default 12 is in the model's field rule, exercised by the correspondence stream). "
            "Tie: clock hook — every 8th..204th local date as 'today' × 36 (type,text,picture) cases, now/from_time under pool clocks, 20k generated texts under random clocks with the clock-read counter compared."),
    "C19": ("Theorems (complete): Formatter::try_new = generic maximal-munch tokenizer over the documented 41-entry token table for EVERY byte string (same accept/reject, fields, styles, blank-run lengths; single FF0 exception where both reject one step apart); ≤ 36 tokens; only error InvalidFormat; blank run of n renders n blanks. "
            "Tie: all 2.6M pictures up to length 4 (thorough: 5) over a 40-symbol alphabet with the compiled field list compared, random token sequences, blank runs to 600; crate vs independent Lean munch (`--spec`)."),
}

NOTE = ("Trusted: Lean 4.33 kernel; axioms ⊆ {propext, Classical.choice, Quot.sound} (audited per theorem on every run, no native_decide/bv_decide/sorry); "
        "tools/gen_tables.py (constants, tables, the six serde pictures and the serde buffer size regenerated from /repo/src on every run); tools/rs2lean.py (203 items – the integer core of date/time/timestamp/interval/oracle/common, the sixteen f64 operations onto the soft-float, the NaiveDateTime conversion layer of format.rs, all 75 Trunc/Round functions of the three date types, the mixed comparison impls; plus twelve byte-slice leaf functions of format.rs in SqlDt/TranslatedFmt.lean – translated from /repo/src to SqlDt/Translated.lean on every run, each proved equal to the model function for all inputs and overflow-free on valid inputs in the proof files listed in tools/tie_files.json (SqlDt/Lemmas/Translated*.lean); a function the translator cannot handle degrades to 'untranslated' and is tied by correspondence only – the evidence file lists the status per function); the hand-written model SqlDt/Model/*.lean and its correspondence check "
        "(harness/ calls the real crate, lean/Driver.lean runs the model, identical request streams, outputs diffed). The theorems are about the model; on 64-bit/double domains "
        "the tie is boundary + seeded random sampling, on enumerable domains it is exhaustive as stated. Modelled, not verified: chrono clock (parameter), serde_json/bincode transport, "
        "String/StackStr sinks, hardware f64 (soft-float, diffed).")


def main():
    checks = []
    for i in range(1, 20):
        pid = "C%02d" % i
        checks.append({
            "property_id": pid,
            "quick_cmd": "./check %s --tier quick" % pid,
            "thorough_cmd": "./check %s --tier thorough" % pid,
            "evidence_file": "/verif/evidence/%s.json" % pid,
            "replay_cmd_template": "./check replay {path}",
            "engine": "lean-model+correspondence",
            "level_claimed": {"category": "proof", "text": LEVEL[pid], "design_ref": "DESIGN.md section 7, " + pid},
            "level_note": NOTE,
            "technique": "machine-checked proof in Lean 4 about a model of the crate; the model is tied to /repo's source on every run by a translator (tables, constants, serde pictures and 203 + 12 functions (the integer core, the f64 operations onto the soft-float, the NaiveDateTime conversion layer, every truncation/rounding unit of the three date types) regenerated from the Rust, each proved equal to the model function for all inputs and free of intermediate overflow / out-of-bounds indexing on valid inputs) and by differential execution of model and crate on the same request streams",
        })
    m = {
        "version": 1,
        "setup_cmd": "./check setup",
        "hooks": {
            "guard": "verif-hooks (cargo feature)",
            "enable": "harness/Cargo.toml depends on /repo with features serde, oracle, verif-hooks",
            "baseline_off_cmd": "cd /repo && cargo test --workspace --no-fail-fast --offline",
            "source_commits": ["70da688"],
            "add_only": True,
        },
        "engines": [{
            "name": "lean-model+correspondence", "path": "/verif/lean, /verif/harness, /verif/tools, /verif/check",
            "serves_properties": ["C%02d" % i for i in range(1, 20)],
            "kind_free_text": "Lean 4 theorems (lake build + #print axioms audit) about a hand-written executable model; the model is tied to "
                              "/repo's current source on every run by regenerated tables and by running model and crate on the same request streams",
        }],
        "checks": checks,
        "notes": "Known findings are listed in /verif/known_findings.txt (two C11 deviations recorded, twelve fixed entries for the ten fix: commits in /repo).",
        "not_applicable": [],
    }
    with open(os.path.join(ROOT, "MANIFEST.json"), "w") as f:
        json.dump(m, f, indent=1)


if __name__ == "__main__":
    main()
