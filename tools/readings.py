"""C05 / C06 / C18: the crate's parser against the independent executable specification `SqlDt/Spec/Reading.lean`.

A *reading* is a picture plus, for every picture token, the way it is written in the text (number with optional blanks,
sign, leading zeros; name in some letter case; meridian; fraction digits; left out).  Stage 1 sends readings to the Lean
driver in `--spec` mode (`R.read`), which returns the text, whether the reading is allowed and unambiguous
(`Lex.fits`, `Delimited`) and the value it DENOTES (`Spec.denote`, written from the documentation, not from the crate's
parser).  Stage 2 lets the real crate parse that text with that picture and compares:
    denotes v  ->  the crate must return v;        denotes nothing  ->  the crate must return an error.
Readings that are not allowed/unambiguous are skipped (counted)."""
import os
import subprocess
import time

import runner
import textgen as tg
from gen import hx

TYPES = ["D", "T", "TS", "YM", "DT", "OD"]
WIDTH = {"year4": 4, "year3": 3, "year2": 2, "year1": 1, "month": 2, "day": 2, "doy": 3, "hour12": 2, "hour24": 2,
         "minute": 2, "second": 2}


def _num(rng, n, width, sign=0, lenient=True):
    n = max(0, int(n))
    digits = len(str(n))
    if not lenient:
        zeros = max(0, width - digits)
    else:
        zeros = rng.choice([0, max(0, width - digits), max(0, width - digits), rng.below(3)])
    blanks = rng.choice([0, 0, 0, 1, 2]) if lenient else 0
    if lenient and sign == 0 and rng.below(12) == 0:
        sign = 1
    if lenient and sign == 0 and rng.below(60) == 0:
        sign = 2
    return "n.%d.%d.%d.%d" % (blanks, sign, zeros, n)


def _mask(rng, n):
    mode = rng.below(4)
    if mode == 0:
        return "1" * n
    if mode == 1:
        return "-"
    if mode == 2:
        return "1"
    return "".join(rng.choice("01") for _ in range(n))


def _perturb(rng, kind, n):
    ranges = {"month": 14, "day": 33, "doy": 368, "hour12": 14, "hour24": 26, "minute": 62, "second": 62, "dow": 10,
              "year4": 10001}
    if kind in ranges:
        return rng.below(ranges[kind])
    return n


def gen_reading(rng, pools, mode):
    ty = rng.choice(TYPES)
    v = rng.choice(pools.get(ty))
    c = tg.Comps(ty, v)
    if mode == 0:
        toks = tg.lossless_picture(rng, ty)
    elif mode == 1:
        toks = tg.well_separated(tg.random_token_list(rng, ty, 8))
    else:
        toks = tg.random_token_list(rng, ty, 6, applicable_only=False)
    # sometimes drop one component token so that a default is needed
    if mode == 0 and rng.below(3) == 0 and len(toks) > 2:
        k = rng.below(len(toks))
        toks = toks[:k] + toks[k + 1:]
    lenient = rng.below(4) != 0
    hit = rng.below(len(toks)) if (toks and rng.below(5) == 0) else -1       # one perturbed component
    cut = rng.below(len(toks) + 1) if rng.below(8) == 0 else len(toks)       # text ends early
    wd = (c.daynum + 4) % 7 + 1 if c.daynum is not None else 1
    first_numeric = True
    words = []
    for i, (sp, kind) in enumerate(toks):
        if i >= cut:
            words.append("o")
            continue
        val = {"year4": c.year, "year3": (c.year or 0) % 1000, "year2": (c.year or 0) % 100, "year1": (c.year or 0) % 10,
               "month": c.month, "day": c.day, "hour24": c.hour, "hour12": None if c.hour is None else (c.hour % 12 or 12),
               "minute": c.minute, "second": c.sec}.get(kind)
        if kind == "doy":
            val = c.doy() if c.daynum is not None else 1
        if kind in WIDTH:
            if val is None:
                val = 1
            if i == hit:
                val = _perturb(rng, kind, val)
            sign = 0
            if ty in ("YM", "DT") and first_numeric and kind in ("year4", "year3", "year2", "year1", "day"):
                sign = 2 if c.neg else rng.choice([0, 1])
            first_numeric = False
            if kind == "month" and lenient and rng.below(4) == 0 and 1 <= val <= 12:
                nm = tg.MONTHS[val - 1]
                words.append("a.%d.%d.%d.%s" % (rng.below(2), val, rng.below(2), _mask(rng, len(nm))))
            else:
                width = WIDTH[kind] if ty not in ("YM", "DT") or kind not in ("year4", "day") else WIDTH[kind]
                words.append(_num(rng, val, width, sign, lenient))
        elif kind in ("mon", "monthname"):
            k = c.month if c.month else 1
            if i == hit:
                k = 1 + rng.below(12)
            abbr = (kind == "mon") if not lenient else rng.below(2)
            words.append("a.%d.%d.%d.%s" % (rng.below(2) if lenient else 0, k, abbr, _mask(rng, 9)))
        elif kind in ("dayname", "dy"):
            k = wd if i != hit else 1 + rng.below(7)
            words.append("a.%d.%d.%d.%s" % (rng.below(2) if lenient else 0, k, 1 if kind == "dy" else 0, _mask(rng, 9)))
        elif kind == "dow":
            d = wd if i != hit else rng.below(10)
            words.append("w.%d.%d" % (rng.below(2) if lenient else 0, d))
        elif kind in ("ampm", "ampmdot"):
            pm = 1 if (c.hour or 0) >= 12 else 0
            if i == hit:
                pm = 1 - pm
            words.append("m.%d.%d.%s" % (rng.below(2) if lenient else 0, pm, _mask(rng, 4)))
        elif kind.startswith("ff"):
            p = 9 if kind == "ff" else int(kind[2:])
            us = c.usec if c.usec is not None else 0
            full = "%06d" % us + "".join(rng.choice("0123456789") for _ in range(3)) if rng.below(3) == 0 else "%06d000" % us
            if kind == "ff" and not lenient:
                nd = 6
            else:
                nd = p if not lenient else 1 + rng.below(p)
            words.append("f.0.%s" % full[:nd])
        elif kind in ("p", "T"):
            words.append("p.%d" % (rng.below(2) if lenient else 0))
        elif kind == "blank":
            words.append("b.%d" % (len(sp) if not lenient else rng.below(4)))
        else:                      # output-only W / WW
            words.append(_num(rng, 1 + rng.below(5), 2))
    clock = rng.choice(pools.get("clock"))
    tb = rng.below(3) if lenient else 0
    return ty, tg.pic_text(toks), tb, clock, words


def grid_cases():
    """Systematic part: every month end (days 0, 1, 28..32) and the day-of-year limits of leap, common and century years,
    and every hour / minute / second limit — the places a calendar or clock table could be wrong."""
    clock = "2024 3 15 10 20 30 400000"
    out = []
    years = [1, 4, 100, 400, 1900, 2000, 2023, 2024, 9999]
    for y in years:
        for m in range(0, 14):
            for d in (0, 1, 28, 29, 30, 31, 32):
                out.append(("D", "YYYY-MM-DD", 0, clock, ["n.0.0.0.%d" % y, "p.0", "n.0.0.0.%d" % m, "p.0", "n.0.0.0.%d" % d]))
        for m in range(1, 13):
            for d in (28, 29, 30, 31):
                out.append(("TS", "DD Mon YYYY HH24", 0, clock,
                            ["n.0.0.0.%d" % d, "b.1", "a.0.%d.1.1" % m, "b.1", "n.0.0.0.%d" % y, "b.1", "n.0.0.0.23"]))
        for n in (0, 1, 31, 32, 59, 60, 61, 90, 91, 92, 334, 335, 336, 365, 366, 367):
            out.append(("D", "YYYY DDD", 0, clock, ["n.0.0.0.%d" % y, "b.1", "n.0.0.0.%d" % n]))
            out.append(("OD", "DDD/YYYY", 0, clock, ["n.0.0.0.%d" % n, "p.0", "n.0.0.0.%d" % y]))
    for h in range(0, 26):
        out.append(("T", "HH24:MI:SS", 0, clock, ["n.0.0.0.%d" % h, "p.0", "n.0.0.0.59", "p.0", "n.0.0.0.59"]))
        for pm in (0, 1):
            out.append(("T", "HH12 AM", 0, clock, ["n.0.0.0.%d" % h, "b.1", "m.0.%d.11" % pm]))
    for x in (0, 1, 58, 59, 60, 61):
        out.append(("T", "HH24:MI:SS", 0, clock, ["n.0.0.0.23", "p.0", "n.0.0.0.%d" % x, "p.0", "n.0.0.0.0"]))
        out.append(("DT", "DD HH24:MI:SS", 0, clock, ["n.0.1.0.1", "b.1", "n.0.0.0.0", "p.0", "n.0.0.0.0", "p.0", "n.0.0.0.%d" % x]))
    return out


def run(pid, tier, rng, pools, n=None):
    t0 = time.time()
    res = runner.StreamResult("readings: crate parser vs Spec.denote")
    n = n or (60000 if tier == "thorough" else 12000)
    cases = []
    for i in range(n):
        ty, pic, tb, clock, words = gen_reading(rng, pools, [0, 0, 1, 1, 2][i % 5])
        if not words:
            continue
        cases.append((ty, pic, tb, clock, words))
    cases += grid_cases()
    stage1 = ["R.read %s %s %d %s %s" % (ty, hx(pic), tb, clock, " ".join(words)) for ty, pic, tb, clock, words in cases]
    os.makedirs(runner.TMP, exist_ok=True)
    base = os.path.join(runner.TMP, "readings.%d" % os.getpid())
    with open(base + ".req", "w") as f:
        f.write("\n".join(stage1) + "\n")
    rc, err = runner.run_prog([runner.MODEL, "--spec"], base + ".req", base + ".spec")
    if rc != 0:
        res.errors.append("spec driver failed rc=%d: %s" % (rc, err))
        return res
    spec = open(base + ".spec").read().split("\n")
    stage2 = []
    expect = []
    skipped = {"not-allowed": 0, "ambiguous": 0, "bad": 0}
    for (ty, pic, tb, clock, words), out, req1 in zip(cases, spec, stage1):
        w = out.split(" ")
        if w[0] != "ok":
            skipped["bad"] += 1
            continue
        if w[2] != "1":
            skipped["not-allowed"] += 1
            continue
        if w[3] != "1":
            skipped["ambiguous"] += 1
            continue
        stage2.append("F.parse %s %s %s %s" % (ty, w[1], hx(pic), clock))
        expect.append((w[4], req1))
    with open(base + ".req2", "w") as f:
        f.write("\n".join(stage2) + "\n")
    denotes = sum(1 for e, _ in expect if e != "-")
    for m in ("off", "on"):
        rc, err = runner.run_prog([runner.HARNESS[m]], base + ".req2", base + ".crate")
        if rc != 0:
            res.errors.append("harness(%s) failed rc=%d: %s" % (m, rc, err))
            continue
        crate = open(base + ".crate").read().split("\n")
        for req, (exp, req1), co in zip(stage2, expect, crate):
            res.evaluations += 1
            ok = (co.startswith("ok %s " % exp)) if exp != "-" else co.startswith("err ")
            cls = ("denotes" if exp != "-" else "denotes-nothing") + " -> " + co.split(" ")[0] + (" " + co.split(" ")[1] if co.startswith("err") else "")
            res.hist["R.read " + cls] = res.hist.get("R.read " + cls, 0) + 1
            if not ok and len(res.disagreements) < 20:
                res.disagreements.append(runner.Disagreement(res.name, m, req, "ok " + exp if exp != "-" else "err (denotes no value)", co, "spec"))
                res.disagreements[-1].reading = req1
    res.distinct = len(stage2)
    feats = {"left-out token": 0, "name": 0, "meridian": 0, "'+' sign": 0, "more than 6 fraction digits": 0,
             "weekday digit": 0, "extra blanks": 0}
    for _, _, _, _, words in cases:
        ks = [w.split(".") for w in words]
        feats["left-out token"] += any(k[0] == "o" for k in ks)
        feats["name"] += any(k[0] == "a" for k in ks)
        feats["meridian"] += any(k[0] == "m" for k in ks)
        feats["'+' sign"] += any(k[0] == "n" and k[2] == "1" for k in ks)
        feats["more than 6 fraction digits"] += any(k[0] == "f" and len(k[2]) > 6 for k in ks)
        feats["weekday digit"] += any(k[0] == "w" for k in ks)
        feats["extra blanks"] += any(k[0] in "namfpw" and len(k) > 1 and k[1] not in ("0", "") for k in ks)
    res.samples = ["readings: skipped %r; denoting a value: %d of %d; readings with feature: %r"
                   % (skipped, denotes, len(stage2), feats)] + stage1[:2]
    for ext in (".req", ".spec", ".req2", ".crate"):
        try:
            os.remove(base + ext)
        except OSError:
            pass
    res.wall = time.time() - t0
    return res
