#!/bin/bash
# usage: seed_eval_ns.sh <box> <worktree> <patch-file> <demo-test-name> <property> <seed-id> [extra check ids...]
# Runs tools/seed_eval.sh inside a private mount namespace in which /repo and /verif are scratch copies
# (/tmp/seedbox-<box>/{repo,verif}), so that seeded changes can be evaluated while other work goes on in the real
# /repo and /verif.  Only /verif/seeded is shared with the real tree (results are written there).
set -u
BOX=/tmp/seedbox-$1; shift
mkdir -p $BOX/repo $BOX/verif
rsync -a --delete --exclude target /repo/ $BOX/repo/
# files other sessions may be writing right now (not part of the committed machinery) are left out: ${NS_EXCLUDES}
rsync -a --delete --exclude seeded --exclude .git --exclude replays ${NS_EXCLUDES:-} /verif/ $BOX/verif/
mkdir -p $BOX/verif/seeded $BOX/verif/replays
ARGS="$*"
unshare -m bash -c "mount --bind /verif/seeded $BOX/verif/seeded && mount --rbind $BOX/repo /repo && mount --rbind $BOX/verif /verif && cd /verif && FEATURES=${FEATURES:-oracle,serde} tools/seed_eval.sh $ARGS"
