"""Request streams per property (see DESIGN.md section 7). Each stream: name, lines, overflow modes, oracles."""
from catalog import OPS, UNITS, TYPES, DATE_MIN, DATE_MAX, USECS_PER_DAY, TS_MIN, TS_MAX, YM_MAX, DT_MAX
from gen import band_values, Pools, cross, hx, fbits, days, uniq
from runner import oracle_consts, oracle_no_panic, oracle_range
import textgen as tg

BLK = 8192
ALL_DATES = (DATE_MIN, DATE_MAX)
CLK = "2024 3 15 10 20 30 400000"


SPEC_OPS = {"F.try_new", "F.try_new_idx", "F.format", "F.display", "S.ser_str", "D.trunc", "D.round", "TS.trunc", "TS.round", "OD.trunc", "OD.round", "D.extract",
            "D.dow", "D.try_from_ymd", "D.last_day"}


def spec_supported(line):
    """Does the driver's --spec mode (independent Lean Spec) answer this request?"""
    w = line.split(" ")
    op = w[5] if w[0] == "@range" else w[0]
    return op in SPEC_OPS


class Stream:
    def __init__(self, name, lines, modes=("off",), oracles=(oracle_no_panic,), exhaustive=False, spec=False):
        self.name, self.lines, self.modes, self.oracles, self.exhaustive = name, lines, modes, list(oracles), exhaustive
        self.spec = spec      # also compare the crate with the independent Lean Spec (driver --spec)


def rng_dates(op, stride=1, lo=DATE_MIN, hi=DATE_MAX):
    return "@range %d %d %d %d %s" % (lo, hi, stride, BLK, op)


def ops_stream(name, rng, pools, ops, cap, modes=("off",), oracles=(oracle_no_panic, oracle_range)):
    lines = []
    for op in ops:
        lines += cross(rng, pools, op, cap)
    return Stream(name, lines, modes, oracles)


def corpus_stream():
    import os
    lines = []
    d = os.path.join(os.path.dirname(os.path.abspath(__file__)), "..", "corpus")
    for fn in sorted(os.listdir(d)):
        if fn.endswith(".txt"):
            with open(os.path.join(d, fn)) as f:
                lines += [l.rstrip("\n") for l in f if l.strip()]
    return Stream("corpus", lines, ("off", "on"), (oracle_no_panic, oracle_range))


def ops_with_prefix(*prefixes):
    return [o for o in OPS if any(o.startswith(p) for p in prefixes)]


# ------------------------------------------------------------------ text streams
def picture_lines(rng, n, maxtok=12):
    out = []
    for _ in range(n):
        out.append("F.try_new " + hx(tg.random_picture(rng, maxtok)))
    return out


def format_lines(rng, pools, n, maxtok=10, applicable_only=True):
    out = []
    for _ in range(n):
        ty = rng.choice(TYPES)
        v = rng.choice(pools.get(ty))
        toks = tg.random_token_list(rng, ty, maxtok, applicable_only)
        if rng.below(4):
            toks = tg.well_separated(toks)
        cap = rng.choice([-1, -1, -1, 32, 0, 5, 10])
        out.append("F.format %s %d %s %d" % (ty, v, hx(tg.pic_text(toks)), cap))
    return out


def lenient(rng, text):
    """Lenient respelling of a formatted text: random case, extra blanks around punctuation, unpadded numbers."""
    out = []
    i = 0
    while i < len(text):
        c = text[i]
        if c.isalpha():
            out.append(c.upper() if rng.below(2) else c.lower())
        elif c in "-:/,.;" and rng.below(4) == 0:
            out.append(" " * rng.below(3) + c + " " * rng.below(3))
        else:
            out.append(c)
        i += 1
    return "".join(out)


def roundtrip_lines(rng, pools, n):
    out = []
    for _ in range(n):
        ty = rng.choice(TYPES)
        v = rng.choice(pools.get(ty))
        toks = tg.lossless_picture(rng, ty)
        out.append("F.roundtrip %s %d %s %s" % (ty, v, hx(tg.pic_text(toks)), CLK))
    return out


def parse_lines(rng, pools, n):
    """Texts produced by the reference renderer for a random picture, respelled leniently, plus perturbations."""
    out = []
    for _ in range(n):
        ty = rng.choice(TYPES)
        v = rng.choice(pools.get(ty))
        toks = tg.lossless_picture(rng, ty) if rng.below(3) else tg.well_separated(tg.random_token_list(rng, ty, 8))
        text = tg.reference_format(ty, v, toks)
        if text is None:
            text = ""
        mode = rng.below(6)
        if mode == 0:
            text = lenient(rng, text)
        elif mode == 1 and text:
            k = rng.below(len(text))
            text = text[:k] + rng.choice("0123456789+- :.xA") + text[k + 1:]
        elif mode == 2:
            text = text + rng.choice([" ", "x", "0", "  ", "\t"])
        elif mode == 3 and text:
            text = text[:rng.below(len(text) + 1)]
        clock = rng.choice(pools.get("clock"))
        out.append("F.parse %s %s %s %s" % (ty, hx(text), hx(tg.pic_text(toks)), clock))
    return out


def display_lines(rng, pools, n, maxtok=36):
    """`value.format(picture)` written through `Display` (the LazyFormat route, not `Formatter::format` into a String):
    composite pictures up to the 36-token limit, long names, FF9, wide interval fields and long blank runs, so that the
    rendered text is often longer than any fixed-size intermediate buffer would hold."""
    out = []
    for ln in format_lines(rng, pools, n, maxtok, applicable_only=True):
        w = ln.split(" ")
        out.append("F.display %s %s %s" % (w[1], w[2], w[3]))
    long_pics = ["Day, Month DD, YYYY HH24:MI:SS.FF6 AM Day Month Dy Mon", "FF9 " * 18, "DD" + " " * 70 + "HH24",
                 "MONTH MONTH MONTH MONTH MONTH MONTH MONTH MONTH", "DAY-" * 17 + "DAY", "YYYY" + " " * 300 + "MM",
                 "HH24:MI:SS.FF9 A.M. " * 7]
    for pic in long_pics:
        for ty in TYPES:
            for v in pools.get(ty)[:6] + [rng.choice(pools.get(ty)) for _ in range(6)]:
                out.append("F.display %s %d %s" % (ty, v, hx(pic)))
    # September + Wednesday: the longest names
    for v in (1632315845123456, 1632268800000000):
        out.append("F.display TS %d %s" % (v, hx(long_pics[0])))
    return out


def long_garbage_lines():
    """Long inputs that fail at a punctuation position, padded with multi-byte characters at every alignment: error
    paths that echo or truncate the input must not split a character (and must not panic)."""
    out = []
    heads = {"D": "2020/01/0", "T": "10-20", "TS": "2020/01/01 1", "YM": "+0001/02", "DT": "+1 10-20", "OD": "2020/01/01 1"}
    pics = {"D": "YYYY-MM-DD", "T": "HH24:MI:SS.FF6", "TS": "YYYY-MM-DD HH24:MI:SS.FF6", "YM": "YYYY-MM",
            "DT": "DD HH24:MI:SS.FF6", "OD": "YYYY-MM-DD HH24:MI:SS"}
    for ty, head in heads.items():
        for ch in ("é", "中", "\U0001F600"):
            for n in list(range(20, 80, 1 if ch == "é" else 3)) + [100, 200, 400, 1000]:
                for pad in ("", "x"):
                    text = head + pad + ch * n
                    out.append("S.de_str %s %s" % (ty, hx(text)))
                    out.append("F.parse %s %s %s %s" % (ty, hx(text), hx(pics[ty]), CLK))
    return out


def wild_parse_lines(rng, pools, n):
    out = []
    for _ in range(n):
        ty = rng.choice(TYPES)
        pic = tg.random_picture(rng, 6) if rng.below(3) else tg.byte_random(rng, 8)
        text = tg.byte_random(rng, 14)
        out.append("%s %s %s %s %s" % (rng.choice(["F.parse", "F.parse_t"]), ty, hx(text), hx(pic),
                                       rng.choice(pools.get("clock"))))
    return out


def band_lines(rng, pools, pid, scale):
    """Requests on values around cast / fast-path / f64-precision thresholds (gen.band_values) for the operations of one
    property: these bands lie inside the valid ranges, far from every range limit, and are too narrow (10^-9 … 10^-3 of
    the domain) for uniform random values to land in."""
    ts = band_values(rng, TS_MIN, TS_MAX, 2 * scale)
    dt = band_values(rng, -DT_MAX, DT_MAX, 2 * scale)
    od = uniq([x - x % 1000000 for x in ts])
    ym = band_values(rng, -YM_MAX, YM_MAX, 2 * scale, units=[1, 12])
    tpool = [0, 1, 43200000000, 62743250000, 86399999999, 3723000004]
    out = []
    if pid in ("C07", "C17", "C02"):
        for x in ts:
            out += ["TS.extract %d" % x, "TS.acc %d" % x, "T.from_TS %d" % x]
        for x in od:
            out += ["OD.extract %d" % x, "OD.acc %d" % x, "T.from_OD %d" % x]
    if pid in ("C08", "C17", "C02"):
        anchors = [TS_MIN, -1, 0, 1709211909123457, TS_MAX]
        for i in dt:
            for a in anchors:
                out += ["TS.add_dt %d %d" % (a, i), "TS.sub_dt %d %d" % (a, i)]
        for x in ts:
            out += ["TS.sub_ts %d %d" % (x, 0), "TS.sub_ts %d %d" % (0, x), "TS.sub_date %d 0" % x, "D.sub_ts 0 %d" % x]
    if pid == "C08":
        # whole-day doubles far beyond the calendar span, offsets around half a microsecond
        for k in [106751991, 106751992, 150000000, 213503982, 213503983, 1000000000, 2147483647, 2147483648, 4294967296]:
            for sg in (1, -1):
                out += ["TS.add_days 946730096789012 %s" % fbits(float(sg * k)), "TS.sub_days 946730096789012 %s" % fbits(float(sg * k))]
        for n in range(0, 41):
            d = (n / 16.0) / 86400e6
            for sg in (1, -1):
                out += ["TS.add_days 1614834367000008 %s" % fbits(sg * d), "TS.sub_days 1614834367000008 %s" % fbits(sg * d)]
    if pid in ("C10", "C11", "C17"):
        kind = {"C10": ["trunc"], "C11": ["round"], "C17": ["trunc", "round"]}[pid]
        for x in ts:
            for k in kind:
                for u in ("day", "hour", "minute", "month", "iso_week"):
                    out.append("TS.%s %s %d" % (k, u, x))
        for x in od[::3]:
            for k in kind:
                for u in ("hour", "minute", "day"):
                    out.append("OD.%s %s %d" % (k, u, x))
    if pid in ("C12", "C02"):
        for i in dt:
            out.append("T.from_DT %d" % i)
            for t in tpool:
                out += ["T.add_dt %d %d" % (t, i), "T.sub_dt %d %d" % (t, i)]
    if pid in ("C13", "C02"):
        for i in dt:
            out += ["DT.extract %d" % i, "DT.acc %d" % i, "DT.neg %d" % i]
        for i in ym:
            out += ["YM.extract %d" % i, "YM.acc %d" % i]
    if pid in ("C16", "C17"):
        for i in dt:
            for a in (od[0], od[len(od) // 2], 0, 1709211909000000, od[-1]):
                out += ["OD.add_dt %d %d" % (a, i), "OD.sub_dt %d %d" % (a, i)]
        for x in ts:
            out.append("OD.from_TS %d" % x)
        # fractional days on far dates: the sum's sub-second residue just below / at / above half a second
        for a in od[::7] + [95624095267000000, -30000000000000000, 200000000000000000]:
            for us in (499983, 499999, 500000, 500001, 999999, 250000, 1):
                out.append("OD.add_days %d %s" % (a, fbits(us / 86400e6)))
                out.append("OD.sub_days %d %s" % (a, fbits(us / 86400e6)))
                out.append("TS.oracle_add_days %d %s" % (a, fbits(us / 86400e6)))
    return out


# ------------------------------------------------------------------ per-property stream lists
def streams_for(pid, tier, rng):
    thorough = tier == "thorough"
    scale = 4 if thorough else 1
    pools = Pools(rng, scale)
    cap = 40000 if thorough else 4000
    S = [corpus_stream()]
    stride = 1

    if pid == "C01":
        for op in ["D.extract %", "D.dow %", "D.try_from_days %", "D.acc %"]:
            S.append(Stream("all-dates " + op, [rng_dates(op)], exhaustive=True, spec=op in ("D.extract %", "D.dow %")))
        S.append(Stream("days outside the range", ["D.try_from_days %d" % k for k in
                        list(range(DATE_MIN - 12, DATE_MIN + 3)) + list(range(DATE_MAX - 2, DATE_MAX + 13)) +
                        [-(1 << 31), (1 << 31) - 1, -(1 << 31) + 1, 0]]))
        grid = []
        ystep = 1 if thorough else 7
        for m in list(range(0, 15)) + [4294967295]:
            for d in list(range(0, 34)) + [4294967295]:
                grid.append("@range -1 10001 %d %d D.try_from_ymd %% %d %d" % (ystep, BLK, m, d))
                if thorough or (m + d) % 3 == 0:
                    grid.append("@range -1 10001 %d %d D.is_valid %% %d %d" % (ystep, BLK, m, d))
        S.append(Stream("ymd validity grid", grid, exhaustive=thorough, spec=True))
        S.append(ops_stream("ymd extremes", rng, pools, ["D.try_from_ymd", "D.is_valid", "D.cmp"], cap))
    elif pid == "C02":
        S.append(ops_stream("every value-returning op x pools", rng, pools,
                            [o for o in OPS if OPS[o][1]], cap, modes=("off", "on")))
        S.append(Stream("parse results", parse_lines(rng, pools, 3000 * scale), oracles=(oracle_no_panic, oracle_range)))
        S.append(Stream("public range constants", ["K.consts"], oracles=(oracle_no_panic, oracle_consts)))
    elif pid == "C03":
        S.append(ops_stream("every op x pools", rng, pools, list(OPS), cap, modes=("off", "on")))
        n = 20000 * scale
        S.append(Stream("pictures", picture_lines(rng, n, 14) + picture_lines(rng, n // 4, 48) +
                        ["F.try_new " + hx(tok * k) for tok in ("-", "DD", "YYYY ", "MONTH:", " ,") for k in range(30, 46)],
                        ("off", "on")))
        S.append(Stream("interval day widths", ["F.format DT %d %s -1" % (sgn * (d * USECS_PER_DAY + t), hx(pic))
                        for d in list(range(0, 41)) + [99, 100, 101, 999, 1000, 99999999, 100000000]
                        for t in (0, 3723000004) for sgn in (1, -1) for pic in ("DD HH24:MI:SS", "DD", "HH24 DD")
                        if d * USECS_PER_DAY + t <= DT_MAX], ("off", "on")))
        S.append(Stream("format", format_lines(rng, pools, n, 10, applicable_only=False), ("off", "on")))
        S.append(Stream("Display route", display_lines(rng, pools, n // 4), ("off", "on")))
        S.append(Stream("parse (generated)", parse_lines(rng, pools, n), ("off", "on")))
        S.append(Stream("parse (byte-random)", wild_parse_lines(rng, pools, n), ("off", "on")))
        S.append(Stream("long non-ASCII inputs", long_garbage_lines(), ("off", "on")))
        L = 3 if not thorough else 4
        S.append(Stream("all pictures up to length %d" % L,
                        ["@range 0 %d 1 %d F.try_new_idx %s %d %%" % (40 ** k - 1, BLK, hx(tg.ALPHABET40), k)
                         for k in range(0, L + 1)], ("off", "on"), exhaustive=True))
        blanks = []
        for k in [1, 2, 254, 255, 256, 257, 300, 511, 512, 600, 1000]:
            blanks.append("F.try_new " + hx(" " * k))
            blanks.append("F.format D 0 %s -1" % hx("YYYY" + " " * k + "MM"))
            blanks.append("F.parse D %s %s %s" % (hx("2021" + " " * k + "05"), hx("YYYY" + " " * k + "MM"), CLK))
        S.append(Stream("blank runs", blanks, ("off", "on")))
    elif pid == "C04":
        lines = []
        date_toks = ["YYYY", "YYY", "YY", "Y", "MM", "DD", "DDD", "D", "W", "WW", "MONTH", "Month", "month", "MON",
                     "Mon", "mon", "DAY", "Day", "day", "DY", "Dy", "dy"]
        dstride = 1 if thorough else 37
        for t in date_toks:
            lines.append("@range %d %d %d %d F.format D %% %s -1" % (DATE_MIN, DATE_MAX, dstride, BLK, hx(t)))
        S.append(Stream("all dates x date tokens", lines, exhaustive=thorough, spec=True))
        lines = []
        for t in ["HH24", "HH12", "HH", "MI", "SS", "AM", "pm", "A.M.", "p.m.", "HH24:MI:SS"]:
            lines.append("@range 0 %d 1000000 %d F.format T %% %s -1" % (USECS_PER_DAY - 1, BLK, hx(t)))
        S.append(Stream("all seconds x time tokens", lines, exhaustive=True, spec=True))
        lines = []
        ustep = 1 if thorough else 7
        for t in ["FF", "FF1", "FF2", "FF3", "FF4", "FF5", "FF6", "FF7", "FF8", "FF9"]:
            lines.append("@range 0 999999 %d %d F.format T %% %s -1" % (ustep, BLK, hx(t)))
        S.append(Stream("all microseconds x FF", lines, exhaustive=thorough, spec=True))
        S.append(Stream("composite pictures", format_lines(rng, pools, 30000 * scale, 36, applicable_only=True), spec=True))
        S.append(Stream("inapplicable tokens", format_lines(rng, pools, 5000 * scale, 4, applicable_only=False), spec=True))
        S.append(Stream("Display route (value.format(picture) written with {})", display_lines(rng, pools, 8000 * scale), spec=True))
        S.append(Stream("interval day widths", ["F.format DT %d %s -1" % (sgn * (d * USECS_PER_DAY + t), hx(pic))
                        for d in list(range(0, 41)) + [99, 100, 101, 999, 1000, 99999999, 100000000]
                        for t in (0, 3723000004) for sgn in (1, -1) for pic in ("DD HH24:MI:SS.FF", "DD", "HH24 DD")
                        if d * USECS_PER_DAY + t <= DT_MAX]))
        S.append(Stream("year-month interval years", ["F.format YM %d %s -1" % (sgn * (y * 12 + mo), hx(pic))
                        for y in [0, 1, 9, 10, 99, 100, 999, 1000, 9999, 10000, 99999, 177999999, 178000000]
                        for mo in (0, 11) for sgn in (1, -1) for pic in ("YYYY-MM", "YY MM", "Y", "MM YYY")
                        if y * 12 + mo <= YM_MAX]))
    elif pid == "C05":
        lines = []
        ystep = 1 if thorough else 13
        for doy in range(0, 368):
            lines.append("@range 1 9999 %d %d F.parse D %s %s %s" % (ystep, BLK, "%", hx("YYYY DDD"), CLK))
        # the template above needs the text to vary with the year: use explicit lines instead
        lines = []
        for y in range(1, 10000, ystep):
            for doy in ([0, 1, 31, 32, 59, 60, 61, 365, 366, 367] if not thorough else range(0, 368)):
                lines.append("F.parse D %s %s %s" % (hx("%04d %03d" % (y, doy)), hx("YYYY DDD"), CLK))
        S.append(Stream("year x day-of-year", lines, exhaustive=thorough))
        S.append(Stream("generated spellings", parse_lines(rng, pools, 40000 * scale)))
        lines = []
        for h in range(24):
            for m in (0, 59):
                for s in (0, 59):
                    for order in (0, 1):
                        h12 = (h + 11) % 12 + 1
                        mer = "AM" if h < 12 else "PM"
                        if order == 0:
                            lines.append("F.parse T %s %s %s" % (hx("%02d:%02d:%02d %s" % (h12, m, s, mer)), hx("HH12:MI:SS AM"), CLK))
                        else:
                            lines.append("F.parse T %s %s %s" % (hx("%s %d:%d:%d" % (mer.lower(), h12, m, s)), hx("PM HH:MI:SS"), CLK))
                        lines.append("F.parse T %s %s %s" % (hx("%d:%d:%d" % (h, m, s)), hx("HH24:MI:SS"), CLK))
        S.append(Stream("12h/24h notation", lines))
        S.append(Stream("malformed", wild_parse_lines(rng, pools, 10000 * scale)))
    elif pid == "C06":
        S.append(Stream("lossless roundtrip", roundtrip_lines(rng, pools, 40000 * scale)))
        lines = []
        dstride = 1 if thorough else 11
        for pic in ["YYYY-MM-DD", "DD/MM/YYYY", "YYYY DDD", "Day, DD Month YYYY", "dy mon dd yyyy", "YYYYMMDD", "YYYY-DDD D"]:
            lines.append("@range %d %d %d %d F.roundtrip D %% %s %s" % (DATE_MIN, DATE_MAX, dstride, BLK, hx(pic), CLK))
        S.append(Stream("all dates x date pictures", lines, exhaustive=thorough))
        lines = []
        for pic in ["HH24:MI:SS.FF6", "HH12:MI:SS AM.FF", "SS MI HH24 FF9", "P.M. HH:MI:SS.FF7", "HH24MISS.FF"]:
            lines.append("@range 0 %d 1000000 %d F.roundtrip T %% %s %s" % (USECS_PER_DAY - 1, BLK, hx(pic), CLK))
            lines.append("@range 999999 %d 1000000 %d F.roundtrip T %% %s %s" % (USECS_PER_DAY - 1, BLK, hx(pic), CLK))
        S.append(Stream("all seconds x time pictures", lines, exhaustive=True))
    elif pid == "C07":
        for t in [0, 1, 43199999999, 43200000000, 86399999999]:
            S.append(Stream("all dates TS.new/extract t=%d" % t,
                            ["@range %d %d 1 %d TS.new %% %d" % (DATE_MIN, DATE_MAX, BLK, t)], exhaustive=True))
        lines = []
        for t in [0, 1, 43199999999, 43200000000, 86399999999, 999999, 1000000]:
            lines.append("@range %d %d %d %d TS.extract %%" % (TS_MIN + t, TS_MAX, USECS_PER_DAY, BLK))
            lines.append("@range %d %d %d %d TS.acc %%" % (TS_MIN + t, TS_MAX, USECS_PER_DAY * (1 if thorough else 5), BLK))
        S.append(Stream("all dates x critical times: extract/acc", lines, exhaustive=True))
        dense = []
        for base in [0, -USECS_PER_DAY, days(1, 1, 1) * USECS_PER_DAY, days(9999, 12, 31) * USECS_PER_DAY, days(1969, 7, 20) * USECS_PER_DAY + 72000000000]:
            for sec in [1, 30, 59]:
                dense.append("@range %d %d 1 %d TS.acc %%" % (base + sec * 1000000, base + sec * 1000000 + 999999, BLK))
        for _ in range(4000 * scale):
            dense.append("TS.acc %d" % rng.range(TS_MIN, TS_MAX))
            dense.append("OD.acc %d" % (rng.range(TS_MIN, TS_MAX) // 1000000 * 1000000))
        S.append(Stream("timestamp accessors: every microsecond of sampled seconds + random", dense))
        lines = []
        for us in [0, 1, 999999]:
            lines.append("@range %d %d 1000000 %d T.extract %%" % (us, USECS_PER_DAY - 1, BLK))
            lines.append("@range %d %d 1000000 %d T.acc %%" % (us, USECS_PER_DAY - 1, BLK))
        for sec in [0, 59, 3599, 86399]:
            lines.append("@range %d %d 1 %d T.extract %%" % (sec * 1000000, sec * 1000000 + 999999, BLK))
            lines.append("@range %d %d 1 %d T.acc %%" % (sec * 1000000, sec * 1000000 + 999999, BLK))
        S.append(Stream("time of day sweeps", lines, exhaustive=True))
        grid = []
        for h in list(range(0, 26)) + [4294967295]:
            for mi in list(range(0, 62, 1 if thorough else 3)) + [59, 60, 4294967295]:
                for s in [0, 1, 59, 60, 61, 4294967295]:
                    for us in [0, 1, 999999, 1000000, 4294967295]:
                        grid.append("T.try_from_hms %d %d %d %d" % (h, mi, s, us))
                        grid.append("T.is_valid %d %d %d %d" % (h, mi, s, us))
        S.append(Stream("hms validity grid", grid))
        S.append(ops_stream("timestamp/time ops x pools", rng, pools,
                            ["TS.new", "TS.extract", "TS.acc", "T.acc", "D.acc", "TS.cmp", "T.cmp", "D.cmp", "T.try_from_usecs",
                             "T.extract", "D.and_hms", "D.and_time", "TS.try_from_usecs"], cap))
        S.append(Stream("hash agrees with equality (harness only)", [], ()))
    elif pid == "C08":
        ops = ["D.add_days", "D.sub_days", "D.sub_date", "D.add_dt", "D.sub_dt", "D.add_time", "D.sub_time", "D.sub_ts",
               "TS.add_dt", "TS.sub_dt", "TS.add_time", "TS.sub_time", "TS.add_days", "TS.sub_days", "TS.sub_date",
               "TS.sub_ts", "YM.add_ym", "YM.sub_ym", "DT.add_dt", "DT.sub_dt", "DT.sub_time", "T.sub_time",
               "TS.oracle_sub_date", "OD.add_time", "OD.sub_time", "OD.sub_ts"]
        S.append(ops_stream("linear ops x pools", rng, pools, ops, cap * 3, modes=("off", "on")))
        lines = []
        for k in [1, -1, 365, -365, 3652058, -3652058]:
            lines.append("@range %d %d %d %d D.add_days %% %d" % (DATE_MIN, DATE_MAX, 1 if thorough else 3, BLK, k))
            lines.append("@range %d %d %d %d D.sub_days %% %d" % (DATE_MIN, DATE_MAX, 1 if thorough else 3, BLK, k))
        S.append(Stream("all dates +- k days", lines, exhaustive=thorough))
    elif pid == "C09":
        lines = []
        ks = list(range(-40, 41)) if thorough else [-40, -25, -13, -12, -11, -2, -1, 0, 1, 2, 11, 12, 13, 24, 40]
        ks += [YM_MAX, -YM_MAX, YM_MAX - 1, 119987, -119987, 119988, -119988, 100000, -100000]
        for k in ks:
            lines.append("@range %d %d %d %d D.add_ym %% %d" % (DATE_MIN, DATE_MAX, 1 if thorough else 5, BLK, k))
        for k in ks[:8]:
            lines.append("@range %d %d %d %d D.sub_ym %% %d" % (DATE_MIN, DATE_MAX, 1 if thorough else 5, BLK, k))
        lines.append(rng_dates("D.last_day %"))
        S.append(Stream("all dates x month offsets", lines, exhaustive=thorough, spec=True))
        lines = []
        for t in [0, 1, 43200000000, 86399999999]:
            lines.append("@range %d %d %d %d TS.last_day %%" % (TS_MIN + t, TS_MAX, USECS_PER_DAY, BLK))
            for k in [1, -1, 12, -12, 13]:
                lines.append("@range %d %d %d %d TS.add_ym %% %d" % (TS_MIN + t, TS_MAX, USECS_PER_DAY * (1 if thorough else 7), BLK, k))
        lines.append("@range %d %d %d %d OD.last_day %%" % (TS_MIN, TS_MAX, USECS_PER_DAY, BLK))
        S.append(Stream("timestamps: last day / add months", lines, exhaustive=thorough))
        S.append(ops_stream("month arithmetic x pools", rng, pools,
                            ["D.add_ym", "D.sub_ym", "TS.add_ym", "TS.sub_ym", "OD.add_ym", "OD.sub_ym", "D.last_day",
                             "TS.last_day", "OD.last_day"], cap * 2, modes=("off", "on")))
        # offsets spread over the WHOLE interval range (±2.136e9 months): the year leaves 1..9999 by millions of years,
        # where an intermediate i32 product would wrap (seed C09-C)
        lines = []
        n = 60000 if thorough else 12000
        for _ in range(n):
            k = rng.range(-YM_MAX, YM_MAX)
            if rng.below(2):
                lines.append("D.add_ym %d %d" % (rng.range(DATE_MIN, DATE_MAX), k))
            else:
                lines.append("%s %d %d" % (rng.choice(["TS.add_ym", "TS.sub_ym", "D.sub_ym"]),
                                          rng.range(DATE_MIN, DATE_MAX), k))
        S.append(Stream("random dates x offsets over the whole interval range", lines, ("off", "on"), (oracle_no_panic, oracle_range)))
    elif pid in ("C10", "C11"):
        kind = "trunc" if pid == "C10" else "round"
        lines = [rng_dates("D.%s %s %%" % (kind, u)) for u in UNITS]
        S.append(Stream("all dates x 12 units (Date)", lines, exhaustive=True, spec=True))
        lines = []
        times = [0, 1, 43199999999, 43200000000, 86399999999, 1799999999, 1800000000, 29999999, 30000000,
                 84599999999, 84600000000, 86369999999, 86370000000]
        for u in UNITS:
            for t in (times if thorough else times[:5] + [1800000000, 30000000, 84600000000, 86370000000]):
                lines.append("@range %d %d %d %d TS.%s %s %%" % (TS_MIN + t, TS_MAX, USECS_PER_DAY * (1 if thorough else 11), BLK, kind, u))
        S.append(Stream("all dates x critical times (Timestamp)", lines, exhaustive=thorough, spec=True))
        lines = []
        for u in UNITS:
            for t in [0, 43199000000, 43200000000, 86399000000]:
                lines.append("@range %d %d %d %d OD.%s %s %%" % (TS_MIN + t, TS_MAX, USECS_PER_DAY * (1 if thorough else 13), BLK, kind, u))
        S.append(Stream("all dates x critical times (OracleDate)", lines, exhaustive=thorough, spec=True))
        lines = []
        for d in [DATE_MIN, DATE_MIN + 3, -1, 0, days(2021, 12, 31), days(2000, 2, 29), DATE_MAX]:
            for u in UNITS:
                lines.append("@range %d %d 1000000 %d TS.%s %s %%" % (d * USECS_PER_DAY, d * USECS_PER_DAY + USECS_PER_DAY - 1, BLK, kind, u))
        S.append(Stream("every second of sampled days", lines, exhaustive=True, spec=True))
        st = ops_stream("pools", rng, pools, ["D." + kind, "TS." + kind, "OD." + kind], cap * 2)
        st.spec = True
        S.append(st)
    elif pid == "C12":
        lines = []
        ivs = [0, 1, -1, USECS_PER_DAY - 1, -USECS_PER_DAY + 1, USECS_PER_DAY, -USECS_PER_DAY, 5 * USECS_PER_DAY + 1,
               DT_MAX, -DT_MAX, DT_MAX - 1, -DT_MAX + 1] + [rng.range(-DT_MAX, DT_MAX) for _ in range(6 * scale)]
        for i in ivs:
            lines.append("@range 0 %d 1000000 %d T.add_dt %% %d" % (USECS_PER_DAY - 1, BLK, i))
            lines.append("@range 999999 %d 1000000 %d T.sub_dt %% %d" % (USECS_PER_DAY - 1, BLK, i))
        S.append(Stream("all seconds x boundary intervals", lines, exhaustive=True))
        S.append(ops_stream("time arithmetic x pools", rng, pools,
                            ["T.add_dt", "T.sub_dt", "T.sub_time", "T.from_DT", "T.cmp_DT", "DT.cmp_T", "DT.from_T", "T.from_TS",
                             "T.from_OD"], cap * 3))
    elif pid == "C13":
        step = 7 if thorough else 9973
        S.append(Stream("year-month values (strided)",
                        ["@range %d %d %d %d YM.extract %%" % (-YM_MAX, YM_MAX, step, BLK),
                         "@range %d %d %d %d YM.acc %%" % (-YM_MAX, YM_MAX, step * 3, BLK),
                         "@range %d %d %d %d YM.neg %%" % (-YM_MAX, YM_MAX, step * 3, BLK),
                         "@range %d %d 1 %d YM.extract %%" % (-100000, 100000, BLK),
                         "@range %d %d 1 %d YM.extract %%" % (YM_MAX - 100000, YM_MAX, BLK),
                         "@range %d %d 1 %d YM.extract %%" % (-YM_MAX, -YM_MAX + 100000, BLK)]))
        lines = ["@range %d %d 1000000 %d DT.extract %%" % (-2 * USECS_PER_DAY, 2 * USECS_PER_DAY, BLK),
                 "@range %d %d 1000000 %d DT.acc %%" % (-2 * USECS_PER_DAY, 2 * USECS_PER_DAY, BLK),
                 "@range %d %d 999983 %d DT.extract %%" % (-2 * USECS_PER_DAY, 2 * USECS_PER_DAY, BLK),
                 "@range %d %d 999983 %d DT.acc %%" % (-2 * USECS_PER_DAY, 2 * USECS_PER_DAY, BLK),
                 "@range %d %d 1 %d DT.acc %%" % (59000000, 60999999, BLK),
                 "@range %d %d 1 %d DT.acc %%" % (-61000000, -59000000, BLK),
                 "@range %d %d %d %d DT.acc %%" % (-DT_MAX, DT_MAX, 86399999999 * 7919 + 7, BLK),
                 "@range %d %d %d %d DT.extract %%" % (-DT_MAX, DT_MAX, 86399999999 * 7919 + 7, BLK)]
        for _ in range(2000 * scale):
            lines.append("DT.acc %d" % rng.range(-DT_MAX, DT_MAX))
        for e in range(0, 19):
            for s in (1, -1):
                for d in (-1, 0, 1):
                    lines.append("DT.extract %d" % (s * 10 ** e + d))
                    lines.append("DT.acc %d" % (s * 10 ** e + d))
        S.append(Stream("day-time values", lines))
        S.append(ops_stream("interval ops x pools", rng, pools,
                            ["YM.try_from_ym", "YM.is_valid_ym", "YM.try_from_months", "YM.extract", "YM.neg", "YM.acc", "YM.cmp",
                             "DT.try_from_dhms", "DT.is_valid", "DT.try_from_usecs", "DT.extract", "DT.neg", "DT.acc", "DT.cmp"],
                            cap * 2))
        g = []
        for y in [0, 1, 177999999, 178000000, 178000001, 4294967295]:
            for m in range(0, 14):
                g.append("YM.try_from_ym %d %d" % (y, m))
                g.append("YM.is_valid_ym %d %d" % (y, m))
        S.append(Stream("ym constructor grid", g))
        g = []
        for d in [0, 1, 99999999, 100000000, 100000001, 2147483647, 2147483648, 4294967295]:
            for h in (0, 1, 23, 24):
                for mi in (0, 59, 60):
                    for sc in (0, 59, 60):
                        for us in (0, 1, 999999, 1000000):
                            g.append("DT.try_from_dhms %d %d %d %d %d" % (d, h, mi, sc, us))
                            g.append("DT.is_valid %d %d %d %d %d" % (d, h, mi, sc, us))
        S.append(Stream("dhms constructor grid", g, ("off", "on")))
        ext = [-YM_MAX, -YM_MAX + 1, -1200000000, -1073741824, -1, 0, 1, 1073741824, 1200000000, YM_MAX - 1, YM_MAX]
        S.append(Stream("ordering at the extremes", ["YM.cmp %d %d" % (a, b) for a in ext for b in ext] +
                        ["DT.cmp %d %d" % (a, b) for a in (-DT_MAX, -DT_MAX + 1, -2 ** 62, -1, 0, 1, 2 ** 62, DT_MAX - 1, DT_MAX)
                         for b in (-DT_MAX, -2 ** 62, -1, 0, 1, 2 ** 62, DT_MAX)], ("off", "on")))
    elif pid == "C14":
        S.append(ops_stream("scaling x pools", rng, pools,
                            ["YM.mul_f64", "YM.div_f64", "DT.mul_f64", "DT.div_f64", "T.mul_f64", "T.div_f64"], cap * 4))
        S.append(ops_stream("soft-float vs hardware", rng, pools, [], cap))
        S.append(Stream("soft-float vs hardware", f64_lines(rng, pools, 20000 * scale)))
    elif pid == "C15":
        lines = [rng_dates("S.ser_str D %"), rng_dates("S.ser_bin D %"),
                 "@range 0 %d 1000000 %d S.ser_str T %%" % (USECS_PER_DAY - 1, BLK),
                 "@range 999999 %d 1000000 %d S.ser_str T %%" % (USECS_PER_DAY - 1, BLK)]
        for d in (-719162, -1, 0, 19782, 2932896):
            lines.append("@range %d %d 1000000 %d S.ser_str TS %%" % (d * USECS_PER_DAY, (d + 1) * USECS_PER_DAY - 1, BLK))
            lines.append("@range %d %d 1000000 %d S.ser_str OD %%" % (d * USECS_PER_DAY, (d + 1) * USECS_PER_DAY - 1, BLK))
        lines.append("@range %d %d 1000000 %d S.ser_str DT %%" % (-2 * USECS_PER_DAY, 2 * USECS_PER_DAY, BLK))
        lines.append("@range %d %d 1 %d S.ser_str YM %%" % (-30000, 30000, BLK))
        S.append(Stream("all dates / all seconds serialize", lines, exhaustive=True, spec=True))
        lines = []
        for y in range(1, 10000, 1 if thorough else 17):
            for (m, d) in [(1, 1), (2, 28), (2, 29), (2, 30), (12, 31), (6, 31), (13, 1), (0, 1), (4, 30)]:
                lines.append("S.de_str D %s" % hx("%04d-%02d-%02d" % (y, m, d)))
        S.append(Stream("date strings", lines))
        S.append(ops_stream("serde x pools", rng, pools, ["S.ser_bin", "S.de_bin", "S.ser_str"], cap * 2,
                            oracles=(oracle_no_panic, oracle_range)))
        S.append(Stream("string round trip + perturbed", serde_str_lines(rng, pools, 10000 * scale),
                        oracles=(oracle_no_panic,)))
        S.append(Stream("long non-ASCII payloads", long_garbage_lines(), ("off", "on"), oracles=(oracle_no_panic,)))
    elif pid == "C16":
        S.append(ops_stream("oracle date ops x pools", rng, pools, ops_with_prefix("OD.") + ["TS.oracle_add_days",
                            "TS.oracle_sub_days", "TS.oracle_sub_date"], cap * 2))
        lines = []
        for sub in [0, 1, 499999, 500000, 999999]:
            for t in [0, 43200000000, 86399000000]:
                lines.append("@range %d %d %d %d OD.from_TS %%" % (TS_MIN + t + sub, TS_MAX, USECS_PER_DAY, BLK))
        S.append(Stream("all dates x times x sub-second parts: from_TS", lines, exhaustive=True))
        S.append(Stream("fractional day offsets", od_add_days_lines(rng, pools, 20000 * scale), oracles=(oracle_no_panic, oracle_range)))
    elif pid == "C17":
        lines = []
        for u in UNITS:
            for kind in ("trunc", "round"):
                lines.append(rng_dates("D.%s %s %%" % (kind, u)))
                lines.append("@range %d %d %d %d TS.%s %s %%" % (TS_MIN, TS_MAX, USECS_PER_DAY, BLK, kind, u))
                lines.append("@range %d %d %d %d OD.%s %s %%" % (TS_MIN, TS_MAX, USECS_PER_DAY, BLK, kind, u))
        S.append(Stream("all dates through three types", lines, exhaustive=True))
        # implementation-vs-oracle: the same operation through Date, Timestamp (midnight) and OracleDate must correspond
        tl = []
        dstep = 13 if thorough else 97
        for d in list(range(DATE_MIN, DATE_MAX + 1, dstep)) + pools.get("D"):
            for u in UNITS:
                for kind in ("trunc", "round"):
                    tl.append("D.%s %s %d" % (kind, u, d))
                    tl.append("TS.%s %s %d" % (kind, u, d * USECS_PER_DAY))
                    tl.append("OD.%s %s %d" % (kind, u, d * USECS_PER_DAY))
            tl.append("D.last_day %d" % d)
            tl.append("TS.last_day %d" % (d * USECS_PER_DAY))
            tl.append("OD.last_day %d" % (d * USECS_PER_DAY))
        S.append(Stream("same operation through three types (triples)", tl, oracles=(oracle_no_panic, make_triple_oracle())))
        S.append(ops_stream("mixed comparisons and shared ops", rng, pools,
                            ["D.cmp_TS", "D.cmp_OD", "TS.cmp_D", "TS.cmp_OD", "OD.cmp_TS", "OD.cmp_D", "D.to_TS", "OD.from_TS",
                             "OD.to_TS", "D.last_day", "TS.last_day", "OD.last_day", "D.add_ym", "TS.add_ym", "OD.add_ym",
                             "D.add_dt", "TS.add_dt", "OD.add_dt", "D.sub_ts", "TS.sub_ts", "OD.sub_ts", "OD.sub_date", "TS.sub_date",
                             "TS.oracle_sub_date"], cap * 2))
    elif pid == "C18":
        lines = []
        dstride = 1 if thorough else 29
        pics = [("05-17", "MM-DD"), ("17", "DD"), ("2021", "YYYY"), ("7 03", "Y MM"), ("21-03-04", "YY-MM-DD"),
                ("321 11", "YYY MM"), ("2021-02-03", "YYYY-MM-DD"), ("03:04", "HH24:MI"), ("11", "HH12"), ("2021 060", "YYYY DDD"),
                ("060", "DDD"), ("Mar 3", "MON DD")]
        for text, pic in pics:
            for ty in ("D", "TS", "OD"):
                lines.append("CLOCKSWEEP %s %s %s" % (ty, hx(text), hx(pic)))
        S.append(Stream("every local date as today x pictures", clock_sweep(lines, dstride), exhaustive=thorough))
        lines = []
        for c in pools.get("clock"):
            lines += ["D.now " + c, "TS.now " + c, "OD.now " + c]
            for t in pools.get("T")[:12]:
                lines += ["TS.from_T %d %s" % (t, c), "OD.from_T %d %s" % (t, c)]
        S.append(Stream("now / from time", lines))
        S.append(Stream("generated texts under random clocks", parse_lines(rng, pools, 20000 * scale)))
        # ONE Formatter used twice while the local date changes in between (a compiled picture must not keep the date it read)
        lines = []
        turns = [("1999 12 31 23 59 59 999999", "2000 1 1 0 0 0 0"), ("2024 2 29 23 59 59 0", "2024 3 1 0 0 0 0"),
                 ("2023 12 31 12 0 0 0", "2024 1 1 12 0 0 0"), ("2099 12 31 0 0 0 0", "2100 1 1 0 0 0 0"),
                 ("2024 3 15 10 0 0 0", "2024 3 15 10 0 0 0"), ("999 12 31 1 1 1 1", "1000 1 1 1 1 1 1")]
        clocks = pools.get("clock")
        for text, pic in pics + [("07-03-04 05:06:07", "YY-MM-DD HH24:MI:SS"), ("10:30", "HH24:MI"), ("", "YYYY"), ("x", "DD")]:
            for ty in ("D", "TS", "OD"):
                for c1, c2 in turns:
                    lines.append("F.parse2 %s %s %s %s %s" % (ty, hx(text), hx(pic), c1, c2))
                for _ in range(4 * scale):
                    lines.append("F.parse2 %s %s %s %s %s" % (ty, hx(text), hx(pic), rng.choice(clocks), rng.choice(clocks)))
        S.append(Stream("one Formatter, two parses, the date changes in between", lines))
    elif pid == "C19":
        L = 4 if not thorough else 5
        S.append(Stream("all pictures up to length %d" % L,
                        ["@range 0 %d 1 %d F.try_new_idx %s %d %%" % (40 ** k - 1, BLK, hx(tg.ALPHABET40), k)
                         for k in range(0, L + 1)], exhaustive=True, spec=True))
        S.append(Stream("random token sequences", picture_lines(rng, 40000 * scale, 40), spec=True))
        blanks = []
        for k in list(range(1, 40)) + [254, 255, 256, 257, 300, 511, 512, 513, 600]:
            blanks.append("F.try_new " + hx(" " * k))
            blanks.append("F.try_new " + hx("YYYY" + " " * k + "MM"))
            blanks.append("F.format TS 1234567890123456 %s -1" % hx("DD" + " " * k + "HH24"))
        S.append(Stream("blank runs", blanks, spec=True))
        lines = []
        probe = 1234567890123456
        for _ in range(10000 * scale):
            lines.append("F.format TS %d %s -1" % (probe, hx(tg.random_picture(rng, 10))))
        S.append(Stream("probe timestamp text", lines))
    else:
        raise ValueError("unknown property " + pid)
    bl = band_lines(rng, pools, pid, scale) if pid in ("C02", "C07", "C08", "C10", "C11", "C12", "C13", "C16", "C17") else []
    if pid == "C03":
        for q in ("C07", "C08", "C10", "C11", "C12", "C13", "C16"):
            bl += band_lines(rng, pools, q, 1)
        bl = uniq(bl)
    if bl:
        S.append(Stream("values around cast / fast-path / f64-precision thresholds", bl,
                        ("off", "on") if pid in ("C02", "C03", "C08", "C12", "C13") else ("off",),
                        (oracle_no_panic, oracle_range) if pid == "C02" else (oracle_no_panic,)))
    return [s for s in S if s.lines]


def make_triple_oracle():
    """Stateful oracle for line triples D.op / TS.op / OD.op on the same date: TS and OD results must be the Date result
    at midnight (or the same error)."""
    state = {"d": None}

    def orc(req, out):
        w = req.split(" ", 1)[0]
        if w.startswith("D."):
            state["d"] = out
            return None
        exp = state["d"]
        if exp is None:
            return None
        if exp.startswith("ok "):
            exp = "ok %d" % (int(exp.split(" ")[1]) * USECS_PER_DAY)
        if out != exp:
            return "through Date the result is %s (expected %s here)" % (state["d"], exp)
        return None
    return orc


def f64_lines(rng, pools, n):
    out = []
    f = pools.get("f64")
    ints = pools.get("i64") + pools.get("DT") + pools.get("YM")
    for _ in range(n):
        k = rng.below(8)
        if k == 0:
            out.append("f64.mul %s %s" % (rng.choice(f), rng.choice(f)))
        elif k == 1:
            out.append("f64.div %s %s" % (rng.choice(f), rng.choice(f)))
        elif k == 2:
            out.append("f64.of_i64 %d" % rng.choice(ints))
        elif k == 3:
            out.append("f64.round %s" % rng.choice(f))
        elif k == 4:
            out.append("f64.to_i64 %s" % rng.choice(f))
        elif k == 5:
            out.append("f64.mul x%016x x%016x" % (rng.next(), rng.next()))
        elif k == 6:
            out.append("f64.div x%016x x%016x" % (rng.next(), rng.next()))
        else:
            out.append("%s %s" % (rng.choice(["f64.to_i32", "f64.to_u32", "f64.is", "f64.neg"]), rng.choice(f)))
    return out


def serde_str_lines(rng, pools, n):
    out = []
    pics = {"D": "YYYY-MM-DD", "TS": "YYYY-MM-DD HH24:MI:SS.FF6", "T": "HH24:MI:SS.FF6", "YM": "YYYY-MM",
            "DT": "DD HH24:MI:SS.FF6", "OD": "YYYY-MM-DD HH24:MI:SS"}
    kindof = dict(tg.TOKENS)
    for _ in range(n):
        ty = rng.choice(TYPES)
        v = rng.choice(pools.get(ty))
        toks = []
        pic = pics[ty]
        # tokenise the fixed picture by the documented tokens
        i = 0
        while i < len(pic):
            for L in (5, 4, 3, 2, 1):
                if pic[i:i + L] in kindof:
                    toks.append((pic[i:i + L], kindof[pic[i:i + L]]))
                    i += L
                    break
        text = tg.reference_format(ty, v, toks)
        mode = rng.below(5)
        if mode == 1 and text:
            k = rng.below(len(text))
            text = text[:k] + rng.choice("0123456789+- :.x") + text[k + 1:]
        elif mode == 2:
            text = text + rng.choice(["0", " ", "x", "9"])
        elif mode == 3 and text:
            text = text[:rng.below(len(text))]
        out.append("S.de_str %s %s" % (ty, hx(text)))
    return out


def od_add_days_lines(rng, pools, n):
    out = []
    ods = pools.get("OD")
    for _ in range(n):
        od = rng.choice(ods)
        k = rng.below(5)
        if k == 0:
            x = rng.range(-400000, 400000) / 1.0
        elif k == 1:
            x = (rng.range(-10 ** 9, 10 ** 9) + 0.5) / 86400.0        # half-second ties
        elif k == 2:
            x = rng.range(-10 ** 12, 10 ** 12) / 86400e6
        elif k == 3:
            x = (rng.range(-10 ** 6, 10 ** 6) * 1000000 + rng.choice([499999, 500000, 500001, 499990, 500010])) / 86400e6
        else:
            x = rng.range(-3652059, 3652059) + rng.below(1000) / 1000.0
        out.append("%s %d %s" % (rng.choice(["OD.add_days", "OD.sub_days", "TS.oracle_add_days"]), od, fbits(x)))
    return out


def clock_sweep(specs, stride):
    """Every local date (strided) as 'today' for each (type, text, picture)."""
    import datetime
    out = []
    base = datetime.date(1, 1, 1)
    n = DATE_MAX - DATE_MIN + 1
    for spec in specs:
        _, ty, text, pic = spec.split(" ")
        off = 0
        k = off
        while k < n:
            d = base + datetime.timedelta(days=k)
            out.append("F.parse %s %s %s %d %d %d 13 14 15 160000" % (ty, text, pic, d.year, d.month, d.day))
            k += stride * 7 + 1 if stride > 1 else 1
    return out
