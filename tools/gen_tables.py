#!/usr/bin/env python3
"""Regenerate lean/SqlDt/Generated.lean from /repo/src/*.rs.

Every numeric constant, lookup table and string table the model and the theorems use is
transcribed from the Rust source on every check run.  A change to a table entry, range
constant or threshold therefore changes the model, and the theorems that mention it are
re-checked by `lake build` in the same run.

Exit status 0 = file written (or unchanged); 2 = extraction failed (tie broken).
"""
import os
import re
import struct
import sys

REPO = os.environ.get("VERIF_REPO", "/repo")
OUT = os.path.join(os.path.dirname(os.path.abspath(__file__)), "..", "lean", "SqlDt", "Generated.lean")


class ExtractError(Exception):
    pass


def strip_comments(src):
    out = []
    i = 0
    n = len(src)
    while i < n:
        c = src[i]
        if c == '"':
            j = i + 1
            while j < n and src[j] != '"':
                if src[j] == '\\':
                    j += 1
                j += 1
            out.append(src[i:j + 1])
            i = j + 1
        elif src.startswith("//", i):
            while i < n and src[i] != '\n':
                i += 1
        elif src.startswith("/*", i):
            j = src.find("*/", i)
            i = n if j < 0 else j + 2
        else:
            out.append(c)
            i += 1
    return "".join(out)


def read(name):
    with open(os.path.join(REPO, "src", name)) as f:
        return strip_comments(f.read())


def find_const(src, name, occurrence=0):
    """Return the text of the initialiser of `const NAME: T = <init>;` (n-th occurrence)."""
    pat = re.compile(r"\bconst\s+" + re.escape(name) + r"\s*:\s*([^=]+?)=\s*")
    ms = list(pat.finditer(src))
    if len(ms) <= occurrence:
        raise ExtractError("constant %s (occurrence %d) not found" % (name, occurrence))
    m = ms[occurrence]
    i = m.end()
    depth = 0
    j = i
    while j < len(src):
        c = src[j]
        if c == '"':
            j += 1
            while src[j] != '"':
                if src[j] == '\\':
                    j += 1
                j += 1
        elif c in "([{":
            depth += 1
        elif c in ")]}":
            depth -= 1
        elif c == ';' and depth == 0:
            return m.group(1).strip(), src[i:j].strip()
        j += 1
    raise ExtractError("unterminated constant %s" % name)


class P:
    """Tiny parser for Rust literals: nested arrays, tuples, ints, floats, strings, identifiers."""

    def __init__(self, s):
        self.s = s
        self.i = 0

    def ws(self):
        while self.i < len(self.s) and self.s[self.i].isspace():
            self.i += 1

    def value(self):
        self.ws()
        c = self.s[self.i]
        if c == '[' or c == '(':
            close = ']' if c == '[' else ')'
            self.i += 1
            items = []
            while True:
                self.ws()
                if self.s[self.i] == close:
                    self.i += 1
                    break
                items.append(self.value())
                self.ws()
                if self.s[self.i] == ',':
                    self.i += 1
            return ("arr" if c == '[' else "tup", items)
        if c == '"':
            j = self.i + 1
            buf = []
            while self.s[j] != '"':
                if self.s[j] == '\\':
                    j += 1
                    esc = self.s[j]
                    buf.append({'n': '\n', 't': '\t', '\\': '\\', '"': '"', '0': '\0'}[esc])
                else:
                    buf.append(self.s[j])
                j += 1
            self.i = j + 1
            return ("str", "".join(buf))
        m = re.match(r"-?[0-9][0-9_]*\.[0-9_]+", self.s[self.i:])
        if m:
            self.i += m.end()
            return ("float", m.group(0).replace("_", ""))
        m = re.match(r"-?[0-9][0-9_]*", self.s[self.i:])
        if m:
            self.i += m.end()
            # optional type suffix
            m2 = re.match(r"(u8|u32|i32|i64|usize|u64)", self.s[self.i:])
            if m2:
                self.i += m2.end()
            return ("int", int(m.group(0).replace("_", "")))
        m = re.match(r"[A-Za-z_][A-Za-z0-9_:]*", self.s[self.i:])
        if m:
            self.i += m.end()
            return ("id", m.group(0))
        raise ExtractError("cannot parse literal at: %r" % self.s[self.i:self.i + 40])


def parse_lit(text):
    p = P(text)
    v = p.value()
    p.ws()
    if p.i != len(text):
        raise ExtractError("trailing text in literal: %r" % text[p.i:p.i + 40])
    return v


def const_eval(expr, env):
    """Evaluate simple integer constant expressions (+ - * / parens, `as T`, named constants)."""
    e = re.sub(r"\bas\s+(i32|i64|u32|u64|usize|u8)\b", "", expr)
    e = e.replace("_", "_")
    toks = re.findall(r"[A-Za-z_][A-Za-z0-9_]*|[0-9][0-9_]*|[-+*/()]", e)
    py = []
    for t in toks:
        if re.match(r"[0-9]", t):
            py.append(str(int(t.replace("_", ""))))
        elif re.match(r"[A-Za-z_]", t):
            if t not in env:
                raise ExtractError("unknown name %s in constant expression %r" % (t, expr))
            py.append(str(env[t]))
        elif t == '/':
            py.append('//')
        else:
            py.append(t)
    return int(eval(" ".join(py), {"__builtins__": {}}, {}))


def lean_int(n):
    return str(n) if n >= 0 else "(%d)" % n


def lean_nat_list(xs):
    return "[" + ", ".join(str(x) for x in xs) + "]"


def lean_bytes(s):
    return lean_nat_list(list(s.encode("utf-8")))


def wrap(items, indent="  ", width=100):
    lines = []
    cur = indent
    for k, it in enumerate(items):
        piece = it + ("," if k + 1 < len(items) else "")
        if len(cur) + len(piece) + 1 > width and cur.strip():
            lines.append(cur.rstrip())
            cur = indent
        cur += piece + " "
    if cur.strip():
        lines.append(cur.rstrip())
    return "\n".join(lines)


def int_array(v, name):
    if v[0] != "arr" or any(x[0] != "int" for x in v[1]):
        raise ExtractError("%s is not an integer array" % name)
    return [x[1] for x in v[1]]


def str_array(v, name):
    if v[0] != "arr" or any(x[0] != "str" for x in v[1]):
        raise ExtractError("%s is not a string array" % name)
    return [x[1] for x in v[1]]


def f64_bits(dec):
    return struct.unpack(">Q", struct.pack(">d", float(dec)))[0]


def main():
    out = []
    w = out.append
    w("/-")
    w("  GENERATED FILE - do not edit.  Written by tools/gen_tables.py from /repo/src/*.rs on every check run.")
    w("  Constants and tables of the crate, transcribed literally.")
    w("-/")
    w("namespace SqlDt.Gen")
    w("")

    common = read("common.rs")
    date = read("date.rs")
    interval = read("interval.rs")
    fmt = read("format.rs")
    oracle = read("oracle.rs")

    env = {}
    # ---- scalar constants -------------------------------------------------
    for name in ["MONTHS_PER_YEAR", "HOURS_PER_DAY", "MINUTES_PER_HOUR", "SECONDS_PER_MINUTE",
                 "USECONDS_MAX", "USECONDS_PER_DAY", "USECONDS_PER_HOUR", "USECONDS_PER_MINUTE",
                 "USECONDS_PER_SECOND", "DATE_MIN_YEAR", "DATE_MAX_YEAR"]:
        _, init = find_const(common, name)
        env[name] = const_eval(init, env)
        w("def %s : Int := %s" % (name, lean_int(env[name])))
    for name in ["INTERVAL_MAX_YEAR", "INTERVAL_MAX_DAY"]:
        _, init = find_const(interval, name)
        env[name] = const_eval(init, env)
        w("def %s : Int := %s" % (name, lean_int(env[name])))
    for name in ["INTERVAL_MAX_MONTH", "INTERVAL_MAX_USECONDS"]:
        _, init = find_const(interval, name)
        env[name] = const_eval(init, env)
        w("def %s : Int := %s" % (name, lean_int(env[name])))
    _, init = find_const(date, "ROUNDS_UP_DAY")
    w("def ROUNDS_UP_DAY : Int := %s" % lean_int(const_eval(init, env)))
    _, init = find_const(date, "UNIX_EPOCH_DOW")
    m = re.match(r"WeekDay::(\w+)$", init)
    days = ["Sunday", "Monday", "Tuesday", "Wednesday", "Thursday", "Friday", "Saturday"]
    if not m or m.group(1) not in days:
        raise ExtractError("UNIX_EPOCH_DOW = %r" % init)
    # discriminants of enum WeekDay
    em = re.search(r"enum\s+WeekDay\s*\{([^}]*)\}", date)
    if not em:
        raise ExtractError("enum WeekDay not found")
    disc = dict((k, int(v)) for k, v in re.findall(r"(\w+)\s*=\s*(-?\d+)", em.group(1)))
    w("def UNIX_EPOCH_DOW : Int := %d" % disc[m.group(1)])
    w("def WEEKDAY_DISCRIMINANTS : List Int := %s" % lean_nat_list([disc[d] for d in days]))
    _, init = find_const(fmt, "MAX_FIELDS")
    w("def MAX_FIELDS : Nat := %d" % const_eval(init, env))
    w("")

    # ---- integer tables ---------------------------------------------------
    _, init = find_const(common, "SUM_OF_DAYS_TABLE")
    v = parse_lit(init)
    w("def SUM_OF_DAYS_TABLE : List (List Int) := [%s]" % ", ".join(
        lean_nat_list(int_array(r, "SUM_OF_DAYS_TABLE")) for r in v[1]))
    _, init = find_const(common, "DAY_TABLE")
    v = parse_lit(init)
    w("def DAYS_OF_MONTH_TABLE : List (List Int) := [%s]" % ", ".join(
        lean_nat_list(int_array(r, "DAY_TABLE")) for r in v[1]))
    for name in ["QUARTER_FIRST_MONTH", "QUARTER_ROUND_MONTH", "QUARTER_TRUNC_MONTH"]:
        _, init = find_const(date, name)
        w("def %s : List Int := %s" % (name, lean_nat_list(int_array(parse_lit(init), name))))
    _, init = find_const(fmt, "YEAR_MODIFIER")
    w("def YEAR_MODIFIER : List Int := %s" % lean_nat_list(int_array(parse_lit(init), "YEAR_MODIFIER")))
    w("")

    # week tables: (fn, offset) -> (isSub, offset)
    def week_table(name, lean_name, occurrence=0):
        _, init = find_const(date, name, occurrence)
        v = parse_lit(init)
        rows = []
        for t in v[1]:
            if t[0] != "tup" or len(t[1]) != 2 or t[1][0][0] != "id" or t[1][1][0] != "int":
                raise ExtractError("bad row in %s" % name)
            fn = t[1][0][1]
            if fn not in ("sub_to_date", "current_date"):
                raise ExtractError("unknown method %s in %s" % (fn, name))
            rows.append("(%s, %s)" % ("true" if fn == "sub_to_date" else "false", lean_int(t[1][1][1])))
        w("/-- `(true, k)` = `sub_to_date` by k days, `(false, _)` = `current_date`. -/")
        w("def %s : List (Bool × Int) := [%s]" % (lean_name, ", ".join(rows)))

    week_table("ISO_YEAR_TABLE", "ISO_YEAR_TABLE")
    week_table("WEEK_TABLE", "WEEK_TABLE")
    week_table("MONTH_START_WEEK_TABLE", "MONTH_START_WEEK_TABLE")
    # the two ISO_WEEK_TABLEs: first occurrence is in `trunc_iso_week`, second in `round_iso_week`
    first = date.find("fn trunc_iso_week")
    second = date.find("fn round_iso_week")
    if first < 0 or second < 0 or not first < second:
        raise ExtractError("trunc_iso_week / round_iso_week order changed")
    week_table("ISO_WEEK_TABLE", "TRUNC_ISO_WEEK_TABLE", 0)
    week_table("ISO_WEEK_TABLE", "ROUND_ISO_WEEK_TABLE", 1)
    week_table("SUNDAY_START_WEEK_TABLE", "SUNDAY_START_WEEK_TABLE")
    w("")

    # ---- float table ------------------------------------------------------
    _, init = find_const(fmt, "FRACTION_FACTOR")
    v = parse_lit(init)
    if v[0] != "arr" or any(x[0] not in ("float", "int") for x in v[1]):
        raise ExtractError("FRACTION_FACTOR")
    bits = [f64_bits(str(x[1])) for x in v[1]]
    w("/-- IEEE-754 bit patterns of `FRACTION_FACTOR` (%s). -/" % ", ".join(str(x[1]) for x in v[1]))
    w("def FRACTION_FACTOR_BITS : List Nat := %s" % lean_nat_list(bits))
    w("")

    # ---- string tables ----------------------------------------------------
    def str_table(name, lean_name=None):
        _, init = find_const(fmt, name)
        xs = str_array(parse_lit(init), name)
        w("def %s : List (List Nat) := [\n%s]" % (lean_name or name, wrap([lean_bytes(s) for s in xs])))

    for name in ["MONTH_TABLE", "HOUR_TABLE", "DAY_TABLE", "MINUTE_SECOND_TABLE", "DAY_OF_WEEK_TABLE",
                 "DAY_OF_YEAR_TABLE", "WEEK_OF_MONTH_TABLE", "WEEK_OF_YEAR_TABLE"]:
        str_table(name)
    for name in ["MONTH_NAME_TABLE", "DAY_NAME_TABLE"]:
        _, init = find_const(fmt, name)
        v = parse_lit(init)
        rows = [str_array(r, name) for r in v[1]]
        w("def %s : List (List (List Nat)) := [\n%s]" % (
            name, ",\n".join("  [" + ", ".join(lean_bytes(s) for s in r) + "]" for r in rows)))
    # NameStyle discriminants (row order of the name tables)
    em = re.search(r"enum\s+NameStyle\s*\{([^}]*)\}", fmt)
    if not em:
        raise ExtractError("enum NameStyle not found")
    nd = dict((k, int(v)) for k, v in re.findall(r"(\w+)\s*=\s*(\d+)", em.group(1)))
    for k in ["Capital", "Lower", "Upper", "AbbrCapital", "AbbrLower", "AbbrUpper"]:
        if k not in nd:
            raise ExtractError("NameStyle::%s missing" % k)
        w("def NAMESTYLE_%s : Nat := %d" % (k.upper(), nd[k]))
    # AM / PM spellings
    for fn in ["am", "pm"]:
        m = re.search(r"const\s+fn\s+%s\s*\(&self\)\s*->\s*&str\s*\{\s*match\s+self\s*\{(.*?)\}\s*\}" % fn, fmt, re.S)
        if not m:
            raise ExtractError("AmPmStyle::%s not found" % fn)
        arms = dict(re.findall(r"AmPmStyle::(\w+)\s*=>\s*\"([^\"]*)\"", m.group(1)))
        for k in ["Upper", "Lower", "UpperDot", "LowerDot"]:
            if k not in arms:
                raise ExtractError("AmPmStyle::%s arm missing in %s" % (k, fn))
        w("def %s_TEXT : List (List Nat) := [%s]  -- Upper, Lower, UpperDot, LowerDot" % (
            fn.upper(), ", ".join(lean_bytes(arms[k]) for k in ["Upper", "Lower", "UpperDot", "LowerDot"])))
    w("")

    # ---- DateTimeFormat associated constants ------------------------------
    tm = re.search(r"pub\s+trait\s+DateTimeFormat\s*:[^{]*\{(.*?)\n\}", fmt, re.S)
    if not tm:
        raise ExtractError("trait DateTimeFormat not found")
    defaults = dict((k, int(v)) for k, v in re.findall(r"const\s+(\w+)\s*:\s*usize\s*=\s*(\d+)\s*;", tm.group(1)))
    lens = ["YEAR_MAX_LENGTH", "MONTH_MAX_LENGTH", "DAY_MAX_LENGTH", "HOUR_MAX_LENGTH",
            "MINUTE_MAX_LENGTH", "SECOND_MAX_LENGTH", "DAY_OF_YEAR_MAX_LENGTH"]
    flags = ["HAS_DATE", "HAS_TIME", "HAS_FRACTION", "IS_INTERVAL_YM", "IS_INTERVAL_DT"]
    for k in lens:
        if k not in defaults:
            raise ExtractError("default %s missing" % k)
    impls = {}
    for src, tag_map in ((fmt, {"Date": "D", "Time": "T", "Timestamp": "TS", "IntervalYM": "YM", "IntervalDT": "DT"}),
                         (oracle, {"Date": "OD"})):
        for m in re.finditer(r"impl\s+DateTimeFormat\s+for\s+(\w+)\s*\{(.*?)\n\}", src, re.S):
            ty = m.group(1)
            if ty not in tag_map:
                raise ExtractError("unexpected DateTimeFormat impl for %s" % ty)
            body = m.group(2)
            d = dict(defaults)
            for k, v in re.findall(r"const\s+(\w+)\s*:\s*usize\s*=\s*(\d+)\s*;", body):
                d[k] = int(v)
            for k, v in re.findall(r"const\s+(\w+)\s*:\s*bool\s*=\s*(true|false)\s*;", body):
                d[k] = (v == "true")
            for k in flags:
                if k not in d:
                    raise ExtractError("%s missing in impl for %s" % (k, ty))
            impls[tag_map[ty]] = d
    for tag in ["D", "T", "TS", "YM", "DT", "OD"]:
        if tag not in impls:
            raise ExtractError("DateTimeFormat impl for %s missing" % tag)
    w("structure TypeInfo where")
    for k in lens:
        w("  %s : Nat" % k)
    for k in flags:
        w("  %s : Bool" % k)
    w("")
    for tag in ["D", "T", "TS", "YM", "DT", "OD"]:
        d = impls[tag]
        w("def INFO_%s : TypeInfo := { %s }" % (tag, ", ".join(
            ["%s := %d" % (k, d[k]) for k in lens] + ["%s := %s" % (k, "true" if d[k] else "false") for k in flags])))
    w("")
    # ---- serialize.rs: the six fixed pictures of the human-readable form and the stack buffer they are rendered into
    ser = read("serialize.rs")
    tags = {"DATE": "D", "TIMESTAMP": "TS", "TIME": "T", "INTERVAL_YM": "YM", "INTERVAL_DT": "DT", "ORACLE_DATE": "OD"}
    pics = {}
    for m in re.finditer(r'static\s+(\w+)_FORMATTER\s*:\s*Lazy\s*<\s*Formatter\s*>\s*=\s*Lazy::new\(\s*\|\|\s*Formatter::try_new\(\s*"((?:[^"\\\\]|\\\\.)*)"\s*\)\s*\.unwrap\(\)\s*\)\s*;', ser):
        if m.group(1) in tags:
            if "\\" in m.group(2):
                raise ExtractError("escape sequence in the picture of %s_FORMATTER" % m.group(1))
            pics[tags[m.group(1)]] = m.group(2)
    for name, tag in tags.items():
        if tag not in pics:
            raise ExtractError("serialize.rs: static %s_FORMATTER not found in the expected form" % name)
        w("/-- `%s_FORMATTER`: \"%s\" -/" % (name, pics[tag]))
        w("def SERDE_PICTURE_%s : List Nat := %s" % (tag, lean_bytes(pics[tag])))
    m = re.search(r"type\s+StrBuf\s*=\s*StackStr\s*<\s*(\d+)\s*>\s*;", ser)
    if not m:
        raise ExtractError("serialize.rs: `type StrBuf = StackStr<N>` not found")
    w("def SERDE_BUF_CAP : Nat := %d" % int(m.group(1)))
    w("")
    w("end SqlDt.Gen")
    text = "\n".join(out) + "\n"

    path = os.path.normpath(OUT)
    old = None
    if os.path.exists(path):
        with open(path) as f:
            old = f.read()
    if old != text:
        with open(path, "w") as f:
            f.write(text)
        print("gen_tables: wrote %s (%d bytes)%s" % (path, len(text), "" if old is None else " [CHANGED]"))
    else:
        print("gen_tables: %s unchanged" % path)


if __name__ == "__main__":
    try:
        main()
    except ExtractError as e:
        print("gen_tables: EXTRACTION FAILED: %s" % e)
        sys.exit(2)
