#!/bin/bash
# usage: harmless_check.sh <patch>  — applies a behaviour-preserving refactor of the crate inside a private mount
# namespace (scratch copies of /repo and /verif) and runs every property's quick check: all must stay quiet.
set -u
PATCH=$(readlink -f $1)
BOX=/tmp/seedbox-harmless${HARMLESS_BOX:-}
mkdir -p $BOX/repo $BOX/verif
rsync -a --delete --exclude target /repo/ $BOX/repo/
rsync -a --delete --exclude .git --exclude replays /verif/ $BOX/verif/
mkdir -p $BOX/verif/replays
cp $PATCH $BOX/patch.diff
unshare -m bash -c "
mount --rbind $BOX/repo /repo && mount --rbind $BOX/verif /verif && cd /verif || exit 2
git -C /repo apply $BOX/patch.diff || { echo patch-does-not-apply; exit 2; }
for i in \$(seq -w 1 19); do ./check C\$i 2>&1 | grep -v '^KNOWN-FINDING' | tail -2; done"
rm -rf $BOX
