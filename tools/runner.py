"""Runs request streams through the model driver and the real-crate harness and compares them."""
import concurrent.futures
import os
import subprocess
import time

from catalog import OPS, valid

ROOT = os.path.normpath(os.path.join(os.path.dirname(os.path.abspath(__file__)), ".."))
MODEL = os.path.join(ROOT, "lean", ".lake", "build", "bin", "sqldt-model")
HARNESS = {m: os.path.join(ROOT, "build", "target-oc-%s" % m, "release", "sqldt-harness") for m in ("off", "on")}
TMP = os.path.join(ROOT, "build", "tmp")
NCPU = max(2, os.cpu_count() or 4)


def run_prog(cmd, reqfile, outfile):
    with open(reqfile, "rb") as fi, open(outfile, "wb") as fo:
        p = subprocess.run(cmd, stdin=fi, stdout=fo, stderr=subprocess.PIPE)
    return p.returncode, p.stderr.decode("utf-8", "replace")[-2000:]


def expand_range(line):
    """`@range LO HI STEP BLK OP ARGS…` -> list of (first, count, [explicit lines])."""
    w = line.split(" ")
    lo, hi, step, blk = int(w[1]), int(w[2]), int(w[3]), int(w[4])
    tmpl = w[5:]
    blocks = []
    cur = []
    first = lo
    i = lo
    while i <= hi:
        cur.append(" ".join(str(i) if t == "%" else t for t in tmpl))
        if len(cur) >= blk:
            blocks.append((first, len(cur), cur))
            cur = []
            first = i + step
        i += step
    if cur:
        blocks.append((first, len(cur), cur))
    return blocks


def range_count(line):
    w = line.split(" ")
    lo, hi, step = int(w[1]), int(w[2]), int(w[3])
    return 0 if hi < lo else (hi - lo) // step + 1


def split_ranges(lines, pieces):
    """Split big @range directives into sub-ranges aligned on BLK so they can run in parallel."""
    out = []
    for l in lines:
        if l.startswith("@range "):
            w = l.split(" ")
            lo, hi, step, blk = int(w[1]), int(w[2]), int(w[3]), int(w[4])
            n = range_count(l)
            nblocks = (n + blk - 1) // blk
            if nblocks > 1:
                per = max(1, (nblocks + pieces - 1) // pieces)
                b = 0
                while b < nblocks:
                    slo = lo + b * blk * step
                    shi = min(hi, lo + ((b + per) * blk - 1) * step)
                    out.append(" ".join(["@range", str(slo), str(shi), str(step), str(blk)] + w[5:]))
                    b += per
                continue
        out.append(l)
    return out


def chunk(lines, nchunks):
    """Split a request list into roughly equal-cost chunks (a @range line costs its iteration count)."""
    costs = [range_count(l) if l.startswith("@range ") else 1 for l in lines]
    total = sum(costs)
    target = max(1, total // nchunks)
    chunks = []
    cur = []
    acc = 0
    for l, c in zip(lines, costs):
        cur.append(l)
        acc += c
        if acc >= target and len(chunks) < nchunks - 1:
            chunks.append(cur)
            cur = []
            acc = 0
    if cur:
        chunks.append(cur)
    return chunks


class Disagreement:
    def __init__(self, stream, mode, request, model, crate, kind):
        self.stream, self.mode, self.request, self.model, self.crate, self.kind = stream, mode, request, model, crate, kind

    def as_dict(self):
        return {"stream": self.stream, "overflow_checks": self.mode, "request": self.request, "model": self.model,
                "crate": self.crate, "kind": self.kind}


class StreamResult:
    def __init__(self, name):
        self.name = name
        self.evaluations = 0
        self.distinct = 0
        self.disagreements = []      # model vs crate
        self.oracle_failures = []    # crate vs property oracle (python)
        self.known = {}              # known-finding id -> count of matching disagreements
        self.errors = []
        self.hist = {}
        self.samples = []
        self.exhaustive = False
        self.wall = 0.0


def _classify(resp):
    if resp.startswith("ok"):
        return "ok"
    if resp.startswith("err "):
        return resp
    return resp.split(" ")[0]


def _run_chunk(args):
    tag, idx, lines, modes, model_cmd = args
    os.makedirs(TMP, exist_ok=True)
    base = os.path.join(TMP, "%s.%d.%d" % (tag, os.getpid(), idx))
    req = base + ".req"
    with open(req, "w") as f:
        f.write("\n".join(lines) + "\n")
    outs = {}
    rc, err = run_prog(model_cmd, req, base + ".model")
    if rc != 0:
        return idx, None, "model driver failed rc=%d: %s" % (rc, err)
    with open(base + ".model") as f:
        outs["model"] = f.read().split("\n")
    for m in modes:
        rc, err = run_prog([HARNESS[m]], req, base + ".crate." + m)
        if rc != 0:
            return idx, None, "harness(%s) failed rc=%d: %s" % (m, rc, err)
        with open(base + ".crate." + m) as f:
            outs[m] = f.read().split("\n")
    for ext in [".req", ".model"] + [".crate." + m for m in modes]:
        try:
            os.remove(base + ext)
        except OSError:
            pass
    return idx, outs, None


def run_explicit(lines, modes, model_cmd, tag="x"):
    """Run explicit lines (no @range) sequentially in one process pair; returns outputs dict."""
    idx, outs, err = _run_chunk((tag, 0, lines, modes, model_cmd))
    return outs, err


def run_stream(name, lines, modes=("off",), oracles=(), spec=False, exhaustive=False, pool=None, max_report=20, known=None):
    """Run one stream; compare model (or spec) with the crate in each overflow mode; apply oracles to crate lines."""
    t0 = time.time()
    res = StreamResult(name)
    res.exhaustive = exhaustive
    model_cmd = [MODEL] + (["--spec"] if spec else [])
    lines = split_ranges(lines, NCPU * 2)
    chunks = chunk(lines, NCPU * 2 if len(lines) > 64 or any(l.startswith("@range") for l in lines) else 1)
    jobs = [(name.replace("/", "_").replace(" ", "_"), i, c, list(modes), model_cmd) for i, c in enumerate(chunks)]
    own_pool = pool is None
    if own_pool:
        pool = concurrent.futures.ThreadPoolExecutor(max_workers=NCPU)
    try:
        results = list(pool.map(_run_chunk, jobs))
    finally:
        if own_pool:
            pool.shutdown()
    seen = set()
    rerun = {}
    for (idx, outs, err), (_, _, clines, _, _) in zip(results, jobs):
        if err:
            res.errors.append(err)
            continue
        # walk requests and outputs in parallel
        pos = {k: 0 for k in outs}
        for req in clines:
            if req.startswith("@range "):
                nb = 0
                n = range_count(req)
                w = req.split(" ")
                blk = int(w[4])
                nblocks = (n + blk - 1) // blk
                mblocks = outs["model"][pos["model"]:pos["model"] + nblocks]
                pos["model"] += nblocks
                res.evaluations += n * len(modes)
                res.distinct += n
                if len(res.samples) < 3:
                    res.samples.append(req)
                for m in modes:
                    cblocks = outs[m][pos[m]:pos[m] + nblocks]
                    pos[m] += nblocks
                    if cblocks != mblocks:
                        exp = expand_range(req)
                        for bi, (mb, cb) in enumerate(zip(mblocks, cblocks)):
                            if mb != cb and bi < len(exp):
                                rerun.setdefault(m, []).extend(exp[bi][2])
                        if len(mblocks) != len(cblocks):
                            res.errors.append("block count differs for %s" % req)
                continue
            mo = outs["model"][pos["model"]] if pos["model"] < len(outs["model"]) else "<missing>"
            pos["model"] += 1
            if req == "" or req.startswith("#"):
                for m in modes:
                    pos[m] += 1
                continue
            if req not in seen:
                seen.add(req)
                if not mo.startswith("bad-") and mo != "skip-utf8":
                    res.distinct += 1
            cls = _classify(mo)
            opname = req.split(" ", 1)[0]
            key = opname + " -> " + cls
            res.hist[key] = res.hist.get(key, 0) + 1
            if len(res.samples) < 3:
                res.samples.append(req + "  =>  " + mo[:120])
            for m in modes:
                co = outs[m][pos[m]] if pos[m] < len(outs[m]) else "<missing>"
                pos[m] += 1
                res.evaluations += 1
                if mo != co and not (spec and mo == "bad-op"):
                    k = known(req, co) if known else None
                    if k:
                        res.known[k] = res.known.get(k, 0) + 1
                    elif len(res.disagreements) < max_report:
                        res.disagreements.append(Disagreement(name, m, req, mo, co, "spec" if spec else "model"))
                for orc in oracles:
                    msg = orc(req, co)
                    if msg and len(res.oracle_failures) < max_report:
                        res.oracle_failures.append({"stream": name, "overflow_checks": m, "request": req, "crate": co,
                                                    "oracle": msg})
    # differing @range blocks: re-run their iterations explicitly (in parallel) to find the individual inputs
    for m, elines in rerun.items():
        ejobs = [("rerun_" + name.replace("/", "_").replace(" ", "_"), i, c, [m], model_cmd)
                 for i, c in enumerate(chunk(elines, NCPU))]
        with concurrent.futures.ThreadPoolExecutor(max_workers=NCPU) as p2:
            eres = list(p2.map(_run_chunk, ejobs))
        for (idx, eouts, eerr), (_, _, clines, _, _) in zip(eres, ejobs):
            if eerr:
                res.errors.append(eerr)
                continue
            for er, mo, co in zip(clines, eouts["model"], eouts[m]):
                if mo != co:
                    k = known(er, co) if known else None
                    if k:
                        res.known[k] = res.known.get(k, 0) + 1
                    elif len(res.disagreements) < max_report:
                        res.disagreements.append(Disagreement(name, m, er, mo, co, "spec" if spec else "model"))
    res.wall = time.time() - t0
    return res


# ------------------------------------------------------------------ python oracles on crate output
def oracle_no_panic(req, out):
    if out == "panic":
        return "the call panicked"
    return None


def oracle_range(req, out):
    """C02 / C16: every value an operation returns lies in its type's documented range."""
    if not out.startswith("ok"):
        return None
    w = req.split(" ")
    op = w[0]
    if op not in OPS:
        return None
    kinds = OPS[op][1]
    if not kinds:
        return None
    vals = out.split(" ")[1:]
    if kinds == ["tyres"]:
        kinds = [w[1]]
    for k, v in zip(kinds, vals):
        try:
            iv = int(v)
        except ValueError:
            continue
        if not valid(k, iv):
            return "result %s is not a valid %s" % (v, k)
    return None


DOCUMENTED_CONSTS = ("ok -719162 2932896 0 86399999999 -62135596800000000 253402300799999999 -2136000000 0 2136000000 "
                     "-8640000000000000000 0 8640000000000000000 -62135596800000000 253402300799000000")


def oracle_consts(req, out):
    """C02: the public MIN / MAX / ZERO constants are the documented range limits (0001-01-01, 9999-12-31,
    23:59:59.999999, ±178000000-00, ±100000000 00:00:00, Oracle date to the whole second)."""
    if req == "K.consts" and out != DOCUMENTED_CONSTS:
        return "public range constants differ from the documented limits"
    return None
