#!/usr/bin/env python3
"""Per-operation coverage of C02 (results in range) and C03 (no panic): check tools/rows_map.json.

usage: rows_check.py OUT.lean [--lean]

(a) Every key of catalog.OPS must be in the map (and nothing else); "C02" may be null only for an operation that
    returns no value of the six types (catalogue result None, or only field/boolean/integer kinds); "C03" must be a
    theorem name or "total".  The map is also tied to the driver: every qualified model constant named in "model" must
    occur in the operation's arm of `Drv.handler` (lean/Driver.lean), and "C03" is "total" exactly when that arm
    cannot report an error (no `chkInt`, no `.err`), i.e. the model function does not return `Chk`.
(b) OUT.lean is written: imports of the Props modules, then one `#check @thm` per named theorem and one
    `#row thm mentions consts` per (theorem, operation), which fails unless `thm` is a theorem whose STATEMENT mentions
    every model constant of the operation and whose axioms are within {propext, Classical.choice, Quot.sound}.
    `cd lean && lake env lean OUT.lean` fails if any of this does not hold; `--lean` runs that command.
Exit status 1 (with the list of offending operations) on any failure.
"""
import json
import os
import re
import subprocess
import sys

sys.dont_write_bytecode = True
HERE = os.path.dirname(os.path.abspath(__file__))
sys.path.insert(0, HERE)
import catalog  # noqa: E402

VALUE_KINDS = {"D", "T", "TS", "YM", "DT", "OD", "tyres"}
# namespace of a theorem -> the modules that may hold it
MODULES = {
    "SqlDt.C02": ["SqlDt.Props.C02", "SqlDt.Props.C02Parse"],
    "SqlDt.C03": ["SqlDt.Props.C03", "SqlDt.Props.C03Units", "SqlDt.Props.C03Format"],
    "SqlDt.C15": ["SqlDt.Props.C15"],
    "SqlDt.C02Rows": ["SqlDt.Props.C02Rows"],
    "SqlDt.C03Rows": ["SqlDt.Props.C03Rows"],
}
QUALIFIED = re.compile(r"\b[A-Z][A-Za-z0-9]*(?:\.[A-Za-z][A-Za-z0-9_]*)+")

LEAN_PRELUDE = """\
open Lean Elab Command in
/-- `#row thm mentions c₁ c₂ …`: `thm` is a theorem, its statement mentions every `cᵢ`, its axioms are the standard three. -/
elab "#row " thm:ident " mentions " fns:ident* : command => do
  let env ← getEnv
  let n := thm.getId
  let some ci := env.find? n | throwError "unknown theorem {n}"
  unless ci matches .thmInfo _ do throwError "{n} is not a theorem"
  let used := ci.type.getUsedConstants
  for f in fns do
    let c ← liftCoreM <| realizeGlobalConstNoOverload f
    unless used.contains c do throwError "the statement of {n} does not mention {c}"
  for a in (← liftCoreM <| Lean.collectAxioms n) do
    unless a == ``propext || a == ``Classical.choice || a == ``Quot.sound do
      throwError "{n} depends on the axiom {a}"
"""


def driver_arms():
    """op name -> text of its arm in `Drv.handler` (the model side, not `specHandler`)."""
    src = open(os.path.join(HERE, "..", "lean", "Driver.lean"), encoding="utf-8").read()
    body = src[src.index("def handler "):]
    body = body[:body.index("/-! ### main loop")]
    arms = {}
    cur = None
    for line in body.splitlines():
        m = re.match(r'\s*\| "([^"]+)"(?: \| "([^"]+)")* => some fun', line)
        if m:
            cur = [g for g in m.groups() if g]
            for name in cur:
                arms[name] = line
        elif re.match(r"\s*\| _ => none", line):
            cur = None
        elif cur:
            for name in cur:
                arms[name] += "\n" + line
    return arms


def model_consts(model):
    return [c for c in QUALIFIED.findall(model) if not c.startswith("Drv.")]


def main():
    if len(sys.argv) < 2:
        print(__doc__)
        return 2
    out = sys.argv[1]
    run_lean = "--lean" in sys.argv[2:]
    rows = json.load(open(os.path.join(HERE, "rows_map.json"), encoding="utf-8"))
    arms = driver_arms()
    bad = []

    for op, (_args, res) in catalog.OPS.items():
        if op not in rows:
            bad.append(f"{op}: missing from rows_map.json")
            continue
        row = rows[op]
        if set(row) != {"model", "C02", "C03"} or not isinstance(row["model"], str) or not row["model"]:
            bad.append(f"{op}: entry must have exactly the keys model, C02, C03")
            continue
        resultless = res is None or not any(k in VALUE_KINDS for k in res)
        if row["C02"] is None and not resultless:
            bad.append(f"{op}: returns {res} but has no C02 row")
        if row["C02"] is not None and not isinstance(row["C02"], str):
            bad.append(f"{op}: C02 must be a theorem name or null")
        if not isinstance(row["C03"], str) or not row["C03"]:
            bad.append(f"{op}: C03 must be a theorem name or \"total\"")
            continue
        for thm in (row["C02"], row["C03"]):
            if isinstance(thm, str) and thm != "total" and thm.rsplit(".", 1)[0] not in MODULES:
                bad.append(f"{op}: theorem {thm} is in no known Props namespace")
        arm = arms.get(op)
        if arm is None:
            bad.append(f"{op}: no arm in Drv.handler")
            continue
        for c in model_consts(row["model"]):
            if not re.search(r"(?<![A-Za-z0-9_.])" + re.escape(c) + r"(?![A-Za-z0-9_])", arm):
                bad.append(f"{op}: model constant {c} does not occur in the driver's arm")
        for c in QUALIFIED.findall(row["model"]):
            if c.startswith("Drv.") and not re.search(r"(?<![A-Za-z0-9_.])" + re.escape(c[4:]) + r"(?![A-Za-z0-9_])", arm):
                bad.append(f"{op}: driver helper {c} does not occur in the driver's arm")
        can_fail = "chkInt" in arm or ".err" in arm
        if row["C03"] == "total" and can_fail:
            bad.append(f"{op}: marked total but the driver's arm handles a `Chk` result")
        if row["C03"] != "total" and not can_fail:
            bad.append(f"{op}: has a C03 theorem but the driver's arm is total")
    for op in rows:
        if op not in catalog.OPS:
            bad.append(f"{op}: in rows_map.json but not in catalog.OPS")

    if bad:
        print("rows_check: FAILED")
        for b in bad:
            print("  " + b)
        return 1

    theorems = []          # in first-use order
    checks = []            # (theorem, consts, op, column)
    for op in catalog.OPS:
        row = rows[op]
        consts = model_consts(row["model"])
        for col in ("C02", "C03"):
            thm = row[col]
            if thm is None or thm == "total":
                continue
            if thm not in theorems:
                theorems.append(thm)
            checks.append((thm, consts, op, col))
    modules = ["SqlDt.Props.C02Rows", "SqlDt.Props.C03Rows"]
    for thm in theorems:
        for mod in MODULES[thm.rsplit(".", 1)[0]]:
            if mod not in modules:
                modules.append(mod)
    all_consts = []
    for row in rows.values():
        for c in model_consts(row["model"]):
            if c not in all_consts:
                all_consts.append(c)

    with open(out, "w", encoding="utf-8") as f:
        f.write("-- generated by tools/rows_check.py from tools/rows_map.json; do not edit\n")
        f.write("import Lean\n")
        for mod in modules:
            f.write(f"import {mod}\n")
        f.write("open SqlDt\n\n")
        f.write(LEAN_PRELUDE)
        f.write("\n-- the model functions named by the map\n")
        for c in all_consts:
            f.write(f"#check @{c}\n")
        f.write("\n-- every named theorem exists\n")
        for thm in theorems:
            f.write(f"#check @{thm}\n")
        f.write("\n-- every row is a theorem about its operation's model function, on the standard axioms\n")
        for thm, consts, op, col in checks:
            f.write(f"#row {thm} mentions {' '.join(consts)}  -- {col} {op}\n")

    n02 = sum(1 for r in rows.values() if r["C02"] is not None)
    n03 = sum(1 for r in rows.values() if r["C03"] != "total")
    print(f"rows_check: map ok – {len(rows)} operations, {n02} with a C02 row, {len(rows) - n02} result-less, "
          f"{n03} with a C03 row, {len(rows) - n03} total; {len(theorems)} distinct theorems, {len(checks)} row checks")
    print(f"rows_check: wrote {out}")
    if run_lean:
        lean_dir = os.path.normpath(os.path.join(HERE, "..", "lean"))
        p = subprocess.run(["lake", "env", "lean", os.path.abspath(out)], cwd=lean_dir,
                           stdout=subprocess.PIPE, stderr=subprocess.STDOUT, text=True)
        errors = [ln for ln in p.stdout.splitlines() if ": error" in ln]
        if p.returncode != 0 or errors:
            print("rows_check: FAILED in Lean")
            print("\n".join(errors) if errors else p.stdout)
            return 1
        print("rows_check: Lean accepted every row")
    return 0


if __name__ == "__main__":
    sys.exit(main())
