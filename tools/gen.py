"""Input pools and generic request generators. Every random choice comes from one SplitMix64 stream."""
import datetime
import itertools
import struct

from catalog import (OPS, UNITS, TYPES, DATE_MIN, DATE_MAX, USECS_PER_DAY, TS_MIN, TS_MAX, OD_MAX, YM_MAX,
                     DT_MAX)

MASK = (1 << 64) - 1


class Rng:
    def __init__(self, seed):
        self.s = seed & MASK

    def next(self):
        self.s = (self.s + 0x9E3779B97F4A7C15) & MASK
        z = self.s
        z = ((z ^ (z >> 30)) * 0xBF58476D1CE4E5B9) & MASK
        z = ((z ^ (z >> 27)) * 0x94D049BB133111EB) & MASK
        return z ^ (z >> 31)

    def below(self, n):
        return self.next() % n

    def range(self, lo, hi):
        return lo + self.below(hi - lo + 1)

    def choice(self, xs):
        return xs[self.below(len(xs))]

    def sample(self, xs, k):
        xs = list(xs)
        if k >= len(xs):
            return xs
        out = []
        for _ in range(k):
            j = self.below(len(xs))
            out.append(xs[j])
            xs[j] = xs[-1]
            xs.pop()
        return out

    def chance(self, num, den):
        return self.below(den) < num


def days(y, m, d):
    """Day number of a proleptic Gregorian date (independent of the crate: Python's datetime)."""
    return (datetime.date(y, m, d) - datetime.date(1970, 1, 1)).days


def hx(s):
    if isinstance(s, str):
        s = s.encode("utf-8")
    return "s:" + s.hex()


def fbits(x):
    return "x%016x" % struct.unpack(">Q", struct.pack(">d", x))[0]


def uniq(xs):
    seen = set()
    out = []
    for x in xs:
        if x not in seen:
            seen.add(x)
            out.append(x)
    return out


# ---------------------------------------------------------------- pools
def date_pool(rng, nrand=8):
    b = [DATE_MIN, DATE_MIN + 1, DATE_MIN + 2, DATE_MIN + 3, DATE_MIN + 5, DATE_MIN + 6, DATE_MIN + 7,
         -1, 0, 1, DATE_MAX - 1, DATE_MAX, DATE_MAX - 30, DATE_MAX - 31, DATE_MAX - 183, DATE_MAX - 184,
         days(2000, 2, 29), days(2000, 3, 1), days(1900, 2, 28), days(1900, 3, 1), days(2100, 2, 28),
         days(1999, 12, 31), days(2000, 1, 1), days(2000, 12, 31), days(2001, 1, 1), days(1, 12, 31),
         days(1600, 2, 29), days(2024, 2, 29), days(2024, 1, 31), days(2023, 1, 31), days(2021, 6, 30),
         days(2021, 7, 1), days(2021, 8, 15), days(2021, 8, 16), days(2021, 11, 16), days(2021, 2, 15),
         days(9950, 6, 1), days(9949, 12, 31), days(9951, 1, 1), days(9999, 6, 30), days(9999, 7, 1),
         days(9999, 11, 15), days(9999, 11, 16), days(9999, 12, 15), days(9999, 12, 16), days(100, 6, 1),
         days(2000, 6, 1), days(1950, 12, 31), days(1951, 1, 1), days(2021, 1, 3), days(2021, 1, 4),
         days(2020, 12, 28), days(2026, 1, 1)]
    b += [rng.range(DATE_MIN, DATE_MAX) for _ in range(nrand)]
    return uniq(b)


def time_pool(rng, nrand=6):
    H = 3600000000
    b = [0, 1, 999999, 1000000, 29999999, 30000000, 59999999, 60000000, 30 * 60000000 - 1, 30 * 60000000,
         H - 1, H, 12 * H - 1, 12 * H, 12 * H + 1, 13 * H, 23 * H, 23 * H + 29 * 60000000 + 59999999,
         23 * H + 30 * 60000000, 23 * H + 59 * 60000000 + 29999999, 23 * H + 59 * 60000000 + 30000000,
         USECS_PER_DAY - 1000000, USECS_PER_DAY - 2, USECS_PER_DAY - 1, 499999, 500000, 500001]
    b += [rng.range(0, USECS_PER_DAY - 1) for _ in range(nrand)]
    return uniq(b)


def ts_pool(rng, nrand=8):
    ds = [DATE_MIN, DATE_MIN + 1, DATE_MIN + 3, -1, 0, 1, DATE_MAX - 1, DATE_MAX, days(2000, 2, 29),
          days(1900, 3, 1), days(9950, 6, 1), days(9999, 12, 16), days(2021, 12, 31), days(2021, 1, 31),
          days(2000, 6, 1)]
    ts = [0, 1, 499999, 500000, 999999, 12 * 3600000000 - 1, 12 * 3600000000, USECS_PER_DAY - 1,
          USECS_PER_DAY - 500000, USECS_PER_DAY - 500001]
    b = [d * USECS_PER_DAY + t for d in ds for t in ts]
    b += [rng.range(TS_MIN, TS_MAX) for _ in range(nrand)]
    b += [1 << 53, (1 << 53) + 1, -(1 << 53) - 1, (1 << 57) + 31]
    return uniq([x for x in b if TS_MIN <= x <= TS_MAX])


def od_pool(rng, nrand=8):
    return uniq([x - x % 1000000 for x in ts_pool(rng, nrand)] + [OD_MAX, TS_MIN])


def ym_pool(rng, nrand=6):
    b = [0, 1, -1, 11, -11, 12, -12, 13, -13, 1200, -1200, 119988, -119988, 119987, 119989, YM_MAX, -YM_MAX,
         YM_MAX - 1, -YM_MAX + 1, YM_MAX - 12, 1 << 24, (1 << 24) + 1]
    b += [rng.range(-YM_MAX, YM_MAX) for _ in range(nrand)]
    b += [rng.range(-200, 200) for _ in range(nrand)]
    return uniq(b)


def dt_pool(rng, nrand=6):
    b = [0, 1, -1, 999999, 1000000, -1000000, USECS_PER_DAY - 1, USECS_PER_DAY, USECS_PER_DAY + 1,
         -USECS_PER_DAY + 1, -USECS_PER_DAY, -USECS_PER_DAY - 1, 2 * USECS_PER_DAY, -2 * USECS_PER_DAY,
         DT_MAX, -DT_MAX, DT_MAX - 1, -DT_MAX + 1, 31 * USECS_PER_DAY + 3723000004, 32 * USECS_PER_DAY, 32 * USECS_PER_DAY + 3723000004,
         -32 * USECS_PER_DAY - 1, 33 * USECS_PER_DAY, 99 * USECS_PER_DAY, 100 * USECS_PER_DAY, 999999999 * 86400, 1 << 53, (1 << 53) + 1, -(1 << 53) - 1, 3652058 * USECS_PER_DAY,
         -3652058 * USECS_PER_DAY, 3652059 * USECS_PER_DAY, 43200000000, -43200000000]
    b += [rng.range(-DT_MAX, DT_MAX) for _ in range(nrand)]
    b += [rng.range(-3 * USECS_PER_DAY, 3 * USECS_PER_DAY) for _ in range(nrand)]
    return uniq(b)


UNITS_US = [1, 1000, 10 ** 6, 6 * 10 ** 7, 36 * 10 ** 8, 864 * 10 ** 8]   # µs, ms, s, min, h, day


def band_values(rng, lo, hi, per=3, units=UNITS_US):
    """Values around the places where a narrowing cast, a 32-bit fast path or a trip through f64 would go wrong: for every
    unit u (µs … day) and every b in 2^15, 2^16, 2^24, 2^31, 2^32, 2^52, 2^53 the threshold b·u with its neighbours and
    random values within a day / within 64 units of it, both signs; plus log-uniform magnitudes (every binade from 2^20
    to 2^62) with the sub-second residues at which rounding/flooring to a second or a minute decides (0, 1, 499999,
    500000, 500001, 999998, 999999).  None of these are range limits, epoch neighbours or round numbers."""
    out = []
    for u in units:
        for b in (1 << 15, 1 << 16, 1 << 24, 1 << 31, 1 << 32, 1 << 52, 1 << 53):
            t = b * u
            for sgn in (1, -1):
                out += [sgn * (t + d) for d in (-1, 0, 1)]
                for _ in range(per):
                    out.append(sgn * (t + rng.range(0, 864 * 10 ** 8)))
                    out.append(sgn * (t - rng.range(1, 864 * 10 ** 8)))
                    out.append(sgn * (t + rng.range(0, 64 * u)))
    for k in range(20, 63):
        for _ in range(per):
            m = (1 << k) + rng.range(0, (1 << k) - 1)
            out += [m, -m]
            for r in (0, 1, 499999, 500000, 500001, 999998, 999999):
                v = m - m % 10 ** 6 + r
                out += [v, -v]
            v = m - m % (6 * 10 ** 7)
            out += [v - 1, -(v - 1), v + 59999999, -(v + 59999999)]
    return uniq([x for x in out if lo <= x <= hi])


I32_MIN, I32_MAX = -(1 << 31), (1 << 31) - 1
I64_MIN, I64_MAX = -(1 << 63), (1 << 63) - 1
U32_MAX = (1 << 32) - 1


def i32_pool(rng, nrand=6):
    b = [0, 1, -1, 2, 7, -7, 365, -365, 366, 146097, -146097, 3652058, -3652058, 3652059, -3652059, DATE_MIN,
         DATE_MAX, DATE_MIN - 1, DATE_MAX + 1, YM_MAX, -YM_MAX, YM_MAX + 1, -YM_MAX - 1, I32_MIN, I32_MIN + 1,
         I32_MAX, I32_MAX - 1]
    b += [rng.range(I32_MIN, I32_MAX) for _ in range(nrand)]
    b += [rng.range(-4000000, 4000000) for _ in range(nrand)]
    return uniq(b)


def i64_pool(rng, nrand=6):
    b = [0, 1, -1, USECS_PER_DAY - 1, USECS_PER_DAY, -USECS_PER_DAY, TS_MIN, TS_MIN - 1, TS_MIN + 1, TS_MAX,
         TS_MAX + 1, TS_MAX - 1, OD_MAX, OD_MAX + 1, OD_MAX + 1000000, DT_MAX, DT_MAX + 1, -DT_MAX, -DT_MAX - 1,
         I64_MIN, I64_MIN + 1, I64_MAX, I64_MAX - 1, I32_MAX, I32_MIN, 1000000, 999999, -999999, -1000000,
         1 << 53, (1 << 53) + 1]
    b += [rng.range(I64_MIN, I64_MAX) for _ in range(nrand)]
    return uniq(b)


def f64_pool(rng, nrand=10):
    vals = [0.0, -0.0, 1.0, -1.0, 2.0, 0.5, -0.5, 0.25, 1.5, 2.5, -2.5, 3.0, 10.0, 0.1, 0.01, 0.001, 1e-6, 1e-7, 1e-10,
            1e-300, 5e-324, 2.2250738585072014e-308, 1e10, 1e15, 1e18, 1e19, 1e300, 1.7976931348623157e308,
            float("inf"), float("-inf"), float("nan"), 9007199254740992.0, 9007199254740993.0, 9007199254740991.0,
            4503599627370496.5, 1 / 3.0, 2 / 3.0, 1 / 86400.0, 1 / 86400e6, 0.5 / 86400e6, 1.5 / 86400e6, 7.0, 12.0,
            1 / 12.0, 365.25, 3652058.0, 3652059.0, -3652059.0, 0.49999, 499990 / 86400e6, 9.223372036854775e18,
            9.223372036854776e18, -9.223372036854776e18, 2147483647.0, 2147483648.0, -2147483648.0, -2147483649.0,
            4294967295.0, 4294967296.0, 0.9999999999999999, 1.0000000000000002, 1e-5, 123456.789]
    b = [fbits(v) for v in vals]
    for _ in range(nrand):
        b.append("x%016x" % rng.next())                      # arbitrary bit pattern
    for _ in range(nrand):
        b.append(fbits((rng.range(-10 ** 9, 10 ** 9)) / float(1 << rng.range(0, 40))))   # dyadic
    for _ in range(nrand):
        b.append(fbits(rng.range(-10 ** 7, 10 ** 7) / 1000.0))                           # decimal
    for _ in range(nrand):
        b.append(fbits(rng.range(-50, 50) + 0.5))                                         # ties
    return uniq(b)


def u32_pool(rng, nrand=3):
    b = [0, 1, 2, 11, 12, 13, 23, 24, 28, 29, 30, 31, 32, 59, 60, 61, 999999, 1000000, 99999999, 100000000, 100000001,
         177999999, 178000000, 178000001, 357913941, 357913942, U32_MAX, U32_MAX - 1, 1 << 31]
    b += [rng.range(0, U32_MAX) for _ in range(nrand)]
    return uniq(b)


def clock_pool(rng, nrand=4):
    b = [(2024, 3, 15, 10, 20, 30, 400000), (1999, 12, 31, 23, 59, 59, 999999), (2000, 2, 29, 0, 0, 0, 0),
         (1, 1, 1, 0, 0, 0, 0), (9999, 12, 31, 23, 59, 59, 999999), (0, 6, 15, 12, 0, 0, 0), (10000, 1, 1, 0, 0, 0, 1),
         (-5, 3, 3, 3, 3, 3, 3), (2100, 2, 28, 12, 30, 30, 500000), (987, 6, 5, 4, 3, 2, 1)]
    for _ in range(nrand):
        y = rng.range(1, 9999)
        m = rng.range(1, 12)
        b.append((y, m, rng.range(1, 28), rng.range(0, 23), rng.range(0, 59), rng.range(0, 59), rng.range(0, 999999)))
    return [" ".join(str(x) for x in c) for c in b]


def hms_pool(rng):
    hs = [0, 1, 11, 12, 23, 24, 25, U32_MAX]
    ms = [0, 1, 29, 30, 59, 60, 61, U32_MAX]
    us = [0, 1, 499999, 500000, 999999, 1000000, U32_MAX]
    out = []
    for h in hs:
        for mi in ms:
            for s in ms:
                for u in us:
                    out.append("%d %d %d %d" % (h, mi, s, u))
    return out


def dhms_pool(rng):
    dsx = [0, 1, 31, 32, 99999999, 100000000, 100000001, U32_MAX]
    hs = [0, 23, 24]
    ms = [0, 59, 60]
    us = [0, 999999, 1000000]
    out = []
    for d in dsx:
        for h in hs:
            for mi in ms:
                for s in ms:
                    for u in us:
                        out.append("%d %d %d %d %d" % (d, h, mi, s, u))
    return out


def ymd_pool(rng):
    ys = [I32_MIN, -1000000000, -1, 0, 1, 2, 4, 100, 400, 1582, 1900, 1999, 2000, 2001, 2023, 2024, 2100, 9998, 9999,
          10000, 10001, 1000000000, I32_MAX]
    ms = [0, 1, 2, 3, 4, 6, 11, 12, 13, 14, U32_MAX]
    dsx = [0, 1, 27, 28, 29, 30, 31, 32, 33, U32_MAX]
    return ["%d %d %d" % (y, m, d) for y in ys for m in ms for d in dsx]


class Pools:
    def __init__(self, rng, scale=1):
        self.rng = rng
        self.p = {
            "D": date_pool(rng, 8 * scale), "T": time_pool(rng, 6 * scale), "TS": ts_pool(rng, 8 * scale),
            "OD": od_pool(rng, 8 * scale), "YM": ym_pool(rng, 6 * scale), "DT": dt_pool(rng, 6 * scale),
            "i32": i32_pool(rng, 6 * scale), "i64": i64_pool(rng, 6 * scale), "u32": u32_pool(rng, 3 * scale),
            "f64": f64_pool(rng, 10 * scale), "clock": clock_pool(rng, 4 * scale), "unit": UNITS,
            "hms": hms_pool(rng), "dhms": dhms_pool(rng), "ymd": ymd_pool(rng),
        }
        raw = {"D": ("i32", "D"), "YM": ("i32", "YM"), "T": ("i64", "T"), "TS": ("i64", "TS"), "DT": ("i64", "DT"),
               "OD": ("i64", "OD")}
        self.p["tyval"] = ["%s %d" % (t, v) for t in TYPES for v in self.p[t]]
        tyraw = []
        lim = {"D": (DATE_MIN, DATE_MAX), "T": (0, USECS_PER_DAY - 1), "TS": (TS_MIN, TS_MAX), "OD": (TS_MIN, OD_MAX),
               "YM": (-YM_MAX, YM_MAX), "DT": (-DT_MAX, DT_MAX)}
        for t in TYPES:
            lo, hi = lim[t]
            ext = (I32_MIN, I32_MAX) if t in ("D", "YM") else (I64_MIN, I64_MAX)
            vs = [lo - 2, lo - 1, lo, lo + 1, hi - 1, hi, hi + 1, hi + 2, 0, 1, -1, 999999, 1000000, 1000001,
                  ext[0], ext[0] + 1, ext[1], ext[1] - 1] + [rng.range(ext[0], ext[1]) for _ in range(4 * scale)]
            vs += self.p[t][:10]
            tyraw += ["%s %d" % (t, v) for v in uniq(vs) if ext[0] <= v <= ext[1]]
        self.p["tyraw"] = tyraw

    def get(self, kind):
        return self.p[kind]


def cross(rng, pools, op, cap):
    """Request lines for `op` over the cross product of its argument pools (sampled down to `cap`)."""
    kinds = OPS[op][0]
    lists = [pools.get(k) for k in kinds]
    total = 1
    for l in lists:
        total *= len(l)
    lines = []
    if total <= cap:
        for combo in itertools.product(*lists):
            lines.append(op + " " + " ".join(str(c) for c in combo))
    else:
        # every pool element appears at least once, then random combinations
        longest = max(len(l) for l in lists)
        for i in range(longest):
            lines.append(op + " " + " ".join(str(l[i % len(l)]) for l in lists))
        for _ in range(cap - longest if cap > longest else 0):
            lines.append(op + " " + " ".join(str(rng.choice(l)) for l in lists))
    return lines
