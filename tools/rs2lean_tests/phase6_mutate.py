#!/usr/bin/env python3
"""Phase-6 mutation harness (byte-slice leaf functions of format.rs).

    python3 tools/rs2lean_tests/phase6_mutate.py [--repo /repo] [NAME ...]

For every mutation below (or the named ones): copy <repo>/src to a scratch directory, apply the textual replacements to
src/format.rs, run tools/rs2lean.py on the copy, check that Translated.lean is byte-identical to what it was before, build
SqlDt.TranslatedFmt + Lemmas.TranslatedFmtEq + Lemmas.TranslatedFmtSafe and report the failing theorems.  At the end the
generated files of the unmodified crate are restored and rebuilt.  (`TranslatedFmtSafe` imports `TranslatedFmtEq`: when an
`_eq` fails the `_safe` file is not reached.)
"""
import os, re, shutil, subprocess, sys, tempfile

HERE = os.path.dirname(os.path.abspath(__file__))
VERIF = os.path.abspath(os.path.join(HERE, "..", ".."))
LEAN = os.path.join(VERIF, "lean")
MODS = ["SqlDt.TranslatedFmt", "SqlDt.Lemmas.TranslatedFmtEq", "SqlDt.Lemmas.TranslatedFmtSafe"]

WS = ("    let i = s.iter().take_while(|&i| i.is_ascii_whitespace()).count();\n    &s[i..]")
EMPTY_CHECK = ('    if s.is_empty() {\n        return Err(Error::ParseError(\n            "not a valid day of the week".try_to_string()?,\n'
               '        ));\n    }\n\n')
MUTATIONS = [
    # (name, expectation, [(old, new), ...])
    ("M1-eat-digits-take-plus1", "eat_digits_eq", [(".take(max_len)", ".take(max_len + 1)")]),
    ("M2-parse-number-minus", "parse_number_eq", [("b'-' => (true, &input[1..]),", "b'-' => (false, &input[1..]),")]),
    ("M3-write-u32-pad", "write_u32_eq", [("let len = 11 - index;", "let len = 10 - index;")]),
    ("M4a-weekday-zero", "parse_week_day_number_eq", [("(1..=7).contains(&num)", "(0..=7).contains(&num)")]),
    ("M4b-weekday-eight", "parse_week_day_number_eq", [("(1..=7).contains(&num)", "(1..=8).contains(&num)")]),
    ("M5-expect-char-ne", "expect_char_eq", [("Some(ch) if *ch == expected", "Some(ch) if *ch != expected")]),
    ("M6-ws-digit", "eat_whitespaces_eq", [("take_while(|&i| i.is_ascii_whitespace())", "take_while(|&i| i.is_ascii_digit())")]),
    ("M7-weekday-base", "parse_week_day_number_eq", [("s[0].wrapping_sub(b'0')", "s[0].wrapping_sub(b'1')")]),
    ("M8-write-u32-digit", "write_u32_eq", [("buf[index] = v as u8 + b'0';", "buf[index] = v as u8 + b'1';")]),
    ("M10-fraction-noround", "parse_fraction_eq", [("(int as f64 * FRACTION_FACTOR[digits.len()]).round() as u32",
                                                   "(int as f64 * FRACTION_FACTOR[digits.len()]) as u32")]),
    ("M12-fraction-mul", "NDT.fraction_eq", [("(self.usec() as f64 / FRACTION_FACTOR[p as usize]) as u32",
                                              "(self.usec() as f64 * FRACTION_FACTOR[p as usize]) as u32")]),
    ("M14-ampm-dot-len", "parse_ampm_eq", [("Ok((Some(AmPm::Pm), &s[4..]))", "Ok((Some(AmPm::Pm), &s[3..]))")]),
    ("M15-ci-startswith", "parse_ampm_eq, parse_month_name_eq, parse_week_day_name_eq",
     [("self.len() >= n && needle.eq_ignore_ascii_case(&self[..n])", "self.len() > n && needle.eq_ignore_ascii_case(&self[..n])")]),
    ("M17-month-abbr-first", "parse_month_name_eq",
     [("for (index, mon) in MONTH_NAME_TABLE[Capital as usize].iter().enumerate() {",
       "for (index, mon) in MONTH_NAME_TABLE[AbbrCapital as usize].iter().enumerate() {")]),
    ("M20-year-signlen", "parse_year_eq", [("if input_len - rem.len() - sign_len > 2 {", "if input_len - rem.len() > 2 {")]),
    ("M22-year-modifier-index", "parse_year_eq", [("YEAR_MODIFIER[max_len - 1] as i32 + year;", "YEAR_MODIFIER[max_len] as i32 + year;")]),
    ("M9-fold-base", "parse_number_eq", [("int * 10 + (i - b'0') as i32);\n\n    let int = if negative", "int * 10 + (i - b'1') as i32);\n\n    let int = if negative")]),
    ("M11-fraction-table", "NDT.fraction_eq, parse_fraction_eq", [("100.0, 10.0, 1.0, 0.1, 0.01, 0.001,", "100.0, 10.0, 1.0, 0.1, 0.01, 0.0011,")]),
    ("M13-ampm-swap", "parse_ampm_eq", [('if CaseInsensitive::starts_with(s, b"AM") {\n                Ok((Some(AmPm::Am), &s[2..]))',
                                        'if CaseInsensitive::starts_with(s, b"AM") {\n                Ok((Some(AmPm::Pm), &s[2..]))')]),
    ("M18-dayname-style", "parse_week_day_name_eq", [("Capital | NameStyle::Lower | NameStyle::Upper => {", "Capital | NameStyle::Lower | NameStyle::AbbrUpper => {"),
                                                     ("AbbrCapital | NameStyle::AbbrLower | NameStyle::AbbrUpper => {", "AbbrCapital | NameStyle::AbbrLower | NameStyle::Upper => {")]),
    ("M21-year-mod", "parse_year_eq", [("let result_year = current_year - current_year % 100 + year;", "let result_year = current_year - current_year % 1000 + year;")]),
    ("M23-year-arms", "parse_year_eq", [("        1 | 3 => {", "        1 | 3 | 4 => {")]),
    ("H4-parse-number-if", "-", [("        Some(ch) => match ch {\n            b'+' => (false, &input[1..]),\n            b'-' => (true, &input[1..]),\n            _ => (false, input),\n        },",
                                  "        Some(ch) => {\n            if *ch == b'-' {\n                (true, &input[1..])\n            } else if *ch == b'+' {\n                (false, &input[1..])\n            } else {\n                (false, input)\n            }\n        }")]),
    ("S1-weekday-no-empty-check", "parse_week_day_number_safe (the _eq still holds)", [(EMPTY_CHECK + "    let num = s[0]", "    let num = s[0]")]),
    ("H1-expect-char-eq", "-", [("matches!(s.first(), Some(ch) if *ch == expected)", "s.first() == Some(&expected)")]),
    ("H2-ws-position", "-", [(WS, "    match s.iter().position(|c| !c.is_ascii_whitespace()) {\n        Some(i) => &s[i..],\n"
                                  "        None => &s[s.len()..],\n    }")]),
    ("H3-weekday-first", "-", [(EMPTY_CHECK + "    let num = s[0].wrapping_sub(b'0');",
                                "    let num = match s.first() {\n        Some(ch) => ch.wrapping_sub(b'0'),\n        None => {\n"
                                '            return Err(Error::ParseError(\n                "not a valid day of the week".try_to_string()?,\n'
                                "            ))\n        }\n    };")]),
    ("H6-write-u32-forms", "-", [("        let v = val % 10;\n        val /= 10;\n\n        buf[index] = v as u8 + b'0';",
                                  "        let v = (val % 10) as u8;\n        val = val / 10;\n\n        buf[index] = b'0' + v;")]),
    ("H7-ampm-style-order", "-", [("        AmPmStyle::LowerDot | AmPmStyle::UpperDot => {", "        AmPmStyle::UpperDot | AmPmStyle::LowerDot => {")]),
]


def build():
    r = subprocess.run(["lake", "build"] + MODS, cwd=LEAN, capture_output=True, text=True)
    log = r.stdout + r.stderr
    failed = set()
    for m in re.finditer(r"error: (\S+?\.lean):(\d+):(\d+)", log):
        f, line = m.group(1), int(m.group(2))
        lines = open(f if f.startswith("/") else os.path.join(LEAN, f)).read().split("\n")
        k = line - 1
        while k >= 0 and not re.match(r"(@\[[a-z_]+\] )?theorem ", lines[k]):
            k -= 1
        failed.add(re.match(r"(?:@\[[a-z_]+\] )?theorem (\S+)", lines[k]).group(1) if k >= 0 else "?")
    return r.returncode, sorted(failed), log


def main():
    args = sys.argv[1:]
    repo = "/repo"
    if args[:1] == ["--repo"]:
        repo, args = args[1], args[2:]
    base = open(os.path.join(LEAN, "SqlDt", "Translated.lean")).read()
    tmp = tempfile.mkdtemp(prefix="p6mut-")
    try:
        for name, expect, pairs in MUTATIONS:
            if args and name not in args:
                continue
            root = os.path.join(tmp, name)
            shutil.copytree(os.path.join(repo, "src"), os.path.join(root, "src"))
            p = os.path.join(root, "src", "format.rs")
            s = open(p).read()
            for old, new in pairs:
                if s.count(old) != 1:
                    print("%-28s SKIPPED: pattern occurs %d times" % (name, s.count(old)))
                    break
                s = s.replace(old, new)
            else:
                open(p, "w").write(s)
                out = subprocess.run([sys.executable, os.path.join(VERIF, "tools", "rs2lean.py"), "--repo", root],
                                     capture_output=True, text=True).stdout
                unt = [l.split()[1] for l in out.split("\n") if l.strip().startswith("untranslated:")]
                same = open(os.path.join(LEAN, "SqlDt", "Translated.lean")).read() == base
                rc, failed, _ = build()
                print("%-28s expected: %-40s failing: %-40s untranslated: %s%s" % (
                    name, expect, ", ".join(failed) or "-", ", ".join(unt) or "-", "" if same else "  !! Translated.lean changed"))
    finally:
        shutil.rmtree(tmp, ignore_errors=True)
        subprocess.run([sys.executable, os.path.join(VERIF, "tools", "rs2lean.py"), "--repo", repo], capture_output=True)
        rc, failed, _ = build()
        print("restored the unmodified crate: build rc %d, failing: %s" % (rc, ", ".join(failed) or "-"))


if __name__ == "__main__":
    main()
