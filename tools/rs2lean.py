#!/usr/bin/env python3
"""rs2lean: translate the pure integer core of the `sqldatetime` crate from Rust to Lean 4.

    python3 tools/rs2lean.py [--repo /path/to/crate] [--out-dir lean/SqlDt] [-v]

Reads `<repo>/src/*.rs` and (re)writes

    lean/SqlDt/Translated.lean        namespace SqlDt.Tr: one `def` per whitelisted function
    lean/SqlDt/TranslatedStatus.json  which of them are real translations, which are stubs, and why
    lean/SqlDt/TranslatedFmt.lean, TranslatedFmtStatus.json
                                      the same for the byte-slice leaf functions of format.rs (`FMT_WHITELIST`, phase 6);
                                      the first two files do not depend on that list

Every whitelisted function `f` gets a definition `SqlDt.Tr.f`; `lean/SqlDt/Lemmas/TranslatedEq.lean`
(hand-written, stable) proves `Tr.f = <model f>` for all inputs.  If a function is missing, its signature
changed or its body leaves the supported subset, `Tr.f` is emitted as an alias of the model function
(`-- UNTRANSLATED: reason`) so that the proofs still compile, and the status file tells the truth.

Exit status: 0 whenever the two files were written (also when functions degraded); 1 on an internal
error (crate unreadable, output not writable).

See TRANSLATOR_NOTES.md for the supported subset and the typing rules.   Python 3, stdlib only.
"""
import argparse
import hashlib
import json
import os
import re
import struct
import sys
import traceback

# ----------------------------------------------------------------------------------------------
# 0. Configuration: the whitelist
# ----------------------------------------------------------------------------------------------
# (rust file, impl header or None for a free function, function name,
#  Lean name under SqlDt.Tr, parameters "name: Type, ..." ("self" takes the impl's type),
#  return type, model term of the same Lean type)
#
# Types are written with the crate's names; oracle.rs's `Date` is `OracleDate`, its `SqlDate` is `Date`.

FILE_TYPE_ALIASES = {"oracle.rs": {"Date": "OracleDate", "SqlDate": "Date"}}

# Named-field structs that are mapped onto a structure of the model: Rust name -> (Lean structure, expected fields).
# A struct whose declaration differs from this is not translated (every function using it degrades).
STRUCT_MAP = {
    "NaiveDateTime": ("SqlDt.NDT", [("year", "i32"), ("month", "u32"), ("day", "u32"), ("hour", "u32"), ("minute", "u32"),
                                    ("sec", "u32"), ("usec", "u32"), ("ampm", "Option<AmPm>"), ("negative", "bool")]),
}
# Two-variant enums without discriminants that the model represents by a Bool: name -> {variant: Lean term}
ENUM_AS_BOOL = {"AmPm": {"Am": "false", "Pm": "true"}}

# Function-pointer types whose only values are two known functions, represented by a Bool as in Generated.lean's
# week tables (`(true, k)` = `sub_to_date` by k days, `(false, _)` = `current_date`): type -> {function: Lean term}
FNPTR_MAP = {"DateSubMethod": {"sub_to_date": "true", "current_date": "false"}}

WL_NEWTYPES = ("Date", "Time", "Timestamp", "IntervalYM", "IntervalDT", "OracleDate")
WL_ENUMS = ("Sign", "WeekDay", "Ordering", "AmPmStyle", "NameStyle", "Month")
# fieldless enums without explicit discriminants that are used as their (implicit) discriminants 0, 1, 2, ...
IMPLICIT_DISCR_ENUMS = ("AmPmStyle",)

# enums whose `From<usize>` is checked (below) to be the identity on the discriminant
ENUM_FROM_INT_IDENTITY = set()

HMS = "hour: u32, minute: u32, sec: u32, usec: u32"
DHMS = "day: u32, " + HMS
YMD = "year: i32, month: u32, day: u32"

WHITELIST = [
    # ---- common.rs
    ("common.rs", None, "date2julian", "date2julian", YMD, "i32", "SqlDt.date2julian"),
    ("common.rs", None, "julian2date", "julian2date", "julian_day: i32", "(i32, u32, u32)", "SqlDt.julian2date"),
    ("common.rs", None, "is_leap_year", "is_leap_year", "year: i32", "bool", "SqlDt.isLeapYear"),
    ("common.rs", None, "is_valid_date", "is_valid_date", "date: i32", "bool",
     "fun date => decide (SqlDt.isValidDate date)"),
    ("common.rs", None, "is_valid_timestamp", "is_valid_timestamp", "timestamp: i64", "bool",
     "fun timestamp => decide (SqlDt.isValidTimestamp timestamp)"),
    ("common.rs", None, "is_valid_time", "is_valid_time", "time: i64", "bool",
     "fun time => decide (SqlDt.isValidTime time)"),
    ("common.rs", None, "days_of_month", "days_of_month", "year: i32, month: u32", "u32", "SqlDt.daysOfMonth"),
    ("common.rs", None, "the_day_of_year", "the_day_of_year", YMD, "u32", "SqlDt.theDayOfYear"),
    # ---- timestamp.rs
    ("timestamp.rs", "Timestamp", "new", "Timestamp.new", "date: Date, time: Time", "Timestamp", "SqlDt.Timestamp.new"),
    ("timestamp.rs", "Timestamp", "extract", "Timestamp.extract", "self", "(Date, Time)", "SqlDt.Timestamp.extract"),
    ("timestamp.rs", "Timestamp", "date", "Timestamp.date", "self", "Date", "SqlDt.Timestamp.date"),
    ("timestamp.rs", "Timestamp", "time", "Timestamp.time", "self", "Time", "SqlDt.Timestamp.time"),
    ("timestamp.rs", "Timestamp", "try_from_usecs", "Timestamp.try_from_usecs", "usecs: i64", "Result<Timestamp>",
     "SqlDt.Timestamp.tryFromUsecs"),
    ("timestamp.rs", "Timestamp", "add_interval_dt", "Timestamp.add_interval_dt", "self, interval: IntervalDT",
     "Result<Timestamp>", "SqlDt.Timestamp.addIntervalDt"),
    ("timestamp.rs", "Timestamp", "sub_interval_dt", "Timestamp.sub_interval_dt", "self, interval: IntervalDT",
     "Result<Timestamp>", "SqlDt.Timestamp.subIntervalDt"),
    ("timestamp.rs", "Timestamp", "add_time", "Timestamp.add_time", "self, time: Time", "Result<Timestamp>",
     "SqlDt.Timestamp.addTime"),
    ("timestamp.rs", "Timestamp", "sub_time", "Timestamp.sub_time", "self, time: Time", "Result<Timestamp>",
     "SqlDt.Timestamp.subTime"),
    ("timestamp.rs", "Timestamp", "sub_timestamp", "Timestamp.sub_timestamp", "self, timestamp: Timestamp", "IntervalDT",
     "SqlDt.Timestamp.subTimestamp"),
    ("timestamp.rs", "Timestamp", "sub_date", "Timestamp.sub_date", "self, date: Date", "IntervalDT",
     "SqlDt.Timestamp.subDate"),
    ("timestamp.rs", "Timestamp", "add_interval_ym", "Timestamp.add_interval_ym", "self, interval: IntervalYM",
     "Result<Timestamp>", "SqlDt.Timestamp.addIntervalYm"),
    ("timestamp.rs", "Timestamp", "sub_interval_ym", "Timestamp.sub_interval_ym", "self, interval: IntervalYM",
     "Result<Timestamp>", "SqlDt.Timestamp.subIntervalYm"),
    ("timestamp.rs", "Timestamp", "last_day_of_month", "Timestamp.last_day_of_month", "self", "Timestamp",
     "SqlDt.Timestamp.lastDayOfMonth"),
    ("timestamp.rs", "Trunc for Timestamp", "trunc_day", "Timestamp.trunc_day", "self", "Result<Timestamp>",
     "SqlDt.Timestamp.trunc SqlDt.TUnit.day"),
    ("timestamp.rs", "Trunc for Timestamp", "trunc_hour", "Timestamp.trunc_hour", "self", "Result<Timestamp>",
     "SqlDt.Timestamp.trunc SqlDt.TUnit.hour"),
    ("timestamp.rs", "Trunc for Timestamp", "trunc_minute", "Timestamp.trunc_minute", "self", "Result<Timestamp>",
     "SqlDt.Timestamp.trunc SqlDt.TUnit.minute"),
    # ---- time.rs
    ("time.rs", "Time", "from_hms_unchecked", "Time.from_hms_unchecked", HMS, "Time", "SqlDt.Time.fromHmsUnchecked"),
    ("time.rs", "Time", "try_from_hms", "Time.try_from_hms", HMS, "Result<Time>", "SqlDt.Time.tryFromHms"),
    ("time.rs", "Time", "is_valid", "Time.is_valid", HMS, "bool", "SqlDt.Time.isValid"),
    ("time.rs", "Time", "validate_hms", "Time.validate_hms", "hour: u32, minute: u32, sec: u32", "Result<()>",
     "SqlDt.Time.validateHms"),
    ("time.rs", "Time", "try_from_usecs", "Time.try_from_usecs", "usecs: i64", "Result<Time>", "SqlDt.Time.tryFromUsecs"),
    ("time.rs", "Time", "extract", "Time.extract", "self", "(u32, u32, u32, u32)", "SqlDt.Time.extract"),
    ("time.rs", "Time", "sub_time", "Time.sub_time", "self, time: Time", "IntervalDT", "SqlDt.Time.subTime"),
    ("time.rs", "Time", "add_interval_dt", "Time.add_interval_dt", "self, interval: IntervalDT", "Time",
     "SqlDt.Time.addIntervalDt"),
    ("time.rs", "Time", "sub_interval_dt", "Time.sub_interval_dt", "self, interval: IntervalDT", "Time",
     "SqlDt.Time.subIntervalDt"),
    ("time.rs", "From<IntervalDT> for Time", "from", "Time.from_interval_dt", "interval: IntervalDT", "Time",
     "SqlDt.Time.fromIntervalDt"),
    # ---- interval.rs
    ("interval.rs", "IntervalYM", "from_ym_unchecked", "IntervalYM.from_ym_unchecked", "year: u32, month: u32",
     "IntervalYM", "fun year month => year * SqlDt.Gen.MONTHS_PER_YEAR + month"),
    ("interval.rs", "IntervalYM", "try_from_ym", "IntervalYM.try_from_ym", "year: u32, month: u32",
     "Result<IntervalYM>", "SqlDt.IntervalYM.tryFromYm"),
    ("interval.rs", "IntervalYM", "is_valid_ym", "IntervalYM.is_valid_ym", "year: u32, month: u32", "bool",
     "SqlDt.IntervalYM.isValidYm"),
    ("interval.rs", "IntervalYM", "is_valid_months", "IntervalYM.is_valid_months", "months: i32", "bool",
     "fun months => decide (SqlDt.IntervalYM.isValidMonths months)"),
    ("interval.rs", "IntervalYM", "try_from_months", "IntervalYM.try_from_months", "months: i32", "Result<IntervalYM>",
     "SqlDt.IntervalYM.tryFromMonths"),
    ("interval.rs", "IntervalYM", "extract", "IntervalYM.extract", "self", "(Sign, u32, u32)", "SqlDt.IntervalYM.extract"),
    ("interval.rs", "IntervalYM", "negate", "IntervalYM.negate", "self", "IntervalYM", "SqlDt.IntervalYM.negate"),
    ("interval.rs", "IntervalYM", "add_interval_ym", "IntervalYM.add_interval_ym", "self, interval: IntervalYM",
     "Result<IntervalYM>", "SqlDt.IntervalYM.addIntervalYm"),
    ("interval.rs", "IntervalYM", "sub_interval_ym", "IntervalYM.sub_interval_ym", "self, interval: IntervalYM",
     "Result<IntervalYM>", "SqlDt.IntervalYM.subIntervalYm"),
    ("interval.rs", "Ord for IntervalYM", "cmp", "IntervalYM.cmp", "self, other: IntervalYM", "Ordering",
     "fun a b => SqlDt.Tr.cmpInt a b"),
    ("interval.rs", "IntervalDT", "from_dhms_unchecked", "IntervalDT.from_dhms_unchecked", DHMS, "IntervalDT",
     "SqlDt.IntervalDT.fromDhmsUnchecked"),
    ("interval.rs", "IntervalDT", "try_from_dhms", "IntervalDT.try_from_dhms", DHMS, "Result<IntervalDT>",
     "SqlDt.IntervalDT.tryFromDhms"),
    ("interval.rs", "IntervalDT", "is_valid", "IntervalDT.is_valid", DHMS, "bool", "SqlDt.IntervalDT.isValid"),
    ("interval.rs", "IntervalDT", "is_valid_usecs", "IntervalDT.is_valid_usecs", "usecs: i64", "bool",
     "fun usecs => decide (SqlDt.IntervalDT.isValidUsecs usecs)"),
    ("interval.rs", "IntervalDT", "try_from_usecs", "IntervalDT.try_from_usecs", "usecs: i64", "Result<IntervalDT>",
     "SqlDt.IntervalDT.tryFromUsecs"),
    ("interval.rs", "IntervalDT", "extract", "IntervalDT.extract", "self", "(Sign, u32, u32, u32, u32, u32)",
     "SqlDt.IntervalDT.extract"),
    ("interval.rs", "IntervalDT", "negate", "IntervalDT.negate", "self", "IntervalDT", "SqlDt.IntervalDT.negate"),
    ("interval.rs", "IntervalDT", "add_interval_dt", "IntervalDT.add_interval_dt", "self, interval: IntervalDT",
     "Result<IntervalDT>", "SqlDt.IntervalDT.addIntervalDt"),
    ("interval.rs", "IntervalDT", "sub_interval_dt", "IntervalDT.sub_interval_dt", "self, interval: IntervalDT",
     "Result<IntervalDT>", "SqlDt.IntervalDT.subIntervalDt"),
    ("interval.rs", "IntervalDT", "sub_time", "IntervalDT.sub_time", "self, time: Time", "Result<IntervalDT>",
     "SqlDt.IntervalDT.subTime"),
    # ---- the functions that go through f64 (the model's soft-float `SqlDt.F64`)
    ("interval.rs", "IntervalYM", "mul_f64", "IntervalYM.mul_f64", "self, number: f64", "Result<IntervalYM>",
     "SqlDt.IntervalYM.mulF64"),
    ("interval.rs", "IntervalYM", "div_f64", "IntervalYM.div_f64", "self, number: f64", "Result<IntervalYM>",
     "SqlDt.IntervalYM.divF64"),
    ("interval.rs", "IntervalDT", "mul_f64", "IntervalDT.mul_f64", "self, number: f64", "Result<IntervalDT>",
     "SqlDt.IntervalDT.mulF64"),
    ("interval.rs", "IntervalDT", "div_f64", "IntervalDT.div_f64", "self, number: f64", "Result<IntervalDT>",
     "SqlDt.IntervalDT.divF64"),
    ("interval.rs", "DateTime for IntervalDT", "second", "IntervalDT.second", "self", "Option<f64>",
     "fun v => some (SqlDt.IntervalDT.second v)"),
    ("time.rs", "Time", "mul_f64", "Time.mul_f64", "self, number: f64", "Result<IntervalDT>",
     "fun t x => SqlDt.IntervalDT.mulF64 t x"),
    ("time.rs", "Time", "div_f64", "Time.div_f64", "self, number: f64", "Result<IntervalDT>",
     "fun t x => SqlDt.IntervalDT.divF64 t x"),
    ("time.rs", "DateTime for Time", "second", "Time.second", "self", "Option<f64>",
     "fun t => some (SqlDt.Time.second t)"),
    ("timestamp.rs", "Timestamp", "add_days", "Timestamp.add_days", "self, days: f64", "Result<Timestamp>",
     "SqlDt.Timestamp.addDays"),
    ("timestamp.rs", "Timestamp", "sub_days", "Timestamp.sub_days", "self, days: f64", "Result<Timestamp>",
     "SqlDt.Timestamp.subDays"),
    ("timestamp.rs", "DateTime for Timestamp", "second", "Timestamp.second", "self", "Option<f64>",
     "fun ts => some (SqlDt.Time.second (SqlDt.Timestamp.time ts))"),
    ("oracle.rs", "OracleDate", "add_days", "OracleDate.add_days", "self, days: f64", "Result<OracleDate>",
     "SqlDt.OracleDate.addDays"),
    ("oracle.rs", "OracleDate", "sub_days", "OracleDate.sub_days", "self, days: f64", "Result<OracleDate>",
     "SqlDt.OracleDate.subDays"),
    ("oracle.rs", "OracleDate", "sub_date", "OracleDate.sub_date", "self, date: OracleDate", "f64",
     "SqlDt.OracleDate.subDate"),
    ("oracle.rs", "Timestamp", "oracle_add_days", "Timestamp.oracle_add_days", "self, days: f64", "Result<OracleDate>",
     "fun ts x => SqlDt.OracleDate.addDays (SqlDt.OracleDate.fromTimestamp ts) x"),
    ("oracle.rs", "Timestamp", "oracle_sub_days", "Timestamp.oracle_sub_days", "self, days: f64", "Result<OracleDate>",
     "fun ts x => SqlDt.OracleDate.subDays (SqlDt.OracleDate.fromTimestamp ts) x"),
    # ---- the conversion layer `format::NaiveDateTime` (the model's structure `NDT`)
    ("format.rs", "NaiveDateTime", "new", "NDT.new", "", "NaiveDateTime", "({} : SqlDt.NDT)"),
    ("format.rs", "NaiveDateTime", "hour12", "NDT.hour12", "self", "u32", "SqlDt.NDT.hour12"),
    ("format.rs", "NaiveDateTime", "adjust_hour12", "NDT.adjust_hour12", "self", "NaiveDateTime", "SqlDt.NDT.adjustHour12"),
    ("date.rs", "From<Date> for NaiveDateTime", "from", "NDT.of_date", "date: Date", "NaiveDateTime", "SqlDt.NDT.ofDate"),
    ("time.rs", "From<Time> for NaiveDateTime", "from", "NDT.of_time", "time: Time", "NaiveDateTime", "SqlDt.NDT.ofTime"),
    ("timestamp.rs", "From<Timestamp> for NaiveDateTime", "from", "NDT.of_timestamp", "ts: Timestamp", "NaiveDateTime",
     "SqlDt.NDT.ofTimestamp"),
    ("interval.rs", "From<IntervalYM> for NaiveDateTime", "from", "NDT.of_interval_ym", "interval: IntervalYM",
     "NaiveDateTime", "SqlDt.NDT.ofIntervalYM"),
    ("interval.rs", "From<IntervalDT> for NaiveDateTime", "from", "NDT.of_interval_dt", "interval: IntervalDT",
     "NaiveDateTime", "SqlDt.NDT.ofIntervalDT"),
    ("oracle.rs", "From<OracleDate> for NaiveDateTime", "from", "NDT.of_oracle_date", "dt: OracleDate", "NaiveDateTime",
     "SqlDt.NDT.ofTimestamp"),
    ("date.rs", "TryFrom<&NaiveDateTime> for Date", "try_from", "Date.try_from_ndt_ref", "dt: NaiveDateTime", "Result<Date>",
     "SqlDt.Parser.tryFromNDT SqlDt.Ty.D"),
    ("date.rs", "TryFrom<NaiveDateTime> for Date", "try_from", "Date.try_from_ndt", "dt: NaiveDateTime", "Result<Date>",
     "SqlDt.Parser.tryFromNDT SqlDt.Ty.D"),
    ("time.rs", "TryFrom<&NaiveDateTime> for Time", "try_from", "Time.try_from_ndt_ref", "dt: NaiveDateTime", "Result<Time>",
     "SqlDt.Parser.tryFromNDT SqlDt.Ty.T"),
    ("time.rs", "TryFrom<NaiveDateTime> for Time", "try_from", "Time.try_from_ndt", "dt: NaiveDateTime", "Result<Time>",
     "SqlDt.Parser.tryFromNDT SqlDt.Ty.T"),
    ("timestamp.rs", "TryFrom<NaiveDateTime> for Timestamp", "try_from", "Timestamp.try_from_ndt", "dt: NaiveDateTime",
     "Result<Timestamp>", "SqlDt.Parser.tryFromNDT SqlDt.Ty.TS"),
    ("interval.rs", "TryFrom<NaiveDateTime> for IntervalYM", "try_from", "IntervalYM.try_from_ndt", "dt: NaiveDateTime",
     "Result<IntervalYM>", "SqlDt.Parser.tryFromNDT SqlDt.Ty.YM"),
    ("interval.rs", "TryFrom<NaiveDateTime> for IntervalDT", "try_from", "IntervalDT.try_from_ndt", "dt: NaiveDateTime",
     "Result<IntervalDT>", "SqlDt.Parser.tryFromNDT SqlDt.Ty.DT"),
    ("oracle.rs", "TryFrom<NaiveDateTime> for OracleDate", "try_from", "OracleDate.try_from_ndt", "dt: NaiveDateTime",
     "Result<OracleDate>", "SqlDt.Parser.tryFromNDT SqlDt.Ty.OD"),
    # ---- date.rs
    ("date.rs", "Date", "from_ymd_unchecked", "Date.from_ymd_unchecked", YMD, "Date", "SqlDt.Date.fromYmdUnchecked"),
    ("date.rs", "Date", "try_from_ymd", "Date.try_from_ymd", YMD, "Result<Date>", "SqlDt.Date.tryFromYmd"),
    ("date.rs", "Date", "is_valid", "Date.is_valid", YMD, "bool", "SqlDt.Date.isValid"),
    ("date.rs", "Date", "validate_ymd", "Date.validate_ymd", YMD, "Result<()>", "SqlDt.Date.validateYmd"),
    ("date.rs", "Date", "try_from_days", "Date.try_from_days", "days: i32", "Result<Date>", "SqlDt.Date.tryFromDays"),
    ("date.rs", "Date", "extract", "Date.extract", "self", "(i32, u32, u32)", "SqlDt.Date.extract"),
    ("date.rs", "Date", "and_zero_time", "Date.and_zero_time", "self", "Timestamp", "fun d => SqlDt.Timestamp.new d 0"),
    ("date.rs", "Date", "and_time", "Date.and_time", "self, time: Time", "Timestamp", "SqlDt.Timestamp.new"),
    ("date.rs", "Date", "and_hms", "Date.and_hms", "self, " + HMS, "Result<Timestamp>", "SqlDt.Timestamp.andHms"),
    ("date.rs", "Date", "add_days", "Date.add_days", "self, days: i32", "Result<Date>", "SqlDt.Date.addDays"),
    ("date.rs", "Date", "sub_days", "Date.sub_days", "self, days: i32", "Result<Date>", "SqlDt.Date.subDays"),
    ("date.rs", "Date", "sub_date", "Date.sub_date", "self, date: Date", "i32", "SqlDt.Date.subDate"),
    ("date.rs", "Date", "day_of_week", "Date.day_of_week", "self", "WeekDay", "SqlDt.Date.dayOfWeek"),
    ("date.rs", "Date", "add_interval_ym_internal", "Date.add_interval_ym_internal", "self, interval: IntervalYM",
     "Result<Date>", "SqlDt.Date.addIntervalYmInternal"),
    ("date.rs", "Date", "last_day_of_month", "Date.last_day_of_month", "self", "Date", "SqlDt.Date.lastDayOfMonth"),
    ("date.rs", "PartialOrd<Timestamp> for Date", "partial_cmp", "Date.partial_cmp_timestamp", "self, other: Timestamp",
     "Option<Ordering>", "fun d ts => some (SqlDt.Tr.cmpInt (SqlDt.Timestamp.new d 0) ts)"),
    ("date.rs", "PartialEq<Timestamp> for Date", "eq", "Date.eq_timestamp", "self, other: Timestamp",
     "bool", "fun d ts => decide (SqlDt.Timestamp.new d 0 = ts)"),
    # ---- the other mixed comparisons (C12, C17): comparison of the microsecond counts
    ("time.rs", "PartialEq<IntervalDT> for Time", "eq", "Time.eq_interval_dt", "self, other: IntervalDT",
     "bool", "fun t i => decide (t = i)"),
    ("time.rs", "PartialOrd<IntervalDT> for Time", "partial_cmp", "Time.partial_cmp_interval_dt", "self, other: IntervalDT",
     "Option<Ordering>", "fun t i => some (SqlDt.Tr.cmpInt t i)"),
    ("interval.rs", "PartialEq<Time> for IntervalDT", "eq", "IntervalDT.eq_time", "self, other: Time",
     "bool", "fun i t => decide (i = t)"),
    ("interval.rs", "PartialOrd<Time> for IntervalDT", "partial_cmp", "IntervalDT.partial_cmp_time", "self, other: Time",
     "Option<Ordering>", "fun i t => some (SqlDt.Tr.cmpInt i t)"),
    ("timestamp.rs", "PartialEq<Date> for Timestamp", "eq", "Timestamp.eq_date", "self, other: Date",
     "bool", "fun ts d => decide (ts = SqlDt.Timestamp.new d 0)"),
    ("timestamp.rs", "PartialOrd<Date> for Timestamp", "partial_cmp", "Timestamp.partial_cmp_date", "self, other: Date",
     "Option<Ordering>", "fun ts d => some (SqlDt.Tr.cmpInt ts (SqlDt.Timestamp.new d 0))"),
    ("oracle.rs", "PartialEq<OracleDate> for Timestamp", "eq", "Timestamp.eq_oracle_date", "self, other: OracleDate",
     "bool", "fun ts od => decide (ts = od)"),
    ("oracle.rs", "PartialEq<Timestamp> for OracleDate", "eq", "OracleDate.eq_timestamp", "self, other: Timestamp",
     "bool", "fun od ts => decide (od = ts)"),
    ("oracle.rs", "PartialEq<OracleDate> for Date", "eq", "Date.eq_oracle_date", "self, other: OracleDate",
     "bool", "fun d od => decide (SqlDt.Timestamp.new d 0 = od)"),
    ("oracle.rs", "PartialEq<Date> for OracleDate", "eq", "OracleDate.eq_date", "self, other: Date",
     "bool", "fun od d => decide (od = SqlDt.Timestamp.new d 0)"),
    # ---- oracle.rs
    ("oracle.rs", "OracleDate", "new", "OracleDate.new", "date: Date, time: Time", "OracleDate", "SqlDt.OracleDate.new"),
    ("oracle.rs", "OracleDate", "is_valid_date", "OracleDate.is_valid_date", "usecs: i64", "bool",
     "fun usecs => decide (SqlDt.OracleDate.isValidDate usecs)"),
    ("oracle.rs", "OracleDate", "try_from_usecs", "OracleDate.try_from_usecs", "usecs: i64", "Result<OracleDate>",
     "SqlDt.OracleDate.tryFromUsecs"),
    ("oracle.rs", "From<Timestamp> for OracleDate", "from", "OracleDate.from_timestamp", "timestamp: Timestamp",
     "OracleDate", "SqlDt.OracleDate.fromTimestamp"),
    ("oracle.rs", "OracleDate", "add_interval_dt", "OracleDate.add_interval_dt", "self, interval: IntervalDT",
     "Result<OracleDate>", "SqlDt.OracleDate.addIntervalDt"),
    ("oracle.rs", "OracleDate", "add_interval_ym", "OracleDate.add_interval_ym", "self, interval: IntervalYM",
     "Result<OracleDate>", "SqlDt.OracleDate.addIntervalYm"),
    ("oracle.rs", "OracleDate", "sub_interval_dt", "OracleDate.sub_interval_dt", "self, interval: IntervalDT",
     "Result<OracleDate>", "SqlDt.OracleDate.subIntervalDt"),
    ("oracle.rs", "OracleDate", "sub_interval_ym", "OracleDate.sub_interval_ym", "self, interval: IntervalYM",
     "Result<OracleDate>", "SqlDt.OracleDate.subIntervalYm"),
]

# ---- the calendar units: `Trunc` / `Round` for Date, Timestamp and the Oracle-style date (phases 5 and 5b).
# The translator handles all of them; an entry is listed here only once its `_eq` and `_safe` theorems exist
# (`UNITS_PROVED`: lean names without the `Tr.` prefix).
UNITS = [("century", "century"), ("year", "year"), ("iso_year", "isoYear"), ("quarter", "quarter"), ("month", "month"),
         ("week", "week"), ("iso_week", "isoWeek"), ("month_start_week", "monthStartWeek"), ("day", "day"),
         ("sunday_start_week", "sundayStartWeek"), ("hour", "hour"), ("minute", "minute")]
UNITS_PROVED_5B = set(['Date.round_century', 'Date.round_day', 'Date.round_hour', 'Date.round_iso_week', 'Date.round_minute', 'Date.round_month', 'Date.round_month_start_week', 'Date.round_month_start_week_internal', 'Date.round_quarter', 'Date.round_sunday_start_week', 'Date.round_week', 'Date.round_week_internal', 'Date.round_year', 'Date.trunc_century', 'Date.trunc_day', 'Date.trunc_hour', 'Date.trunc_iso_week', 'Date.trunc_minute', 'Date.trunc_month', 'Date.trunc_month_start_week', 'Date.trunc_quarter', 'Date.trunc_sunday_start_week', 'Date.trunc_week', 'Date.trunc_year', 'current_date', 'sub_to_date'])
UNITS_PROVED = UNITS_PROVED_5B if os.environ.get("RS2LEAN_5B_ONLY") else None   # None: every Trunc/Round function is emitted
_units_wl = [
    ("date.rs", None, "sub_to_date", "sub_to_date", "date: Date, sub_day: i32", "Result<Date>",
     "fun d k => SqlDt.Date.subDays d k"),
    ("date.rs", None, "current_date", "current_date", "date: Date, _sub_day: i32", "Result<Date>",
     "fun d _ => Except.ok d"),
    ("date.rs", None, "week_day_of_julian", "week_day_of_julian", "date: i32", "i32", "SqlDt.Date.weekDayOfJulian"),
    ("date.rs", "Date", "date_to_iso_year", "Date.date_to_iso_year", "self", "i32", "SqlDt.Date.dateToIsoYear"),
    ("date.rs", "Date", "round_week_internal", "Date.round_week_internal", "self, year: i32", "Result<Date>",
     "SqlDt.Date.roundWeekInternal"),
    ("date.rs", "Date", "round_month_start_week_internal", "Date.round_month_start_week_internal", "self, day: i32",
     "Result<Date>", "SqlDt.Date.roundMonthStartWeekInternal"),
]
_have = set((f, i, n) for (f, i, n, _l, _p, _r, _m) in WHITELIST)
for _op, _Op in (("trunc", "Trunc"), ("round", "Round")):
    for _u, _U in UNITS:
        for _file, _ty in (("date.rs", "Date"), ("timestamp.rs", "Timestamp"), ("oracle.rs", "OracleDate")):
            _key = (_file, "%s for %s" % (_Op, _ty), "%s_%s" % (_op, _u))
            if _key in _have:
                continue
            _units_wl.append((_file, _key[1], _key[2], "%s.%s_%s" % (_ty, _op, _u), "self", "Result<%s>" % _ty,
                              "SqlDt.%s.%s SqlDt.TUnit.%s" % (_ty, _op, _U)))
WHITELIST += [e for e in _units_wl if UNITS_PROVED is None or e[3] in UNITS_PROVED]

# Derived constants (not literal in the Rust, hence not in Generated.lean): (file, name, model term)
CONST_WHITELIST = [
    ("common.rs", "UNIX_EPOCH_JULIAN", "SqlDt.UNIX_EPOCH_JULIAN"),
    ("common.rs", "DATE_MIN_JULIAN", "SqlDt.DATE_MIN_JULIAN"),
    ("common.rs", "DATE_MAX_JULIAN", "SqlDt.DATE_MAX_JULIAN"),
    ("common.rs", "TIMESTAMP_MIN", "SqlDt.TIMESTAMP_MIN"),
    ("common.rs", "TIMESTAMP_MAX", "SqlDt.TIMESTAMP_MAX"),
]

# ---- Phase 6: the byte-slice leaf functions of format.rs.  They are emitted into a file of their own
# (`TranslatedFmt.lean` / `TranslatedFmtStatus.json`); `Translated.lean` is not affected by this list.
# Text is `List Nat` as in the model (`Bytes`); `usize` parameters are `Int` here and `Nat` in the model (`.toNat`).
FMT_WHITELIST = [
    ("format.rs", None, "expect_char", "expect_char", "s: &[u8], expected: u8", "bool",
     "fun s expected => decide ((List.head? s).map Int.ofNat = some expected)"),
    ("format.rs", None, "eat_whitespaces", "eat_whitespaces", "s: &[u8]", "&[u8]", "SqlDt.Parser.eatWhitespaces"),
    ("format.rs", None, "eat_digits", "eat_digits", "s: &[u8], max_len: usize", "(&[u8], &[u8])",
     "fun s max_len => SqlDt.Parser.eatDigits s max_len.toNat"),
    ("format.rs", None, "parse_number", "parse_number", "input: &[u8], max_len: usize", "Result<(bool, i32, &[u8])>",
     "fun input max_len => SqlDt.Parser.parseNumber input max_len.toNat"),
    ("format.rs", None, "parse_week_day_number", "parse_week_day_number", "s: &[u8]", "Result<(WeekDay, &[u8])>",
     "SqlDt.Parser.parseWeekDayNumber"),
    # `fn write_u32<W: fmt::Write>(w: W, value, width) -> Result<()>`: the sink parameter is dropped, the result is the
    # text written
    ("format.rs", None, "write_u32", "write_u32", "value: u32, width: usize", "&[u8]",
     "fun value width => SqlDt.writeU32 value width.toNat"),
    # the two users of the `f64` table FRACTION_FACTOR (the model indexes the table of bit patterns through the
    # panicking `idx`; the stand-in terms below read a panic as 0 - the theorems are stated for indices 0..9)
    ("format.rs", None, "parse_fraction", "parse_fraction", "s: &[u8], max_len: usize", "Result<(u32, &[u8])>",
     "fun s max_len => SqlDt.Parser.parseFraction s max_len.toNat"),
    ("format.rs", "NaiveDateTime", "fraction", "NDT.fraction", "self, p: u8", "u32",
     "fun dt p => match SqlDt.NDT.fraction dt p.toNat with | .ok v => v | .error _ => 0"),
    # `AmPmStyle` is its discriminant 0..3 here (Upper, Lower, UpperDot, LowerDot: the model's `AmPmStyle.index`)
    ("format.rs", None, "parse_ampm", "parse_ampm", "s: &[u8], style: AmPmStyle", "Result<(Option<AmPm>, &[u8])>",
     "fun s style => SqlDt.Parser.parseAmPm s (if style = 0 then SqlDt.AmPmStyle.Upper else if style = 1 then "
     "SqlDt.AmPmStyle.Lower else if style = 2 then SqlDt.AmPmStyle.UpperDot else SqlDt.AmPmStyle.LowerDot)"),
    # search loops over the name tables of Generated.lean; `NameStyle` is its discriminant 0..5 (`NameStyle.index`)
    ("format.rs", None, "parse_month_name", "parse_month_name", "s: &[u8]", "Result<(Month, &[u8])>",
     "SqlDt.Parser.parseMonthName"),
    ("format.rs", None, "parse_week_day_name", "parse_week_day_name", "s: &[u8], style: NameStyle", "Result<(WeekDay, &[u8])>",
     "fun s style => SqlDt.Parser.parseWeekDayName s (if style = 0 then SqlDt.NameStyle.Capital else if style = 1 then "
     "SqlDt.NameStyle.Lower else if style = 2 then SqlDt.NameStyle.Upper else if style = 3 then SqlDt.NameStyle.AbbrCapital "
     "else if style = 4 then SqlDt.NameStyle.AbbrLower else SqlDt.NameStyle.AbbrUpper)"),
    # the clock closure `get_now: &mut T` is the reading itself (a `Clock`); the model additionally reports whether the
    # clock was read, which the crate keeps in the caller's cache: dropped here
    ("format.rs", None, "parse_year", "parse_year", "input: &[u8], max_len: usize, get_now: Clock", "Result<(bool, i32, &[u8])>",
     "fun input max_len now => (SqlDt.Parser.parseYear input max_len.toNat now).map (fun r => (r.1, r.2.1, r.2.2.1))"),
]

# ----------------------------------------------------------------------------------------------
# 1. Lexer and item scanner
# ----------------------------------------------------------------------------------------------

class Unsupported(Exception):
    """The function uses something outside the supported subset: degrade to `untranslated`."""


class Tok(object):
    __slots__ = ("kind", "text", "line", "pos", "end")

    def __init__(self, kind, text, line, pos, end):
        self.kind, self.text, self.line, self.pos, self.end = kind, text, line, pos, end

    def __repr__(self):
        return "%s:%r@%d" % (self.kind, self.text, self.line)


PUNCT = ["..=", "...", "<<=", ">>=", "->", "=>", "::", "==", "!=", "<=", ">=", "&&", "||", "+=", "-=", "*=",
         "/=", "%=", "^=", "&=", "|=", "<<", ">>", ".."]
INT_SUFFIXES = ("i8", "i16", "i32", "i64", "i128", "isize", "u8", "u16", "u32", "u64", "u128", "usize")


def lex(src):
    """Tokenise Rust source; comments and attributes (`#[..]`, `#![..]`) are dropped."""
    toks = []
    i, n, line = 0, len(src), 1
    while i < n:
        c = src[i]
        if c == "\n":
            line += 1
            i += 1
        elif c in " \t\r":
            i += 1
        elif src.startswith("//", i):
            while i < n and src[i] != "\n":
                i += 1
        elif src.startswith("/*", i):
            depth, j = 1, i + 2
            while j < n and depth:
                if src.startswith("/*", j):
                    depth += 1
                    j += 2
                elif src.startswith("*/", j):
                    depth -= 1
                    j += 2
                else:
                    if src[j] == "\n":
                        line += 1
                    j += 1
            i = j
        elif c == "#" and (src.startswith("#[", i) or src.startswith("#![", i)):
            j = src.index("[", i)
            depth = 0
            while j < n:
                ch = src[j]
                if ch == '"':
                    j += 1
                    while j < n and src[j] != '"':
                        if src[j] == "\\":
                            j += 1
                        j += 1
                elif ch == "[":
                    depth += 1
                elif ch == "]":
                    depth -= 1
                    if depth == 0:
                        break
                elif ch == "\n":
                    line += 1
                j += 1
            i = j + 1
        elif c == '"' or (c in "br" and re.match(r'b?r?#*"', src[i:i + 6])):
            m = re.match(r'b?(r(#*))?"', src[i:])
            start = i
            if m.group(1) is not None:
                close = '"' + m.group(2)
                j = src.index(close, i + m.end())
                j += len(close)
            else:
                j = i + m.end()
                while src[j] != '"':
                    if src[j] == "\\":
                        j += 1
                    j += 1
                j += 1
            line += src.count("\n", start, j)
            toks.append(Tok("str", src[start:j], line, start, j))
            i = j
        elif c == "b" and src.startswith("b'", i) and re.match(r"b'(\\x[0-9a-fA-F]{2}|\\.|[^'\\])'", src[i:]):
            # byte literal: a `u8` integer
            m = re.match(r"b'(\\x[0-9a-fA-F]{2}|\\.|[^'\\])'", src[i:])
            toks.append(Tok("int", "%du8" % byte_value(m.group(1)), line, i, i + m.end()))
            i += m.end()
        elif c == "'":
            m = re.match(r"'(\\.[^']*|[^'\\])'", src[i:])
            if m:
                toks.append(Tok("char", m.group(0), line, i, i + m.end()))
                i += m.end()
            else:
                m = re.match(r"'[A-Za-z_][A-Za-z_0-9]*", src[i:])
                toks.append(Tok("life", m.group(0), line, i, i + m.end()))
                i += m.end()
        elif c.isdigit():
            prev_dot = bool(toks) and toks[-1].text == "."
            m = re.match(r"0x[0-9a-fA-F_]+|0b[01_]+|0o[0-7_]+|[0-9][0-9_]*", src[i:])
            j = i + m.end()
            kind = "int"
            if not prev_dot and not m.group(0).startswith(("0x", "0b", "0o")):
                m2 = re.match(r"\.[0-9][0-9_]*([eE][+-]?[0-9_]+)?|[eE][+-]?[0-9_]+|\.(?![.A-Za-z_])", src[j:])
                if m2:
                    j += m2.end()
                    kind = "float"
            m3 = re.match(r"(i8|i16|i32|i64|i128|isize|u8|u16|u32|u64|u128|usize|f32|f64)\b", src[j:])
            if m3:
                if m3.group(0).startswith("f"):
                    kind = "float"
                j += m3.end()
            toks.append(Tok(kind, src[i:j], line, i, j))
            i = j
        elif c.isalpha() or c == "_":
            m = re.match(r"[A-Za-z_][A-Za-z_0-9]*", src[i:])
            toks.append(Tok("id", m.group(0), line, i, i + m.end()))
            i += m.end()
        else:
            for p in PUNCT:
                if src.startswith(p, i):
                    toks.append(Tok("p", p, line, i, i + len(p)))
                    i += len(p)
                    break
            else:
                toks.append(Tok("p", c, line, i, i + 1))
                i += 1
    return toks


BYTE_ESCAPES = {"n": 10, "r": 13, "t": 9, "0": 0, "\\": 92, "'": 39, '"': 34}


def byte_value(text):
    """Value of the inside of a byte literal: `+`, `\\n`, `\\x41`."""
    if text.startswith("\\x"):
        return int(text[2:], 16)
    if text.startswith("\\"):
        if text[1] not in BYTE_ESCAPES:
            raise Unsupported("byte escape `%s`" % text)
        return BYTE_ESCAPES[text[1]]
    return ord(text)


def byte_string(text):
    """`b"A.M."` -> [65, 46, 77, 46]; `"abc"` likewise (ASCII only)."""
    body = text[text.index('"') + 1:text.rindex('"')]
    if text.startswith(("br", "r")):
        return [ord(ch) for ch in body]
    out, i = [], 0
    while i < len(body):
        if body[i] == "\\":
            if body[i + 1] == "x":
                out.append(int(body[i + 2:i + 4], 16))
                i += 4
            else:
                out.append(byte_value(body[i:i + 2]))
                i += 2
        else:
            if ord(body[i]) > 127:
                raise Unsupported("non-ASCII string literal")
            out.append(ord(body[i]))
            i += 1
    return out


def match_close(toks, i):
    """`toks[i]` is an opening bracket; return the index of its closing partner."""
    pairs = {"(": ")", "[": "]", "{": "}"}
    depth = 0
    j = i
    while j < len(toks):
        t = toks[j].text
        if toks[j].kind == "p":
            if t in pairs:
                depth += 1
            elif t in (")", "]", "}"):
                depth -= 1
                if depth == 0:
                    return j
        j += 1
    raise Unsupported("unbalanced brackets at line %d" % toks[i].line)


class FnItem(object):
    def __init__(self, fname, impl, name, params, ret, body, line, src_text):
        self.file, self.impl, self.name = fname, impl, name
        self.params = params        # [(name, [type tokens]) ...]; `self` has type None
        self.ret = ret              # [type tokens] or None
        self.body = body            # tokens strictly inside the braces
        self.line = line
        self.src_text = src_text    # raw text of the body (for the SHA-1)


class ConstItem(object):
    def __init__(self, fname, impl, name, ty, init, line):
        self.file, self.impl, self.name, self.ty, self.init, self.line = fname, impl, name, ty, init, line


class Crate(object):
    """All items of interest found in src/*.rs."""

    def __init__(self):
        self.fns = {}       # (file, impl header or None, name) -> FnItem
        self.consts = {}    # (impl self type or None, name) -> ConstItem   (file-level ones are crate-global)
        self.enums = {}     # name -> {variant: int}
        self.structs = {}   # (file, name) -> [type tokens] of a one-field tuple struct
        self.lines = {}     # file -> raw source lines
        self.broken = {}    # file -> why it could not be scanned
        self.named_structs = {}   # (file, name) -> [(field, [type tokens])]
        self.plain_enums = {}     # name -> [variant names] (no explicit discriminants)
        self.derives = {}   # (file, canonical struct name) -> (line, trait, trait, ...) from #[derive(..)]

    def fns_of_type(self, self_ty, name):
        """All functions called `name` in an impl whose self type is `self_ty` (after aliasing)."""
        out = []
        for (f, impl, n), item in self.fns.items():
            if n == name and impl is not None and impl_self_type(f, impl) == self_ty:
                out.append(item)
        return out


def impl_self_type(fname, header):
    ty = header.split(" for ")[-1].strip()
    return FILE_TYPE_ALIASES.get(fname, {}).get(ty, ty)


def impl_canon(fname, header):
    """Canonical impl key: aliases applied to every type name (`From<Timestamp> for OracleDate`)."""
    al = FILE_TYPE_ALIASES.get(fname, {})
    return re.sub(r"[A-Za-z_][A-Za-z_0-9]*", lambda m: al.get(m.group(0), m.group(0)), header)


def toks_text(toks):
    out = []
    for t in toks:
        if out and (t.kind in ("id", "int") and out[-1][-1:].isalnum()):
            out.append(" ")
        out.append(t.text)
    return "".join(out)


def scan_items(crate, fname, src, toks, lo, hi, impl):
    i = lo
    while i < hi:
        t = toks[i]
        if t.kind == "id" and t.text == "pub":
            i += 1
            if i < hi and toks[i].text == "(":
                i = match_close(toks, i) + 1
            continue
        if t.kind == "id" and t.text in ("mod", "trait", "macro_rules"):
            j = i
            while j < hi and toks[j].text not in ("{", ";"):
                j += 1
            i = (match_close(toks, j) if j < hi and toks[j].text == "{" else j) + 1
            continue
        if t.kind == "id" and t.text in ("use", "type", "extern", "static"):
            while i < hi and toks[i].text != ";":
                if toks[i].text == "{":
                    i = match_close(toks, i)
                i += 1
            i += 1
            continue
        if t.kind == "id" and t.text == "struct":
            name = toks[i + 1].text
            j = i + 2
            if toks[j].text == "(":
                k = match_close(toks, j)
                inner = [x for x in toks[j + 1:k] if not (x.kind == "id" and x.text == "pub")]
                if not any(x.text == "," for x in inner):
                    crate.structs[(fname, name)] = inner
                j = k
            while j < hi and toks[j].text not in (";", "{"):
                j += 1
            if toks[j].text == "{":        # named fields: `pub name: Type,`
                k = match_close(toks, j)
                fields, q = [], j + 1
                while q < k:
                    while q < k and toks[q].kind == "id" and toks[q].text == "pub":
                        q += 1
                        if toks[q].text == "(":
                            q = match_close(toks, q) + 1
                    if q + 1 < k and toks[q].kind == "id" and toks[q + 1].text == ":":
                        r, depth = q + 2, 0
                        while r < k and not (toks[r].text == "," and depth == 0):
                            if toks[r].text in ("(", "[", "<"):
                                depth += 1
                            elif toks[r].text in (")", "]", ">"):
                                depth -= 1
                            r += 1
                        fields.append((toks[q].text, toks[q + 2:r]))
                        q = r + 1
                    else:
                        q += 1
                crate.named_structs[(fname, name)] = fields
            i = (match_close(toks, j) if toks[j].text == "{" else j) + 1
            continue
        if t.kind == "id" and t.text == "enum":
            name = toks[i + 1].text
            j = i + 2
            while toks[j].text != "{":
                j += 1
            k = match_close(toks, j)
            variants, ok = {}, True
            p = j + 1
            while p < k:
                if toks[p].kind == "id" and toks[p + 1].text == "=":
                    q = p + 2
                    sign = 1
                    if toks[q].text == "-":
                        sign, q = -1, q + 1
                    if toks[q].kind == "int":
                        variants[toks[p].text] = sign * parse_int(toks[q].text)[0]
                    else:
                        ok = False
                    p = q + 1
                elif toks[p].text == ",":
                    p += 1
                else:
                    ok = False
                    p += 1
            if ok and variants:
                crate.enums[name] = variants
            else:       # an enum without discriminants: remember the variant names
                crate.plain_enums[name] = [toks[x].text for x in range(j + 1, k)
                                           if toks[x].kind == "id" and toks[x + 1].text in (",", "}")]
            i = k + 1
            continue
        if t.kind == "id" and t.text == "impl":
            j = i + 1
            if toks[j].text == "<":   # generic impl: skip parameter list
                depth = 0
                while True:
                    if toks[j].text == "<":
                        depth += 1
                    elif toks[j].text == ">":
                        depth -= 1
                        if depth == 0:
                            break
                    elif toks[j].text == ">>":
                        depth -= 2
                        if depth <= 0:
                            break
                    j += 1
                j += 1
            h0 = j
            while toks[j].text != "{":
                j += 1
            header = " ".join(x.text for x in toks[h0:j])
            header = re.sub(r"\s*<\s*", "<", header)
            header = re.sub(r"\s*>", ">", header)
            header = re.sub(r"\s*,\s*", ", ", header)
            header = re.sub(r"\s*::\s*", "::", header)
            header = re.sub(r"&\s+", "&", header)
            k = match_close(toks, j)
            scan_items(crate, fname, src, toks, j + 1, k, header)
            i = k + 1
            continue
        if t.kind == "id" and t.text == "const" and i + 2 < hi and toks[i + 1].kind == "id" \
                and toks[i + 1].text not in ("fn", "unsafe") and toks[i + 2].text == ":":
            name = toks[i + 1].text
            j = i + 3
            depth = 0
            while not (toks[j].text == "=" and depth == 0):
                if toks[j].text in ("(", "[", "<"):
                    depth += 1
                elif toks[j].text in (")", "]", ">"):
                    depth -= 1
                j += 1
            ty = toks[i + 3:j]
            k = j + 1
            while toks[k].text != ";":
                if toks[k].text in ("(", "[", "{"):
                    k = match_close(toks, k)
                k += 1
            self_ty = impl_self_type(fname, impl) if impl else None
            crate.consts.setdefault((self_ty, name), ConstItem(fname, impl, name, ty, toks[j + 1:k], t.line))
            i = k + 1
            continue
        if t.kind == "id" and t.text in ("const", "unsafe", "async", "fn"):
            j = i
            while toks[j].kind == "id" and toks[j].text in ("const", "unsafe", "async"):
                j += 1
            if toks[j].text != "fn":
                i += 1
                continue
            name = toks[j + 1].text
            j += 2
            generic = toks[j].text == "<"
            writer = clock = None
            if generic:
                # lifetimes are ignored; one type parameter bounded by `fmt::Write` is a byte sink (the translation
                # returns the bytes written); any other type parameter makes the function generic
                g0, depth, g1 = j + 1, 0, j
                while True:
                    if toks[g1].text == "<":
                        depth += 1
                    elif toks[g1].text == ">":
                        depth -= 1
                        if depth == 0:
                            break
                    elif toks[g1].text == ">>":
                        depth -= 2
                        if depth <= 0:
                            break
                    elif toks[g1].text == "(" :
                        g1 = match_close(toks, g1)
                    elif toks[g1].text == "->":
                        pass
                    g1 += 1
                gparams, cur, depth = [], [], 0
                for x in toks[g0:g1]:
                    if x.text in ("<", "(", "["):
                        depth += 1
                    elif x.text in (">", ")", "]"):
                        depth -= 1
                    if x.text == "," and depth == 0:
                        gparams.append(cur)
                        cur = []
                    else:
                        cur.append(x)
                if cur:
                    gparams.append(cur)
                tparams = [g for g in gparams if g and g[0].kind != "life"]
                if not tparams:
                    generic = False
                elif len(tparams) == 1 and len(tparams[0]) >= 3 and tparams[0][1].text == ":" \
                        and tparams[0][-1].text == "Write" and all(x.kind == "id" or x.text == "::" for x in tparams[0][2:]):
                    generic, writer = False, tparams[0][0].text
                elif len(tparams) == 1 and len(tparams[0]) >= 6 and tparams[0][1].text == ":" \
                        and tparams[0][2].text in ("FnMut", "Fn", "FnOnce") and tparams[0][3].text == "(" \
                        and tparams[0][4].text == ")" and tparams[0][5].text == "->" and tparams[0][-1].text == "NaiveDateTime":
                    # `T: FnMut() -> chrono::NaiveDateTime`: a clock (the model passes the reading, a `Clock` value)
                    generic, clock = False, tparams[0][0].text
                j = g1 + 1          # the parameter list starts after the generics (which may contain `FnMut()`)
            while toks[j].text != "(":
                j += 1
            k = match_close(toks, j)
            params = []
            mut_self = False
            p = j + 1
            while p < k:
                q, depth = p, 0
                while q < k and not (toks[q].text == "," and depth == 0):
                    if toks[q].text in ("(", "[", "<"):
                        depth += 1
                    elif toks[q].text in (")", "]", ">"):
                        depth -= 1
                    q += 1
                part = [x for x in toks[p:q]]
                if part:
                    names = [x.text for x in part]
                    if "self" in names and ":" not in names:
                        params.append(("self", None))
                        mut_self = "&" in names and "mut" in names
                    else:
                        c = names.index(":")
                        pn = [x for x in part[:c] if x.text != "mut"]
                        params.append((pn[0].text if len(pn) == 1 else None, part[c + 1:]))
                p = q + 1
            j = k + 1
            ret = None
            if toks[j].text == "->":
                r0 = j + 1
                while toks[j].text not in ("{", ";", "where"):
                    j += 1
                ret = toks[r0:j]
            while toks[j].text not in ("{", ";"):
                j += 1
            if toks[j].text == ";":
                i = j + 1
                continue
            k = match_close(toks, j)
            body = toks[j + 1:k]
            # nested `fn` items at the top level of the body become free functions of the file (callable, inlinable)
            depth, x, keep = 0, 0, []
            while x < len(body):
                bt = body[x]
                if bt.kind == "p" and bt.text in ("(", "[", "{"):
                    depth += 1
                elif bt.kind == "p" and bt.text in (")", "]", "}"):
                    depth -= 1
                if depth == 0 and bt.kind == "id" and bt.text == "fn" and x + 1 < len(body) and body[x + 1].kind == "id":
                    y = x
                    while body[y].text != "{":
                        y += 1
                    z = match_close(body, y)
                    scan_items(crate, fname, src, body, x, z + 1, None)
                    x = z + 1
                    continue
                keep.append(bt)
                x += 1
            item = FnItem(fname, impl, name, params, ret, keep, t.line, src[toks[j].end:toks[k].pos])
            item.generic = generic
            item.writer = writer
            item.clock = clock
            item.mut_self = mut_self
            crate.fns.setdefault((fname, impl_canon(fname, impl) if impl else None, name), item)
            i = k + 1
            continue
        i += 1


def parse_int(text):
    """`1_000i64` -> (1000, 'i64')."""
    suffix = None
    for s in INT_SUFFIXES:
        if text.endswith(s) and not text.startswith("0x"):
            suffix = s
            text = text[:-len(s)]
            break
    text = text.replace("_", "")
    if text.startswith("0x"):
        v = int(text[2:], 16)
    elif text.startswith("0b"):
        v = int(text[2:], 2)
    elif text.startswith("0o"):
        v = int(text[2:], 8)
    else:
        v = int(text)
    return v, suffix


def load_crate(repo):
    crate = Crate()
    crate.enums["Ordering"] = {"Less": -1, "Equal": 0, "Greater": 1}      # std::cmp::Ordering
    srcdir = os.path.join(repo, "src")
    for fname in sorted(os.listdir(srcdir)):
        if not fname.endswith(".rs"):
            continue
        with open(os.path.join(srcdir, fname)) as f:
            src = f.read()
        crate.lines[fname] = src.split("\n")
        for m in re.finditer(r"#\[derive\(([^)]*)\)\]\s*(?:#\[[^\]]*\]\s*)*(?:pub(?:\([a-z]+\))?\s+)?struct\s+(\w+)", src):
            canon = FILE_TYPE_ALIASES.get(fname, {}).get(m.group(2), m.group(2))
            crate.derives[(fname, canon)] = (src.count("\n", 0, m.start()) + 1,) + tuple(
                x.strip() for x in m.group(1).split(","))
        try:
            toks = lex(src)
            scan_items(crate, fname, src, toks, 0, len(toks), None)
        except Exception as ex:    # an unreadable file: its functions are simply "not found"
            crate.broken[fname] = "%s: %s" % (type(ex).__name__, ex)
    for name in IMPLICIT_DISCR_ENUMS:
        if name in crate.plain_enums and name not in crate.enums and crate.plain_enums[name]:
            crate.enums[name] = dict((v, i) for i, v in enumerate(crate.plain_enums[name]))
    return crate

# ----------------------------------------------------------------------------------------------
# 2. Recursive-descent parser for the supported subset (function bodies, constant initialisers)
# ----------------------------------------------------------------------------------------------
#
# Expression nodes are tuples whose first component is the kind:
#   ('int', value, suffix) ('bool', b) ('path', [segments]) ('unary', op, e) ('binary', op, l, r)
#   ('cast', e, type) ('call', path_segments, args) ('mcall', recv, name, args) ('field', recv, name)
#   ('index', recv, i) ('tuple', [es]) ('array', [es]) ('if', c, then_block, else_block_or_None)
#   ('match', scrutinee, [(pat, guard, expr)]) ('block', [stmts], tail_or_None) ('return', e_or_None)
#   ('try', e) ('macro', name) ('while', cond, block) ('float', literal text) ('ref', e)
#   ('structlit', name, [(field, e)], base_or_None)
# Statements: ('let', pat, type_or_None, init, line) ('assign', op, lhs, rhs, line) ('expr', e, line)
#             ('const', name, type, init, line)
# Patterns:   ('pvar', name) ('pwild',) ('ptuple', [ps]) ('plit', v) ('prange', lo, hi) ('pctor', path, [ps])
#             ('por', [ps]) ('pbool', b)
# Types:      'i32' ... | 'bool' | 'unit' | ('tuple', (ts)) | ('named', name) | ('result', t) | ('option', t)
#             | ('array', t)

BINOPS = {"||": 1, "&&": 2, "==": 3, "!=": 3, "<": 3, "<=": 3, ">": 3, ">=": 3, "|": 4, "^": 5, "&": 6,
          "<<": 7, ">>": 7, "+": 8, "-": 8, "*": 9, "/": 9, "%": 9}
AS_PREC = 10
PRIM_TYPES = ("i8", "i16", "i32", "i64", "isize", "u8", "u16", "u32", "u64", "usize", "bool", "f64")
BLOCK_LIKE = ("if", "match", "unsafe", "{", "while", "for", "loop")


class Parser(object):
    def __init__(self, toks):
        self.toks = toks
        self.i = 0

    # -- helpers
    def peek(self, k=0):
        j = self.i + k
        return self.toks[j] if j < len(self.toks) else Tok("eof", "<eof>", self.toks[-1].line if self.toks else 0, 0, 0)

    def at(self, text):
        t = self.peek()
        return t.text == text and t.kind in ("p", "id")

    def eat(self, text):
        if self.at(text):
            self.i += 1
            return True
        return False

    def expect(self, text):
        if not self.eat(text):
            t = self.peek()
            raise Unsupported("line %d: expected `%s`, found `%s`" % (t.line, text, t.text))

    def fail(self, what):
        t = self.peek()
        raise Unsupported("line %d: unsupported syntax: %s (at `%s`)" % (t.line, what, t.text))

    # -- types
    def parse_type(self):
        t = self.peek()
        if self.eat("&"):
            if self.peek().kind == "life":
                self.i += 1
            self.eat("mut")
            return self.parse_type()
        if self.eat("("):
            parts = []
            while not self.at(")"):
                parts.append(self.parse_type())
                if not self.eat(","):
                    break
            self.expect(")")
            if not parts:
                return "unit"
            return parts[0] if len(parts) == 1 else ("tuple", tuple(parts))
        if self.eat("["):
            el = self.parse_type()
            size = None
            if self.eat(";"):
                start = self.i
                depth = 0
                while not (self.at("]") and depth == 0):
                    if self.at("["):
                        depth += 1
                    elif self.at("]"):
                        depth -= 1
                    self.i += 1
                size = self.toks[start:self.i]
            self.expect("]")
            return ("array", el, size)
        if t.kind != "id":
            self.fail("type")
        self.i += 1
        name = t.text
        while self.at("::"):
            self.i += 1
            name = self.peek().text
            self.i += 1
        if name in PRIM_TYPES:
            return name
        if name in ("Result", "Option") and self.at("<"):
            self.i += 1
            inner = self.parse_type()
            if self.eat(","):
                self.parse_type()
            if self.at(">>"):   # split `>>`
                tk = self.peek()
                self.toks = self.toks[:self.i] + [Tok("p", ">", tk.line, tk.pos, tk.pos + 1),
                                                  Tok("p", ">", tk.line, tk.pos + 1, tk.end)] + self.toks[self.i + 1:]
            self.expect(">")
            return ("result" if name == "Result" else "option", inner)
        if self.at("<"):
            self.fail("generic type")
        return ("named", name)

    # -- patterns
    def parse_pattern(self):
        p = self.parse_pattern1()
        if self.at("|"):
            alts = [p]
            while self.eat("|"):
                alts.append(self.parse_pattern1())
            return ("por", alts)
        return p

    def parse_pattern1(self):
        t = self.peek()
        if self.eat("("):
            ps = []
            while not self.at(")"):
                ps.append(self.parse_pattern())
                if not self.eat(","):
                    break
            self.expect(")")
            return ps[0] if len(ps) == 1 else ("ptuple", ps)
        if t.kind == "int" or (t.text == "-" and self.peek(1).kind == "int"):
            lo = self.parse_pat_int()
            if self.eat("..="):
                return ("prange", lo, self.parse_pat_int())
            if self.at(".."):
                self.fail("half-open range pattern")
            return ("plit", lo)
        if t.kind == "id":
            if t.text == "_":
                self.i += 1
                return ("pwild",)
            if t.text in ("true", "false"):
                self.i += 1
                return ("pbool", t.text == "true")
            if t.text in ("ref", "box"):
                self.fail("ref pattern")
            if t.text == "mut":
                self.i += 1
                t = self.peek()
            self.i += 1
            path = [t.text]
            while self.at("::"):
                self.i += 1
                path.append(self.peek().text)
                self.i += 1
            if self.eat("("):
                ps = []
                while not self.at(")"):
                    ps.append(self.parse_pattern())
                    if not self.eat(","):
                        break
                self.expect(")")
                return ("pctor", path, ps)
            if self.at("{") and False:
                self.fail("struct pattern")
            if len(path) == 1 and (path[0][0].islower() or path[0][0] == "_"):
                if self.at("@"):
                    self.fail("binding pattern")
                return ("pvar", path[0])
            return ("pctor", path, [])
        self.fail("pattern")

    def parse_pat_int(self):
        sign = -1 if self.eat("-") else 1
        t = self.peek()
        if t.kind != "int":
            self.fail("pattern literal")
        self.i += 1
        return sign * parse_int(t.text)[0]

    # -- blocks and statements
    def parse_block(self):
        self.expect("{")
        stmts, tail = [], None
        while not self.at("}"):
            t = self.peek()
            line = t.line
            if self.eat(";"):
                continue
            if t.kind == "id" and t.text == "let":
                self.i += 1
                pat = self.parse_pattern()
                ty = None
                if self.eat(":"):
                    ty = self.parse_type()
                if not self.eat("="):
                    self.fail("let without initialiser")
                init = self.parse_expr(0)
                if self.at("else"):
                    self.fail("let-else")
                self.expect(";")
                stmts.append(("let", pat, ty, init, line))
                continue
            if t.kind == "id" and t.text == "const" and self.peek(2).text == ":":
                self.i += 1
                name = self.peek().text
                self.i += 2
                ty = self.parse_type()
                self.expect("=")
                init = self.parse_expr(0)
                self.expect(";")
                stmts.append(("const", name, ty, init, line))
                continue
            if t.kind == "id" and t.text in ("fn", "struct", "enum", "impl", "use", "static", "type", "trait", "mod",
                                            "loop", "break", "continue", "pub"):
                self.fail("`%s` inside a function body" % t.text)
            if t.kind == "id" and t.text == "const":
                self.fail("const item")
            block_like = t.text in BLOCK_LIKE and t.kind in ("id", "p")
            if block_like:
                e = self.parse_primary()
                if self.at("}"):
                    tail = e
                    break
                if self.at(".") or self.at("?"):
                    e = self.parse_postfix(e)
                    e = self.parse_binary_rest(e, 0)
                    if self.at("}"):
                        tail = e
                        break
                    self.expect(";")
                    stmts.append(("expr", e, line))
                    continue
                self.eat(";")
                stmts.append(("expr", e, line))
                continue
            e = self.parse_expr(0)
            op = self.peek().text
            if self.peek().kind == "p" and op in ("=", "+=", "-=", "*=", "/=", "%="):
                self.i += 1
                rhs = self.parse_expr(0)
                if not self.at("}"):
                    self.expect(";")
                stmts.append(("assign", op, e, rhs, line))
                continue
            if self.peek().kind == "p" and op in ("&=", "|=", "^=", "<<=", ">>="):
                self.fail("bitwise assignment")
            if self.at("}"):
                tail = e
                break
            self.expect(";")
            stmts.append(("expr", e, line))
        self.expect("}")
        return ("block", stmts, tail)

    # -- expressions
    def parse_expr(self, min_prec):
        return self.parse_binary_rest(self.parse_unary(), min_prec)

    def parse_binary_rest(self, lhs, min_prec):
        while True:
            t = self.peek()
            if t.kind == "id" and t.text == "as":
                if AS_PREC < min_prec:
                    break
                self.i += 1
                lhs = ("cast", lhs, self.parse_type())
                continue
            if t.kind == "p" and t.text in BINOPS:
                prec = BINOPS[t.text]
                if prec < min_prec:
                    break
                self.i += 1
                rhs = self.parse_expr(prec + 1)
                lhs = ("binary", t.text, lhs, rhs)
                continue
            if t.kind == "p" and t.text in ("..", "..="):
                if min_prec > 0:
                    break           # a range binds weaker than every operator: the outermost caller takes it
                self.i += 1
                hi = None
                if not (self.at("]") or self.at(")") or self.at(",") or self.at(";") or self.at("}")):
                    hi = self.parse_expr(1)
                lhs = ("range", lhs, hi, t.text == "..=")
                continue
            break
        return lhs

    def parse_unary(self):
        t = self.peek()
        if t.kind == "p" and t.text in ("-", "!"):
            self.i += 1
            return ("unary", t.text, self.parse_unary())
        if t.kind == "p" and t.text == "&":
            self.i += 1
            self.eat("mut")
            return ("ref", self.parse_unary())      # transparent, but `T::try_from(&x)` selects the `&` impl
        if t.kind == "p" and t.text == "*":
            self.i += 1
            return self.parse_unary()
        if t.kind == "p" and t.text == "&&":
            self.i += 1
            return self.parse_unary()
        if t.kind == "p" and t.text in ("..", "..="):      # `..hi` (only as an index)
            self.i += 1
            return ("range", None, self.parse_expr(1), t.text == "..=")
        return self.parse_postfix(self.parse_primary())

    def parse_args(self):
        self.expect("(")
        args = []
        while not self.at(")"):
            args.append(self.parse_expr(0))
            if not self.eat(","):
                break
        self.expect(")")
        return args

    def parse_postfix(self, e):
        while True:
            if self.at("?"):
                self.i += 1
                e = ("try", e)
            elif self.at("."):
                nxt = self.peek(1)
                if nxt.kind == "int":
                    self.i += 2
                    e = ("field", e, str(parse_int(nxt.text)[0]))
                elif nxt.kind == "id":
                    self.i += 2
                    if self.at("::"):
                        self.fail("turbofish")
                    if self.at("("):
                        e = ("mcall", e, nxt.text, self.parse_args())
                    else:
                        e = ("field", e, nxt.text)
                else:
                    self.fail("postfix")
            elif self.at("["):
                self.i += 1
                ix = self.parse_expr(0)
                self.expect("]")
                e = ("index", e, ix)
            elif self.at("(") and e[0] == "path":
                e = ("call", e[1], self.parse_args())
            else:
                return e

    def parse_primary(self):
        t = self.peek()
        if t.kind == "int":
            self.i += 1
            v, s = parse_int(t.text)
            return ("int", v, s)
        if t.kind == "float":
            self.i += 1
            return ("float", t.text)
        if t.kind == "str":
            self.i += 1
            return ("str", byte_string(t.text), t.text.startswith("b"))
        if t.kind == "char":
            self.fail("%s literal" % t.kind)
        if t.kind == "p" and t.text == "(":
            self.i += 1
            es, trailing = [], False
            while not self.at(")"):
                es.append(self.parse_expr(0))
                trailing = self.eat(",")
                if not trailing:
                    break
            self.expect(")")
            if not es:
                return ("tuple", [])
            if len(es) == 1 and not trailing:
                return es[0]
            return ("tuple", es)
        if t.kind == "p" and t.text == "[":
            self.i += 1
            es = []
            while not self.at("]"):
                es.append(self.parse_expr(0))
                if self.at(";"):
                    if len(es) != 1:
                        self.fail("array repeat expression")
                    self.i += 1
                    count = self.parse_expr(0)
                    self.expect("]")
                    return ("repeat", es[0], count)
                if not self.eat(","):
                    break
            self.expect("]")
            return ("array", es)
        if t.kind == "p" and t.text == "{":
            return self.parse_block()
        if t.kind == "p" and t.text in ("|", "||"):
            # closure `|a, &b| body` (only as an argument of the iterator idioms)
            self.i += 1
            params = []
            if t.text == "|":
                while not self.at("|"):
                    while self.eat("&") or self.eat("&&"):
                        pass
                    params.append(self.parse_pattern1())
                    if self.eat(":"):
                        self.parse_type()
                    if not self.eat(","):
                        break
                self.expect("|")
            if self.at("->"):
                self.fail("closure with a return type")
            return ("closure", params, self.parse_expr(0))
        if t.kind != "id":
            self.fail("expression")
        if t.text == "unsafe":
            self.i += 1
            return self.parse_block()
        if t.text == "if":
            self.i += 1
            if self.at("let"):
                # `if let PAT = e { a } else { b }`  =  `match e { PAT => a, _ => b }`
                self.i += 1
                pat = self.parse_pattern()
                self.expect("=")
                scrut = self.parse_expr(0)
                then = self.parse_block()
                els = ("block", [], None)
                if self.eat("else"):
                    els = ("block", [], self.parse_primary()) if self.at("if") else self.parse_block()
                return ("match", scrut, [(pat, None, then), (("pwild",), None, els)])
            cond = self.parse_expr(0)
            then = self.parse_block()
            els = None
            if self.eat("else"):
                if self.at("if"):
                    els = ("block", [], self.parse_primary())
                else:
                    els = self.parse_block()
            return ("if", cond, then, els)
        if t.text == "match":
            self.i += 1
            scrut = self.parse_expr(0)
            self.expect("{")
            arms = []
            while not self.at("}"):
                pat = self.parse_pattern()
                guard = None
                if self.eat("if"):
                    guard = self.parse_expr(0)
                self.expect("=>")
                body = self.parse_expr(0)
                arms.append((pat, guard, body))
                self.eat(",")
            self.expect("}")
            return ("match", scrut, arms)
        if t.text == "return":
            self.i += 1
            if self.at(";") or self.at("}"):
                return ("return", None)
            return ("return", self.parse_expr(0))
        if t.text in ("true", "false"):
            self.i += 1
            return ("bool", t.text == "true")
        if t.text == "while":
            self.i += 1
            if self.at("let"):
                self.fail("while let")
            cond = self.parse_expr(0)
            return ("while", cond, self.parse_block())
        if t.text == "for":
            self.i += 1
            pat = self.parse_pattern()
            self.expect("in")
            src = self.parse_expr(0)
            return ("for", pat, src, self.parse_block())
        if t.text in ("loop", "break", "continue", "move", "async", "let"):
            self.fail("`%s`" % t.text)
        # path
        self.i += 1
        path = [t.text]
        while self.at("::"):
            self.i += 1
            if self.at("<"):
                self.fail("turbofish")
            path.append(self.peek().text)
            self.i += 1
        if self.at("!"):
            # macro invocation: swallow the argument tokens
            self.i += 1
            inner = []
            if self.peek().text in ("(", "[", "{"):
                close = match_close(self.toks, self.i)
                inner = self.toks[self.i + 1:close]
                self.i = close + 1
            if path[-1] == "matches" and inner:
                # `matches!(e, PAT [if guard])`  =  `match e { PAT [if guard] => true, _ => false }`
                sub = Parser(list(inner))
                scrut = sub.parse_expr(0)
                sub.expect(",")
                pat = sub.parse_pattern()
                guard = sub.parse_expr(0) if sub.eat("if") else None
                sub.eat(",")
                if sub.i != len(sub.toks):
                    sub.fail("trailing tokens in matches!")
                return ("match", scrut, [(pat, guard, ("bool", True)), (("pwild",), None, ("bool", False))])
            return ("macro", path[-1], inner)
        if self.at("{") and path[-1] in STRUCT_MAP:
            # struct literal of a mapped struct: `Name { f: e, g, ..base }`
            self.i += 1
            fields, base = [], None
            while not self.at("}"):
                if self.eat(".."):
                    base = self.parse_expr(0)
                    break
                f = self.peek()
                if f.kind != "id":
                    self.fail("struct literal field")
                self.i += 1
                if self.eat(":"):
                    fields.append((f.text, self.parse_expr(0)))
                else:
                    fields.append((f.text, ("path", [f.text])))
                if not self.eat(","):
                    break
            self.expect("}")
            return ("structlit", path[-1], fields, base)
        if self.at("{") and path[-1][0].isupper() and len(path[-1]) > 1 and not path[-1].isupper() \
                and self.peek(1).kind == "id" and self.peek(2).text in (":", ",", "}"):
            self.fail("struct literal")
        return ("path", path)


def parse_body(toks):
    """Parse the token list of a function body (without the outer braces) into a block node."""
    if not toks:
        return ("block", [], None)
    line = toks[0].line
    p = Parser([Tok("p", "{", line, 0, 0)] + list(toks) + [Tok("p", "}", toks[-1].line, 0, 0)])
    blk = p.parse_block()
    if p.i != len(p.toks):
        p.fail("trailing tokens")
    return blk


def parse_expr_toks(toks):
    p = Parser(list(toks))
    e = p.parse_expr(0)
    if p.i != len(p.toks):
        p.fail("trailing tokens in expression")
    return e


def parse_type_toks(toks):
    p = Parser(list(toks))
    t = p.parse_type()
    if p.i != len(p.toks):
        p.fail("trailing tokens in type")
    return t

# ----------------------------------------------------------------------------------------------
# 3. A small Lean term AST and its pretty-printer
# ----------------------------------------------------------------------------------------------
#   ('atom', s) ('num', n) ('app', f, [args]) ('bin', op, l, r) ('neg', e) ('not', e)
#   ('ite', c, t, e, comment) ('let', name, val, body, comment) ('match', scrut, [(pat, body)], comment)
#   ('tuple', [es]) ('proj', e, i, n) ('lam', [names], body) ('list', [es]) ('com', comment, e)
#   ('inl', [(param, leantype)], body, [args])   an inlined helper function, printed as an applied lambda
#   ('imp', hypothesis, conclusion)              only in the safety predicates
#   ('fld', e, field)  ('struct', lean type, base_or_None, [(field, e)])   named-field structs mapped onto the model's
# Arithmetic nodes may carry one extra trailing component (the Rust type / divisor / table length) that the printer
# ignores and the safety-predicate generator reads.

LEAN_PREC = {"→": 25, "*": 70, "/": 70, "%": 70, "+": 65, "-": 65, "++": 65, "=": 50, "≠": 50, "<": 50, "≤": 50, ">": 50, "≥": 50,
             "∧": 35, "∨": 30, "&&": 35, "||": 30}
RIGHT_ASSOC = ("∧", "∨")
WIDTH = 110


def proj_suffix(i, n):
    """Projection path of component i (0-based) of an n-tuple (a right-nested pair)."""
    return ".2" * i + (".1" if i < n - 1 else "")


def flat(node):
    """Single-line rendering: (text, precedence)."""
    k = node[0]
    if k == "atom":
        return node[1], 100
    if k == "num":
        return (str(node[1]), 100) if node[1] >= 0 else ("(%d)" % node[1], 100)
    if k == "app":
        return node[1] + "".join(" " + wrap(a, 100) for a in node[2]), 90
    if k == "bin":
        op = node[1]
        p = LEAN_PREC[op]
        if op in RIGHT_ASSOC:
            return "%s %s %s" % (wrap(node[2], p + 1), op, wrap(node[3], p)), p
        if p == 50:
            return "%s %s %s" % (wrap(node[2], 51), op, wrap(node[3], 51)), p
        return "%s %s %s" % (wrap(node[2], p), op, wrap(node[3], p + 1)), p
    if k == "imp":      # ('imp', hypothesis, conclusion)
        return "%s → %s" % (wrap(node[1], 26), wrap(node[2], 25)), 25
    if k == "neg":
        return "-" + wrap(node[1], 100), 75
    if k == "not":
        return "¬ " + wrap(node[1], 40), 40
    if k == "ite":
        return "if %s then %s else %s" % (wrap(node[1], 1), wrap(node[2], 1), flat(node[3])[0]), 0
    if k == "let":
        return "let %s := %s; %s" % (node[1], flat(node[2])[0], flat(node[3])[0]), 0
    if k == "match":
        arms = " ".join("| %s => %s" % (p, wrap(b, 1)) for p, b in node[2])
        return "match %s with %s" % (flat(node[1])[0], arms), 0
    if k == "tuple":
        if not node[1]:
            return "()", 100
        return "(" + ", ".join(bare(e) for e in node[1]) + ")", 100
    if k == "list":
        return "[" + ", ".join(bare(e) for e in node[1]) + "]", 100
    if k == "proj":
        return wrap(node[1], 100) + proj_suffix(node[2], node[3]), 100
    if k == "lam":
        return "fun %s => %s" % (" ".join("(%s : Int)" % n for n in node[1]), flat(node[2])[0]), 0
    if k == "com":
        return flat(node[2])
    if k == "fld":      # ('fld', e, field): structure projection
        return wrap(node[1], 100) + "." + node[2], 100
    if k == "struct":   # ('struct', leantype, base_or_None, [(field, e)])
        body = ", ".join("%s := %s" % (f, flat(v)[0]) for f, v in node[3])
        if node[2] is not None:
            return "{ %s with %s }" % (flat(node[2])[0], body), 100
        return "({ %s } : %s)" % (body, node[1]), 100
    if k == "inl":      # an inlined helper: (fun params => body) args
        lam = "(fun %s => %s)" % (" ".join("(%s : %s)" % (n, t) for n, t in node[1]), flat(node[2])[0])
        return lam + "".join(" " + wrap(a, 100) for a in node[3]), 90
    if k == "lamT":     # ('lamT', [(name, lean type)], body): a typed lambda (closures, loop bodies)
        return "fun %s => %s" % (" ".join("(%s : %s)" % (n, t) for n, t in node[1]), flat(node[2])[0]), 0
    if k == "assert":   # ('assert', cond, body, comment): a `debug_assert!` - invisible in the value, a conjunct of `_safe`
        return flat(node[2])
    if k == "forallmem":   # ('forallmem', name, list, body): only in the safety predicates
        return "∀ (%s : Nat), %s ∈ %s → %s" % (node[1], node[1], wrap(node[2], 100), wrap(node[3], 25)), 0
    raise AssertionError(node)


def bare(node):
    """Component of a tuple/list: negative numerals need no parentheses there."""
    return str(node[1]) if node[0] == "num" else flat(node)[0]


def wrap(node, minprec):
    s, p = flat(node)
    return s if p >= minprec else "(" + s + ")"


def has_binder(node):
    """Does the term contain a `let`/`match` (then it is laid out over several lines)?"""
    k = node[0]
    if k in ("let", "match", "com", "assert"):
        return True
    if k == "inl":
        return False
    if k in ("atom", "num"):
        return False
    for x in node[1:]:
        if isinstance(x, tuple) and x and isinstance(x[0], str) and has_binder(x):
            return True
        if isinstance(x, list):
            for y in x:
                if isinstance(y, tuple) and y and isinstance(y[0], str) and has_binder(y):
                    return True
    return False


def layout(node, ind):
    """Multi-line rendering at indentation `ind`: list of lines."""
    pad = " " * ind
    k = node[0]
    if k == "com":
        return [pad + "-- " + node[1]] + layout(node[2], ind)
    if k == "assert":
        return ([pad + "-- " + node[3]] if node[3] else []) + layout(node[2], ind)
    if k == "app" and any(a[0] == "lamT" and has_binder(a[2]) for a in node[2]):
        # an application whose arguments are multi-line lambdas (loops, folds): one argument per line
        out = [pad + node[1]]
        for a in node[2]:
            if a[0] == "lamT":
                out.append("%s  (fun %s =>" % (pad, " ".join("(%s : %s)" % (n, t) for n, t in a[1])))
                out.extend(layout(a[2], ind + 6))
                out[-1] += ")"
            else:
                out.append(pad + "  " + wrap(a, 100))
        return out
    if k == "let":
        out = []
        if node[4]:
            out.append(pad + "-- " + node[4])
        val = node[2]
        s = flat(val)[0]
        if not has_binder(val) and len(pad) + len(s) + len(node[1]) + 8 <= WIDTH:
            out.append("%slet %s := %s" % (pad, node[1], s))
        else:
            out.append("%slet %s :=" % (pad, node[1]))
            out.extend(layout(val, ind + 2))
        out.extend(layout(node[3], ind))
        return out
    if k == "ite":
        s = flat(node)[0]
        out = []
        if node[4]:
            out.append(pad + "-- " + node[4])
        if not has_binder(node) and len(pad) + len(s) <= WIDTH:
            return out + [pad + s]
        out.append("%sif %s then" % (pad, flat(node[1])[0]))
        out.extend(layout(node[2], ind + 2))
        els = node[3]
        while True:
            com = None
            inner = els
            if inner[0] == "com" and inner[2][0] == "ite":
                com, inner = inner[1], inner[2]
            if inner[0] != "ite":
                break
            for c in (com, inner[4]):
                if c:
                    out.append(pad + "-- " + c)
            out.append("%selse if %s then" % (pad, flat(inner[1])[0]))
            out.extend(layout(inner[2], ind + 2))
            els = inner[3]
        out.append(pad + "else")
        out.extend(layout(els, ind + 2))
        return out
    if k == "match":
        out = []
        if node[3]:
            out.append(pad + "-- " + node[3])
        out.append("%smatch %s with" % (pad, flat(node[1])[0]))
        for p, b in node[2]:
            s = flat(b)[0]
            if not has_binder(b) and len(pad) + len(s) + len(p) + 6 <= WIDTH:
                out.append("%s| %s => %s" % (pad, p, s))
            else:
                out.append("%s| %s =>" % (pad, p))
                out.extend(layout(b, ind + 4))
        return out
    if k == "bin" and node[1] == "∧" and (has_binder(node) or len(pad) + len(flat(node)[0]) > WIDTH):
        parts = conjuncts(node)
        out = []
        for i, c in enumerate(parts):
            last = i == len(parts) - 1
            if last and c[0] in ("let", "com"):
                out.extend(layout(c, ind))
            else:
                lines = layout_paren(c, ind)
                if not last:
                    lines[-1] += " ∧"
                out.extend(lines)
        return out
    if k == "imp" and (has_binder(node) or len(pad) + len(flat(node)[0]) > WIDTH):
        return layout_paren(node, ind)
    if has_binder(node):
        # a binder nested inside an operator/application: fall back to the one-line form
        return [pad + flat(node)[0]]
    return [pad + flat(node)[0]]


def conjuncts(node):
    if node[0] == "bin" and node[1] == "∧":
        return conjuncts(node[2]) + conjuncts(node[3])
    return [node]


def layout_paren(node, ind):
    """A conjunct / hypothesis-conclusion pair as a self-delimited block."""
    pad = " " * ind
    s, prec = flat(node)
    if not has_binder(node) and len(pad) + len(s) + 2 <= WIDTH:
        return [pad + (s if prec > 35 else "(" + s + ")")]
    if node[0] == "imp":
        lines = ["%s(%s →" % (pad, wrap(node[1], 26))] + layout(node[2], ind + 2)
    else:
        inner = layout(node, ind + 1)
        lines = [pad + "(" + inner[0].lstrip()] + inner[1:]
    lines[-1] += ")"
    return lines


def A(s):
    return ("atom", s)


def mk_let(name, val, body, comment=None):
    return ("let", name, val, body, comment)

# ----------------------------------------------------------------------------------------------
# 4. Typing and translation
# ----------------------------------------------------------------------------------------------
# Rust types as seen by the translator:
#   'i32' 'i64' 'u32' 'u64' 'usize' ... | 'lit' (unsuffixed integer literal, adapts to its context)
#   'bool' | 'unit' | 'never' (a branch that returned)
#   ('tuple', (ts)) | ('nt', Name) (a one-field tuple struct = its raw integer) | ('enum', Name)
#   ('result', t | None) | ('option', t | None) | ('array', t)

INT_RANGE = {
    "i8": (-2 ** 7, 2 ** 7 - 1), "i16": (-2 ** 15, 2 ** 15 - 1), "i32": (-2 ** 31, 2 ** 31 - 1),
    "i64": (-2 ** 63, 2 ** 63 - 1), "isize": (-2 ** 63, 2 ** 63 - 1),
    "u8": (0, 2 ** 8 - 1), "u16": (0, 2 ** 16 - 1), "u32": (0, 2 ** 32 - 1), "u64": (0, 2 ** 64 - 1),
    "usize": (0, 2 ** 64 - 1),
}
CAST_FN = {"i8": "asI8", "i16": "asI16", "i32": "asI32", "i64": "asI64", "isize": "asI64",
           "u8": "asU8", "u16": "asU16", "u32": "asU32", "u64": "asU64", "usize": "asU64"}
FITS_FN = {"i8": "fitsI8", "i16": "fitsI16", "i32": "fitsI32", "i64": "fitsI64", "isize": "fitsI64",
           "u8": "fitsU8", "u16": "fitsU16", "u32": "fitsU32", "u64": "fitsU64", "usize": "fitsU64"}
CHECKED_FN = {"i32": "checkedI32", "i64": "checkedI64", "u32": "checkedU32", "u64": "checkedU64",
              "usize": "checkedU64", "isize": "checkedI64"}
LEAN_RESERVED = set("""end at from in then do have show open local where with fun instance section namespace
variable universe theorem def example macro syntax notation prefix infix infixl infixr postfix private protected
partial mutual deriving extends structure class inductive abbrev axiom attribute export import by calc this
suffices obtain Type Prop Sort nomatch nofun forall exists if else match let return mut for unless""".split())


def is_int(t):
    return isinstance(t, str) and t in INT_RANGE


def is_intlike(t):
    # 'lit': an unsuffixed literal; 'infer': a variable initialised from one (`let mut i = 0;`), whose
    # Rust type is fixed by its later uses - both adapt to the other operand
    return t in ("lit", "infer") or is_int(t)


def is_signed(t):
    return t[0] == "i"


def lean_ident(name):
    return "«%s»" % name if name in LEAN_RESERVED else name


BYTES = ("bytes",)       # `&[u8]`, `[u8; N]`, `&str`: the model's `Bytes = List Nat`
ITER = ("iter",)         # `slice::Iter<u8>` and its adaptors: the list of the items still to come
WRITER = ("writer",)     # a `W: fmt::Write` parameter: the bytes written so far
CLOCK = ("clock",)       # a `T: FnMut() -> chrono::NaiveDateTime` parameter, and what it returns: the model's `Clock`
CLOCK_FIELDS = {"year": "i32", "month": "u32", "day": "u32", "hour": "u32", "minute": "u32", "second": "u32"}


def lean_type(t):
    if t in (BYTES, ITER, WRITER):
        return "List Nat"
    if t == CLOCK:
        return "SqlDt.Clock"
    if is_intlike(t) or (isinstance(t, tuple) and t[0] in ("nt", "enum")):
        return "Int"
    if t == "bool":
        return "Bool"
    if t == "f64":
        return "F64"
    if isinstance(t, tuple) and t[0] == "struct":
        return STRUCT_MAP[t[1]][0]
    if isinstance(t, tuple) and t[0] in ("boolenum", "fnptr"):
        return "Bool"
    if t == "unit":
        return "Unit"
    if t[0] == "tuple":
        return " × ".join(lean_type_atom(x) for x in t[1])
    if t[0] == "result":
        return "Chk " + lean_type_atom(t[1] if t[1] is not None else "unit")
    if t[0] == "option":
        return "Option " + lean_type_atom(t[1] if t[1] is not None else "unit")
    if t[0] == "array":
        return "List " + lean_type_atom(t[1])
    raise Unsupported("no Lean type for %r" % (t,))


def lean_type_atom(t):
    s = lean_type(t)
    return "(%s)" % s if " " in s else s


def type_str(t):
    if isinstance(t, str):
        return t
    if t[0] == "tuple":
        return "(" + ", ".join(type_str(x) for x in t[1]) + ")"
    if t[0] in ("nt", "enum", "struct", "boolenum", "fnptr"):
        return t[1]
    if t in (BYTES, ITER, WRITER):
        return {"bytes": "&[u8]", "iter": "Iter<u8>", "writer": "impl Write"}[t[0]]
    if t == CLOCK:
        return "Clock"
    if t[0] in ("result", "option"):
        return "%s<%s>" % (t[0].capitalize(), type_str(t[1]) if t[1] is not None else "_")
    if t[0] == "array":
        return "[%s]" % type_str(t[1])
    return repr(t)


class World(object):
    """The crate plus everything derived from the configuration tables."""

    def __init__(self, crate, gen_ints, gen_tables):
        self.crate = crate
        self.gen_ints = gen_ints          # names of `def X : Int` in Generated.lean
        self.gen_tables = gen_tables      # names of `def X : List (List Int)` / `List Int`
        self.newtypes = {}                # canonical name -> inner type
        self.wl = {}                      # (impl canon or None, fn name) -> entry   ; consts: ('const', name)
        self.wl_by_type = {}              # (self type, fn name) -> entry
        self.struct_checked = {}
        for (fname, name), toks in sorted(crate.structs.items()):
            canon = FILE_TYPE_ALIASES.get(fname, {}).get(name, name)
            try:
                self.newtypes.setdefault(canon, (fname, parse_type_toks(toks)))
            except Unsupported:
                pass
        done = {}
        for canon in list(self.newtypes):
            fname, pt = self.newtypes[canon]
            done[canon] = (fname, pt)
        self.newtypes = {}
        # resolve inner types (two passes are enough for Date(Timestamp(i64)))
        for _ in range(3):
            for canon, (fname, pt) in done.items():
                if canon in self.newtypes:
                    continue
                if isinstance(pt, str) and is_int(pt):
                    self.newtypes[canon] = pt
                elif isinstance(pt, tuple) and pt[0] == "named":
                    inner = FILE_TYPE_ALIASES.get(fname, {}).get(pt[1], pt[1])
                    if inner in self.newtypes:
                        self.newtypes[canon] = ("nt", inner)

    def resolve(self, pt, fname, self_ty):
        """Parsed type -> translator type, in the naming context of `fname`."""
        if isinstance(pt, str):
            return pt
        k = pt[0]
        if k == "tuple":
            return ("tuple", tuple(self.resolve(x, fname, self_ty) for x in pt[1]))
        if k in ("result", "option"):
            return (k, self.resolve(pt[1], fname, self_ty))
        if k == "array":      # ('array', element type, length or None)
            if pt[1] == "u8":
                return BYTES      # byte slices and byte arrays are lists of `Nat`, like the model's text
            return (k, self.resolve(pt[1], fname, self_ty), self.array_size(pt[2] if len(pt) > 2 else None))
        if k == "named":
            name = pt[1]
            if name == "str":
                return BYTES
            if fname == "<whitelist>" and name == "Clock":
                return CLOCK
            if name in ("Self", "Output"):      # `Self::Output` of the operator traits
                if self_ty is None:
                    raise Unsupported("`Self` outside an impl")
                if self_ty.replace(" ", "") == "[u8]":
                    return BYTES
                name = self_ty
            else:
                name = FILE_TYPE_ALIASES.get(fname, {}).get(name, name)
            if name in FNPTR_MAP:
                return ("fnptr", name)
            if fname == "<whitelist>":
                # the types written in the whitelist are taken as given (the declarations are checked when the
                # source of a function is resolved), so that a vanished or changed type degrades its functions only
                if name in WL_NEWTYPES:
                    return ("nt", name)
                if name in WL_ENUMS:
                    return ("enum", name)
                if name in STRUCT_MAP:
                    return ("struct", name)
                if name in ENUM_AS_BOOL:
                    return ("boolenum", name)
            if name in self.newtypes:
                return ("nt", name)
            if name in self.crate.enums:
                return ("enum", name)
            if name in STRUCT_MAP:
                why = self.struct_problem(name)
                if why:
                    raise Unsupported(why)
                return ("struct", name)
            if name in ENUM_AS_BOOL:
                if self.crate.plain_enums.get(name) != list(ENUM_AS_BOOL[name]):
                    raise Unsupported("enum `%s` is no longer the two variants %s" % (name, "/".join(ENUM_AS_BOOL[name])))
                return ("boolenum", name)
            raise Unsupported("unknown type `%s`" % name)
        raise Unsupported("type %r" % (pt,))

    def struct_problem(self, name):
        """None if the Rust declaration of a mapped struct is the expected one, else the reason."""
        if name in self.struct_checked:
            return self.struct_checked[name]
        decls = [v for (f, n), v in self.crate.named_structs.items() if n == name]
        why = None
        if len(decls) != 1:
            why = "struct `%s` not found" % name
        else:
            got = [(f, toks_text(t).replace(" ", "")) for f, t in decls[0]]
            want = [(f, t.replace(" ", "")) for f, t in STRUCT_MAP[name][1]]
            if got != want:
                why = "struct `%s` is declared with other fields than the model's %s" % (name, STRUCT_MAP[name][0])
        self.struct_checked[name] = why
        return why

    def struct_fields(self, name):
        """field -> translator type"""
        return dict((f, parse_wl_type(self, t)) for f, t in STRUCT_MAP[name][1])

    def array_size(self, toks):
        """Length of `[T; N]`: a literal or a literal-valued constant (else None)."""
        if not toks or len(toks) != 1:
            return None
        t = toks[0]
        if t.kind == "int":
            return parse_int(t.text)[0]
        c = self.crate.consts.get((None, t.text)) if t.kind == "id" else None
        if c is not None and len(c.init) == 1 and c.init[0].kind == "int":
            return parse_int(c.init[0].text)[0]
        return None

    def raw_int(self, t):
        """The machine integer type underneath a (nested) newtype."""
        while isinstance(t, tuple) and t[0] == "nt":
            t = self.newtypes[t[1]]
        return t


def self_type(name):
    """The translator type of `self` in an impl of `name`."""
    if name is not None and name.replace(" ", "") == "[u8]":
        return BYTES
    return ("struct", name) if name in STRUCT_MAP else ("nt", name)


def parse_wl_type(world, s):
    return world.resolve(parse_type_toks(lex(s)), "<whitelist>", None)


def types_compatible(a, b):
    """Structural equality, where an unknown `Result<_>` payload matches anything."""
    if a == b:
        return True
    if isinstance(a, tuple) and isinstance(b, tuple) and a[0] == b[0]:
        if a[0] in ("result", "option"):
            return a[1] is None or b[1] is None or types_compatible(a[1], b[1])
        if a[0] == "tuple" and len(a[1]) == len(b[1]):
            return all(types_compatible(x, y) for x, y in zip(a[1], b[1]))
        if a[0] == "array":
            return types_compatible(a[1], b[1]) or a[1] == "lit" or b[1] == "lit"
    if a in ("lit", "infer") and is_intlike(b) or b in ("lit", "infer") and is_intlike(a):
        return True
    return False


def join_types(a, b, what):
    """The common type of two branches."""
    if a == "never":
        return b
    if b == "never":
        return a
    if a == "lit" and is_intlike(b):
        return b
    if b == "lit" and is_intlike(a):
        return a
    if a == "infer" and is_intlike(b):
        return b
    if b == "infer" and is_intlike(a):
        return a
    if a == b:
        return a
    if isinstance(a, tuple) and isinstance(b, tuple) and a[0] == b[0]:
        if a[0] in ("result", "option"):
            if a[1] is None:
                return b
            if b[1] is None:
                return a
            return (a[0], join_types(a[1], b[1], what))
        if a[0] == "tuple" and len(a[1]) == len(b[1]):
            return ("tuple", tuple(join_types(x, y, what) for x, y in zip(a[1], b[1])))
    raise Unsupported("%s: incompatible types %s and %s" % (what, type_str(a), type_str(b)))


CMP_OPS = {"==": "=", "!=": "≠", "<": "<", "<=": "≤", ">": ">", ">=": "≥"}
ERR_WITH_MESSAGE = ("ParseError", "FormatError", "InvalidFormat")     # `Error` variants with a `String` payload
ACCESSORS = ("usecs", "days", "months")


def contains_kind(node, kinds):
    """Does a Rust AST node contain a sub-node of one of the kinds (e.g. 'return')?"""
    if isinstance(node, tuple):
        if node and isinstance(node[0], str) and node[0] in kinds:
            return True
        return any(contains_kind(x, kinds) for x in node)
    if isinstance(node, list):
        return any(contains_kind(x, kinds) for x in node)
    return False


def assigned_vars(node, out):
    """Names assigned (`x = ..`, `x += ..`) anywhere inside a Rust AST node."""
    if isinstance(node, tuple):
        if node and node[0] == "assign" and node[2][0] == "path" and len(node[2][1]) == 1:
            out.add(node[2][1][0])
        if node and node[0] == "assign" and node[2][0] == "field" and node[2][1][0] == "path" and len(node[2][1][1]) == 1:
            out.add(node[2][1][1][0])      # `v.f = e` assigns `v`
        if node and node[0] == "assign" and node[2][0] == "index" and node[2][1][0] == "path" and len(node[2][1][1]) == 1:
            out.add(node[2][1][1][0])      # `v[i] = e` assigns `v`
        for x in node:
            assigned_vars(x, out)
    elif isinstance(node, list):
        for x in node:
            assigned_vars(x, out)


def add_vars_to_tail(e, mv):
    """The value expression `e` with every tail `t` replaced by the tuple `(t, mv...)`."""
    if e[0] == "block":
        if e[2] is None:
            raise Unsupported("a value block without a tail expression assigns outer variables")
        return ("block", e[1], add_vars_to_tail(e[2], mv))
    if e[0] == "if":
        if e[3] is None:
            raise Unsupported("an `if` without `else` used as a value assigns outer variables")
        return ("if", e[1], add_vars_to_tail(e[2], mv), add_vars_to_tail(e[3], mv))
    if e[0] == "match":
        return ("match", e[1], [(p, g, add_vars_to_tail(b, mv)) for p, g, b in e[2]])
    return ("tuple", [e] + [("path", [v]) for v in mv])


def let_bound(items, out):
    """Names bound by top-level `let`s of a statement list."""
    def pat_names(p):
        if p[0] == "pvar":
            out.add(p[1])
        elif p[0] == "ptuple":
            for q in p[1]:
                pat_names(q)
    for st in items:
        if st[0] == "let":
            pat_names(st[1])


def unwrap_some(node):
    """`.unwrap()` of a value that is visibly `Some(..)` on every path (so it cannot panic)."""
    k = node[0]
    if k == "app" and node[1] == "some" and len(node[2]) == 1:
        return node[2][0]
    if k == "inl":
        return ("inl", node[1], unwrap_some(node[2]), node[3])
    if k == "let":
        return ("let", node[1], node[2], unwrap_some(node[3]), node[4])
    if k == "ite":
        return ("ite", node[1], unwrap_some(node[2]), unwrap_some(node[3]), node[4])
    if k == "com":
        return ("com", node[1], unwrap_some(node[2]))
    raise Unsupported("`.unwrap()` of an Option that is not visibly `Some(..)` (it could panic)")


def float_literal(text):
    """A Rust float literal as a term of the model's soft-float `F64` (exact: integer-valued literals below 2^53 as
    `F64.ofInt n`, everything else by its IEEE-754 bit pattern)."""
    t = text.replace("_", "")
    for suf in ("f64", "f32"):
        if t.endswith(suf):
            if suf == "f32":
                raise Unsupported("f32 literal")
            t = t[:-len(suf)]
    v = float(t)
    if v == int(v) and abs(v) < 2 ** 53 and not (v == 0 and str(v).startswith("-")):
        return ("app", "F64.ofInt", [("num", int(v))])
    bits = struct.unpack(">Q", struct.pack(">d", v))[0]
    return ("app", "F64.ofBits", [A("0x%016x" % bits)])


def is_float_zero(e):
    return (e[0] == "float" and float(e[1].replace("_", "").replace("f64", "")) == 0.0)


F64_CONSTS = {"INFINITY": ("app", "F64.inf", [A("false")]), "NEG_INFINITY": ("app", "F64.inf", [A("true")]),
              "NAN": A("F64.nan"), "MAX": ("app", "F64.ofBits", [A("0x7fefffffffffffff")]),
              "MIN": ("app", "F64.ofBits", [A("0xffefffffffffffff")]),
              "EPSILON": ("app", "F64.ofBits", [A("0x3cb0000000000000")]),
              "MIN_POSITIVE": ("app", "F64.ofBits", [A("0x0010000000000000")])}
F64_TO_INT = {"i64": "F64.toI64", "i32": "F64.toI32", "u32": "F64.toU32"}
U8_PREDICATES = {"is_ascii_digit": "isAsciiDigit", "is_ascii_whitespace": "isAsciiWhitespace",
                 "is_ascii_uppercase": "isAsciiUppercase", "is_ascii_lowercase": "isAsciiLowercase"}


def eval_prop(node):
    """Truth value of a closed condition (numerals only), else None."""
    k = node[0]
    if k == "atom" and node[1] in ("True", "False"):
        return node[1] == "True"
    if k == "not":
        v = eval_prop(node[1])
        return None if v is None else not v
    if k == "bin" and node[1] in ("∧", "∨"):
        a, b = eval_prop(node[2]), eval_prop(node[3])
        if a is None or b is None:
            return None
        return (a and b) if node[1] == "∧" else (a or b)
    if k == "bin" and node[2][0] == "num" and node[3][0] == "num":
        a, b = node[2][1], node[3][1]
        return {"=": a == b, "≠": a != b, "<": a < b, "≤": a <= b, ">": a > b, "≥": a >= b}.get(node[1])
    return None


class Translator(object):
    """Translates one function body (or constant initialiser)."""

    def __init__(self, world, fname, self_ty, depth=0, top=None):
        self.w = world
        self.file = fname
        self.self_ty = self_ty
        self.depth = depth
        self.top = top or self            # the translator of the whitelisted item (collects deps)
        self.deps = set()
        self.inlined = []
        self.try_binds = None
        self.counter = 0
        self.assign_ok = 0
        self.unrolled = 0
        self.ret_type = None
        self.notes = []                   # remarks for the status file (loop fuel, dropped sink parameter, contracts)
        self.loop_ret = 0                 # > 0 inside the body of a search loop: `return e` is `some e`, falling through `none`
        self.contracts = False            # phase 6: `debug_assert!(c)` becomes a conjunct of the safety predicate
        self.writer_var = None            # the `W: fmt::Write` parameter of the function being translated

    # ---- small helpers
    def src_comment(self, line):
        lines = self.w.crate.lines.get(self.file, [])
        text = lines[line - 1].strip() if 0 < line <= len(lines) else ""
        # the Lean files are scanned for forbidden tokens (`unsafe`, ...): keep the Rust keyword out of comments
        text = re.sub(r"\b(unsafe|sorry|admit|axiom)\b\s*", "", text).replace("-/", "- /")
        return "%s:%d: %s" % (self.file, line, text)

    def fresh(self, base):
        self.top.counter += 1
        return "%s%d" % (base, self.top.counter)

    def resolve(self, pt):
        return self.w.resolve(pt, self.file, self.self_ty)

    def type_name(self, name):
        """A path segment used as a type: canonical newtype / enum name, or None."""
        if name == "Self":
            return self.self_ty
        name = FILE_TYPE_ALIASES.get(self.file, {}).get(name, name)
        if name in self.w.newtypes or name in self.w.crate.enums or name in STRUCT_MAP or name in ENUM_AS_BOOL:
            return name
        return None

    def static_value(self, e, depth=0):
        """Integer value of a compile-time constant expression, or None."""
        k = e[0]
        if depth > 8:
            return None
        if k == "int":
            return e[1]
        if k == "ref":
            return self.static_value(e[1], depth + 1)
        if k == "unary" and e[1] == "-":
            v = self.static_value(e[2], depth + 1)
            return None if v is None else -v
        if k == "cast":
            v = self.static_value(e[1], depth + 1)
            try:
                t = self.resolve(e[2])
            except Unsupported:
                return None
            if v is not None and is_int(t) and INT_RANGE[t][0] <= v <= INT_RANGE[t][1]:
                return v
            return None
        if k == "binary" and e[1] in ("+", "-", "*"):
            a, b = self.static_value(e[2], depth + 1), self.static_value(e[3], depth + 1)
            if a is None or b is None:
                return None
            return a + b if e[1] == "+" else a - b if e[1] == "-" else a * b
        if k == "path":
            segs = e[1]
            if len(segs) == 1:
                c = self.w.crate.consts.get((None, segs[0]))
                if c is not None:
                    try:
                        sub = Translator(self.w, c.file, None, self.depth + 1, self.top)
                        return sub.static_value(parse_expr_toks(c.init), depth + 1)
                    except Unsupported:
                        return None
            if len(segs) == 2 and segs[0] in INT_RANGE and segs[1] in ("MIN", "MAX"):
                return INT_RANGE[segs[0]][0 if segs[1] == "MIN" else 1]
            if len(segs) == 2 and segs[0] in self.w.crate.enums and segs[1] in self.w.crate.enums[segs[0]]:
                return self.w.crate.enums[segs[0]][segs[1]]
        return None

    def is_const_like(self, e, env):
        """No local variable occurs in the expression."""
        if e[0] == "path":
            return not (len(e[1]) == 1 and e[1][0] in env)
        if e[0] in ("int", "bool"):
            return True
        if e[0] in ("unary",):
            return self.is_const_like(e[2], env)
        if e[0] == "cast":
            return self.is_const_like(e[1], env)
        if e[0] == "binary":
            return self.is_const_like(e[2], env) and self.is_const_like(e[3], env)
        return False

    def positive_table_entry(self, e):
        """`TABLE[i]` / `TABLE[i] as T` for a file-level table of positive integer literals (a divisor that `rdiv`/`rrem`
        model; the index bound and `≠ 0` are obligations of `_safe`)."""
        while e[0] in ("cast", "ref"):
            e = e[1]
        if not (e[0] == "index" and e[1][0] == "path" and len(e[1][1]) == 1):
            return False
        c = self.w.crate.consts.get((None, e[1][1][0]))
        if c is None:
            return False
        toks = [t for t in c.init if t.text not in ("[", "]", ",")]
        return bool(toks) and all(t.kind == "int" and parse_int(t.text)[0] > 0 for t in toks)

    def unify_int(self, lt, rt, what):
        if lt == "lit":
            return rt
        if rt == "lit":
            return lt
        if lt == "infer":
            return rt
        if rt == "infer":
            return lt
        if lt == rt:
            return lt
        raise Unsupported("%s: operand types %s and %s differ" % (what, type_str(lt), type_str(rt)))

    def cast(self, node, s, t, static):
        """`node as t` where node has type s."""
        if s == t:
            return node, t
        if t == "f64" and is_intlike(s):
            return ("app", "F64.ofInt", [node]), "f64"      # `n as f64`: round to nearest even (exact below 2^53)
        if s == "f64":
            if t in F64_TO_INT:
                return ("app", F64_TO_INT[t], [node]), t    # saturating, NaN -> 0
            raise Unsupported("cast from f64 to %s (the model's soft-float has `as i64/i32/u32` only)" % type_str(t))
        if s == "bool" and is_int(t):
            return ("app", "boolToInt", [node]), t
        if isinstance(s, tuple) and s[0] == "enum" and is_int(t):
            return node, t
        if is_intlike(s) and is_int(t):
            lo, hi = INT_RANGE[t]
            if static is not None:
                if lo <= static <= hi:
                    return node, t
            elif s not in ("lit", "infer") and lo <= INT_RANGE[s][0] and INT_RANGE[s][1] <= hi:
                return node, t
            elif s == "lit":
                return node, t
            elif s == "infer":
                raise Unsupported("cast of a variable whose integer type is not annotated")
            return ("app", CAST_FN[t], [node]), t
        raise Unsupported("cast from %s to %s" % (type_str(s), type_str(t)))

    # ---- propositions (conditions)
    def tr_prop(self, e, env):
        k = e[0]
        if k == "binary" and e[1] in ("&&", "||"):
            l = self.tr_prop(e[2], env)
            saved, self.try_binds = self.try_binds, None     # rhs is evaluated conditionally
            try:
                r = self.tr_prop(e[3], env)
            finally:
                self.try_binds = saved
            return ("bin", "∧" if e[1] == "&&" else "∨", l, r)
        if k == "binary" and e[1] in ("==", "!=") and (is_float_zero(e[2]) or is_float_zero(e[3])):
            other = e[3] if is_float_zero(e[2]) else e[2]
            n, t = self.tr_expr(other, env, "f64")
            if t != "f64":
                raise Unsupported("comparison of %s with 0.0" % type_str(t))
            z = ("bin", "=", ("app", "F64.isZero", [n]), A("true"))
            return z if e[1] == "==" else ("not", z)
        if k == "binary" and e[1] in CMP_OPS:
            ln, lt = self.tr_expr(e[2], env, None)
            rn, rt = self.tr_expr(e[3], env, lt if is_int(lt) else None)
            if lt == "lit" and is_int(rt):
                ln, lt = self.tr_expr(e[2], env, rt)
            if is_intlike(lt) and is_intlike(rt):
                self.unify_int(lt, rt, "comparison")
            elif lt == rt and (lt == "bool" or (isinstance(lt, tuple) and lt[0] == "enum")) and e[1] in ("==", "!="):
                pass
            elif lt == rt and isinstance(lt, tuple) and lt[0] == "nt":
                pass        # derived PartialEq/PartialOrd of a one-field struct = comparison of the field
            elif e[1] in ("==", "!=") and all(isinstance(x, tuple) and x[0] == "option" and (x[1] is None or is_intlike(x[1]))
                                              for x in (lt, rt)) and (lt[1] is None or rt[1] is None or
                                                                      self.unify_int(lt[1], rt[1], "comparison")):
                pass        # `Option<integer>` equality (`s.first() == Some(&c)`)
            elif "f64" in (lt, rt):
                raise Unsupported("float comparison `%s` (the model's soft-float has only `== 0.0`)" % e[1])
            else:
                raise Unsupported("comparison of %s with %s" % (type_str(lt), type_str(rt)))
            return ("bin", CMP_OPS[e[1]], ln, rn)
        if k == "unary" and e[1] == "!":
            return ("not", self.tr_prop(e[2], env))
        if k == "bool":
            return A("True" if e[1] else "False")
        if k == "mcall" and e[2] == "contains" and len(e[3]) == 1 and e[1][0] == "range":
            # `(lo..=hi).contains(&x)` / `(lo..hi).contains(&x)`
            lo, hi, incl = e[1][1], e[1][2], e[1][3]
            xn, xt = self.tr_expr(e[3][0], env, None)
            if not is_intlike(xt):
                raise Unsupported("`.contains()` of a %s" % type_str(xt))
            parts = []
            for bound, op in ((lo, "lo"), (hi, "hi")):
                if bound is None:
                    continue
                bn, bt = self.tr_expr(bound, env, xt if is_int(xt) else None)
                if not is_intlike(bt):
                    raise Unsupported("range bound of type %s" % type_str(bt))
                self.unify_int(xt, bt, "`.contains()`")
                parts.append(("bin", "≤", bn, xn) if op == "lo" else ("bin", "≤" if incl else "<", xn, bn))
            if not parts:
                return A("True")
            return parts[0] if len(parts) == 1 else ("bin", "∧", parts[0], parts[1])
        if k == "mcall" and e[2] in ("is_negative", "is_positive") and not e[3]:
            n, t = self.tr_expr(e[1], env, None)
            if not is_int(t) or not is_signed(t):
                raise Unsupported("`.%s()` on %s" % (e[2], type_str(t)))
            return ("bin", "<" if e[2] == "is_negative" else ">", n, ("num", 0))
        n, t = self.tr_expr(e, env, "bool")
        if t != "bool":
            raise Unsupported("condition of type %s" % type_str(t))
        if n[0] == "app" and n[1] == "decide" and len(n[2]) == 1:
            return n[2][0]
        return ("bin", "=", n, A("true"))

    def is_prop_form(self, e):
        return (e[0] == "binary" and (e[1] in CMP_OPS or e[1] in ("&&", "||"))) or \
               (e[0] == "unary" and e[1] == "!") or \
               (e[0] == "mcall" and e[2] in ("is_negative", "is_positive")) or \
               (e[0] == "mcall" and e[2] == "contains" and e[1][0] == "range")

    # ---- expressions
    def tr_expr(self, e, env, want):
        k = e[0]
        if self.is_prop_form(e):
            return ("app", "decide", [self.tr_prop(e, env)]), "bool"
        if k == "int":
            if e[2]:
                return ("num", e[1]), e[2]
            return ("num", e[1]), (want if is_int(want) else "lit")
        if k == "bool":
            return A("true" if e[1] else "false"), "bool"
        if k == "float":
            return float_literal(e[1]), "f64"
        if k == "ref":
            return self.tr_expr(e[1], env, want)
        if k == "str":
            if not e[2]:
                raise Unsupported("string literal (only byte strings `b\"..\"` and error messages are supported)")
            return ("list", [("num", b) for b in e[1]]), BYTES
        if k == "repeat":
            cnt = self.static_value(e[2])
            en, et = self.tr_expr(e[1], env, "u8")
            if cnt is None or cnt < 0 or et not in ("u8", "lit"):
                raise Unsupported("array repeat expression other than `[byte; N]`")
            return ("app", "List.replicate", [("num", cnt), en if en[0] == "num" else ("app", "Int.toNat", [en])]), BYTES
        if k == "range":
            raise Unsupported("range expression (only as a slice index and in `(a..=b).contains(&x)`)")
        if k == "closure":
            raise Unsupported("closure (only as an argument of take_while / position / all / any / fold)")
        if k == "structlit":
            sty = self.resolve(("named", e[1]))
            ftypes = self.w.struct_fields(e[1])
            fields = []
            for f, fe in e[2]:
                if f not in ftypes:
                    raise Unsupported("struct %s has no field `%s`" % (e[1], f))
                n, t = self.tr_expr(fe, env, ftypes[f])
                if not types_compatible(t, ftypes[f]):
                    raise Unsupported("field `%s: %s` initialised with %s" % (f, type_str(ftypes[f]), type_str(t)))
                fields.append((f, n))
            base = None
            if e[3] is not None:
                base, bt = self.tr_expr(e[3], env, sty)
                if bt != sty:
                    raise Unsupported("functional update from %s" % type_str(bt))
            elif set(f for f, _ in fields) != set(ftypes):
                raise Unsupported("struct literal without all fields")
            return ("struct", lean_type(sty), base, fields), sty
        if k == "path":
            return self.tr_path(e[1], env, want)
        if k == "unary":     # '-'
            n, t = self.tr_expr(e[2], env, want)
            if isinstance(t, tuple) and t[0] == "nt":
                return self.method_call(n, t, "neg", [], env)
            if t == "f64":
                return ("app", "F64.neg", [n]), "f64"
            if not is_intlike(t):
                raise Unsupported("unary minus on %s" % type_str(t))
            if is_int(t) and not is_signed(t):
                raise Unsupported("unary minus on unsigned %s" % t)
            if n[0] == "num":
                return ("num", -n[1]), t
            return (("neg", n, t) if is_int(t) else ("neg", n)), t
        if k == "binary":
            return self.tr_binary(e, env, want)
        if k == "cast":
            t = self.resolve(e[2])
            n, s = self.tr_expr(e[1], env, None)
            return self.cast(n, s, t, self.static_value(e[1]))
        if k == "tuple":
            if not e[1]:
                return ("tuple", []), "unit"
            wants = want[1] if isinstance(want, tuple) and want[0] == "tuple" and len(want[1]) == len(e[1]) \
                else [None] * len(e[1])
            parts = [self.tr_expr(x, env, w) for x, w in zip(e[1], wants)]
            tys = tuple(w if (t == "lit" and is_int(w)) else t for (n, t), w in zip(parts, wants))
            return ("tuple", [n for n, _ in parts]), ("tuple", tys)
        if k == "array":
            elw = want[1] if isinstance(want, tuple) and want[0] == "array" else None
            parts = [self.tr_expr(x, env, elw) for x in e[1]]
            ty = elw
            for _, t in parts:
                ty = t if ty is None else join_types(ty, t, "array literal")
            return ("list", [n for n, _ in parts]), ("array", ty if ty is not None else "lit", len(parts))
        if k == "field":
            n, t = self.tr_expr(e[1], env, None)
            if isinstance(t, tuple) and t[0] == "tuple" and e[2].isdigit() and int(e[2]) < len(t[1]):
                i = int(e[2])
                if n[0] == "tuple":
                    return n[1][i], t[1][i]
                return ("proj", n, i, len(t[1])), t[1][i]
            if isinstance(t, tuple) and t[0] == "nt" and e[2] == "0":
                return n, self.w.newtypes[t[1]]
            if isinstance(t, tuple) and t[0] == "struct" and e[2] in self.w.struct_fields(t[1]):
                return ("fld", n, e[2]), self.w.struct_fields(t[1])[e[2]]
            raise Unsupported("field `.%s` of %s" % (e[2], type_str(t)))
        if k == "index":
            n, t = self.tr_expr(e[1], env, None)
            if t == BYTES:
                return self.bytes_index(n, e[2], env)
            if not (isinstance(t, tuple) and t[0] == "array"):
                raise Unsupported("indexing a %s" % type_str(t))
            ix, it = self.tr_expr(e[2], env, "usize")
            if it not in ("usize", "lit", "infer"):
                raise Unsupported("index of type %s" % type_str(it))
            el = t[1]
            elems = n[1] if n[0] == "list" else None
            if elems is None and e[1][0] == "path" and len(e[1][1]) == 1:
                elems = env.get("$l", {}).get(e[1][1][0])
            if elems is not None and ix[0] == "num" and 0 <= ix[1] < len(elems):
                return elems[ix[1]], (el if el != "lit" else "i32")
            length = len(elems) if elems is not None else (t[2] if len(t) > 2 else None)
            if is_intlike(el):
                return ("app", "idxD", [n, ix, ("num", 0)], ("idx", length)), (el if el != "lit" else "i32")
            if isinstance(el, tuple) and el[0] == "array":
                return ("app", "idxD", [n, ix, A("[]")], ("idx", length)), el
            if el == "f64":
                return ("app", "idxD", [n, ix, ("app", "F64.ofInt", [("num", 0)])], ("idx", length)), el
            if isinstance(el, tuple) and el[0] == "tuple" and all(
                    is_intlike(c) or (isinstance(c, tuple) and c[0] == "fnptr") for c in el[1]):
                dflt = ("tuple", [A("false") if isinstance(c, tuple) else ("num", 0) for c in el[1]])
                return ("app", "idxD", [n, ix, dflt], ("idx", length)), el
            raise Unsupported("indexing an array of %s" % type_str(el))
        if k in ("block", "if", "match") and not self.assign_ok:
            names = set()
            assigned_vars(e, names)
            lost = [v for v in env if v in names and not v.startswith("$")]
            if lost:
                raise Unsupported("assignment to the outer variable `%s` inside an expression whose value is used" % lost[0])
        if k == "block":
            if not e[1] and e[2] is not None:
                return self.tr_expr(e[2], env, want)
            items = list(e[1]) + ([("tail", e[2])] if e[2] is not None else [])
            saved, self.try_binds = self.try_binds, None
            try:
                return self.seq(items, dict(env), "value", None, want)
            finally:
                self.try_binds = saved
        if k == "if":
            return self.tr_if_value(e, env, want, "value")
        if k == "match":
            return self.tr_match(e, env, want, "value", [])
        if k == "call":
            return self.tr_call(e[1], e[2], env, want)
        if k == "mcall":
            if e[2] == "len" and not e[3] and e[1][0] == "path" and len(e[1][1]) == 1 \
                    and e[1][1][0] in env.get("$l", {}):
                return ("num", len(env["$l"][e[1][1][0]])), "usize"
            if e[2] == "into" and not e[3]:
                # `.into()`: only where the expected type is known (`Ok(x.into())`, an annotated `let`, an argument)
                # and a whitelisted `From` impl exists
                if not (isinstance(want, tuple) and want[0] == "nt"):
                    raise Unsupported("`.into()` whose target type is not evident from the context")
                a = self.tr_expr(e[1], env, None)
                if a[1] == want:
                    return a
                ent = self.w.wl.get(("From<%s> for %s" % (type_str(a[1]), want[1]), "from"))
                if ent is None:
                    raise Unsupported("conversion `%s -> %s` is not whitelisted" % (type_str(a[1]), want[1]))
                return self.call_entry(ent, [a])
            n, t = self.tr_expr(e[1], env, None)
            return self.method_call(n, t, e[2], e[3], env)
        if k == "try":
            if self.try_binds is None:
                raise Unsupported("`?` in a position that is not evaluated unconditionally at statement level")
            n, t = self.tr_expr(e[1], env, None)
            if not (isinstance(t, tuple) and t[0] == "result" and t[1] is not None):
                raise Unsupported("`?` on %s" % type_str(t))
            tmp = self.fresh("r")
            self.try_binds.append((tmp, n))
            return A(tmp), t[1]
        if k == "return":
            raise Unsupported("`return` inside an expression")
        if k == "macro":
            raise Unsupported("macro `%s!`" % e[1])
        raise Unsupported("expression kind %s" % k)

    def usize_arg(self, e, env, what):
        n, t = self.tr_expr(e, env, "usize")
        if t not in ("usize", "lit", "infer"):
            raise Unsupported("%s of type %s" % (what, type_str(t)))
        return n

    def bytes_index(self, n, ix, env):
        """`s[i]`, `s[lo..]`, `s[..hi]`, `s[lo..hi]` on a byte slice (bounds are obligations of `_safe`)."""
        if ix[0] == "range":
            lo, hi, incl = ix[1], ix[2], ix[3]
            if incl:
                raise Unsupported("inclusive range as a slice index")
            if lo is None and hi is None:
                return n, BYTES
            if hi is None:
                return ("app", "bFrom", [n, self.usize_arg(lo, env, "slice bound")], ("bfrom",)), BYTES
            if lo is None:
                return ("app", "bTo", [n, self.usize_arg(hi, env, "slice bound")], ("bto",)), BYTES
            return ("app", "bSlice", [n, self.usize_arg(lo, env, "slice bound"), self.usize_arg(hi, env, "slice bound")],
                    ("bslice",)), BYTES
        return ("app", "bGet", [n, self.usize_arg(ix, env, "index")], ("bidx",)), "u8"

    def closure_lambda(self, cl, env, ptypes, want):
        """A closure argument of an iterator idiom as a typed Lean lambda.  `ptypes`: Rust types of the parameters
        ('u8' parameters are items of the byte list: bound as `Nat`, used as `Int.ofNat x`).  Returns (lambda, type)."""
        if cl[0] != "closure":
            raise Unsupported("a function value where a closure literal is expected")
        if len(cl[1]) != len(ptypes):
            raise Unsupported("closure with %d parameters (expected %d)" % (len(cl[1]), len(ptypes)))
        env2 = dict(env)
        for key in ("$k", "$l"):
            env2[key] = dict(env.get(key, {}))
        nat = set(env.get("$b", ()))
        binders = []
        for pat, pt in zip(cl[1], ptypes):
            if pat[0] == "pwild":
                binders.append((self.fresh("_x"), "Nat" if pt == "u8" else lean_type(pt)))
                continue
            if pat[0] != "pvar":
                raise Unsupported("closure parameter pattern kind %s" % pat[0])
            name = pat[1]
            env2[name] = pt
            for key in ("$k", "$l"):
                env2[key].pop(name, None)
            if pt == "u8":
                nat.add(name)
                binders.append((lean_ident(name), "Nat"))
            else:
                nat.discard(name)
                binders.append((lean_ident(name), lean_type(pt if pt != "infer" else "i32")))
        env2["$b"] = nat
        saved, self.try_binds = self.try_binds, None
        saved_ok, self.assign_ok = self.assign_ok, 0
        try:
            bn, bt = self.tr_expr(cl[2], env2, want)
        finally:
            self.try_binds = saved
            self.assign_ok = saved_ok
        return ("lamT", binders, bn), bt

    def tr_path(self, segs, env, want):
        w = self.w
        if len(segs) > 2:
            segs = segs[-2:]
        if len(segs) == 1:
            name = segs[0]
            if name in env and name in env.get("$b", ()):       # an item of a byte list, bound as a `Nat`
                return ("app", "Int.ofNat", [A(lean_ident(name))]), env[name]
            if name in env:
                if name in env.get("$k", {}):      # constant propagation (needed to unroll counted loops)
                    return ("num", env["$k"][name]), env[name]
                return A(lean_ident(name)), env[name]
            if name == "None":
                return A("none"), ("option", None)
            for fp, vals in FNPTR_MAP.items():
                if name in vals and isinstance(want, tuple) and want == ("fnptr", fp):
                    return A(vals[name]), ("fnptr", fp)
            c = w.crate.consts.get((None, name))
            if c is not None:
                return self.const_ref(c, want)
            hits = [(en, v[name]) for en, v in w.crate.enums.items() if name in v]
            if len(hits) == 1:
                return ("num", hits[0][1]), ("enum", hits[0][0])
            raise Unsupported("unknown identifier `%s`" % name)
        head, name = segs
        if head in INT_RANGE and name in ("MIN", "MAX"):
            return ("num", INT_RANGE[head][0 if name == "MIN" else 1]), head
        if head == "f64":
            if name in F64_CONSTS:
                return F64_CONSTS[name], "f64"
            raise Unsupported("constant f64::%s" % name)
        tn = self.type_name(head)
        if tn is not None and tn in ENUM_AS_BOOL:
            self.resolve(("named", tn))
            if name in ENUM_AS_BOOL[tn]:
                return A(ENUM_AS_BOOL[tn][name]), ("boolenum", tn)
            raise Unsupported("unknown variant %s::%s" % (head, name))
        if tn is not None and tn in w.crate.enums:
            if name in w.crate.enums[tn]:
                return ("num", w.crate.enums[tn][name]), ("enum", tn)
            raise Unsupported("unknown variant %s::%s" % (head, name))
        if tn is not None:
            c = w.crate.consts.get((tn, name))
            if c is not None:
                return self.const_ref(c, want)
        raise Unsupported("unknown path `%s::%s`" % (head, name))

    def const_ref(self, c, want):
        """A named constant: Generated.lean name, whitelisted derived constant, or inlined initialiser."""
        w = self.w
        self_ty = impl_self_type(c.file, c.impl) if c.impl else None
        sub = Translator(w, c.file, self_ty, self.depth + 1, self.top)
        ty = sub.resolve(parse_type_toks(c.ty))
        if c.impl is None:
            if c.name in w.gen_ints and (is_int(ty) or (isinstance(ty, tuple) and ty[0] == "enum")):
                return A(c.name), ty
            if c.name in w.gen_tables and isinstance(ty, tuple) and ty[0] == "array":
                return A(c.name), ty
            ent = w.wl.get(("const", c.name))
            if ent is not None:
                self.top.deps.add(ent["lean"])
                return A("Tr." + ent["lean"]), ty
        if self.depth > 6:
            raise Unsupported("constant `%s`: nesting too deep" % c.name)
        n, t = sub.tr_expr(parse_expr_toks(c.init), {}, ty)
        if not types_compatible(t, ty):
            raise Unsupported("constant `%s`: initialiser has type %s, declared %s" % (c.name, type_str(t), type_str(ty)))
        return n, ty

    def tr_binary(self, e, env, want):
        op = e[1]
        wi = want if is_int(want) else None
        if op in ("<<", ">>"):
            n, t = self.tr_expr(e[2], env, wi)
            k = self.static_value(e[3])
            if k is None or not (0 <= k < 64) or not is_intlike(t):
                raise Unsupported("shift by a non-constant amount")
            rt = t if t != "lit" else "i32"
            if op == "<<" and is_int(rt):
                return ("bin", "*", n, ("num", 2 ** k), rt), rt       # the shifted value must still fit (stricter than Rust)
            return ("bin", "*" if op == "<<" else "/", n, ("num", 2 ** k)), rt
        if op == "&":
            for a, b in ((e[2], e[3]), (e[3], e[2])):
                m = self.static_value(b)
                if m is not None and m > 0 and (m & (m + 1)) == 0:
                    n, t = self.tr_expr(a, env, wi)
                    if not is_intlike(t):
                        break
                    # two's complement: `x & (2^k - 1)` is the non-negative remainder modulo 2^k
                    return ("bin", "%", n, ("num", m + 1)), (t if t != "lit" else "i32")
            raise Unsupported("bitwise `&` (only `x & (2^k - 1)` is supported)")
        if op in ("|", "^"):
            raise Unsupported("bitwise `%s`" % op)
        ln, lt = self.tr_expr(e[2], env, wi)
        rn, rt = self.tr_expr(e[3], env, lt if is_int(lt) else wi)
        if lt == "lit" and is_int(rt):
            ln, lt = self.tr_expr(e[2], env, rt)
        if lt == "f64" and rt == "f64":
            if op in ("*", "/"):
                return ("app", "F64.mul" if op == "*" else "F64.div", [ln, rn]), "f64"
            raise Unsupported("float `%s` (the model's soft-float has `*`, `/` and unary `-` only)" % op)
        if not (is_intlike(lt) and is_intlike(rt)):
            raise Unsupported("`%s` on %s and %s" % (op, type_str(lt), type_str(rt)))
        t = self.unify_int(lt, rt, "`%s`" % op)
        if op in ("+", "-", "*"):
            if ln[0] == "num" and rn[0] == "num":
                v = ln[1] + rn[1] if op == "+" else ln[1] - rn[1] if op == "-" else ln[1] * rn[1]
                return ("num", v), t
            return (("bin", op, ln, rn, t) if is_int(t) else ("bin", op, ln, rn)), t
        if op in ("/", "%"):
            if t == "infer":
                raise Unsupported("`%s` on a variable whose integer type is not annotated" % op)
            if t == "lit":
                t = wi or "i32"
            sv = self.static_value(e[3])
            if sv is None and rn[0] == "num":
                sv = rn[1]          # a local constant (propagated)
            if sv == 0:
                raise Unsupported("division by zero")
            if sv is None and not self.is_const_like(e[3], env) and not self.positive_table_entry(e[3]):
                raise Unsupported("division by a non-constant (`rdiv`/`rrem` model constant divisors only)")
            if is_signed(t):
                return ("app", "rdiv" if op == "/" else "rrem", [ln, rn], ("div", t, sv)), t
            return ("bin", op, ln, rn, ("div", t, sv)), t
        raise Unsupported("operator `%s`" % op)

    # ---- calls
    def check_args(self, what, params, args):
        if len(params) != len(args):
            raise Unsupported("%s: %d arguments for %d parameters" % (what, len(args), len(params)))
        for (pn, pt), (n, t) in zip(params, args):
            if not types_compatible(pt, t):
                raise Unsupported("%s: argument `%s` has type %s, expected %s" % (what, pn, type_str(t), type_str(pt)))

    def call_entry(self, ent, args):
        self.check_args(ent["key"], ent["params_t"], args)
        self.top.deps.add(ent["lean"])
        return ("app", "Tr." + ent["lean"], [n for n, _ in args]), ent["ret_t"]

    def tr_args(self, arg_exprs, env, param_types=None):
        out = []
        for i, a in enumerate(arg_exprs):
            w = param_types[i] if param_types and i < len(param_types) else None
            out.append(self.tr_expr(a, env, w))
        return out

    def tr_call(self, segs, arg_exprs, env, want):
        w = self.w
        if segs[-1] in ("from_utf8_unchecked", "from_utf8") and len(arg_exprs) == 1 and (len(segs) == 1 or segs[-2] == "str"):
            # text is bytes here and in the model: `from_utf8_unchecked` is the identity
            n, t = self.tr_expr(arg_exprs[0], env, BYTES)
            if t != BYTES or segs[-1] != "from_utf8_unchecked":
                raise Unsupported("`%s` of %s" % (segs[-1], type_str(t)))
            return n, BYTES
        if len(segs) > 2:
            segs = segs[-2:]
        if len(segs) == 1:
            name = segs[0]
            if name == "Ok":
                if len(arg_exprs) != 1:
                    raise Unsupported("Ok with %d arguments" % len(arg_exprs))
                inner = want[1] if isinstance(want, tuple) and want[0] == "result" else None
                n, t = self.tr_expr(arg_exprs[0], env, inner)
                if t == "lit" and is_int(inner):
                    t = inner
                return ("app", "Except.ok", [n]), ("result", t)
            if name == "Err":
                a = arg_exprs[0] if len(arg_exprs) == 1 else None
                if a is not None and a[0] == "path" and len(a[1]) >= 2 and a[1][-2] == "Error":
                    return ("app", "Except.error", [A("Err." + a[1][-1])]), ("result", None)
                if a is not None and a[0] == "call" and len(a[1]) >= 2 and a[1][-2] == "Error" and len(a[2]) == 1 \
                        and a[1][-1] in ERR_WITH_MESSAGE:
                    # `Err(Error::ParseError("message".try_to_string()?))`: the model's errors carry no payload, and the
                    # fallible allocation of the message (`?` -> TryReserveError) cannot fail in the model
                    m = a[2][0]
                    if m[0] == "try":
                        m = m[1]
                    if m[0] == "mcall" and m[2] in ("try_to_string", "to_string", "into", "to_owned") and not m[3]:
                        m = m[1]
                    if m[0] == "str" and not m[2]:
                        return ("app", "Except.error", [A("Err." + a[1][-1])]), ("result", None)
                raise Unsupported("`Err(..)` with a non-literal error")
            if name == "Some":
                inner = want[1] if isinstance(want, tuple) and want[0] == "option" else None
                n, t = self.tr_expr(arg_exprs[0], env, inner)
                return ("app", "some", [n]), ("option", t)
            tn = self.type_name(name)
            if tn is not None and tn in w.newtypes:
                inner = w.newtypes[tn]
                if len(arg_exprs) != 1:
                    raise Unsupported("constructor %s with %d fields" % (name, len(arg_exprs)))
                n, t = self.tr_expr(arg_exprs[0], env, inner)
                if not types_compatible(t, inner):
                    raise Unsupported("constructor %s applied to %s" % (name, type_str(t)))
                return n, ("nt", tn)
            if name in env and env[name] == CLOCK and not arg_exprs:
                return A(lean_ident(name)), CLOCK          # `get_now()`: the reading
            if name in env and isinstance(env[name], tuple) and env[name][0] == "fnptr":
                # `f(args)` with `f` one of the two known functions: the call of whichever it is
                vals = FNPTR_MAP[env[name][1]]
                ents = dict((v, w.wl.get((None, fn))) for fn, v in vals.items())
                if ents.get("true") is None or ents.get("false") is None:
                    raise Unsupported("call through `%s`: the two target functions are not whitelisted" % env[name][1])
                args = self.tr_args(arg_exprs, env, [t for _, t in ents["true"]["params_t"]])
                tn, tt = self.call_entry(ents["true"], args)
                fn_, ft = self.call_entry(ents["false"], args)
                return ("ite", ("bin", "=", A(lean_ident(name)), A("true")), tn, fn_, None), join_types(tt, ft, "call")
            ent = w.wl.get((None, name))
            if ent is not None:
                return self.call_entry(ent, self.tr_args(arg_exprs, env, [t for _, t in ent["params_t"]]))
            cands = [it for (f, impl, n), it in w.crate.fns.items() if impl is None and n == name]
            if len(cands) == 1:
                return self.inline(cands[0], None, arg_exprs, env)
            raise Unsupported("call of unknown function `%s`" % name)
        head, name = segs
        if head in INT_RANGE and name == "from" and len(arg_exprs) == 1:
            n, s = self.tr_expr(arg_exprs[0], env, None)
            return self.cast(n, s, head, None)
        tn = self.type_name(head)
        if tn is None:
            # `Trait::method(receiver, args)` with a single impl of that trait for byte slices: inlined
            cands = [it for (f, impl, n), it in w.crate.fns.items()
                     if n == name and impl is not None and impl.startswith(head + " for ")]
            if len(cands) == 1 and impl_self_type(cands[0].file, cands[0].impl).replace(" ", "") == "[u8]" and arg_exprs:
                recv = self.tr_expr(arg_exprs[0], env, BYTES)
                if recv[1] != BYTES:
                    raise Unsupported("`%s::%s` on %s" % (head, name, type_str(recv[1])))
                return self.inline(cands[0], recv, arg_exprs[1:], env)
            raise Unsupported("call of `%s::%s`" % (head, name))
        if tn in w.crate.enums:
            if name == "from" and len(arg_exprs) == 1 and tn in ENUM_FROM_INT_IDENTITY:
                n, t = self.tr_expr(arg_exprs[0], env, None)
                if not is_intlike(t):
                    raise Unsupported("%s::from(%s)" % (tn, type_str(t)))
                return n, ("enum", tn)
            raise Unsupported("call of `%s::%s`" % (head, name))
        return self.assoc_call(tn, name, None, arg_exprs, env)

    def assoc_call(self, tn, name, recv, arg_exprs, env):
        """`T::name(args)` or `recv.name(args)` with recv : T (recv = (node, type))."""
        w = self.w
        ent = w.wl_by_type.get((tn, name))
        if name == "from" and recv is None and len(arg_exprs) == 1:
            a = self.tr_expr(arg_exprs[0], env, None)
            key = ("From<%s> for %s" % (type_str(a[1]), tn), "from")
            ent = w.wl.get(key)
            if ent is not None:
                return self.call_entry(ent, [a])
            raise Unsupported("conversion `%s::from(%s)` is not whitelisted" % (tn, type_str(a[1])))
        if name == "try_from" and recv is None and len(arg_exprs) == 1:
            a = self.tr_expr(arg_exprs[0], env, None)
            keys = ["TryFrom<%s> for %s" % (type_str(a[1]), tn)]
            if arg_exprs[0][0] == "ref":
                keys.insert(0, "TryFrom<&%s> for %s" % (type_str(a[1]), tn))
            for key in keys:
                ent = w.wl.get((key, "try_from"))
                if ent is not None:
                    return self.call_entry(ent, [a])
            raise Unsupported("conversion `%s::try_from(%s)` is not whitelisted" % (tn, type_str(a[1])))
        if ent is not None:
            ptypes = [t for _, t in ent["params_t"]]
            if recv is not None:
                args = [recv] + self.tr_args(arg_exprs, env, ptypes[1:])
            else:
                args = self.tr_args(arg_exprs, env, ptypes)
            return self.call_entry(ent, args)
        cands = w.crate.fns_of_type(tn, name)
        # several trait impls may define the same method name: prefer the inherent impl
        inherent = [c for c in cands if " for " not in c.impl]
        if len(inherent) == 1:
            cands = inherent
        if len(cands) != 1:
            raise Unsupported("call of `%s::%s`: %d candidate definitions" % (tn, name, len(cands)))
        item = cands[0]
        # the unchecked one-field constructors and the raw accessors are the identity on the representation
        body = toks_text(item.body).replace(" ", "")
        if recv is None and len(item.params) == 1 and len(arg_exprs) == 1 and item.params[0][0] is not None:
            orig = item.impl.split(" for ")[-1].strip()
            p = item.params[0][0]
            idforms = ["%s(%s)" % (orig, p), "Self(%s)" % p]
            inner = w.newtypes.get(tn)
            if isinstance(inner, tuple) and inner[0] == "nt":
                idforms += ["%s(%s::%s(%s))" % (orig, inner[1], name, p), "Self(%s::%s(%s))" % (inner[1], name, p)]
            if body in idforms and tn in w.newtypes:
                n, t = self.tr_expr(arg_exprs[0], env, w.raw_int(("nt", tn)))
                if not types_compatible(t, w.raw_int(("nt", tn))):
                    raise Unsupported("%s::%s applied to %s" % (tn, name, type_str(t)))
                return n, ("nt", tn)
        if recv is not None and not arg_exprs and len(item.params) == 1 and item.params[0][0] == "self":
            if body == "self.0" or (body.startswith("self.0.") and body.endswith("()") and
                                    body[len("self.0."):-2] in ACCESSORS):
                return recv[0], w.raw_int(recv[1])
        return self.inline(item, recv, arg_exprs, env)

    def method_call(self, n, t, name, arg_exprs, env):
        w = self.w
        if isinstance(t, tuple) and t[0] in ("nt", "struct"):
            return self.assoc_call(t[1], name, (n, t), arg_exprs, env)
        if t == CLOCK:
            if not arg_exprs and name in CLOCK_FIELDS:
                return ("fld", n, name), CLOCK_FIELDS[name]
            raise Unsupported("method `.%s()` on a clock reading" % name)
        if t == BYTES:
            if not arg_exprs:
                if name == "first":
                    return ("app", "bFirst", [n]), ("option", "u8")
                if name == "is_empty":
                    return ("app", "List.isEmpty", [n]), "bool"
                if name == "len":
                    return ("app", "bLen", [n]), "usize"
                if name == "iter":
                    return n, ITER
                if name in ("as_bytes", "as_ref", "as_str"):
                    return n, BYTES
            if name == "eq_ignore_ascii_case" and len(arg_exprs) == 1:
                on, ot = self.tr_expr(arg_exprs[0], env, BYTES)
                if ot != BYTES:
                    raise Unsupported("`.eq_ignore_ascii_case(%s)`" % type_str(ot))
                return ("app", "bEqIgnoreCase", [n, on]), "bool"
            raise Unsupported("slice method `.%s()`" % name)
        if t == ITER:
            if name in ("copied", "cloned", "by_ref") and not arg_exprs:
                return n, ITER
            if name in ("take", "skip") and len(arg_exprs) == 1:
                k_ = ("app", "Int.toNat", [self.usize_arg(arg_exprs[0], env, "argument of `.%s()`" % name)])
                return ("app", "List.take" if name == "take" else "List.drop", [k_, n]), ITER
            if name in ("take_while", "skip_while") and len(arg_exprs) == 1:
                lam, bt = self.closure_lambda(arg_exprs[0], env, ["u8"], "bool")
                if bt != "bool":
                    raise Unsupported("predicate closure of type %s" % type_str(bt))
                return ("app", "List.takeWhile" if name == "take_while" else "List.dropWhile", [lam, n], ("iterpred", 0, 1)), ITER
            if name == "count" and not arg_exprs:
                return ("app", "bLen", [n]), "usize"
            if name == "position" and len(arg_exprs) == 1:
                lam, bt = self.closure_lambda(arg_exprs[0], env, ["u8"], "bool")
                if bt != "bool":
                    raise Unsupported("predicate closure of type %s" % type_str(bt))
                return ("app", "bPosition", [lam, n], ("iterpred", 0, 1)), ("option", "usize")
            if name in ("all", "any") and len(arg_exprs) == 1:
                lam, bt = self.closure_lambda(arg_exprs[0], env, ["u8"], "bool")
                if bt != "bool":
                    raise Unsupported("predicate closure of type %s" % type_str(bt))
                return ("app", "List.all" if name == "all" else "List.any", [n, lam], ("iterpred", 1, 0)), "bool"
            if name == "fold" and len(arg_exprs) == 2:
                init_n, init_t = self.tr_expr(arg_exprs[0], env, None)
                if not is_intlike(init_t):
                    raise Unsupported("fold with an accumulator of type %s" % type_str(init_t))
                acc_t = init_t if is_int(init_t) else "infer"
                lam, bt = self.closure_lambda(arg_exprs[1], env, [acc_t, "u8"], acc_t if is_int(acc_t) else None)
                if acc_t == "infer" and is_int(bt):
                    # the accumulator's integer type is the one the closure body produces
                    acc_t = bt
                    init_n, init_t = self.tr_expr(arg_exprs[0], env, acc_t)
                    lam, bt = self.closure_lambda(arg_exprs[1], env, [acc_t, "u8"], acc_t)
                if not is_int(acc_t) or self.unify_int(acc_t, bt, "fold") != acc_t:
                    raise Unsupported("fold whose accumulator type cannot be determined")
                return ("app", "List.foldl", [lam, init_n, n], ("fold",)), acc_t
            raise Unsupported("iterator method `.%s()`" % name)
        if t == "u8" and not arg_exprs and name in U8_PREDICATES:
            return ("app", U8_PREDICATES[name], [n]), "bool"
        if t == "u8" and name == "eq_ignore_ascii_case" and len(arg_exprs) == 1:
            on, ot = self.tr_expr(arg_exprs[0], env, "u8")
            if ot not in ("u8", "lit"):
                raise Unsupported("`.eq_ignore_ascii_case(%s)`" % type_str(ot))
            return ("app", "decide", [("bin", "=", ("app", "toAsciiLowercase", [n]), ("app", "toAsciiLowercase", [on]))]), "bool"
        if t == "u8" and name in ("to_ascii_lowercase", "to_ascii_uppercase") and not arg_exprs:
            return ("app", "toAsciiLowercase" if name.endswith("lowercase") else "toAsciiUppercase", [n]), "u8"
        if is_intlike(t):
            if t == "infer":
                raise Unsupported("method `.%s()` on a variable whose integer type is not annotated" % name)
            if t == "lit":
                t = "i32"
            args = self.tr_args(arg_exprs, env, [t] * len(arg_exprs))
            for an, at in args:
                self.unify_int(t, at, "argument of `.%s()`" % name)
            an = [x for x, _ in args]
            if name == "abs" and not args and is_signed(t):
                return ("app", "absI32" if t == "i32" else "absI64" if t in ("i64", "isize") else "absI", [n],
                        ("abs", t)), t
            if name == "unsigned_abs" and not args and is_signed(t):
                return ("app", "uabs", [n]), "u" + t[1:]
            if name == "signum" and not args and is_signed(t):
                return ("app", "signum", [n]), t
            if name in ("div_euclid", "rem_euclid") and len(args) == 1:
                sv = self.static_value(arg_exprs[0])
                if sv is None and an[0][0] == "num":
                    sv = an[0][1]
                if sv == 0 or (sv is None and not self.is_const_like(arg_exprs[0], env)):
                    raise Unsupported("`.%s()` by a non-constant" % name)
                return ("bin", "/" if name == "div_euclid" else "%", n, an[0], ("div", t, sv)), t
            if name in ("checked_add", "checked_sub", "checked_mul") and len(args) == 1 and t in CHECKED_FN:
                op = {"checked_add": "+", "checked_sub": "-", "checked_mul": "*"}[name]
                return ("app", CHECKED_FN[t], [("bin", op, n, an[0])]), ("option", t)
            if name in ("checked_neg",) and not args and t in CHECKED_FN:
                return ("app", CHECKED_FN[t], [("neg", n)]), ("option", t)
            if name in ("wrapping_add", "wrapping_sub", "wrapping_mul") and len(args) == 1:
                op = {"wrapping_add": "+", "wrapping_sub": "-", "wrapping_mul": "*"}[name]
                return ("app", CAST_FN[t], [("bin", op, n, an[0])]), t
            if name == "cmp" and len(args) == 1:
                return ("app", "cmpInt", [n, an[0]]), ("enum", "Ordering")
            if name in ("min", "max") and len(args) == 1:
                c = ("bin", "≤", n, an[0])
                return (("ite", c, n, an[0], None) if name == "min" else ("ite", c, an[0], n, None)), t
            if name in ("is_negative", "is_positive"):
                raise Unsupported("`.%s()` on unsigned %s" % (name, t))
            raise Unsupported("integer method `.%s()`" % name)
        if t == "f64":
            if not arg_exprs and name == "round":
                return ("app", "F64.roundHalfAway", [n]), "f64"
            if not arg_exprs and name == "is_nan":
                return ("app", "F64.isNan", [n]), "bool"
            if not arg_exprs and name == "is_infinite":
                return ("app", "F64.isInfinite", [n]), "bool"
            raise Unsupported("float method `.%s()` (the model's soft-float has `round`, `is_nan`, `is_infinite` only)" % name)
        if isinstance(t, tuple) and t[0] == "array" and name == "len" and not arg_exprs and n[0] == "list":
            return ("num", len(n[1])), "usize"
        if isinstance(t, tuple) and t[0] in ("result", "option") and name == "unwrap_or" and len(arg_exprs) == 1 \
                and t[1] is not None:
            dn, dt_ = self.tr_expr(arg_exprs[0], env, t[1])
            if not types_compatible(dt_, t[1]):
                raise Unsupported("`.unwrap_or(%s)` on %s" % (type_str(dt_), type_str(t)))
            v = self.fresh("v")
            arms = [("Except.ok " + v, A(v)), ("Except.error _", dn)] if t[0] == "result" else \
                   [("some " + v, A(v)), ("none", dn)]
            return ("match", n, arms, None), t[1]
        if isinstance(t, tuple) and t[0] == "option" and name == "unwrap" and not arg_exprs and t[1] is not None:
            return unwrap_some(n), t[1]
        raise Unsupported("method `.%s()` on %s" % (name, type_str(t)))

    def inline(self, item, recv, arg_exprs, env):
        """Inline a non-whitelisted helper as an applied lambda."""
        w = self.w
        if self.depth >= 4:
            raise Unsupported("inlining `%s`: nesting too deep" % item.name)
        if getattr(item, "generic", False):
            raise Unsupported("call of generic function `%s`" % item.name)
        self_ty = impl_self_type(item.file, item.impl) if item.impl else None
        sub = Translator(w, item.file, self_ty, self.depth + 1, self.top)
        params = []
        for pn, ptoks in item.params:
            if pn is None:
                raise Unsupported("inlining `%s`: pattern parameter" % item.name)
            params.append((pn, self_type(self_ty) if ptoks is None else sub.resolve(parse_type_toks(ptoks))))
        ptypes = [t for _, t in params]
        if recv is not None:
            args = [recv] + self.tr_args(arg_exprs, env, ptypes[1:])
        else:
            args = self.tr_args(arg_exprs, env, ptypes)
        what = "%s::%s" % (item.impl or item.file, item.name)
        self.check_args(what, params, args)
        ret = sub.resolve(parse_type_toks(item.ret)) if item.ret else "unit"
        body, bt = sub.translate_body(item, params, ret)
        self.top.inlined.append("%s::%s%s" % (item.file, (item.impl + "::") if item.impl else "", item.name))
        if not params:
            return body, ret
        return ("inl", [(lean_ident(pn), lean_type(pt)) for pn, pt in params], body, [n for n, _ in args]), ret

    # ---- blocks and statements
    # mode 'tail'  : the value of the sequence is the function result (`return` allowed)
    # mode 'value' : the value is the block's tail expression
    # mode 'vars'  : the value is the tuple of the variables `rvars` (a statement `if` that assigns)

    def translate_body(self, item, params, ret):
        self.ret_type = ret
        env = {}
        for pn, pt in params:
            env[pn] = pt
        blk = parse_body(item.body)
        items = list(blk[1]) + ([("tail", blk[2])] if blk[2] is not None else [])
        if getattr(item, "mut_self", False):
            # `fn f(&mut self)`: the translation returns the new value of `self`
            if contains_kind(blk, ("return",)):
                raise Unsupported("`return` in a `&mut self` method")
            node, t = self.seq(self.strip_unit_tail(items), env, "vars", ["self"], None)
            return node, t
        if self.writer_var is not None:
            self.notes.append("the `fmt::Write` parameter `%s` is dropped: the translation returns the bytes written "
                              "(a failing sink is not modelled)" % self.writer_var)
            env[self.writer_var] = WRITER
            node, t = self.seq(items, env, "tail", None, ret)
            node = mk_let("%s : List Nat" % lean_ident(self.writer_var), ("list", []), node,
                          "the bytes written to the `fmt::Write` sink `%s`" % self.writer_var)
        else:
            node, t = self.seq(items, env, "tail", None, ret)
        if t == "never":
            t = ret
        if not types_compatible(t, ret):
            raise Unsupported("body has type %s, declared %s" % (type_str(t), type_str(ret)))
        return node, t

    def vars_value(self, rvars, env):
        if len(rvars) == 1:
            return A(lean_ident(rvars[0])), env[rvars[0]]
        return ("tuple", [A(lean_ident(v)) for v in rvars]), ("tuple", tuple(env[v] for v in rvars))

    def wrap_tries(self, binds, node, t):
        """`let x = f(e?)` -> `match e with | .error err => .error err | .ok r => ...`."""
        if not binds:
            return node, t
        if not (isinstance(self.ret_type, tuple) and self.ret_type[0] == "result"):
            raise Unsupported("`?` in a function that does not return a Result")
        for tmp, n in reversed(binds):
            node = ("match", n, [("Except.error err", ("app", "Except.error", [A("err")])),
                                 ("Except.ok " + tmp, node)], None)
        return node, t

    def with_tries(self, mode, fn):
        """Run `fn()` (which translates one statement's expression) collecting `?` operators."""
        saved = self.try_binds
        self.try_binds = [] if mode == "tail" else None
        try:
            res = fn()
            binds = self.try_binds or []
        finally:
            self.try_binds = saved
        return res, binds

    def bind_pattern(self, pat, val, vt, env, comment, body_fn):
        """`let pat = val; body` ; body_fn(env) builds the rest."""
        if pat[0] == "pwild":
            return body_fn(env)
        if pat[0] == "pvar":
            if vt == "lit":
                vt = "infer"
            env = dict(env)
            env[pat[1]] = vt
            if pat[1] in env.get("$b", ()):
                env["$b"] = set(env["$b"]) - {pat[1]}
            # what is known about the new binding at translation time (constant, literal list)
            for key, hit in (("$k", val[1] if val[0] == "num" and is_intlike(vt) else None),
                             ("$l", val[1] if val[0] == "list" else None)):
                tab = dict(env.get(key, {}))
                tab.pop(pat[1], None)
                if hit is not None:
                    tab[pat[1]] = hit
                env[key] = tab
            body, bt = body_fn(env)
            return mk_let("%s : %s" % (lean_ident(pat[1]), lean_type(vt)), val, body, comment), bt
        if pat[0] == "ptuple":
            if not (isinstance(vt, tuple) and vt[0] == "tuple" and len(vt[1]) == len(pat[1])):
                raise Unsupported("tuple pattern against %s" % type_str(vt))
            n = len(pat[1])
            names = []
            for p in pat[1]:
                if p[0] == "pvar":
                    names.append(p[1])
                elif p[0] != "pwild" and p[0] != "ptuple":
                    raise Unsupported("pattern kind %s in let" % p[0])
            if val[0] == "tuple":
                # a literal tuple: bind componentwise (simultaneous binding, so no later component may
                # mention an earlier bound name)
                texts = [flat(x)[0] for x in val[1]]
                clash = any(re.search(r"(?<![A-Za-z_0-9'.])%s(?![A-Za-z_0-9'])" % re.escape(lean_ident(nm)), tx)
                            for i, nm in enumerate(names) for tx in texts)
                if not clash:
                    def chain(i, env, first):
                        if i == n:
                            return body_fn(env)
                        return self.bind_pattern(pat[1][i], val[1][i], vt[1][i], env, comment if first else None,
                                                 lambda e2: chain(i + 1, e2, False))
                    return chain(0, env, True)
            tmp = "_".join(names) if names else self.fresh("t")
            if tmp in env or len(names) < 2:
                tmp = self.fresh("t")
            env2 = dict(env)

            def chain2(i, env, _):
                if i == n:
                    return body_fn(env)
                comp = ("proj", A(lean_ident(tmp)), i, n)
                return self.bind_pattern(pat[1][i], comp, vt[1][i], env, None, lambda e2: chain2(i + 1, e2, False))
            body, bt = chain2(0, env2, True)
            return mk_let("%s : %s" % (lean_ident(tmp), lean_type(vt)), val, body, comment), bt
        raise Unsupported("pattern kind %s in let" % pat[0])

    def seq(self, items, env, mode, rvars, want):
        if not items:
            if mode == "vars":
                return self.vars_value(rvars, env)
            if self.loop_ret and mode == "tail":
                return A("none"), ("option", None)
            return ("tuple", []), "unit"
        st, rest = items[0], items[1:]
        kind = st[0]
        if kind == "tail":
            e = st[1]
            if mode == "vars":
                return self.seq([("expr", e, 0)] + rest, env, mode, rvars, want)
            if mode == "tail":
                return self.tail_value(e, env, want)
            return self.tr_expr(e, env, want)
        line = st[-1]
        comment = self.src_comment(line) if line else None
        if kind == "let":
            _, pat, ty, init, _ = st
            # `let q = if c { year += 1; a } else { b };` - a value block that also assigns outer variables:
            # its value becomes the tuple (value, assigned variables...), re-bound here
            if init[0] in ("if", "block", "match") and ty is None:
                names = set()
                assigned_vars(init, names)
                mv = [v for v in env if v in names and not v.startswith("$")]
                if mv:
                    init = add_vars_to_tail(init, mv)
                    pat = ("ptuple", [pat] + [("pvar", v) for v in mv])
                    self.assign_ok = self.assign_ok + 1
                    try:
                        (val, vt), binds = self.with_tries(mode, lambda: self.tr_expr(init, env, None))
                    finally:
                        self.assign_ok = self.assign_ok - 1
                    node, t = self.bind_pattern(pat, val, vt, env, comment,
                                                lambda e2: self.seq(rest, e2, mode, rvars, want))
                    return self.wrap_tries(binds, node, t)
            if init[0] in ("if", "block", "match") and mode == "tail" and contains_kind(init, ("return",)):
                # `let pat = match e { A => v, B => return r };`: the `let` and the rest of the function move into
                # every branch that yields a value
                pushed = self.push_let(init, pat, ty, line, rest, env)
                return self.seq([("expr", pushed, line)], env, mode, rvars, want)
            annotated = self.resolve(ty) if ty is not None else None
            (val, vt), binds = self.with_tries(mode, lambda: self.tr_expr(init, env, annotated))
            if annotated is not None:
                if not types_compatible(vt, annotated):
                    raise Unsupported("line %d: initialiser of type %s for a `%s`" % (line, type_str(vt), type_str(annotated)))
                vt = join_types(annotated, vt, "let") if vt != "lit" else annotated
            node, t = self.bind_pattern(pat, val, vt, env, comment,
                                        lambda e2: self.seq(rest, e2, mode, rvars, want))
            return self.wrap_tries(binds, node, t)
        if kind == "const":
            _, name, ty, init, _ = st
            cty = self.resolve(ty)
            val, vt = self.tr_expr(init, env, cty)
            if not types_compatible(vt, cty) and not (vt[0] == "array" and cty[0] == "array"):
                raise Unsupported("line %d: constant of type %s declared %s" % (line, type_str(vt), type_str(cty)))
            env2 = dict(env)
            env2[name] = cty
            if val[0] == "num" and is_int(cty):       # a local scalar constant is propagated
                env2["$k"] = dict(env.get("$k", {}), **{name: val[1]})
            body, bt = self.seq(rest, env2, mode, rvars, want)
            return mk_let("%s : %s" % (lean_ident(name), lean_type(cty)), val, body, comment), bt
        if kind == "assign":
            _, op, lhs, rhs, _ = st
            if lhs[0] == "field" and lhs[1][0] == "path" and len(lhs[1][1]) == 1 and lhs[1][1][0] in env \
                    and isinstance(env[lhs[1][1][0]], tuple) and env[lhs[1][1][0]][0] == "struct":
                # `v.f = e`  =  `v = V { f: e, ..v }`
                name = lhs[1][1][0]
                sty = env[name]
                ftypes = self.w.struct_fields(sty[1])
                if lhs[2] not in ftypes:
                    raise Unsupported("line %d: struct %s has no field `%s`" % (line, sty[1], lhs[2]))
                src = rhs if op == "=" else ("binary", op[:-1], lhs, rhs)
                (val, vt), binds = self.with_tries(mode, lambda: self.tr_expr(src, env, ftypes[lhs[2]]))
                if not types_compatible(vt, ftypes[lhs[2]]):
                    raise Unsupported("line %d: assigning %s to field `%s : %s`" % (line, type_str(vt), lhs[2], type_str(ftypes[lhs[2]])))
                newv = ("struct", lean_type(sty), A(lean_ident(name)), [(lhs[2], val)])
                node, bt = self.bind_pattern(("pvar", name), newv, sty, env, comment,
                                             lambda e2: self.seq(rest, e2, mode, rvars, want))
                return self.wrap_tries(binds, node, bt)
            if lhs[0] == "index" and lhs[1][0] == "path" and len(lhs[1][1]) == 1 and env.get(lhs[1][1][0]) == BYTES \
                    and lhs[2][0] != "range":
                # `buf[i] = e`  =  `buf = buf with element i replaced`
                name = lhs[1][1][0]
                src = rhs if op == "=" else ("binary", op[:-1], lhs, rhs)
                def both():
                    ix = self.usize_arg(lhs[2], env, "index")
                    return ix, self.tr_expr(src, env, "u8")
                (ix, (val, vt)), binds = self.with_tries(mode, both)
                if vt not in ("u8", "lit"):
                    raise Unsupported("line %d: assigning %s to an element of a byte array" % (line, type_str(vt)))
                newv = ("app", "bSet", [A(lean_ident(name)), ix, val], ("bidx",))
                node, bt = self.bind_pattern(("pvar", name), newv, BYTES, env, comment,
                                             lambda e2: self.seq(rest, e2, mode, rvars, want))
                return self.wrap_tries(binds, node, bt)
            if not (lhs[0] == "path" and len(lhs[1]) == 1 and lhs[1][0] in env):
                raise Unsupported("line %d: assignment to something that is not a local variable" % line)
            name = lhs[1][0]
            vt0 = env[name]
            src = rhs if op == "=" else ("binary", op[:-1], lhs, rhs)
            (val, vt), binds = self.with_tries(mode, lambda: self.tr_expr(src, env, vt0))
            if not types_compatible(vt, vt0):
                raise Unsupported("line %d: assigning %s to `%s : %s`" % (line, type_str(vt), name, type_str(vt0)))
            node, bt = self.bind_pattern(("pvar", name), val, vt0, env, comment,
                                         lambda e2: self.seq(rest, e2, mode, rvars, want))
            return self.wrap_tries(binds, node, bt)
        if kind == "expr":
            e = st[1]
            if e[0] == "return":
                if mode != "tail":
                    raise Unsupported("line %d: `return` inside a nested expression block" % line)
                if e[1] is None:
                    if self.loop_ret:
                        raise Unsupported("line %d: `return;` inside a search loop" % line)
                    return ("tuple", []), "unit"
                if self.loop_ret:
                    depth, self.loop_ret = self.loop_ret, 0
                    try:
                        node, t = self.tail_value(e[1], env, want)
                    finally:
                        self.loop_ret = depth
                    node, t = ("app", "some", [node]), ("option", t)
                else:
                    node, t = self.tail_value(e[1], env, want)
                if comment:
                    node = ("com", comment, node)
                return node, t
            if e[0] == "macro":
                if e[1].startswith("debug_assert"):
                    if self.top.contracts and e[1] == "debug_assert" and len(e) > 2 and e[2]:
                        # ignored in the value (release build), recorded as a CONTRACT conjunct of `_safe`
                        toks, depth, cut = e[2], 0, len(e[2])
                        for q, x in enumerate(toks):
                            if x.kind == "p" and x.text in ("(", "[", "{"):
                                depth += 1
                            elif x.kind == "p" and x.text in (")", "]", "}"):
                                depth -= 1
                            elif x.kind == "p" and x.text == "," and depth == 0:
                                cut = q
                                break
                        cond = self.tr_prop(parse_expr_toks(toks[:cut]), env)
                        self.top.notes.append("`debug_assert!` at line %d: ignored in the value, a CONTRACT conjunct of `_safe`" % line)
                        node, t = self.seq(rest, env, mode, rvars, want)
                        return ("assert", cond, node, comment), t
                    return self.seq(rest, env, mode, rvars, want)
                raise Unsupported("line %d: macro `%s!`" % (line, e[1]))
            if e[0] == "try" and e[1][0] == "mcall" and e[1][1][0] == "path" and len(e[1][1][1]) == 1 \
                    and env.get(e[1][1][1][0]) == WRITER:
                # `w.write_str(s)?;`: the bytes written so far grow by `s` (a failing sink is outside the translation)
                wname = e[1][1][1][0]
                if e[1][2] != "write_str" or len(e[1][3]) != 1 or mode != "tail":
                    raise Unsupported("line %d: `%s.%s(..)` on a `fmt::Write` sink" % (line, wname, e[1][2]))
                an, at = self.tr_expr(e[1][3][0], env, BYTES)
                if at != BYTES:
                    raise Unsupported("line %d: write_str of %s" % (line, type_str(at)))
                return self.bind_pattern(("pvar", wname), ("bin", "++", A(lean_ident(wname)), an), WRITER, env, comment,
                                         lambda e2: self.seq(rest, e2, mode, rvars, want))
            if e[0] == "try":
                (val, vt), binds = self.with_tries(mode, lambda: self.tr_expr(e, env, None))
                node, t = self.seq(rest, env, mode, rvars, want)
                return self.wrap_tries(binds, node, t)
            if e[0] == "for":
                if mode != "tail" or self.loop_ret:
                    raise Unsupported("line %d: `for` loop in a nested position" % line)
                return self.search_loop(e, rest, env, want, comment, line)
            if e[0] == "while":
                # a counted loop whose condition is decided at translation time is unrolled
                self.top.unrolled += 1
                if self.top.unrolled > 64:
                    raise Unsupported("line %d: loop needs more than 64 unrolling steps" % line)
                if contains_kind(e[2], ("while",)):
                    raise Unsupported("line %d: nested loops" % line)
                c = eval_prop(self.tr_prop(e[1], env))
                if c is None:
                    fuel = self.loop_fuel(e[1], e[2], env)
                    if fuel is not None:
                        self.top.unrolled -= 1
                        self.top.notes.append("the `while` loop at line %d is translated with fuel %d (`loopN`); that the fuel "
                                              "suffices is part of the `_safe` predicate (`loopSafe`)" % (line, fuel))
                        return self.fuel_loop(e, fuel, rest, env, mode, rvars, want, comment)
                    raise Unsupported("line %d: loop condition is not decidable at translation time" % line)
                if not c:
                    return self.seq(rest, env, mode, rvars, want)
                body_items = self.strip_unit_tail(self.block_items(e[2]))
                self.check_leak(body_items, rest, env)
                return self.seq(body_items + [st] + rest, env, mode, rvars, want)
            if e[0] in ("if", "match", "block"):
                if contains_kind(e, ("return", "try")):      # `?` is an early return too
                    if mode != "tail":
                        raise Unsupported("line %d: `return` inside a nested expression block" % line)
                    return self.branch_with_rest(e, rest, env, want, comment)
                return self.assigning_stmt(e, rest, env, mode, rvars, want, comment)
            raise Unsupported("line %d: expression statement of kind %s" % (line, e[0]))
        raise Unsupported("statement kind %s" % kind)

    def search_loop(self, e, rest, env, want, comment, line):
        """`for (i, x) in TABLE.iter().enumerate() { .. return r; .. }` over a table of strings, with no other effect than
        the early `return`: `match forFirst (fun i x => body) 0 TABLE with | some r => r | none => rest`."""
        _, pat, src, body = e
        names = set()
        assigned_vars(body, names)
        if [v for v in env if v in names and not v.startswith("$")]:
            raise Unsupported("line %d: a `for` loop that assigns outer variables" % line)
        if contains_kind(body, ("while", "for")) or not contains_kind(body, ("return",)):
            raise Unsupported("line %d: a `for` loop that is not a search with early `return`" % line)
        enumerate_ = False
        if src[0] == "mcall" and src[2] == "enumerate" and not src[3]:
            enumerate_, src = True, src[1]
        if src[0] == "mcall" and src[2] in ("iter", "into_iter") and not src[3]:
            src = src[1]
        xs, xt = self.tr_expr(src, env, None)
        if not (isinstance(xt, tuple) and xt[0] == "array" and xt[1] == BYTES):
            raise Unsupported("line %d: `for` over %s (only tables of strings)" % (line, type_str(xt)))
        if enumerate_:
            if not (pat[0] == "ptuple" and len(pat[1]) == 2):
                raise Unsupported("line %d: pattern of an enumerating `for`" % line)
            ipat, xpat = pat[1]
        else:
            ipat, xpat = ("pwild",), pat
        env2 = dict(env)
        for key in ("$k", "$l"):
            env2[key] = dict(env.get(key, {}))
        binders = []
        for p_, ty, lt in ((ipat, "usize", "Int"), (xpat, BYTES, "List Nat")):
            if p_[0] == "pvar":
                env2[p_[1]] = ty
                for key in ("$k", "$l"):
                    env2[key].pop(p_[1], None)
                if p_[1] in env2.get("$b", ()):
                    env2["$b"] = set(env2["$b"]) - {p_[1]}
                binders.append((lean_ident(p_[1]), lt))
            elif p_[0] == "pwild":
                binders.append((self.fresh("_x"), lt))
            else:
                raise Unsupported("line %d: pattern kind %s in a `for`" % (line, p_[0]))
        self.loop_ret += 1
        try:
            bn, bt = self.seq(self.strip_unit_tail(self.block_items(body)), env2, "tail", None, want)
        finally:
            self.loop_ret -= 1
        if not (isinstance(bt, tuple) and bt[0] == "option"):
            raise Unsupported("line %d: the body of the `for` loop has a value" % line)
        rn, rt = self.seq(rest, env, "tail", None, want)
        if bt[1] is not None:
            rt = join_types(rt, bt[1], "for")
        r = self.fresh("r")
        beta = "(β := %s)" % lean_type(rt)        # the payload type, explicit: the safety predicate has no expected type
        loop = ("app", "forFirst " + beta, [("lamT", binders, bn), ("num", 0), xs], ("forfirst", beta))
        return ("match", loop, [("some " + r, A(r)), ("none", rn)], comment), rt

    def enum_arms_exhaustive(self, en, arms):
        """Do the (unguarded, variant-only) arms of a `match` on enum `en` list every variant?"""
        variants = self.w.crate.enums.get(en, {})
        seen = set()
        for pat, guard, _ in arms:
            if guard is not None:
                return False
            for q in (pat[1] if pat[0] == "por" else [pat]):
                if q[0] != "pctor" or q[2]:
                    return False
                try:
                    n, t = self.tr_path(q[1], {}, None)
                except Unsupported:
                    return False
                if t != ("enum", en) or n[0] != "num":
                    return False
                seen.add(n[1])
        return bool(variants) and seen == set(variants.values())

    def push_let(self, body, pat, ty, line, rest, env):
        """The expression `body` (the initialiser of `let pat = body; rest`) with the `let` and the rest moved into
        every branch that produces a value; branches that `return` stay as they are."""
        if body[0] == "return":
            return body
        if not contains_kind(body, ("return",)):
            stmts = [("let", pat, ty, body, line)] + [x for x in rest if x[0] != "tail"]
            tails = [x[1] for x in rest if x[0] == "tail"]
            return ("block", stmts, tails[0] if tails else None)
        if body[0] == "block":
            stmts, tail = body[1], body[2]
            if tail is None:
                if stmts and stmts[-1][0] == "expr" and stmts[-1][1][0] == "return":
                    return body
                raise Unsupported("line %d: a block without a value as the initialiser of a `let`" % line)
            if contains_kind(stmts, ("return",)):
                raise Unsupported("line %d: `return` in the middle of a block whose value is bound by `let`" % line)
            self.check_leak(stmts, rest, env)
            return ("block", stmts, self.push_let(tail, pat, ty, line, rest, env))
        if body[0] == "if":
            if body[3] is None or contains_kind(body[1], ("return",)):
                raise Unsupported("line %d: `return` inside the condition of an initialiser" % line)
            return ("if", body[1], self.push_let(body[2], pat, ty, line, rest, env),
                    self.push_let(body[3], pat, ty, line, rest, env))
        if body[0] == "match":
            if contains_kind(body[1], ("return",)):
                raise Unsupported("line %d: `return` inside the scrutinee of an initialiser" % line)
            return ("match", body[1], [(p_, g_, self.push_let(b_, pat, ty, line, rest, env)) for p_, g_, b_ in body[2]])
        raise Unsupported("line %d: `return` inside an expression" % line)

    def loop_fuel(self, cond, body, env):
        """Iteration bound of `while v >= K { ..; v /= D; .. }` (v unsigned, K >= 1, D >= 2): the number of base-D digits
        of the type's maximum.  After that many divisions v is 0, so the condition is false: the bounded loop IS the
        loop (and `loopSafe` additionally demands that the condition is false when the fuel is used up)."""
        if cond[0] != "binary" or cond[1] not in (">=", ">", "<=", "<", "!="):
            return None
        l, r, op = cond[2], cond[3], cond[1]
        if op in ("<=", "<"):
            l, r, op = r, l, {"<=": ">=", "<": ">"}[op]
        if not (l[0] == "path" and len(l[1]) == 1 and l[1][0] in env):
            return None
        v, k = l[1][0], self.static_value(r)
        t = env[v]
        if not is_int(t) or is_signed(t) or k is None or k < 0 or (op == ">=" and k < 1) or (op == "!=" and k != 0):
            return None
        divisors, others = [], 0
        def scan(node, top):
            nonlocal others
            if isinstance(node, tuple):
                if node and node[0] == "assign" and node[2] == ("path", [v]):
                    d = None
                    if top and node[1] == "/=":
                        d = self.static_value(node[3])
                    elif top and node[1] == "=" and node[3][0] == "binary" and node[3][1] == "/" and node[3][2] == ("path", [v]):
                        d = self.static_value(node[3][3])
                    if d is not None and d >= 2:
                        divisors.append(d)
                    else:
                        others += 1
                for x in node:
                    scan(x, False)
            elif isinstance(node, list):
                for x in node:
                    scan(x, False)
        for st in self.block_items(body):
            scan(st, True)
        if len(divisors) != 1 or others:
            return None
        n, p = 0, 1
        while p <= INT_RANGE[t][1]:
            p *= divisors[0]
            n += 1
        return n

    def fuel_loop(self, e, fuel, rest, env, mode, rvars, want, comment):
        """`while c { body }` with a translation-time iteration bound: `loopN fuel (fun st => c) (fun st => body) st0`
        over the tuple `st` of the variables the body assigns."""
        names = set()
        assigned_vars(e[2], names)
        mvars = [v for v in env if v in names and not v.startswith("$")]
        if contains_kind(e[2], ("return", "try", "while")):
            raise Unsupported("`return`, `?` or a nested loop inside a `while` body")
        lenv = dict(env)
        for key in ("$k", "$l"):
            tab = dict(env.get(key, {}))
            for v in mvars:
                tab.pop(v, None)
            lenv[key] = tab
        items = self.strip_unit_tail(self.block_items(e[2]))
        inner = set()
        let_bound(items, inner)
        if inner & set(mvars):
            raise Unsupported("the loop body both declares and assigns `%s`" % sorted(inner & set(mvars))[0])
        self.check_leak(items, rest, env)
        saved, self.try_binds = self.try_binds, None
        try:
            cprop = self.tr_prop(e[1], lenv)
            bnode, bt = self.seq(items, dict(lenv), "vars", mvars, None)
        finally:
            self.try_binds = saved
        tys = [env[v] for v in mvars]
        if len(mvars) == 1:
            binder = [(lean_ident(mvars[0]), lean_type(tys[0]))]
            unpack = lambda body: body
            sty = tys[0]
            init = A(lean_ident(mvars[0]))
            pat = ("pvar", mvars[0])
        else:
            st = self.fresh("st")
            sty = ("tuple", tuple(tys))
            binder = [(st, lean_type(sty))]
            def unpack(body):
                for i in reversed(range(len(mvars))):
                    body = mk_let("%s : %s" % (lean_ident(mvars[i]), lean_type(tys[i])), ("proj", A(st), i, len(mvars)), body)
                return body
            init = ("tuple", [A(lean_ident(v)) for v in mvars])
            pat = ("ptuple", [("pvar", v) for v in mvars])
        loop = ("app", "loopN", [("num", fuel), ("lamT", binder, unpack(("app", "decide", [cprop]))),
                                 ("lamT", binder, unpack(bnode)), init], ("loop",))

        def rest_fn(env2):
            env3 = dict(env2)
            for v in mvars:
                env3[v] = env[v]
            return self.seq(rest, env3, mode, rvars, want)
        # the literal-tuple shortcut of bind_pattern must not fire: the value is the loop, not a tuple literal
        return self.bind_pattern(pat, loop, sty, env, comment, rest_fn)

    @staticmethod
    def block_items(blk):
        if blk is None:
            return []
        if blk[0] != "block":
            return [("tail", blk)]
        return list(blk[1]) + ([("tail", blk[2])] if blk[2] is not None else [])

    def check_leak(self, branch_items, rest, env):
        bound = set()
        let_bound(branch_items, bound)
        if not bound or not rest:
            return

        def idents(node, out):
            if isinstance(node, tuple):
                if node and node[0] == "path" and len(node[1]) == 1:
                    out.add(node[1][0])
                for x in node:
                    idents(x, out)
            elif isinstance(node, list):
                for x in node:
                    idents(x, out)
        used = set()
        idents(rest, used)
        leak = [b for b in bound if b in used and b in env]
        if leak:
            raise Unsupported("a `let %s` inside a branch that falls through would shadow the outer variable" % leak[0])

    def branch_with_rest(self, e, rest, env, want, comment):
        """A statement `if`/`match`/block that contains `return`: the rest of the function is the
        continuation of every branch that falls through."""
        if e[0] == "block":
            items = self.block_items(e)
            self.check_leak(items, rest, env)
            return self.seq(self.strip_unit_tail(items) + rest, dict(env), "tail", None, want)
        if e[0] == "if":
            cond = self.tr_prop(e[1], env)
            ti = self.strip_unit_tail(self.block_items(e[2]))
            ei = self.strip_unit_tail(self.block_items(e[3]))
            self.check_leak(ti, rest, env)
            self.check_leak(ei, rest, env)
            tn, tt = self.seq(ti + rest, dict(env), "tail", None, want)
            en, et = self.seq(ei + rest, dict(env), "tail", None, want)
            return ("ite", cond, tn, en, comment), join_types(tt, et, "if")
        return self.tr_match(e, env, want, "tail", rest, comment)

    @staticmethod
    def strip_unit_tail(items):
        """In statement position a tail expression `if`/`match`/block is itself a statement."""
        if items and items[-1][0] == "tail":
            return items[:-1] + [("expr", items[-1][1], 0)]
        return items

    def assigning_stmt(self, e, rest, env, mode, rvars, want, comment):
        """A statement `if`/`match`/block without `return`: it can only assign outer variables."""
        names = set()
        assigned_vars(e, names)
        mvars = [v for v in env if v in names]
        if not mvars:
            return self.seq(rest, env, mode, rvars, want)
        if e[0] == "block":
            items = self.strip_unit_tail(self.block_items(e))
            val, vt = self.seq(items, dict(env), "vars", mvars, None)
        elif e[0] == "if":
            cond = self.tr_prop(e[1], env)
            ti = self.strip_unit_tail(self.block_items(e[2]))
            ei = self.strip_unit_tail(self.block_items(e[3]))
            for its in (ti, ei):
                inner = set()
                let_bound(its, inner)
                if inner & set(mvars):
                    raise Unsupported("a branch both declares and assigns `%s`" % sorted(inner & set(mvars))[0])
            tn, tt = self.seq(ti, dict(env), "vars", mvars, None)
            en, et = self.seq(ei, dict(env), "vars", mvars, None)
            val, vt = ("ite", cond, tn, en, None), tt
        else:
            (val, vt) = self.tr_match(e, env, None, "vars", [], None, mvars)
        if len(mvars) == 1:
            pat = ("pvar", mvars[0])
        else:
            pat = ("ptuple", [("pvar", v) for v in mvars])
        # types of the assigned variables do not change
        def rest_fn(env2):
            env3 = dict(env2)
            for v in mvars:
                env3[v] = env[v]
            return self.seq(rest, env3, mode, rvars, want)
        if len(mvars) == 1:
            vt = env[mvars[0]]
        return self.bind_pattern(pat, val, vt, env, comment, rest_fn)

    def tail_value(self, e, env, want):
        """Expression in tail position of the function."""
        if e[0] == "block":
            return self.seq(self.block_items(e), dict(env), "tail", None, want)
        if e[0] == "if":
            return self.tr_if_value(e, env, want, "tail")
        if e[0] == "match":
            return self.tr_match(e, env, want, "tail", [])
        if e[0] == "return":
            if e[1] is None:
                return ("tuple", []), "unit"
            if self.loop_ret:
                depth, self.loop_ret = self.loop_ret, 0
                try:
                    node, t = self.tail_value(e[1], env, want)
                finally:
                    self.loop_ret = depth
                return ("app", "some", [node]), ("option", t)
            return self.tail_value(e[1], env, want)
        if self.loop_ret:
            raise Unsupported("a value in tail position of a search-loop body")
        if self.writer_var is not None:
            if e == ("call", ["Ok"], [("tuple", [])]):
                return A(lean_ident(self.writer_var)), BYTES
            raise Unsupported("a function writing to a `fmt::Write` sink must end in `Ok(())`")
        (val, vt), binds = self.with_tries("tail", lambda: self.tr_expr(e, env, want))
        return self.wrap_tries(binds, val, vt)

    def branch_value(self, blk, env, want, mode):
        items = self.block_items(blk)
        if mode == "tail":
            return self.seq(items, dict(env), "tail", None, want)
        saved, self.try_binds = self.try_binds, None
        try:
            return self.seq(items, dict(env), "value", None, want)
        finally:
            self.try_binds = saved

    def tr_if_value(self, e, env, want, mode):
        cond = self.tr_prop(e[1], env)
        tn, tt = self.branch_value(e[2], env, want, mode)
        if e[3] is None:
            en, et = ("tuple", []), "unit"
        else:
            en, et = self.branch_value(e[3], env, tt if (want is None and is_int(tt)) else want, mode)
        if tt == "lit" and is_int(et):
            tn, tt = self.branch_value(e[2], env, et, mode)
        return ("ite", cond, tn, en, None), join_types(tt, et, "if")

    def tr_match(self, e, env, want, mode, rest, comment=None, rvars=None):
        """`match` as a value (mode 'value'/'tail'); `rest` = continuation statements (tail mode only)."""
        (sn, st), binds = self.with_tries(mode, lambda: self.tr_expr(e[1], env, None))
        arms = e[2]

        def arm_value(body, env2):
            if mode == "vars":      # a statement `match` that assigns outer variables: value = those variables
                return self.seq(self.strip_unit_tail(self.block_items(body)), dict(env2), "vars", rvars, None)
            if rest or mode == "tail":
                items = self.strip_unit_tail(self.block_items(body)) + rest if rest else self.block_items(body)
                return self.seq(items, dict(env2), "tail", None, want)
            return self.branch_value(body, env2, want, "value")

        def opt_simple(pat, guard):
            return guard is None and (pat[0] == "pwild" or (
                pat[0] == "pctor" and (not pat[2] or (len(pat[2]) == 1 and pat[2][0][0] in ("pvar", "pwild")))))

        if isinstance(st, tuple) and st[0] == "option" and st[1] is not None and is_intlike(st[1]) \
                and not all(opt_simple(p_, g_) for p_, g_, _ in arms):
            # guards / literal payload patterns / `Some(a) | Some(b)`: one `some v` arm holding an `if` chain over the
            # arms that can match a `Some`, one `none` arm likewise
            el = st[1]
            pv = sorted(set(q[2][0][1] for p_, _, _ in arms for q in (p_[1] if p_[0] == "por" else [p_])
                            if q[0] == "pctor" and q[1][-1] == "Some" and len(q[2]) == 1 and q[2][0][0] == "pvar"))
            v = pv[0] if len(pv) == 1 else self.fresh("o")
            vn = A(lean_ident(v))

            def payload_cond(p_):
                if p_[0] in ("pvar", "pwild"):
                    return None
                if p_[0] == "plit":
                    return ("bin", "=", vn, ("num", p_[1]))
                if p_[0] == "prange":
                    return ("bin", "∧", ("bin", "≤", ("num", p_[1]), vn), ("bin", "≤", vn, ("num", p_[2])))
                if p_[0] == "por":
                    cs = [payload_cond(q) for q in p_[1]]
                    if any(c is None for c in cs):
                        return None
                    c = cs[-1]
                    for x in reversed(cs[:-1]):
                        c = ("bin", "∨", x, c)
                    return c
                raise Unsupported("pattern kind %s inside `Some(..)`" % p_[0])

            def chain_for(side):
                chain, final, rt_ = [], None, "never"
                for pat, guard, body in arms:
                    alts = pat[1] if pat[0] == "por" else [pat]
                    conds, bind, hit = [], None, False
                    for q in alts:
                        if q[0] == "pwild":
                            hit, conds = True, conds + [None]
                        elif q[0] == "pctor" and q[1][-1] == "Some" and len(q[2]) == 1:
                            if side == "some":
                                hit = True
                                conds.append(payload_cond(q[2][0]))
                                if q[2][0][0] == "pvar":
                                    bind = q[2][0][1]
                        elif q[0] == "pctor" and q[1][-1] == "None" and not q[2]:
                            if side == "none":
                                hit, conds = True, conds + [None]
                        else:
                            raise Unsupported("match arm pattern on %s" % type_str(st))
                    if not hit:
                        continue
                    if bind is not None and len(alts) > 1:
                        raise Unsupported("a binding inside an or-pattern")
                    env2 = env
                    if side == "some" and (bind is not None or v in pv):
                        env2 = dict(env)
                        env2[bind or v] = el if el != "lit" else "i32"
                    c = None
                    if not any(x is None for x in conds):
                        c = conds[-1]
                        for x in reversed(conds[:-1]):
                            c = ("bin", "∨", x, c)
                    if guard is not None:
                        g = self.tr_prop(guard, env2)
                        c = g if c is None else ("bin", "∧", c, g)
                    n, t = arm_value(body, env2)
                    if bind is not None and bind != v:
                        n = mk_let("%s : Int" % lean_ident(bind), vn, n)
                    rt_ = join_types(rt_, t, "match")
                    if c is None:
                        final = n
                        break
                    chain.append((c, n))
                if final is None:
                    raise Unsupported("non-exhaustive match on %s" % type_str(st))
                node = final
                for c, n in reversed(chain):
                    node = ("ite", c, n, node, None)
                return node, rt_
            some_n, some_t = chain_for("some")
            none_n, none_t = chain_for("none")
            rt = join_types(some_t, none_t, "match")
            return self.wrap_tries(binds, ("match", sn, [("some " + lean_ident(v), some_n), ("none", none_n)], comment), rt)

        if isinstance(st, tuple) and st[0] in ("option", "result"):
            out, rt = [], "never"
            names = {"option": ("Some", "None", "some", "none"), "result": ("Ok", "Err", "Except.ok", "Except.error")}[st[0]]
            seen = set()
            for pat, guard, body in arms:
                if guard is not None:
                    raise Unsupported("match guard on an Option/Result")
                if pat[0] == "pctor" and pat[1][-1] == names[0] and len(pat[2]) == 1 and pat[2][0][0] in ("pvar", "pwild"):
                    env2 = dict(env)
                    v = "_"
                    if pat[2][0][0] == "pvar":
                        v = lean_ident(pat[2][0][1])
                        env2[pat[2][0][1]] = st[1]
                    n, t = arm_value(body, env2)
                    out.append(("%s %s" % (names[2], v), n))
                    seen.add(0)
                elif pat[0] == "pctor" and pat[1][-1] == names[1] and st[0] == "option" and not pat[2]:
                    n, t = arm_value(body, env)
                    out.append((names[3], n))
                    seen.add(1)
                elif pat[0] == "pctor" and pat[1][-1] == "Err" and len(pat[2]) == 1 and pat[2][0][0] == "pwild":
                    n, t = arm_value(body, env)
                    out.append(("Except.error _", n))
                    seen.add(1)
                elif pat[0] == "pwild":
                    n, t = arm_value(body, env)
                    out.append(("_", n))
                    seen.update((0, 1))
                else:
                    raise Unsupported("match arm pattern on %s" % type_str(st))
                rt = join_types(rt, t, "match")
            if seen != {0, 1}:
                raise Unsupported("non-exhaustive match on %s" % type_str(st))
            return self.wrap_tries(binds, ("match", sn, out, comment), rt)

        if st == "bool" or is_intlike(st) or (isinstance(st, tuple) and st[0] in ("enum", "boolenum")):
            pre = None
            if sn[0] not in ("atom", "num"):
                tmp = self.fresh("m")
                pre = (tmp, sn)
                sn = A(tmp)

            def pat_cond(pat):
                if pat[0] == "plit":
                    return ("bin", "=", sn, ("num", pat[1]))
                if pat[0] == "prange":
                    return ("bin", "∧", ("bin", "≤", ("num", pat[1]), sn), ("bin", "≤", sn, ("num", pat[2])))
                if pat[0] == "pbool":
                    return ("bin", "=", sn, A("true" if pat[1] else "false"))
                if pat[0] == "por":
                    cs = [pat_cond(p) for p in pat[1]]
                    c = cs[-1]
                    for x in reversed(cs[:-1]):
                        c = ("bin", "∨", x, c)
                    return c
                if pat[0] == "pctor" and not pat[2]:
                    n, t = self.tr_path(pat[1], {}, None)
                    return ("bin", "=", sn, n)
                raise Unsupported("match arm pattern kind %s" % pat[0])

            chain = []
            final = None
            rt = "never"
            for idx, (pat, guard, body) in enumerate(arms):
                env2 = env
                if pat[0] in ("pwild", "pvar"):
                    if pat[0] == "pvar":
                        env2 = dict(env)
                        env2[pat[1]] = st if st != "lit" else "i32"
                    n, t = arm_value(body, env2)
                    if pat[0] == "pvar" and flat(sn)[0] != lean_ident(pat[1]):
                        n = mk_let("%s : %s" % (lean_ident(pat[1]), lean_type(st)), sn, n)
                    rt = join_types(rt, t, "match")
                    if guard is None:
                        final = n
                        break
                    g = self.tr_prop(guard, env2)
                    if pat[0] == "pvar":
                        raise Unsupported("guard on a binding pattern")
                    chain.append((g, n))
                    continue
                c = pat_cond(pat)
                if guard is not None:
                    c = ("bin", "∧", c, self.tr_prop(guard, env))
                n, t = arm_value(body, env)
                rt = join_types(rt, t, "match")
                chain.append((c, n))
            if final is None:
                # exhaustive without a wildcard only for bool true/false
                if (st == "bool" or (isinstance(st, tuple) and st[0] == "boolenum")) and len(chain) == 2:
                    final = chain.pop()[1]
                elif isinstance(st, tuple) and st[0] == "enum" and self.enum_arms_exhaustive(st[1], arms):
                    final = chain.pop()[1]      # the last arm takes what the others leave (every variant is listed)
                else:
                    raise Unsupported("match without a final wildcard arm")
            node = final
            for c, n in reversed(chain):
                node = ("ite", c, n, node, None)
            if node[0] == "ite" and comment:
                node = node[:4] + (comment,)
            if pre is not None:
                node = mk_let("%s : %s" % (pre[0], lean_type(st)), pre[1], node)
            return self.wrap_tries(binds, node, rt)
        raise Unsupported("match on %s" % type_str(st))

# ----------------------------------------------------------------------------------------------
# 4d. Safety predicates: "no arithmetic node overflows its Rust type, no division by zero, no index out of range"
# ----------------------------------------------------------------------------------------------
# Built structurally over the translated Lean term (whose arithmetic nodes carry the Rust type), path-sensitively:
#   safe(if c then a else b) = safe c ∧ (c → safe a) ∧ (¬c → safe b);  a ∧ b: safe a ∧ (a → safe b);  a ∨ b: safe a ∧ (¬a → safe b)
#   safe(let x := v; b) = safe v ∧ (let x := v; safe b);  match arms under their patterns;  calls: Tr.g_safe actuals.
# `None` stands for `True`.

def s_and(*parts):
    out = None
    for p in parts:
        if p is None:
            continue
        out = p if out is None else ("bin", "∧", out, p)
    return out


def s_imp(c, s):
    return None if s is None else ("imp", c, s)


def strip_tag(node):
    """The value term without the printer-invisible tag (so that the safety predicate shows plain arithmetic)."""
    return node


def safe_of(node, fn_names):
    k = node[0]
    S = lambda n: safe_of(n, fn_names)
    if k in ("atom", "num"):
        return None
    if k == "com":
        return S(node[2])
    if k == "let":
        body = S(node[3])
        return s_and(S(node[2]), None if body is None else ("let", node[1], node[2], body, None))
    if k == "ite":
        c = node[1]
        return s_and(S(c), s_imp(c, S(node[2])), s_imp(("not", c), S(node[3])))
    if k == "match":
        arms = [(p, S(b)) for p, b in node[2]]
        m = None
        if any(b is not None for _, b in arms):
            m = ("match", node[1], [(p, b if b is not None else A("True")) for p, b in arms], None)
        return s_and(S(node[1]), m)
    if k in ("tuple", "list"):
        return s_and(*[S(x) for x in node[1]])
    if k in ("proj", "fld"):
        return S(node[1])
    if k == "struct":
        return s_and(*([S(node[2])] if node[2] is not None else []) + [S(v) for _, v in node[3]])
    if k == "not":
        return S(node[1])
    if k in ("imp", "lamT", "forallmem"):
        return None
    if k == "assert":       # a `debug_assert!`: the caller's contract
        return s_and(S(node[1]), node[1], S(node[2]))
    if k == "inl":
        body = S(node[2])
        return s_and(*([S(a) for a in node[3]] + [None if body is None else ("inl", node[1], body, node[3])]))
    if k == "neg":
        fits = None
        if len(node) > 2 and node[2] in FITS_FN:
            fits = ("app", FITS_FN[node[2]], [("neg", node[1])])
        return s_and(S(node[1]), fits)
    if k == "bin":
        op, l, r = node[1], node[2], node[3]
        tag = node[4] if len(node) > 4 else None
        if op == "∧":
            return s_and(S(l), s_imp(l, S(r)))
        if op == "∨":
            return s_and(S(l), s_imp(("not", l), S(r)))
        extra = None
        if isinstance(tag, str) and tag in FITS_FN:
            extra = ("app", FITS_FN[tag], [("bin", op, l, r)])
        elif isinstance(tag, tuple) and tag[0] == "div":
            extra = div_cond(l, r, tag[1], tag[2])
        return s_and(S(l), S(r), extra)
    if k == "app":
        name, args = node[1], node[2]
        tag = node[3] if len(node) > 3 else None
        sargs = [S(a) for a in args]
        if name == "decide" and len(args) == 1:
            return sargs[0]
        if isinstance(tag, tuple) and tag[0] == "div":
            return s_and(sargs[0], sargs[1], div_cond(args[0], args[1], tag[1], tag[2]))
        if isinstance(tag, tuple) and tag[0] == "idx":
            ix = args[1]
            if tag[1] is not None:
                bound = ("bin", "<", ix, ("num", tag[1]))
            else:
                bound = ("bin", "<", ix, ("app", "Int.ofNat", [("app", "List.length", [args[0]])]))
            return s_and(sargs[0], sargs[1], ("bin", "≤", ("num", 0), ix), bound)
        if isinstance(tag, tuple) and tag[0] == "abs":
            return s_and(sargs[0], ("app", FITS_FN[tag[1]], [("app", "absI", [args[0]])]))
        if isinstance(tag, tuple) and tag[0] in ("bidx", "bfrom", "bto", "bslice"):
            # byte slices: `s[i]` needs i < len, `&s[lo..hi]` needs lo <= hi <= len
            ln = ("app", "bLen", [args[0]])
            if tag[0] == "bidx":
                bound = s_and(("bin", "≤", ("num", 0), args[1]), ("bin", "<", args[1], ln))
            elif tag[0] == "bslice":
                bound = s_and(("bin", "≤", ("num", 0), args[1]), ("bin", "≤", args[1], args[2]), ("bin", "≤", args[2], ln))
            else:
                bound = s_and(("bin", "≤", ("num", 0), args[1]), ("bin", "≤", args[1], ln))
            return s_and(*(sargs + [bound]))
        if isinstance(tag, tuple) and tag[0] == "iterpred":
            # a predicate closure applied to items of the list: safe on every item (it may be applied to any of them)
            lam, lst = args[tag[1]], args[tag[2]]
            body = S(lam[2])
            q = None if body is None else ("forallmem", lam[1][0][0], lst, body)
            return s_and(S(lst), q)
        if isinstance(tag, tuple) and tag[0] == "fold":
            lam, init, lst = args
            body = S(lam[2])
            q = None if body is None else ("app", "foldSafe", [lam, ("lamT", lam[1], body), init, lst])
            return s_and(S(init), S(lst), q)
        if isinstance(tag, tuple) and tag[0] == "forfirst":
            lam, start, lst = args
            body = S(lam[2])
            q = None if body is None else ("app", "forFirstSafe " + tag[1], [lam, ("lamT", lam[1], body), start, lst])
            return s_and(S(lst), q)
        if isinstance(tag, tuple) and tag[0] == "loop":
            fuel, cond, step, init = args
            pc, pb = S(cond[2]), S(step[2])
            true = A("True")
            return s_and(S(init), ("app", "loopSafe", [fuel, cond, step, ("lamT", cond[1], pc if pc is not None else true),
                                                      ("lamT", step[1], pb if pb is not None else true), init]))
        if name.startswith("Tr.") and name[3:] in fn_names:
            return s_and(*(sargs + [("app", name + "_safe", args)]))
        return s_and(*sargs)
    raise AssertionError("safe_of: %r" % (node[:2],))


def div_cond(l, r, ty, sv):
    """Rust panics on `x / 0`, `x % 0` and on `MIN / -1`, `MIN % -1`."""
    lo = INT_RANGE[ty][0] if ty in INT_RANGE else None
    if sv is not None:
        if sv == -1 and lo is not None and lo < 0:
            return ("bin", "≠", l, ("num", lo))
        return None
    c = ("bin", "≠", r, ("num", 0))
    if lo is not None and lo < 0:
        c = ("bin", "∧", c, ("not", ("bin", "∧", ("bin", "=", l, ("num", lo)), ("bin", "=", r, ("num", -1)))))
    return c


# ----------------------------------------------------------------------------------------------
# 5. Driver
# ----------------------------------------------------------------------------------------------

PRELUDE = r'''
/-! ### Helpers of the translation (machine-integer operations the model has no name for) -/

/-- `x as i8/i16/i64/u16/u64(usize)`: two's complement wrap. -/
def asI8 (x : Int) : Int := let r := x % 256; if r ≥ 128 then r - 256 else r
def asI16 (x : Int) : Int := let r := x % 65536; if r ≥ 32768 then r - 65536 else r
def asI64 (x : Int) : Int :=
  let r := x % 18446744073709551616
  if r ≥ 9223372036854775808 then r - 18446744073709551616 else r
def asU16 (x : Int) : Int := x % 65536
def asU64 (x : Int) : Int := x % 18446744073709551616

/-- `i32::abs` / `i64::abs` with release-mode wrapping: `MIN.abs() = MIN`. -/
def absI32 (x : Int) : Int := if x = -2147483648 then x else if x < 0 then -x else x
def absI64 (x : Int) : Int := if x = -9223372036854775808 then x else if x < 0 then -x else x
def absI (x : Int) : Int := if x < 0 then -x else x
/-- `unsigned_abs` (never overflows). -/
def uabs (x : Int) : Int := if x < 0 then -x else x
def signum (x : Int) : Int := if x < 0 then -1 else if x = 0 then 0 else 1
def checkedU32 (x : Int) : Option Int := if 0 ≤ x ∧ x ≤ 4294967295 then some x else none
def checkedU64 (x : Int) : Option Int := if 0 ≤ x ∧ x ≤ 18446744073709551615 then some x else none
def fitsI8 (x : Int) : Prop := -128 ≤ x ∧ x ≤ 127
def fitsI16 (x : Int) : Prop := -32768 ≤ x ∧ x ≤ 32767
def fitsU8 (x : Int) : Prop := 0 ≤ x ∧ x ≤ 255
def fitsU16 (x : Int) : Prop := 0 ≤ x ∧ x ≤ 65535
/-- `u64` and (on the 64-bit targets the crate is built for) `usize`. -/
def fitsU64 (x : Int) : Prop := 0 ≤ x ∧ x ≤ 18446744073709551615
instance (x : Int) : Decidable (fitsI8 x) := by unfold fitsI8; exact inferInstance
instance (x : Int) : Decidable (fitsI16 x) := by unfold fitsI16; exact inferInstance
instance (x : Int) : Decidable (fitsU8 x) := by unfold fitsU8; exact inferInstance
instance (x : Int) : Decidable (fitsU16 x) := by unfold fitsU16; exact inferInstance
instance (x : Int) : Decidable (fitsU64 x) := by unfold fitsU64; exact inferInstance
/-- `Ord::cmp` on integers, as the discriminant of `std::cmp::Ordering` (Less = -1, Equal = 0, Greater = 1). -/
def cmpInt (a b : Int) : Int := if a < b then -1 else if a = b then 0 else 1
'''


PRELUDE_FMT = r'''
/-! ### Byte slices and the iterator idioms (fixed combinators of the translation) -/

/-- `s.first()`: the first byte as a `u8` value. -/
def bFirst (s : List Nat) : Option Int := match s with | [] => none | b :: _ => some (Int.ofNat b)
/-- `s.len()`, `it.count()`. -/
def bLen (s : List Nat) : Int := Int.ofNat s.length
/-- `s[i]` (the bound `i < s.len()` is an obligation of `_safe`). -/
def bGet (s : List Nat) (i : Int) : Int := Int.ofNat (idxD s i 0)
/-- `&s[lo..]`, `&s[..hi]`, `&s[lo..hi]` (bounds: `_safe`). -/
def bFrom (s : List Nat) (lo : Int) : List Nat := s.drop lo.toNat
def bTo (s : List Nat) (hi : Int) : List Nat := s.take hi.toNat
def bSlice (s : List Nat) (lo hi : Int) : List Nat := (s.take hi.toNat).drop lo.toNat
/-- `s[i] = v`. -/
def bSet (s : List Nat) (i v : Int) : List Nat := if i < 0 then s else s.set i.toNat v.toNat
/-- `it.position(p)`. -/
def bPosition (p : Nat → Bool) (s : List Nat) : Option Int := (s.findIdx? p).map Int.ofNat
/-- `u8::is_ascii_digit`, `is_ascii_whitespace` (space, \t, \n, form feed, \r), `is_ascii_uppercase/lowercase`. -/
def isAsciiDigit (b : Int) : Bool := decide (48 ≤ b ∧ b ≤ 57)
def isAsciiWhitespace (b : Int) : Bool := decide (b = 32 ∨ b = 9 ∨ b = 10 ∨ b = 12 ∨ b = 13)
def isAsciiUppercase (b : Int) : Bool := decide (65 ≤ b ∧ b ≤ 90)
def isAsciiLowercase (b : Int) : Bool := decide (97 ≤ b ∧ b ≤ 122)
def toAsciiLowercase (b : Int) : Int := if 65 ≤ b ∧ b ≤ 90 then b + 32 else b
def toAsciiUppercase (b : Int) : Int := if 97 ≤ b ∧ b ≤ 122 then b - 32 else b
/-- `<[u8]>::eq_ignore_ascii_case`: same length, bytewise equal after `to_ascii_lowercase`. -/
def bEqIgnoreCase : List Nat → List Nat → Bool
  | [], [] => true
  | a :: s, b :: t => decide (toAsciiLowercase (Int.ofNat a) = toAsciiLowercase (Int.ofNat b)) && bEqIgnoreCase s t
  | _, _ => false

/-- Safety of `it.fold(init, f)`: the obligation `P acc x` of the closure body holds at every step. -/
def foldSafe {α : Type} (f : α → Nat → α) (P : α → Nat → Prop) : α → List Nat → Prop
  | _, [] => True
  | a, x :: xs => P a x ∧ foldSafe f P (f a x) xs

/-- `for (i, x) in xs.iter().enumerate() { .. return r; .. }` as a search: the first item on which the body returns
    (`f i x = some r`), `none` when the loop runs to its end. -/
def forFirst {β : Type} (f : Int → List Nat → Option β) : Int → List (List Nat) → Option β
  | _, [] => none
  | i, x :: xs => match f i x with
    | some r => some r
    | none => forFirst f (i + 1) xs

/-- Safety of such a loop: the obligation `P i x` of the body holds for every item that is reached. -/
def forFirstSafe {β : Type} (f : Int → List Nat → Option β) (P : Int → List Nat → Prop) : Int → List (List Nat) → Prop
  | _, [] => True
  | i, x :: xs => P i x ∧ (f i x = none → forFirstSafe f P (i + 1) xs)

/-- `while cond(st) { st = step(st) }` with an iteration bound known at translation time. -/
def loopN {σ : Type} : Nat → (σ → Bool) → (σ → σ) → σ → σ
  | 0, _, _, s => s
  | n + 1, cond, step, s => if cond s = true then loopN n cond step (step s) else s

/-- Safety of such a loop: the condition (`Pc`) and, while it holds, the body (`Pb`) are safe in every state reached,
    and the condition is false when the fuel is used up (so the bounded loop is the loop). -/
def loopSafe {σ : Type} : Nat → (σ → Bool) → (σ → σ) → (σ → Prop) → (σ → Prop) → σ → Prop
  | 0, cond, _, Pc, _, s => Pc s ∧ cond s = false
  | n + 1, cond, step, Pc, Pb, s => Pc s ∧ (cond s = true → Pb s ∧ loopSafe n cond step Pc Pb (step s))
'''


def read_generated(path):
    ints, tables = set(), set()
    try:
        with open(path) as f:
            for line in f:
                m = re.match(r"def\s+([A-Za-z_][A-Za-z_0-9]*)\s*:\s*(.*?)\s*:=", line)
                if m:
                    if m.group(2) == "Int":
                        ints.add(m.group(1))
                    elif m.group(2) in ("List Int", "List (List Int)", "List (Bool × Int)"):
                        tables.add(m.group(1))
                    elif m.group(2) in ("List (List Nat)", "List (List (List Nat))"):
                        tables.add(m.group(1))      # tables of strings (phase 6)
    except IOError:
        pass
    return ints, tables


def check_enum_from_identity(crate):
    """`impl From<usize> for E`: `TABLE[arg - 1]` with TABLE = the variants in discriminant order 1..n."""
    for (fname, impl, name), item in crate.fns.items():
        m = re.match(r"From<usize> for (\w+)$", impl or "")
        if not m or name != "from" or m.group(1) not in crate.enums or len(item.params) != 1:
            continue
        en = m.group(1)
        variants = crate.enums[en]
        toks = [t.text for t in item.body]
        p = item.params[0][0]
        try:
            b0 = toks.index("=")
            lst0 = toks.index("[", b0)
            lst1 = toks.index("]", lst0)
            table = [t for t in toks[lst0 + 1:lst1] if t != ","]
            tname = toks[toks.index("const") + 1]
            ok = toks[lst1 + 1:] == [";", tname, "[", p, "-", "1", "]"]
            ok = ok and [variants.get(v) for v in table] == list(range(1, len(variants) + 1))
        except ValueError:
            ok = False
        if ok:
            ENUM_FROM_INT_IDENTITY.add(en)


def split_params(spec):
    """`"self, a: (i32, u32)"` split at top-level commas."""
    parts, depth, cur = [], 0, ""
    for ch in spec:
        if ch in "(<[":
            depth += 1
        elif ch in ")>]":
            depth -= 1
        if ch == "," and depth == 0:
            parts.append(cur)
            cur = ""
        else:
            cur += ch
    if cur.strip():
        parts.append(cur)
    return [p.strip() for p in parts if p.strip()]


def build_whitelist(world, whitelist=None, consts=None, group="base"):
    entries = []
    whitelist = WHITELIST if whitelist is None else whitelist
    consts = CONST_WHITELIST if consts is None else consts
    for (fname, impl, fn, lean, pspec, ret, model) in whitelist:
        self_ty = impl.split(" for ")[-1].strip() if impl else None
        params = []
        for part in split_params(pspec):
            if part == "self":
                params.append(("self", self_type(self_ty)))
            else:
                n, t = part.split(":", 1)
                params.append((n.strip(), parse_wl_type(world, t.strip())))
        ent = {"kind": "fn", "file": fname, "impl": impl, "fn": fn, "lean": lean, "params_t": params,
               "ret_t": parse_wl_type(world, ret), "model": model,
               "key": "%s::%s%s" % (fname, (impl + "::") if impl else "", fn), "self_ty": self_ty, "group": group}
        entries.append(ent)
        world.wl[(impl, fn)] = ent
        if self_ty is not None and " for " not in impl:
            world.wl_by_type[(self_ty, fn)] = ent
    for ent in entries:       # whitelisted trait methods (`DateTime::second`): callable as methods when unambiguous
        if ent["self_ty"] is not None and " for " in ent["impl"] and not ent["impl"].startswith(("From<", "Ord for", "PartialOrd", "PartialEq")):
            world.wl_by_type.setdefault((ent["self_ty"], ent["fn"]), ent)
    for (fname, name, model) in consts:
        ent = {"kind": "const", "file": fname, "impl": None, "fn": name, "lean": name, "params_t": [],
               "ret_t": None, "model": model, "key": "%s::%s" % (fname, name), "self_ty": None, "group": group}
        entries.append(ent)
        world.wl[("const", name)] = ent
    return entries


def translate_entry(world, ent):
    """Returns dict(node=, deps=, inlined=, sha1=, line=, params=[(name, type)], ret=)."""
    crate = world.crate
    if ent["kind"] == "const":
        c = crate.consts.get((None, ent["fn"]))
        if c is None or c.file != ent["file"]:
            raise Unsupported("constant not found in %s" % ent["file"])
        tr = Translator(world, c.file, None)
        ty = tr.resolve(parse_type_toks(c.ty))
        if not is_int(ty):
            raise Unsupported("constant of type %s" % type_str(ty))
        node, t = tr.tr_expr(parse_expr_toks(c.init), {}, ty)
        if not types_compatible(t, ty):
            raise Unsupported("initialiser has type %s, declared %s" % (type_str(t), type_str(ty)))
        text = toks_text(c.init)
        return {"node": node, "deps": tr.deps, "inlined": tr.inlined, "line": c.line, "params": [], "ret": ty,
                "sha1": hashlib.sha1(text.encode()).hexdigest()}
    item = crate.fns.get((ent["file"], ent["impl"], ent["fn"]))
    if item is None and ent["fn"] == "cmp" and (ent["impl"] or "").startswith("Ord for ") \
            and "Ord" in crate.derives.get((ent["file"], ent["self_ty"]), ()):
        # `#[derive(Ord)]` on a one-field struct: comparison of the field
        params = [("self", ("nt", ent["self_ty"])), ("other", ("nt", ent["self_ty"]))]
        return {"safe": None, "node": ("app", "cmpInt", [A("self"), A("other")]), "deps": set(), "inlined": [],
                "line": crate.derives[(ent["file"], ent["self_ty"])][0], "params": params, "ret": ("enum", "Ordering"),
                "sha1": hashlib.sha1(b"#[derive(Ord)]").hexdigest(), "derived": True}
    if item is None:
        if ent["file"] in crate.broken:
            raise Unsupported("%s could not be scanned (%s)" % (ent["file"], crate.broken[ent["file"]]))
        raise Unsupported("function not found in %s" % ent["file"])
    if getattr(item, "generic", False):
        raise Unsupported("generic function")
    tr = Translator(world, item.file, ent["self_ty"])
    tr.contracts = ent.get("group") == "fmt"
    params = []
    for pn, ptoks in item.params:
        if pn is None:
            raise Unsupported("pattern parameter")
        if getattr(item, "writer", None) and ptoks is not None and [x.text for x in ptoks if x.text not in ("&", "mut")] == [item.writer]:
            if tr.writer_var is not None:
                raise Unsupported("two `fmt::Write` parameters")
            tr.writer_var = pn          # not a parameter of the translation: it returns the bytes written
            continue
        if getattr(item, "clock", None) and ptoks is not None and [x.text for x in ptoks if x.text not in ("&", "mut")] == [item.clock]:
            params.append((pn, CLOCK))
            continue
        if ptoks is None:
            if ent["self_ty"] is None:
                raise Unsupported("`self` in a free function")
            params.append((pn, self_type(ent["self_ty"])))
        else:
            params.append((pn, tr.resolve(parse_type_toks(ptoks))))
    want = ent["wl_params_t"]
    if len(params) != len(want) or any(lean_type(pt) != lean_type(wt) for (_, pt), (_, wt) in zip(params, want)):
        raise Unsupported("signature changed: (%s), whitelisted (%s)" % (
            ", ".join("%s: %s" % (n, type_str(t)) for n, t in params),
            ", ".join("%s: %s" % (n, type_str(t)) for n, t in want)))
    ret = tr.resolve(parse_type_toks(item.ret)) if item.ret else "unit"
    if getattr(item, "mut_self", False) and ret == "unit":
        ret = params[0][1]          # a `&mut self` method is translated as returning the new `self`
    if tr.writer_var is not None:
        if ret != ("result", "unit"):
            raise Unsupported("a function writing to a `fmt::Write` sink must return `Result<()>`")
        ret = BYTES
    if lean_type(ret) != lean_type(ent["wl_ret_t"]):
        raise Unsupported("return type changed: %s, whitelisted %s" % (type_str(ret), type_str(ent["wl_ret_t"])))
    node, t = tr.translate_body(item, params, ret)
    fn_names = set(e["lean"] for e in world.wl.values() if e["kind"] == "fn")
    return {"safe": safe_of(node, fn_names), "node": node, "deps": tr.deps, "inlined": sorted(set(tr.inlined)), "line": item.line, "params": params,
            "ret": ret, "sha1": hashlib.sha1(item.src_text.encode()).hexdigest(), "note": "; ".join(tr.notes)}


def emit_def(ent, res):
    head = "/-- `%s` (%s:%d), body sha1 %s -/" % (ent["key"], ent["file"], res["line"], res["sha1"][:12])
    if ent["kind"] == "const":
        sig = "def %s : Int :=" % ent["lean"]
    else:
        sig = "def %s %s : %s :=" % (ent["lean"],
                                    " ".join("(%s : %s)" % (lean_ident(n), lean_type(t)) for n, t in res["params"]),
                                    lean_type(res["ret"]))
    lines = [head]
    if res["inlined"]:
        lines.append("-- inlined helpers: " + ", ".join(res["inlined"]))
    lines.append(sig)
    lines.extend(layout(res["node"], 2))
    if ent["kind"] == "fn":
        lines.append("")
        lines.append("/-- No arithmetic node of `%s` leaves its Rust integer type, no division by zero, no index out of range"
                     % ent["key"])
        lines.append("    (path-sensitive; calls contribute the callee's predicate). -/")
        lines.append("def %s_safe %s : Prop :=" % (ent["lean"], " ".join(
            "(%s : %s)" % (lean_ident(n), lean_type(t)) for n, t in res["params"])))
        lines.extend(layout(res["safe"] if res["safe"] is not None else A("True"), 2))
    return "\n".join(lines)


def emit_stub(world, ent, reason):
    if ent["kind"] == "const":
        ty = "Int"
    else:
        ty = " → ".join([lean_type_atom(t) for _, t in ent["wl_params_t"]] + [lean_type(ent["wl_ret_t"])])
    reason = " ".join(str(reason).split())
    out = "-- UNTRANSLATED: %s\ndef %s : %s := %s" % (reason, ent["lean"], ty, ent["model"])
    if ent["kind"] == "fn":
        ps = [lean_type_atom(t) for _, t in ent["wl_params_t"]]
        out += "\n-- UNTRANSLATED: no safety predicate either\ndef %s_safe : %s := %s" % (
            ent["lean"], " → ".join(ps + ["Prop"]),
            ("fun %s => True" % " ".join("_" for _ in ps)) if ps else "True")
    return out


def main(argv=None):
    ap = argparse.ArgumentParser(description=__doc__.split("\n")[0])
    here = os.path.dirname(os.path.abspath(__file__))
    ap.add_argument("--repo", default=os.environ.get("VERIF_REPO", "/repo"))
    ap.add_argument("--out-dir", default=os.path.join(here, "..", "lean", "SqlDt"))
    ap.add_argument("--verbose", "-v", action="store_true")
    ap.add_argument("--force-stubs", action="store_true",
                    help="testing aid: emit every whitelisted item as an UNTRANSLATED alias (the proof files must still build)")
    args = ap.parse_args(argv)

    crate = load_crate(args.repo)
    check_enum_from_identity(crate)
    gen_ints, gen_tables = read_generated(os.path.join(args.out_dir, "Generated.lean"))
    world = World(crate, gen_ints, gen_tables)
    entries = build_whitelist(world)
    # phase 6: a second group of entries with its own output files.  While the first group is translated the
    # second one is invisible, so `Translated.lean` cannot come to depend on it.
    base_wl, base_by_type = dict(world.wl), dict(world.wl_by_type)
    fmt_entries = build_whitelist(world, FMT_WHITELIST, [], "fmt")
    full_wl, full_by_type = world.wl, world.wl_by_type

    # the signature a caller sees is the one in the source, as long as its Lean type is the whitelisted one
    # (an `i64` parameter turned `u64` keeps the theorem statement; its range hypotheses are the whitelisted ones)
    for ent in entries + fmt_entries:
        ent["wl_params_t"], ent["wl_ret_t"] = ent["params_t"], ent["ret_t"]
        if ent["kind"] != "fn":
            continue
        item = crate.fns.get((ent["file"], ent["impl"], ent["fn"]))
        if item is None:
            continue
        try:
            tr0 = Translator(world, item.file, ent["self_ty"])
            ps = [(pn, self_type(ent["self_ty"]) if pt is None else tr0.resolve(parse_type_toks(pt))) for pn, pt in item.params]
            rt = tr0.resolve(parse_type_toks(item.ret)) if item.ret else "unit"
            if getattr(item, "mut_self", False) and rt == "unit":
                rt = ps[0][1]
            if len(ps) == len(ent["params_t"]) and lean_type(rt) == lean_type(ent["ret_t"]) and \
                    all(lean_type(a[1]) == lean_type(b[1]) for a, b in zip(ps, ent["params_t"])):
                if [t for _, t in ps] != [t for _, t in ent["params_t"]] or rt != ent["ret_t"]:
                    ent["sig_note"] = "signature differs from the whitelist within the same Lean types: (%s) -> %s" % (
                        ", ".join("%s: %s" % (n, type_str(t)) for n, t in ps), type_str(rt))
                ent["params_t"], ent["ret_t"] = ps, rt
        except Exception:
            pass

    def run_group(entries):
        """Translate the entries of one output file: (bodies of the definitions, status records, has stubs)."""
        results, status = {}, []
        for ent in entries:
            try:
                if args.force_stubs:
                    raise Unsupported("forced by --force-stubs")
                results[ent["lean"]] = translate_entry(world, ent)
            except Unsupported as ex:
                results[ent["lean"]] = str(ex)
            except RecursionError:
                results[ent["lean"]] = "translator error: recursion too deep"
            except Exception as ex:     # a translator bug must not take the check run down: degrade, loudly
                results[ent["lean"]] = "translator error: %s: %s" % (type(ex).__name__, ex)
                if args.verbose:
                    traceback.print_exc()

        # dependency order (Lean wants definitions before uses); cycles degrade
        by_lean = {e["lean"]: e for e in entries}
        order, state = [], {}

        def visit(name, stack):
            if state.get(name) == 2:
                return True
            if state.get(name) == 1:
                return False
            state[name] = 1
            res = results[name]
            if isinstance(res, dict):
                for d in sorted(res["deps"]):
                    if d in by_lean and not visit(d, stack + [name]):
                        results[name] = "recursive call chain through %s" % d
                        break
            state[name] = 2
            order.append(name)
            return True

        for ent in entries:
            visit(ent["lean"], [])

        stubs = [n for n in order if not isinstance(results[n], dict)]
        body = []
        for n in stubs:
            body.append(emit_stub(world, by_lean[n], results[n]))
        for n in order:
            if isinstance(results[n], dict):
                body.append(emit_def(by_lean[n], results[n]))
        for ent in entries:
            res = results[ent["lean"]]
            rec = {"function": ent["key"], "lean": "SqlDt.Tr." + ent["lean"], "model": ent["model"]}
            if isinstance(res, dict):
                rec.update({"status": "translated", "sha1": res["sha1"], "line": res["line"]})
                if ent["kind"] == "fn":
                    # "proved" = the predicate `Tr.f_safe` is generated from the Rust body and Lemmas/TranslatedSafe.lean
                    # (which must build) proves it; a stub has no predicate
                    rec["safety"] = "proved"
                if res["inlined"]:
                    rec["inlined"] = res["inlined"]
                if ent.get("sig_note"):
                    rec["note"] = ent["sig_note"]
                if res.get("note"):
                    rec["note"] = (rec.get("note", "") + "; " if rec.get("note") else "") + res["note"]
                if res["deps"]:
                    rec["calls"] = sorted("SqlDt.Tr." + d for d in res["deps"])
            else:
                rec.update({"status": "untranslated", "reason": res})
                if ent["kind"] == "fn":
                    rec["safety"] = "untranslated"
            status.append(rec)
        return body, status, stubs

    world.wl, world.wl_by_type = base_wl, base_by_type
    body, status, stubs = run_group(entries)
    world.wl, world.wl_by_type = full_wl, full_by_type
    fmt_body, fmt_status, fmt_stubs = run_group(fmt_entries)

    header = [
        "/-",
        "  GENERATED FILE - do not edit.  Written by tools/rs2lean.py from <repo>/src/*.rs on every run.",
        "  Each definition is the mechanical translation of the Rust body named in its doc comment",
        "  (unbounded `Int` arithmetic; `rdiv`/`rrem` = Rust's signed `/` `%`; `as` casts wrap).",
        "  `-- UNTRANSLATED` definitions are aliases of the hand-written model (see TranslatedStatus.json).",
        "-/",
        "import SqlDt.Generated",
        "import SqlDt.Model.Basic",
        "import SqlDt.Model.F64     -- the model's soft-float (core Lean, imports Model.Basic only)",
        "import SqlDt.Model.Format  -- only for the structure `NDT` that `format::NaiveDateTime` is mapped onto",
    ]
    if stubs:
        header.append("import SqlDt.Model.Parse   -- only because of the UNTRANSLATED aliases below")
    header += ["set_option linter.unusedVariables false", "namespace SqlDt.Tr", "open SqlDt SqlDt.Gen", PRELUDE]
    text = "\n".join(header) + "\n" + "\n\n".join(body) + "\n\nend SqlDt.Tr\n"

    fmt_header = [
        "/-",
        "  GENERATED FILE - do not edit.  Written by tools/rs2lean.py from <repo>/src/format.rs on every run (phase 6).",
        "  The byte-slice leaf functions of the formatter / parser: `&[u8]` is `List Nat` (the model's `Bytes`), a byte taken",
        "  out of a slice is an `Int` (`Int.ofNat b`, Rust type `u8`), `usize` is `Int`.  Slicing, indexing and the iterator",
        "  idioms are the fixed combinators below; their bounds are obligations of the `_safe` predicates.",
        "  `-- UNTRANSLATED` definitions are aliases of the hand-written model (see TranslatedFmtStatus.json).",
        "-/",
        "import SqlDt.Translated",
    ]
    if fmt_stubs:
        fmt_header.append("import SqlDt.Model.Parse   -- only because of the UNTRANSLATED aliases below")
    fmt_header += ["set_option linter.unusedVariables false", "namespace SqlDt.Tr", "open SqlDt SqlDt.Gen", PRELUDE_FMT]
    fmt_text = "\n".join(fmt_header) + "\n" + "\n\n".join(fmt_body) + "\n\nend SqlDt.Tr\n"

    def write_if_changed(path, content):
        try:
            with open(path) as f:
                if f.read() == content:
                    return
        except IOError:
            pass
        with open(path, "w") as f:
            f.write(content)

    write_if_changed(os.path.join(args.out_dir, "Translated.lean"), text)
    write_if_changed(os.path.join(args.out_dir, "TranslatedStatus.json"),
                     json.dumps({"repo": os.path.abspath(args.repo), "functions": status}, indent=1, sort_keys=True) + "\n")
    write_if_changed(os.path.join(args.out_dir, "TranslatedFmt.lean"), fmt_text)
    write_if_changed(os.path.join(args.out_dir, "TranslatedFmtStatus.json"),
                     json.dumps({"repo": os.path.abspath(args.repo), "functions": fmt_status}, indent=1, sort_keys=True) + "\n")
    n_ok = sum(1 for s in status if s["status"] == "translated")
    print("rs2lean: %d translated, %d untranslated (of %d whitelisted)" % (n_ok, len(status) - n_ok, len(status)))
    for s in status:
        if s["status"] != "translated":
            print("  untranslated: %-50s %s" % (s["function"], s["reason"]))
    n_ok = sum(1 for s in fmt_status if s["status"] == "translated")
    print("rs2lean (format.rs leaves): %d translated, %d untranslated (of %d whitelisted)" % (
        n_ok, len(fmt_status) - n_ok, len(fmt_status)))
    for s in fmt_status:
        if s["status"] != "translated":
            print("  untranslated: %-50s %s" % (s["function"], s["reason"]))
    return 0


if __name__ == "__main__":
    try:
        sys.exit(main())
    except Exception:
        traceback.print_exc()
        sys.exit(1)
