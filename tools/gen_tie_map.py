#!/usr/bin/env python3
"""Regenerate tools/tie_map.json: for each property C01..C19 the `*_eq` theorems of Lemmas/TranslatedEq.lean that the
property's theorems rest on = the functions named for it in DESIGN.md section 7 / the task statement, plus every whitelisted
model function mentioned in lean/SqlDt/Props/Cxx*.lean or in the Lemmas files these import directly, closed under the call
graph of the translated functions (TranslatedStatus.json).  Each list also contains the `_safe` theorems (Lemmas/TranslatedSafe.lean) of those functions; C02 and C03 list all of them.
Run after tools/rs2lean.py."""
import json,re,glob,os
os.chdir(os.path.join(os.path.dirname(os.path.abspath(__file__)), '..'))
st=json.load(open('lean/SqlDt/TranslatedStatus.json'))['functions']
if os.path.exists('lean/SqlDt/TranslatedFmtStatus.json'):     # phase 6: the byte-slice leaf functions of format.rs
    st=st+json.load(open('lean/SqlDt/TranslatedFmtStatus.json'))['functions']
m2eq={}; calls={}; alleq=set()
for f in st:
    lean=f['lean'].replace('SqlDt.Tr.','')
    eq='SqlDt.TrEq.'+lean+'_eq'; alleq.add(eq)
    names=re.findall(r"SqlDt\.((?:[A-Z][A-Za-z]*\.)?[A-Za-z_][A-Za-z0-9_]*)", f['model'])
    names=[n for n in names if not n.startswith('Gen.') and not n.startswith('TUnit') and not n.startswith('Ty.')]
    if 'trunc' in f['model']: names=['Timestamp.trunc']
    for n in names: m2eq.setdefault(n,set()).add(eq)
    calls[eq]=set('SqlDt.TrEq.'+c.replace('SqlDt.Tr.','')+'_eq' for c in f.get('calls',[]))
safe_of_eq = {}
for f in st:
    if 'safety' in f:
        lean = f['lean'].replace('SqlDt.Tr.', '')
        safe_of_eq['SqlDt.TrEq.' + lean + '_eq'] = 'SqlDt.TrSafe.' + lean + '_safe'


def closure(s):
    s=set(s); todo=list(s)
    while todo:
        x=todo.pop()
        for y in calls.get(x,()):
            if y not in s: s.add(y); todo.append(y)
    return s
E=lambda *xs: set('SqlDt.TrEq.'+x+'_eq' for x in xs)
# the functions named in the task statement / DESIGN.md section 7 for each property
declared={
 'C04': E('NDT.hour12','NDT.new','NDT.of_date','NDT.of_time','NDT.of_timestamp','NDT.of_interval_ym','NDT.of_interval_dt','NDT.of_oracle_date'),
 'C05': E('NDT.adjust_hour12','NDT.new','Date.try_from_ndt','Date.try_from_ndt_ref','Time.try_from_ndt','Time.try_from_ndt_ref','Timestamp.try_from_ndt','IntervalYM.try_from_ndt','IntervalDT.try_from_ndt','OracleDate.try_from_ndt'),
 'C06': E('NDT.hour12','NDT.adjust_hour12','NDT.new','NDT.of_date','NDT.of_time','NDT.of_timestamp','NDT.of_interval_ym','NDT.of_interval_dt','NDT.of_oracle_date','Date.try_from_ndt','Date.try_from_ndt_ref','Time.try_from_ndt','Time.try_from_ndt_ref','Timestamp.try_from_ndt','IntervalYM.try_from_ndt','IntervalDT.try_from_ndt','OracleDate.try_from_ndt'),
 'C15': E('NDT.new','NDT.of_date','NDT.of_time','NDT.of_timestamp','NDT.of_interval_ym','NDT.of_interval_dt','NDT.of_oracle_date','Date.try_from_ndt','Date.try_from_ndt_ref','Time.try_from_ndt','Time.try_from_ndt_ref','Timestamp.try_from_ndt','IntervalYM.try_from_ndt','IntervalDT.try_from_ndt','OracleDate.try_from_ndt'),
 'C14': E('IntervalYM.mul_f64','IntervalYM.div_f64','IntervalDT.mul_f64','IntervalDT.div_f64','Time.mul_f64','Time.div_f64'),
 'C01': E('date2julian','julian2date','is_leap_year','days_of_month','Date.extract','Date.day_of_week','Date.try_from_ymd'),
 'C07': E('Timestamp.extract','Timestamp.new','Timestamp.date','Timestamp.time','Time.try_from_hms','Time.extract','Time.is_valid','Time.from_hms_unchecked','Time.second','Timestamp.second'),
 'C08': E('Date.add_days','Date.sub_days','Date.sub_date','Timestamp.add_interval_dt','Timestamp.sub_interval_dt','Timestamp.add_time','Timestamp.sub_time','Timestamp.sub_timestamp','Timestamp.sub_date','Timestamp.add_days','Timestamp.sub_days','IntervalYM.add_interval_ym','IntervalYM.sub_interval_ym','IntervalDT.add_interval_dt','IntervalDT.sub_interval_dt','IntervalDT.sub_time'),
 'C09': E('date2julian','julian2date','Date.extract','Timestamp.extract','Timestamp.date','Timestamp.time','Date.add_interval_ym_internal','Timestamp.add_interval_ym','Date.last_day_of_month','Timestamp.last_day_of_month'),
 'C10': E('Timestamp.trunc_minute','Timestamp.trunc_hour','date2julian','julian2date','Date.extract','Timestamp.extract','Timestamp.date','Timestamp.time','Timestamp.trunc_day','Timestamp.trunc_hour','Timestamp.trunc_minute','Date.day_of_week','Date.sub_days'),
 'C11': E('date2julian','julian2date','Date.extract','Timestamp.extract','Timestamp.date','Timestamp.time','Date.day_of_week','Date.add_days','Date.sub_days'),
 'C12': E('Time.add_interval_dt','Time.sub_interval_dt','Time.sub_time','Time.from_interval_dt'),
 'C13': E('IntervalDT.second','IntervalYM.cmp','IntervalYM.extract','IntervalDT.extract','IntervalYM.negate','IntervalDT.negate','IntervalYM.try_from_ym','IntervalDT.try_from_dhms','IntervalYM.from_ym_unchecked','IntervalDT.from_dhms_unchecked'),
 'C16': E('OracleDate.try_from_ndt','NDT.of_oracle_date','OracleDate.from_timestamp','OracleDate.new','OracleDate.add_days','OracleDate.sub_days','OracleDate.sub_date','Timestamp.oracle_add_days','Timestamp.oracle_sub_days','OracleDate.add_interval_dt'),
 'C17': E('date2julian','julian2date','Date.extract','Timestamp.extract','Timestamp.date','Timestamp.time','Date.partial_cmp_timestamp','Date.eq_timestamp','Date.and_zero_time','OracleDate.sub_date'),
}
# only theorems that exist in the proof files are listed (a function that is translated but whose theorems are not written
# yet is tied by the correspondence only)
proved=set()
for fn in ['lean/SqlDt/Lemmas/'+x for x in json.load(open('tools/tie_files.json'))]:
    ns=[]
    for l in open(fn):
        m=re.match(r"\s*namespace\s+(\S+)", l)
        if m: ns.append(m.group(1)); continue
        m=re.match(r"\s*end\s+(\S+)", l)
        if m and ns and ns[-1]==m.group(1): ns.pop(); continue
        m=re.match(r"(?:@\[[^\]]*\]\s*)?theorem\s+(\S+)", l)
        if m: proved.add('.'.join(ns+[m.group(1)]))
missing=sorted((alleq|set(safe_of_eq.values()))-proved)
PARSE_LEAVES=E('expect_char','eat_whitespaces','eat_digits','parse_number','parse_week_day_number','parse_fraction','parse_ampm','parse_month_name','parse_week_day_name','parse_year')
FORMAT_LEAVES=E('write_u32','NDT.fraction')
for _p in ('C02','C03','C05','C06','C15','C18'):
    declared[_p]=declared.get(_p,set())|PARSE_LEAVES
for _p in ('C03','C04','C06','C15'):
    declared[_p]=declared.get(_p,set())|FORMAT_LEAVES
declared['C12']=declared.get('C12',set())|E('Time.eq_interval_dt','Time.partial_cmp_interval_dt','IntervalDT.eq_time','IntervalDT.partial_cmp_time')
declared['C17']=declared.get('C17',set())|E('Timestamp.eq_date','Timestamp.partial_cmp_date','Timestamp.eq_oracle_date','OracleDate.eq_timestamp','Date.eq_oracle_date','OracleDate.eq_date')
tie={}
for i in range(1,20):
    pid='C%02d'%i
    files=sorted(glob.glob('lean/SqlDt/Props/%s*.lean'%pid))
    text=''.join(open(f).read() for f in files)
    # one level of property-specific lemma files (the generic ones are shared by everything)
    for imp in set(re.findall(r"^import SqlDt\.Lemmas\.(\w+)", text, re.M)):
        if imp in ('Div','Consts'): continue
        fn='lean/SqlDt/Lemmas/%s.lean'%imp
        if os.path.exists(fn): text+=open(fn).read()
    hits=set(declared.get(pid,set()))
    for n,eqs in m2eq.items():
        if re.search(r"(?<![A-Za-z0-9_.])%s(?![A-Za-z0-9_])"%re.escape(n), text): hits|=eqs
    assert hits<=alleq, hits-alleq
    eqs = closure(hits)
    # the safety theorem of every function whose `_eq` the property rests on; C02 (results in range) and C03 (no
    # panic, in either overflow mode) rest on the safety of every translated function
    safes = set(safe_of_eq[e] for e in eqs if e in safe_of_eq)
    if pid in ('C02', 'C03'):
        safes |= set(safe_of_eq.values())
    tie[pid]=sorted(e for e in eqs if e in proved) + sorted(x for x in safes if x in proved)
json.dump(tie, open('tools/tie_map.json','w'), indent=1, sort_keys=True)
for k,v in tie.items(): print(k,len(v))
print('translated functions without a theorem (tied by the correspondence only):', len(missing)); print(' '.join(missing))
