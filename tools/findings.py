"""known_findings.txt handling and harness-only (implementation-vs-oracle) checks."""
import datetime
import os
import re

import runner
from gen import hx

ROOT = runner.ROOT


def load():
    out = []
    path = os.path.join(ROOT, "known_findings.txt")
    if not os.path.exists(path):
        return out
    for line in open(path):
        line = line.strip()
        if not line or line.startswith("#"):
            continue
        kind, rest = line.split(":", 1)
        e = {"kind": kind.strip(), "raw": rest.strip()}
        m = re.search(r"property=(C\d+)", rest)
        e["property"] = m.group(1) if m else None
        for key in ("id", "witness", "fails", "text"):
            m = re.search(key + r'=("([^"]*)"|(\S+))', rest)
            if m:
                e[key] = m.group(2) if m.group(2) is not None else m.group(3)
        out.append(e)
    return out


def _year_of_days(d):
    return (datetime.date(1970, 1, 1) + datetime.timedelta(days=d)).year


def _days_of_request(w):
    """(day number, µs in day) of the receiver of a `X.round unit n` request."""
    n = int(w[2])
    if w[0].startswith("D."):
        return n, 0
    return n // 86400000000, n % 86400000000


def _century_known_output(w):
    """What the crate is KNOWN to return for round(century) on a year divisible by 100: the start of that year's own
    century, (y-99)-01-01 (at 00:00:00 for timestamps)."""
    d, _ = _days_of_request(w)
    y = _year_of_days(d)
    start = (datetime.date(y - 99, 1, 1) - datetime.date(1970, 1, 1)).days
    return "ok %d" % (start if w[0].startswith("D.") else start * 86400000000)


PREDICATES = {
    # op + input predicate of each recorded finding, and the crate output that IS the recorded finding
    # (a different wrong output on the same input is a different violation and is reported)
    "round-century-year-divisible-by-100":
        (lambda w: w[0] in ("D.round", "TS.round", "OD.round") and w[1] == "century"
         and _year_of_days(_days_of_request(w)[0]) % 100 == 0,
         lambda w, out: out == _century_known_output(w)),
    "round-sunday-week-before-min":
        (lambda w: w[0] in ("D.round", "TS.round", "OD.round") and w[1] == "sunday_start_week"
         and (lambda d, t: d < -719162 + 2 or (d == -719162 + 2 and (t < 43200000000 or w[0] == "D.round")))(*_days_of_request(w)),
         lambda w, out: out == "err DateOutOfRange"),
}


def match(kf, pid, request, crate_out):
    """Is this failing (request, crate output) one of the recorded findings of this property?"""
    w = request.split(" ")
    for k in kf:
        if k["kind"] != "finding" or k["property"] != pid:
            continue
        pred = PREDICATES.get(k.get("id"))
        try:
            if pred and pred[0](w) and pred[1](w, crate_out):
                return k
        except (ValueError, IndexError, OverflowError):
            pass
    return None


def witness_still_fails(k):
    outs, err = runner.run_explicit([k["witness"]], ["off"], [runner.MODEL], tag="witness")
    if err:
        return False
    return outs["off"][0] == k["fails"]


def extra_checks(pid, tier, rng):
    """Harness-only checks (no model): hashing (C07), malformed payloads (C15)."""
    res = []
    if pid == "C07":
        r = runner.StreamResult("hash agrees with equality (harness only)")
        lines = []
        vals = {"D": [-719162, -1, 0, 1, 2932896], "T": [0, 1, 86399999999], "TS": [-62135596800000000, -1, 0, 1],
                "YM": [-1, 0, 1], "DT": [-1, 0, 1], "OD": [-1000000, 0, 1000000]}
        for t, vs in vals.items():
            for a in vs:
                for b in vs:
                    lines.append(("H.hash %s %d %d" % (t, a, b), "ok 1" if a == b else "ok 0"))
        _harness_expect(r, lines)
        res.append(r)
    if pid == "C15":
        r = runner.StreamResult("malformed payloads (harness only)")
        lines = []
        for t in ["D", "T", "TS", "YM", "DT", "OD"]:
            for payload in ["", "00", "0000", "000000", "00000000000000"]:
                lines.append(("H.de_bin_bytes %s s:%s" % (t, payload), None))
            for js in ["1", "null", "[]", "{}", "true", "\"", "1.5", "\"\\u0000\""]:
                lines.append(("H.de_json %s %s" % (t, hx(js)), "err Serde"))
        _harness_expect(r, lines, valid_or_error=True)
        res.append(r)
    if pid in ("C05", "C06", "C18"):
        import readings
        from gen import Pools
        res.append(readings.run(pid, tier, rng, Pools(rng, 1)))
    return res


def _harness_expect(r, lines, valid_or_error=False):
    from catalog import valid
    reqs = [l for l, _ in lines]
    os.makedirs(runner.TMP, exist_ok=True)
    base = os.path.join(runner.TMP, "honly.%d" % os.getpid())
    with open(base + ".req", "w") as f:
        f.write("\n".join(reqs) + "\n")
    rc, err = runner.run_prog([runner.HARNESS["off"]], base + ".req", base + ".out")
    if rc != 0:
        r.errors.append(err)
        return
    outs = open(base + ".out").read().split("\n")
    for (req, exp), out in zip(lines, outs):
        r.evaluations += 1
        r.distinct += 1
        if len(r.samples) < 2:
            r.samples.append(req + "  =>  " + out)
        bad = None
        if out == "panic":
            bad = "the call panicked"
        elif exp is not None and out != exp:
            bad = "expected %s" % exp
        elif valid_or_error and out.startswith("ok "):
            ty = req.split(" ")[1]
            if not valid(ty, int(out.split(" ")[1])):
                bad = "decoded value outside the documented range"
        if bad:
            r.oracle_failures.append({"stream": r.name, "overflow_checks": "off", "request": req, "crate": out, "oracle": bad})
    for ext in (".req", ".out"):
        try:
            os.remove(base + ext)
        except OSError:
            pass
