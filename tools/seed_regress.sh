#!/bin/bash
# usage: seed_regress.sh [seed-dir-name ...]   (default: all of /verif/seeded)
# Re-runs every kept seeded change against the quick check of its own property inside a private mount namespace
# (scratch copies of /repo and /verif under /tmp/seedbox-regress, removed at the end) and prints one line per seed:
#   <seed> <property> rc=<exit code> violations=<n> [no-failing-input-found]
set -u
BOX=/tmp/seedbox-regress${REGRESS_BOX:-}
mkdir -p $BOX/repo $BOX/verif
rsync -a --delete --exclude target /repo/ $BOX/repo/
rsync -a --delete --exclude .git --exclude replays /verif/ $BOX/verif/
mkdir -p $BOX/verif/replays
SEEDS="$*"; [ -z "$SEEDS" ] && SEEDS=$(ls /verif/seeded | tr "\n" " ")
unshare -m bash -c "
mount --rbind $BOX/repo /repo && mount --rbind $BOX/verif /verif && cd /verif || exit 2
for S in $SEEDS; do
  P=\${S:0:3}
  git -C /repo checkout -q -- . ; git -C /repo apply /verif/seeded/\$S/patch.diff || { echo \"\$S \$P patch-does-not-apply\"; continue; }
  ./check \$P > /tmp/regress-out${REGRESS_BOX:-}.txt 2>&1; rc=\$?
  n=\$(grep -c '^VIOLATION' /tmp/regress-out${REGRESS_BOX:-}.txt); nfi=\$(grep -c 'no-failing-input-found' /tmp/regress-out${REGRESS_BOX:-}.txt)
  echo \"\$S \$P rc=\$rc violations=\$n \$([ \$nfi -gt 0 ] && echo no-failing-input-found)\"
  git -C /repo checkout -q -- .
done"
rm -rf $BOX /tmp/regress-out${REGRESS_BOX:-}.txt
