"""Grammar-directed generators for format pictures and parse inputs, plus an independent Python
reference for what a token renders to (used as an oracle when searching for failing inputs)."""
import datetime

from gen import Rng, hx, days
from catalog import DATE_MIN, DATE_MAX, USECS_PER_DAY

# documented tokens: (canonical spelling, kind)
TOKENS = [("YYYY", "year4"), ("YYY", "year3"), ("YY", "year2"), ("Y", "year1"), ("MM", "month"), ("MON", "mon"),
          ("MONTH", "monthname"), ("DD", "day"), ("DDD", "doy"), ("D", "dow"), ("DAY", "dayname"), ("DY", "dy"),
          ("HH", "hour12"), ("HH12", "hour12"), ("HH24", "hour24"), ("MI", "minute"), ("SS", "second"),
          ("FF", "ff"), ("FF1", "ff1"), ("FF2", "ff2"), ("FF3", "ff3"), ("FF4", "ff4"), ("FF5", "ff5"), ("FF6", "ff6"),
          ("FF7", "ff7"), ("FF8", "ff8"), ("FF9", "ff9"), ("AM", "ampm"), ("PM", "ampm"), ("A.M.", "ampmdot"),
          ("P.M.", "ampmdot"), ("W", "wom"), ("WW", "woy"), ("T", "T"), ("-", "p"), (":", "p"), ("/", "p"),
          ("\\", "p"), (",", "p"), (".", "p"), (";", "p"), (" ", "blank")]

MONTHS = ["January", "February", "March", "April", "May", "June", "July", "August", "September", "October",
          "November", "December"]
WEEKDAYS = ["Sunday", "Monday", "Tuesday", "Wednesday", "Thursday", "Friday", "Saturday"]

ALPHABET40 = "ADFHIMNOPSTWYadfhimnopstwy01249-:/\\,.; X"
assert len(ALPHABET40) == 40, len(ALPHABET40)


def randcase(rng, s):
    mode = rng.below(4)
    if mode == 0:
        return s.upper()
    if mode == 1:
        return s.lower()
    if mode == 2:
        return s[:1].upper() + s[1:].lower()
    return "".join(c.upper() if rng.below(2) else c.lower() for c in s)


def spell_token(rng, spelling, kind):
    if kind in ("p",):
        return spelling
    if kind == "blank":
        return " " * (1 + (rng.below(3) if rng.below(8) else rng.below(300)))
    if kind == "T":
        return "T"
    return randcase(rng, spelling)


def random_picture(rng, maxtok=12, kinds=None):
    n = 1 + rng.below(maxtok)
    out = []
    toks = TOKENS if kinds is None else [t for t in TOKENS if t[1] in kinds]
    for _ in range(n):
        sp, kind = rng.choice(toks)
        out.append(spell_token(rng, sp, kind))
    return "".join(out)


def byte_random(rng, maxlen=12):
    n = rng.below(maxlen + 1)
    pool = ALPHABET40 + "+-0123456789 \t\n\r\x0cabcXYZ!é中\U0001F600"
    return "".join(rng.choice(pool) for _ in range(n))


# ------------------------------------------------------------------ reference rendering (independent of the crate)
def civil(daynum):
    d = datetime.date(1970, 1, 1) + datetime.timedelta(days=daynum)
    return d.year, d.month, d.day


def weekday_sun0(daynum):
    return (daynum + 4) % 7           # day 0 = Thursday; 0 = Sunday


def style_name(name, tokspelling):
    """Letter case of a name token's first two letters selects the style."""
    a, b = tokspelling[0], tokspelling[1]
    if a.isupper() and b.isupper():
        return name.upper()
    if a.isupper():
        return name[:1].upper() + name[1:].lower()
    return name.lower()


class Comps:
    """Components of a value, from its raw representation (reference arithmetic in Python)."""

    def __init__(self, ty, raw):
        self.ty = ty
        self.raw = raw
        self.neg = False
        self.year = self.month = self.day = None
        self.hour = self.minute = self.sec = self.usec = None
        self.daynum = None
        if ty == "D":
            self.daynum = raw
            self.year, self.month, self.day = civil(raw)
        elif ty in ("TS", "OD"):
            self.daynum, t = divmod(raw, USECS_PER_DAY)
            self.year, self.month, self.day = civil(self.daynum)
            self._time(t)
        elif ty == "T":
            self._time(raw)
        elif ty == "YM":
            self.neg = raw < 0
            self.year, self.month = divmod(abs(raw), 12)
        elif ty == "DT":
            self.neg = raw < 0
            self.day, t = divmod(abs(raw), USECS_PER_DAY)
            self._time(t)

    def _time(self, t):
        self.hour, r = divmod(t, 3600000000)
        self.minute, r = divmod(r, 60000000)
        self.sec, self.usec = divmod(r, 1000000)

    def doy(self):
        return (datetime.date(self.year, self.month, self.day) - datetime.date(self.year, 1, 1)).days + 1


HAS_DATE = {"D", "TS", "OD"}
HAS_TIME = {"T", "TS", "OD", "DT"}
HAS_FRACTION = {"T", "TS", "DT"}


def render_token(c, spelling, kind):
    """Reference rendering of one token for components c; None when the token does not apply to the type."""
    ty = c.ty
    if kind == "p":
        return spelling
    if kind == "blank":
        return spelling
    if kind == "T":
        return "T"
    if kind.startswith("year"):
        n = int(kind[4])
        if ty in HAS_DATE:
            return "%0*d" % (n, c.year % (10 ** n))
        if ty == "YM":
            return "%0*d" % (n, c.year)
        return None
    if kind == "month":
        return "%02d" % c.month if (ty in HAS_DATE or ty == "YM") else None
    if kind == "day":
        if ty in HAS_DATE:
            return "%02d" % c.day
        if ty == "DT":
            return "%02d" % c.day
        return None
    if kind == "hour24":
        return "%02d" % c.hour if ty in HAS_TIME else None
    if kind == "hour12":
        return "%02d" % ((c.hour + 11) % 12 + 1) if (ty in HAS_TIME and ty != "DT") else None
    if kind == "minute":
        return "%02d" % c.minute if ty in HAS_TIME else None
    if kind == "second":
        return "%02d" % c.sec if ty in HAS_TIME else None
    if kind.startswith("ff"):
        if ty not in HAS_FRACTION:
            return None
        p = 6 if kind == "ff" else int(kind[2])
        if p <= 6:
            return "%0*d" % (p, c.usec // 10 ** (6 - p))
        return "%0*d" % (p, c.usec * 10 ** (p - 6))
    if kind in ("ampm", "ampmdot"):
        if ty in HAS_TIME and ty != "DT":
            am = c.hour < 12
            letters = [ch for ch in spelling if ch.isalpha()]
            lower = all(ch.islower() for ch in letters)
            base = ("a" if am else "p") + ("." if kind == "ampmdot" else "") + "m" + ("." if kind == "ampmdot" else "")
            return base if lower else base.upper()
        return None
    if ty not in HAS_DATE:
        return None
    if kind == "mon":
        return style_name(MONTHS[c.month - 1][:3], spelling)
    if kind == "monthname":
        return style_name(MONTHS[c.month - 1], spelling)
    if kind == "dayname":
        return style_name(WEEKDAYS[weekday_sun0(c.daynum)], spelling)
    if kind == "dy":
        return style_name(WEEKDAYS[weekday_sun0(c.daynum)][:3], spelling)
    if kind == "dow":
        return str(weekday_sun0(c.daynum) + 1)
    if kind == "doy":
        return "%03d" % c.doy()
    if kind == "wom":
        return str((c.day - 1) // 7 + 1)
    if kind == "woy":
        return "%02d" % ((c.doy() - 1) // 7 + 1)
    return None


def reference_format(ty, raw, toks):
    """toks: list of (spelling-as-written, kind). Returns the expected text or None (error expected)."""
    c = Comps(ty, raw)
    out = []
    if c.neg:
        out.append("-")
    elif ty in ("YM", "DT"):
        out.append("+")
    for sp, kind in toks:
        r = render_token(c, sp, kind)
        if r is None:
            return None
        out.append(r)
    return "".join(out)


def applicable_tokens(ty):
    c = Comps(ty, 0)
    out = []
    for sp, kind in TOKENS:
        if kind in ("p", "blank", "T") or render_token(c, sp, kind) is not None:
            out.append((sp, kind))
    return out


def random_token_list(rng, ty, maxtok, applicable_only=True):
    toks = applicable_tokens(ty) if applicable_only else TOKENS
    n = 1 + rng.below(maxtok)
    out = []
    for _ in range(n):
        sp, kind = rng.choice(toks)
        out.append((spell_token(rng, sp, kind), kind))
    return out


def well_separated(toks):
    """Insert a punctuation token between adjacent alphabetic tokens so the picture lexes back to `toks`."""
    out = []
    for t in toks:
        if out and out[-1][1] not in ("p", "blank") and t[1] not in ("p", "blank"):
            out.append(("-", "p"))
        if out and out[-1][1] == "blank" and t[1] == "blank":
            out.append((":", "p"))
        out.append(t)
    return out


# ------------------------------------------------------------------ lossless pictures (C06 / C15)
def lossless_picture(rng, ty):
    """A picture that carries all the information of a value of type ty, fields delimited by punctuation.
    Returns list of (spelling, kind)."""
    seps = ["-", ":", "/", ",", ".", ";", " ", "  ", "\\"]
    fields = []
    if ty in HAS_DATE:
        how = rng.below(3)
        if how == 0:
            fields += [("YYYY", "year4"), ("MM", "month"), ("DD", "day")]
        elif how == 1:
            fields += [("YYYY", "year4"), (rng.choice(["MON", "MONTH"]), None), ("DD", "day")]
        else:
            fields += [("YYYY", "year4"), ("DDD", "doy")]
        if rng.below(3) == 0:
            fields.append((rng.choice(["DAY", "DY", "D"]), None))
        if how != 2 and rng.below(4) == 0:
            fields.append(("DDD", "doy"))
    if ty == "YM":
        fields += [("YYYY", "year4"), ("MM", "month")]
    if ty == "DT":
        fields += [("DD", "day")]
    if ty in HAS_TIME:
        if ty != "DT" and rng.below(2) == 0:
            fields += [(rng.choice(["HH", "HH12"]), "hour12"), (rng.choice(["AM", "PM", "A.M.", "P.M."]), None)]
        else:
            fields += [("HH24", "hour24")]
        fields += [("MI", "minute"), ("SS", "second")]
        if ty in HAS_FRACTION:
            fields += [(rng.choice(["FF", "FF6", "FF7", "FF8", "FF9"]), None)]
    kindof = dict(TOKENS)
    fields = [(sp, k if k else kindof[sp]) for sp, k in fields]
    if ty in ("YM", "DT"):
        head, rest = fields[0], fields[1:]
        rest = rng.sample(rest, len(rest))
        fields = [head] + rest           # the sign is parsed by the leading year / day field
    else:
        fields = rng.sample(fields, len(fields))
    out = []
    for i, (sp, kind) in enumerate(fields):
        if i > 0:
            s = rng.choice(seps)
            out.append((s, "blank" if s.strip() == "" else "p"))
        out.append((spell_token(rng, sp, kind), kind))
    return out


def pic_text(toks):
    return "".join(sp for sp, _ in toks)
