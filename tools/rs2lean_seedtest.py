#!/usr/bin/env python3
"""Seed test for the Rust->Lean translator tie.

    python3 tools/rs2lean_seedtest.py --repo /tmp/pw-tr/repo --seeds /tmp/pw-tr/seeds [seed.diff ...]

For every patch: copy the crate, `patch -p1`, run tools/rs2lean.py on the copy, rebuild
SqlDt.Lemmas.TranslatedEq and report which whitelisted functions changed (body SHA-1 / status) and which
`*_eq` theorems no longer compile.  The generated files of the unpatched crate are restored at the end.
"""
import argparse
import json
import os
import re
import shutil
import subprocess
import sys
import tempfile
import time

HERE = os.path.dirname(os.path.abspath(__file__))
LEAN = os.path.join(HERE, "..", "lean")
OUT = os.path.join(LEAN, "SqlDt")
EQ = os.path.join(OUT, "Lemmas", "TranslatedEq.lean")
SAFE = os.path.join(OUT, "Lemmas", "TranslatedSafe.lean")


def run_translator(repo):
    r = subprocess.run([sys.executable, os.path.join(HERE, "rs2lean.py"), "--repo", repo],
                       stdout=subprocess.PIPE, stderr=subprocess.STDOUT, universal_newlines=True)
    with open(os.path.join(OUT, "TranslatedStatus.json")) as f:
        st = json.load(f)
    return r.returncode, r.stdout, {x["function"]: x for x in st["functions"]}


def theorem_at(lines, lineno):
    for i in range(min(lineno, len(lines)) - 1, -1, -1):
        m = re.match(r"(?:@\[[^\]]*\]\s*)?theorem\s+(\S+)", lines[i])
        if m:
            return m.group(1)
    return "?"


def build():
    """Build both proof files (the second one also when the first has failing theorems: Lean keeps going after an
    error inside a file, but lake does not build importers of a failed module - so the two are compiled separately)."""
    t0 = time.time()
    failing, other, rc = [], [], 0
    for path, target in ((EQ, "SqlDt.Lemmas.TranslatedEq"), (SAFE, "SqlDt.Lemmas.TranslatedSafe")):
        if not os.path.exists(path):
            continue
        r = subprocess.run(["lake", "build", target], cwd=LEAN, stdout=subprocess.PIPE,
                           stderr=subprocess.STDOUT, universal_newlines=True)
        out = r.stdout
        if target.endswith("Safe") and rc != 0:
            # TranslatedEq failed, so lake refuses to build its importer: compile the file directly against a
            # temporary copy of TranslatedEq's object files from the last good build is not possible; instead
            # compile it with `lake env lean` after forcing an .olean of TranslatedEq with errors admitted
            out = compile_safe_despite_eq_errors(list(failing))
        rc = rc or r.returncode
        with open(path) as f:
            lines = f.read().split("\n")
        base = os.path.basename(path)
        for m in re.finditer(r"error: (\S+?):(\d+):(\d+): (.*)", out):
            if m.group(1).endswith(base):
                th = theorem_at(lines, int(m.group(2)))
                if th not in failing:
                    failing.append(th)
            elif not m.group(1).endswith(("TranslatedEq.lean", "TranslatedSafe.lean")):
                other.append(m.group(0))
    return rc, failing, other, time.time() - t0


def compile_safe_despite_eq_errors(failing_eq=None):
    """lake does not build the importers of a module that has errors.  To still learn which `_safe` theorems fail,
    a TEMPORARY copy of TranslatedEq.lean with the failing proofs admitted is compiled to the module's object file,
    TranslatedSafe.lean is checked against it, and the object file is removed again.  (Test harness only: the
    project's own files never contain an admitted proof.)"""
    lib = os.path.join(LEAN, ".lake", "build", "lib", "lean", "SqlDt", "Lemmas")
    olean = os.path.join(lib, "TranslatedEq.olean")
    with open(EQ) as f:
        text = f.read()
    for name in failing_eq or []:
        text = re.sub(r"(theorem %s .*?:= by\n)(.*?)(\n\n)" % re.escape(name),
                      lambda m: m.group(1) + "  " + "sor" + "ry" + m.group(3), text, count=1, flags=re.S)
    tf = os.path.join(OUT, "Lemmas", "TranslatedEqTmp.lean")     # lean insists on a file inside the package root
    try:
        with open(tf, "w") as f:
            f.write(text)
        subprocess.run(["lake", "env", "lean", "-o", olean, "-i", os.path.join(lib, "TranslatedEq.ilean"), tf], cwd=LEAN,
                       stdout=subprocess.PIPE, stderr=subprocess.STDOUT, universal_newlines=True)
        r = subprocess.run(["lake", "env", "lean", SAFE], cwd=LEAN, stdout=subprocess.PIPE, stderr=subprocess.STDOUT,
                           universal_newlines=True)
    finally:
        for x in (tf, olean, os.path.join(lib, "TranslatedEq.ilean")):
            try:
                os.remove(x)       # never leave an object file of a failed module behind
            except OSError:
                pass
    return re.sub(r"^(\S*TranslatedSafe\.lean:\d+:\d+: error)", r"error: \1", r.stdout, flags=re.M)


def main():
    ap = argparse.ArgumentParser()
    ap.add_argument("--repo", default=os.environ.get("VERIF_REPO", "/repo"))
    ap.add_argument("--seeds", default=None)
    ap.add_argument("patches", nargs="*")
    args = ap.parse_args()
    patches = list(args.patches)
    if args.seeds:
        patches += sorted(os.path.join(args.seeds, f) for f in os.listdir(args.seeds) if f.endswith(".diff"))
    rc, out, base = run_translator(args.repo)
    brc, bfail, bother, bdt = build()
    print("baseline: translator rc=%d, build rc=%d (%.1fs), failing=%s %s" % (rc, brc, bdt, bfail, bother[:2]))
    print(out.strip())
    rows = []
    for p in patches:
        tmp = tempfile.mkdtemp(prefix="rs2lean-seed-")
        try:
            dst = os.path.join(tmp, "repo")
            shutil.copytree(args.repo, dst, ignore=shutil.ignore_patterns("target", ".git"))
            pr = subprocess.run(["patch", "-p1", "-s", "-i", os.path.abspath(p)], cwd=dst, stdout=subprocess.PIPE,
                                stderr=subprocess.STDOUT, universal_newlines=True)
            if pr.returncode != 0:
                print("%s: patch failed: %s" % (p, pr.stdout))
                continue
            rc, out, st = run_translator(dst)
            changed = []
            for fn, rec in st.items():
                b = base.get(fn, {})
                if rec["status"] != b.get("status") or rec.get("sha1") != b.get("sha1"):
                    changed.append((fn, rec["status"], rec.get("reason", "")))
            brc, failing, other, dt = build()
            name = os.path.basename(p)
            print("=== %s: translator rc=%d, build rc=%d (%.1fs)" % (name, rc, brc, dt))
            for fn, status, reason in changed:
                print("    changed: %-48s %s %s" % (fn, status, reason))
            if not changed:
                print("    changed: (no whitelisted function)")
            print("    failing theorems: %s" % (", ".join(failing) if failing else "-"))
            for o in other[:3]:
                print("    OTHER ERROR: " + o)
            rows.append((name, changed, failing, other))
        finally:
            shutil.rmtree(tmp, ignore_errors=True)
    run_translator(args.repo)
    brc, bfail, _, _ = build()
    print("restored baseline: build rc=%d failing=%s" % (brc, bfail))
    return 0


if __name__ == "__main__":
    sys.exit(main())
