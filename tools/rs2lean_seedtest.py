#!/usr/bin/env python3
"""Seed test for the Rust->Lean translator tie.

    python3 tools/rs2lean_seedtest.py --repo /tmp/pw-tr/repo --seeds /tmp/pw-tr/seeds [seed.diff ...]

For every patch: copy the crate, `patch -p1`, run tools/rs2lean.py on the copy, rebuild
SqlDt.Lemmas.TranslatedEq and report which whitelisted functions changed (body SHA-1 / status) and which
`*_eq` theorems no longer compile.  The generated files of the unpatched crate are restored at the end.
"""
import argparse
import json
import os
import re
import shutil
import subprocess
import sys
import tempfile
import time

HERE = os.path.dirname(os.path.abspath(__file__))
LEAN = os.path.join(HERE, "..", "lean")
OUT = os.path.join(LEAN, "SqlDt")
EQ = os.path.join(OUT, "Lemmas", "TranslatedEq.lean")
SAFE = os.path.join(OUT, "Lemmas", "TranslatedSafe.lean")


def run_translator(repo):
    r = subprocess.run([sys.executable, os.path.join(HERE, "rs2lean.py"), "--repo", repo],
                       stdout=subprocess.PIPE, stderr=subprocess.STDOUT, universal_newlines=True)
    with open(os.path.join(OUT, "TranslatedStatus.json")) as f:
        st = json.load(f)
    return r.returncode, r.stdout, {x["function"]: x for x in st["functions"]}


def theorem_at(lines, lineno):
    for i in range(min(lineno, len(lines)) - 1, -1, -1):
        m = re.match(r"(?:@\[[^\]]*\]\s*)?theorem\s+(\S+)", lines[i])
        if m:
            return m.group(1)
    return "?"


PROOF_FILES = ["TranslatedEq", "TranslatedUnits", "TranslatedUnitsTs", "TranslatedUnitsIso", "TranslatedSafe", "TranslatedUnitsSafe",
               "TranslatedUnitsTsSafe", "TranslatedUnitsIsoSafe", "TranslatedCmp"]   # in import order


def build():
    """Check the four proof files.  lake does not build the importers of a module that has errors, so after the normal
    `lake build` the files are compiled one by one; a file with failing theorems is, for the sake of its importers
    only, compiled once more from a TEMPORARY copy in which exactly the failing proofs are admitted (test harness
    only: the copy and the object files made from it are removed again)."""
    t0 = time.time()
    targets = ["SqlDt.Lemmas." + f for f in PROOF_FILES if os.path.exists(os.path.join(OUT, "Lemmas", f + ".lean"))]
    r = subprocess.run(["lake", "build"] + targets, cwd=LEAN, stdout=subprocess.PIPE, stderr=subprocess.STDOUT,
                       universal_newlines=True)
    if r.returncode == 0:
        return 0, [], [], time.time() - t0
    lib = os.path.join(LEAN, ".lake", "build", "lib", "lean", "SqlDt", "Lemmas")
    subprocess.run(["lake", "build", "SqlDt.Translated", "SqlDt.Lemmas.TrAttr", "SqlDt.Lemmas.Div", "SqlDt.Lemmas.Calendar",
                    "SqlDt.Model.Parse"], cwd=LEAN, stdout=subprocess.PIPE, stderr=subprocess.STDOUT)
    failing, other, made = [], [], []
    try:
        for name in PROOF_FILES:
            path = os.path.join(OUT, "Lemmas", name + ".lean")
            if not os.path.exists(path):
                continue
            olean, ilean = os.path.join(lib, name + ".olean"), os.path.join(lib, name + ".ilean")
            had = os.path.exists(olean)
            rr = subprocess.run(["lake", "env", "lean", "-o", olean, "-i", ilean, path], cwd=LEAN, stdout=subprocess.PIPE,
                                stderr=subprocess.STDOUT, universal_newlines=True)
            with open(path) as f:
                text = f.read()
            lines = text.split("\n")
            bad = []
            for m in re.finditer(r"^(\S*?):(\d+):(\d+): error", rr.stdout, flags=re.M):
                if m.group(1).endswith(name + ".lean"):
                    th = theorem_at(lines, int(m.group(2)))
                    if th not in bad:
                        bad.append(th)
                else:
                    other.append(m.group(0))
            if rr.returncode != 0 and not bad:
                other.append("%s: %s" % (name, rr.stdout[:300]))
            failing += [b for b in bad if b not in failing]
            if bad:
                for b in bad:
                    text = re.sub(r"(theorem %s .*?:= by\n)(.*?)(\n\n)" % re.escape(b),
                                  lambda m: m.group(1) + "  " + "sor" + "ry" + m.group(3), text, count=1, flags=re.S)
                tf = os.path.join(OUT, "Lemmas", name + "Tmp.lean")
                with open(tf, "w") as f:
                    f.write(text)
                subprocess.run(["lake", "env", "lean", "-o", olean, "-i", ilean, tf], cwd=LEAN, stdout=subprocess.PIPE,
                               stderr=subprocess.STDOUT)
                os.remove(tf)
            if not had or bad:
                made += [olean, ilean]
    finally:
        for x in made:      # never leave an object file of a failed module behind
            try:
                os.remove(x)
            except OSError:
                pass
    return 1, failing, other, time.time() - t0


def main():
    ap = argparse.ArgumentParser()
    ap.add_argument("--repo", default=os.environ.get("VERIF_REPO", "/repo"))
    ap.add_argument("--seeds", default=None)
    ap.add_argument("patches", nargs="*")
    args = ap.parse_args()
    patches = list(args.patches)
    if args.seeds:
        patches += sorted(os.path.join(args.seeds, f) for f in os.listdir(args.seeds) if f.endswith(".diff"))
    rc, out, base = run_translator(args.repo)
    brc, bfail, bother, bdt = build()
    print("baseline: translator rc=%d, build rc=%d (%.1fs), failing=%s %s" % (rc, brc, bdt, bfail, bother[:2]))
    print(out.strip())
    rows = []
    for p in patches:
        tmp = tempfile.mkdtemp(prefix="rs2lean-seed-")
        try:
            dst = os.path.join(tmp, "repo")
            shutil.copytree(args.repo, dst, ignore=shutil.ignore_patterns("target", ".git"))
            pr = subprocess.run(["patch", "-p1", "-s", "-i", os.path.abspath(p)], cwd=dst, stdout=subprocess.PIPE,
                                stderr=subprocess.STDOUT, universal_newlines=True)
            if pr.returncode != 0:
                print("%s: patch failed: %s" % (p, pr.stdout))
                continue
            rc, out, st = run_translator(dst)
            changed = []
            for fn, rec in st.items():
                b = base.get(fn, {})
                if rec["status"] != b.get("status") or rec.get("sha1") != b.get("sha1"):
                    changed.append((fn, rec["status"], rec.get("reason", "")))
            brc, failing, other, dt = build()
            name = os.path.basename(p)
            print("=== %s: translator rc=%d, build rc=%d (%.1fs)" % (name, rc, brc, dt))
            for fn, status, reason in changed:
                print("    changed: %-48s %s %s" % (fn, status, reason))
            if not changed:
                print("    changed: (no whitelisted function)")
            print("    failing theorems: %s" % (", ".join(failing) if failing else "-"))
            for o in other[:3]:
                print("    OTHER ERROR: " + o)
            rows.append((name, changed, failing, other))
        finally:
            shutil.rmtree(tmp, ignore_errors=True)
    run_translator(args.repo)
    brc, bfail, _, _ = build()
    print("restored baseline: build rc=%d failing=%s" % (brc, bfail))
    return 0


if __name__ == "__main__":
    sys.exit(main())
